(* C02: every accepted trace outside the known-finding patterns satisfies the
   lifecycle property machine.  Invariant = C05's refinement relation R
   + table / registration consistency (Jt) + queue-versus-debt (J2). *)
From Coq Require Import ZArith List Bool Lia Permutation.
From Desper Require Import Lib.Alist World.LLib World.LModel World.LC05 World.LC05Proofs World.LC02.
Import ListNotations.
Open Scope Z_scope.

(* ---- multisets of callbacks ------------------------------------------------------ *)
Lemma cb_eqb_spec x y : cb_eqb x y = true <-> x = y.
Proof.
  destruct x as [k1 i1 a1 w1], y as [k2 i2 a2 w2]. unfold cb_eqb. cbn.
  rewrite !andb_true_iff, !Z.eqb_eq, eqb_true_iff. split.
  - intros [[[K ->] ->] ->]. destruct k1, k2; try discriminate; reflexivity.
  - intros [= -> -> -> ->]. destruct k2; auto.
Qed.
Lemma cperm_sound l1 l2 : cperm_b l1 l2 = true -> Permutation l1 l2.
Proof. apply perm_b_sound, cb_eqb_spec. Qed.
Lemma cperm_complete l1 l2 : Permutation l1 l2 -> cperm_b l1 l2 = true.
Proof. apply perm_b_complete, cb_eqb_spec. Qed.

Lemma Permutation_filter {A} (f : A -> bool) l1 l2 :
  Permutation l1 l2 -> Permutation (filter f l1) (filter f l2).
Proof.
  induction 1 as [|x l1 l2 P IH|x y l|l1 l2 l3 P1 IH1 P2 IH2]; cbn [filter].
  - constructor.
  - destruct (f x); [now constructor|exact IH].
  - destruct (f x), (f y); try apply Permutation_refl. apply perm_swap.
  - eapply perm_trans; eauto.
Qed.

Lemma nil_b_true {A} (l : list A) : nil_b l = true -> l = [].
Proof. destruct l; [reflexivity|discriminate]. Qed.

Lemma filter_all {A} (f : A -> bool) l : (forall x, In x l -> f x = true) -> filter f l = l.
Proof.
  induction l as [|x l IH]; cbn [filter]; [reflexivity|]. intros H.
  rewrite (H x) by now left. f_equal. apply IH. intros y Hy. apply H. now right.
Qed.
Lemma filter_none {A} (f : A -> bool) l : (forall x, In x l -> f x = false) -> filter f l = [].
Proof.
  induction l as [|x l IH]; cbn [filter]; [reflexivity|]. intros H.
  rewrite (H x) by now left. apply IH. intros y Hy. apply H. now right.
Qed.

(* a release log, filtered: group structure is kept *)
Lemma match_groups_filter (f : cb -> bool) gs : forall log,
  match_groups log gs = true -> match_groups (filter f log) (map (filter f) gs) = true.
Proof.
  induction gs as [|g gs IH]; intros log; cbn [match_groups map].
  - destruct log; [reflexivity|discriminate].
  - intros H. apply andb_true_iff in H. destruct H as [H1 H2].
    apply cperm_sound in H1. specialize (IH _ H2).
    assert (P : Permutation (filter f (firstn (length g) log)) (filter f g))
      by now apply Permutation_filter.
    assert (E : filter f log = filter f (firstn (length g) log) ++ filter f (skipn (length g) log)).
    { rewrite <- filter_app. now rewrite firstn_skipn. }
    assert (L : length (filter f g) = length (filter f (firstn (length g) log)))
      by (symmetry; now apply Permutation_length).
    rewrite E, L, firstn_app, Nat.sub_diag, firstn_all, firstn_O, app_nil_r.
    rewrite skipn_app, Nat.sub_diag, skipn_all, skipn_O. cbn [app].
    rewrite IH, andb_true_r. now apply cperm_complete.
Qed.

(* ---- the queue ---------------------------------------------------------------------- *)
(* lifecycle calls a group of queued events will produce *)
Definition relay_call (x : qent) : list cb :=
  match x with
  | QRelay CAdd i e => [call CAdd i e]
  | QRelay CRem i e => [call CRem i e]
  | _ => []
  end.
Definition glc (g : list qent) : list cb := flat_map relay_call g.

Lemma qpush_last q g x : qpush (q ++ [g]) x = q ++ [g ++ [x]].
Proof.
  induction q as [|a q IH]; [reflexivity|].
  change ((a :: q) ++ [g]) with (a :: (q ++ [g])).
  assert (N : q ++ [g] <> []) by (destruct q; discriminate).
  destruct (q ++ [g]) as [|b r] eqn:E; [congruence|].
  change (qpush (a :: b :: r) x) with (a :: qpush (b :: r) x). rewrite IH. reflexivity.
Qed.

Definition to_relay (c : cb) : qent := QRelay (c_k c) (c_i c) (c_a c).
Definition qpushes (q : list (list qent)) (n : list cb) : list (list qent) :=
  fold_left (fun q c => qpush q (to_relay c)) n q.

Lemma qpushes_last n : forall q g, qpushes (q ++ [g]) n = q ++ [g ++ map to_relay n].
Proof.
  unfold qpushes. induction n as [|c n IH]; intros q g; cbn [fold_left map].
  - now rewrite app_nil_r.
  - rewrite qpush_last, IH, <- app_assoc. reflexivity.
Qed.
Lemma qpushes_app q n1 n2 : qpushes q (n1 ++ n2) = qpushes (qpushes q n1) n2.
Proof. unfold qpushes. apply fold_left_app. Qed.

(* calls of lifecycle shape *)
Definition lc_shape (c : cb) : Prop :=
  (c_k c = CAdd \/ c_k c = CRem) /\ c_w c = true.
Lemma glc_to_relay n : (forall c, In c n -> lc_shape c) -> glc (map to_relay n) = n.
Proof.
  unfold glc. induction n as [|c n IH]; cbn [map flat_map]; [reflexivity|]. intros H.
  rewrite IH by (intros; apply H; now right).
  destruct (H c (or_introl eq_refl)) as [K W]. destruct c as [k i a w]. cbn in *. subst w.
  destruct K as [-> | ->]; reflexivity.
Qed.
Lemma glc_app g1 g2 : glc (g1 ++ g2) = glc g1 ++ glc g2.
Proof. unfold glc. apply flat_map_app. Qed.

Lemma ncall_shape p x c : In c (ncall p x) -> lc_shape c.
Proof.
  destruct x as [i e|i e]; cbn [ncall].
  - destruct (k_add (kind_of p i)); [|intros []]. intros [<-|[]]. split; auto.
  - destruct (k_rem (kind_of p i)); [|intros []]. intros [<-|[]]. split; auto.
Qed.
Lemma notifs_shape p evs c : In c (flat_map (ncall p) evs) -> lc_shape c.
Proof. intros H. apply in_flat_map in H. destruct H as (x & _ & H). eapply ncall_shape; eauto. Qed.
Lemma lc_shape_is_lc c : lc_shape c -> is_lc c = true.
Proof. intros [[K|K] _]; unfold is_lc; now rewrite K. Qed.

(* delivering a group: the lifecycle part does not depend on who is registered *)
Lemma deliver_lc p s g : selfl s = true -> filter is_lc (flat_map (deliver p s) g) = glc g.
Proof.
  intros S. unfold glc. induction g as [|x g IH]; cbn [flat_map]; [reflexivity|].
  rewrite filter_app, IH. f_equal. destruct x as [k i e|tok]; cbn [deliver relay_call].
  - rewrite S. destruct k; reflexivity.
  - apply filter_none. intros c Hc. apply in_map_iff in Hc. destruct Hc as (i & <- & _). reflexivity.
Qed.

(* ---- a release interrupted by a raising callback ------------------------------------------ *)
Lemma ck_eqb_spec a b : ck_eqb a b = true <-> a = b.
Proof. destruct a, b; cbn; split; congruence. Qed.

Lemma cb_eqb_call k i e k' i' e' :
  cb_eqb (call k i e) (call k' i' e') = ck_eqb k k' && (i =? i') && (e =? e').
Proof. unfold cb_eqb, call. cbn. now rewrite andb_true_r. Qed.

Lemma relay_call_shape x :
  relay_call x = [] \/ exists k i e, x = QRelay k i e /\ relay_call x = [call k i e].
Proof. destruct x as [[] i e|tok]; cbn; eauto 6. Qed.

Lemma rtake1_glc k i e g : forall g', rtake1 k i e g = Some g' -> lc_kind k = true ->
  remove1 cb_eqb (call k i e) (glc g) = Some (glc g').
Proof.
  induction g as [|x g IH]; intros g'; cbn [rtake1]; [discriminate|]. intros H K.
  change (glc (x :: g)) with (relay_call x ++ glc g).
  destruct (rmatch k i e x) eqn:M.
  - injection H as <-. destruct x as [k' i' e'|tok]; [|discriminate]. cbn [rmatch] in M.
    apply andb_true_iff in M. destruct M as [M M3]. apply andb_true_iff in M. destruct M as [M1 M2].
    apply ck_eqb_spec in M1. apply Z.eqb_eq in M2, M3. subst k' i' e'.
    assert (E : relay_call (QRelay k i e) = [call k i e]) by (destruct k; try reflexivity; discriminate).
    rewrite E. cbn [app remove1]. rewrite (proj2 (cb_eqb_spec _ _) eq_refl). reflexivity.
  - destruct (rtake1 k i e g) as [g0|]; [|discriminate]. injection H as <-.
    change (glc (x :: g0)) with (relay_call x ++ glc g0).
    destruct (relay_call_shape x) as [E|(k' & i' & e' & -> & E)]; rewrite E; cbn [app].
    + now apply IH.
    + cbn [remove1]. rewrite cb_eqb_call. cbn [rmatch] in M. rewrite M. now rewrite (IH g0 eq_refl K).
Qed.

Lemma rtake_glc k i e gs : forall gs', rtake k i e gs = Some gs' -> lc_kind k = true ->
  otake (call k i e) (map glc gs) = Some (map glc gs').
Proof.
  induction gs as [|g gs IH]; intros gs'; cbn [rtake]; [discriminate|]. intros H K.
  destruct g as [|x g].
  - cbn [map otake]. change (glc []) with (@nil cb). now apply IH.
  - destruct (rtake1 k i e (x :: g)) as [g'|] eqn:T; [|discriminate]. injection H as <-.
    apply rtake1_glc in T; [|exact K]. cbn [map otake].
    destruct (glc (x :: g)) as [|c l] eqn:G; [discriminate|]. now rewrite T.
Qed.

Lemma release_raise_sim h log : forall q q', release_raise h q log = Some q' ->
  owed_raise h (map glc q) log = Some (map glc q') /\ filter is_lc log = log.
Proof.
  induction log as [|c log IH]; intros q q'; cbn [release_raise]; [discriminate|].
  destruct (lc_kind (c_k c) && c_w c) eqn:C; [|discriminate].
  apply andb_true_iff in C. destruct C as [K W].
  destruct (rtake (c_k c) (c_i c) (c_a c) q) as [q1|] eqn:T; [|discriminate].
  apply rtake_glc in T; [|exact K].
  assert (Ec : c = call (c_k c) (c_i c) (c_a c)) by (destruct c; cbn in *; now subst).
  assert (L : is_lc c = true) by (unfold is_lc; destruct (c_k c); auto; discriminate).
  rewrite <- Ec in T. cbn [owed_raise filter]. rewrite L, T.
  destruct (h (c_i c)).
  - destruct log; [|discriminate]. intros [= <-]. auto.
  - intros H. destruct (IH _ _ H) as [H1 H2]. rewrite H1, H2. auto.
Qed.

Lemma otake_perm c gs gs' : otake c gs = Some gs' -> Permutation (concat gs) (c :: concat gs').
Proof.
  revert gs'. induction gs as [|g gs IH]; intros gs'; cbn [otake]; [discriminate|].
  destruct g as [|x g].
  - intros H. cbn [concat app]. now apply IH.
  - destruct (remove1 cb_eqb c (x :: g)) as [g'|] eqn:T; [|discriminate]. intros [= <-].
    apply (remove1_perm cb_eqb cb_eqb_spec) in T. cbn [concat].
    change (c :: g' ++ concat gs) with ((c :: g') ++ concat gs). now apply Permutation_app_tail.
Qed.

Lemma owed_raise_perm h lc : forall gs gs', owed_raise h gs lc = Some gs' ->
  Permutation (concat gs) (lc ++ concat gs').
Proof.
  induction lc as [|c lc IH]; intros gs gs'; cbn [owed_raise]; [discriminate|].
  destruct (otake c gs) as [g1|] eqn:T; [|discriminate]. apply otake_perm in T.
  destruct (h (c_i c)).
  - destruct lc; [|discriminate]. intros [= <-]. exact T.
  - intros H. eapply perm_trans; [exact T|]. cbn [app]. apply perm_skip. now apply IH.
Qed.

Lemma match_groups_single l g : Permutation l g -> match_groups l [g] = true.
Proof.
  intros P. cbn [match_groups]. assert (L := Permutation_length P).
  rewrite <- L, firstn_all, skipn_all. cbn. rewrite andb_true_r. now apply cperm_complete.
Qed.

(* ---- the replicated event-handling blocks are one function of the event ---------- *)
Definition emit (s : st) (cs : list cb) (k : ck) (i e : Z) : st * list cb :=
  if enabled s then (s, cs ++ [call k i e]) else (relay s k i e, cs).

Definition apply_ev (p : params) (sc : st * list cb) (x : ev) : st * list cb :=
  let '(s, cs) := sc in
  match x with
  | EvAtt i e =>
      if k_h (kind_of p i) then
        let s := add_handler p s i in
        if k_add (kind_of p i) then emit s cs CAdd i e else (s, cs)
      else (s, cs)
  | EvDet i e =>
      if k_h (kind_of p i) then
        let '(s, cs) := if k_rem (kind_of p i) then emit s cs CRem i e else (s, cs) in
        (remove_handler s i, cs)
      else (s, cs)
  end.

Lemma create_events_ev p e s cs i : create_events p e (s, cs) i = apply_ev p (s, cs) (EvAtt i e).
Proof.
  unfold create_events, apply_ev, emit. destruct (k_h (kind_of p i)); [|reflexivity].
  destruct (k_add (kind_of p i)); cbn [andb]; [|reflexivity].
  destruct (enabled (add_handler p s i)); reflexivity.
Qed.
Lemma add_events_ev p e i s : add_events p e i s = apply_ev p (s, []) (EvAtt i e).
Proof.
  unfold add_events, apply_ev, emit. destruct (k_h (kind_of p i)); [|reflexivity].
  destruct (k_add (kind_of p i)); cbn [andb]; [|reflexivity].
  destruct (enabled (add_handler p s i)); reflexivity.
Qed.
Lemma delete_events_ev p e s cs ti : delete_events p e (s, cs) ti = apply_ev p (s, cs) (EvDet (snd ti) e).
Proof.
  unfold delete_events, apply_ev, emit. destruct (k_h (kind_of p (snd ti))); cbn [negb]; [|reflexivity].
  destruct (k_rem (kind_of p (snd ti))); cbn [andb]; [|reflexivity].
  destruct (enabled s); reflexivity.
Qed.

Lemma kind_norm_add p i : k_h (kind_of p i) = false -> k_add (kind_of p i) = false.
Proof.
  unfold kind_of, kind_of_ty. destruct (alookup (ty_of p i) (p_kinds p)) as [k|]; [|reflexivity].
  destruct (k_h k) eqn:E; [congruence|reflexivity].
Qed.
Lemma kind_norm_probe p i : k_probe (kind_of p i) = true -> k_h (kind_of p i) = true.
Proof.
  unfold kind_of, kind_of_ty. destruct (alookup (ty_of p i) (p_kinds p)) as [k|]; [|discriminate].
  destruct (k_h k) eqn:E; [now rewrite E|discriminate].
Qed.

(* effect of events on the dispatcher part of the state *)
Definition reg_ev (p : params) (x : ev) (r : list Z) : list Z :=
  match x with
  | EvAtt i _ => if k_h (kind_of p i) then zadd i r else r
  | EvDet i _ => if k_h (kind_of p i) then zrem i r else r
  end.
Definition pkey_ev (p : params) (x : ev) (b : bool) : bool :=
  match x with
  | EvAtt i _ => b || (k_h (kind_of p i) && k_probe (kind_of p i))
  | EvDet _ _ => b
  end.
Definition dview (s : st) := (enabled s, selfl s, queue s, reg s, pkey s).

Definition deff (p : params) (s : st) (cs : list cb) (evs : list ev) (s' : st) (cs' : list cb) : Prop :=
  let n := flat_map (ncall p) evs in
  enabled s' = enabled s /\ selfl s' = selfl s /\
  cs' = cs ++ (if enabled s then n else []) /\
  queue s' = (if enabled s then queue s else if selfl s then qpushes (queue s) n else queue s) /\
  reg s' = fold_left (fun r x => reg_ev p x r) evs (reg s) /\
  pkey s' = fold_left (fun b x => pkey_ev p x b) evs (pkey s).

Lemma deff_dview p s0 s cs evs s' cs' : dview s0 = dview s -> deff p s0 cs evs s' cs' -> deff p s cs evs s' cs'.
Proof. unfold dview, deff. intros [= -> -> -> -> ->]. auto. Qed.

Lemma deff_nil p s cs : deff p s cs [] s cs.
Proof. unfold deff. cbn. destruct (enabled s), (selfl s); rewrite ?app_nil_r; auto 10. Qed.

Lemma deff_trans p s cs e1 s1 cs1 e2 s2 cs2 :
  deff p s cs e1 s1 cs1 -> deff p s1 cs1 e2 s2 cs2 -> deff p s cs (e1 ++ e2) s2 cs2.
Proof.
  unfold deff. intros (A1 & A2 & A3 & A4 & A5 & A6) (B1 & B2 & B3 & B4 & B5 & B6).
  rewrite flat_map_app, !fold_left_app, <- A5, <- A6.
  rewrite A1, A2, A4 in *. subst cs1 cs2.
  repeat split; auto.
  - destruct (enabled s); [now rewrite app_assoc|now rewrite !app_nil_r].
  - rewrite B4. destruct (enabled s); [reflexivity|]. destruct (selfl s); [|reflexivity].
    now rewrite qpushes_app.
Qed.

Lemma relay_view s k i e :
  enabled (relay s k i e) = enabled s /\ selfl (relay s k i e) = selfl s /\
  reg (relay s k i e) = reg s /\ pkey (relay s k i e) = pkey s /\
  queue (relay s k i e) = if selfl s then qpush (queue s) (QRelay k i e) else queue s.
Proof. unfold relay. destruct (selfl s) eqn:E; cbn; rewrite ?E; auto. Qed.

Lemma deff_one p s cs x s' cs' : apply_ev p (s, cs) x = (s', cs') -> deff p s cs [x] s' cs'.
Proof.
  unfold deff. cbn [flat_map fold_left]. rewrite app_nil_r.
  destruct x as [i e|i e]; cbn [apply_ev ncall reg_ev pkey_ev].
  - destruct (k_h (kind_of p i)) eqn:KH.
    2:{ intros [= <- <-]. rewrite (kind_norm_add p i KH). cbn.
        destruct (enabled s), (selfl s); rewrite ?app_nil_r, ?orb_false_r; auto 10. }
    destruct (k_add (kind_of p i)).
    2:{ intros [= <- <-]. cbn. destruct (enabled s), (selfl s); rewrite ?app_nil_r; auto 10. }
    unfold emit. cbn [enabled add_handler set_reg]. destruct (enabled s) eqn:EN.
    + intros [= <- <-]. cbn. rewrite EN. auto 10.
    + intros [= <- <-]. destruct (relay_view (add_handler p s i) CAdd i e) as (V1 & V2 & V3 & V4 & V5).
      rewrite V1, V2, V3, V4, V5. cbn. rewrite EN, app_nil_r. destruct (selfl s); auto 10.
  - destruct (k_h (kind_of p i)) eqn:KH.
    2:{ intros [= <- <-]. rewrite (kind_norm p i KH). cbn.
        destruct (enabled s), (selfl s); rewrite ?app_nil_r; auto 10. }
    destruct (k_rem (kind_of p i)).
    2:{ intros [= <- <-]. cbn. destruct (enabled s), (selfl s); rewrite ?app_nil_r; auto 10. }
    unfold emit. destruct (enabled s) eqn:EN.
    + intros [= <- <-]. cbn. rewrite EN. auto 10.
    + intros [= <- <-]. destruct (relay_view s CRem i e) as (V1 & V2 & V3 & V4 & V5).
      cbn. rewrite V1, V2, V3, V4, V5, EN, app_nil_r. destruct (selfl s); auto 10.
Qed.

Lemma deff_fold p (f : st * list cb -> Z -> st * list cb) (g : Z -> ev) :
  (forall s cs i, f (s, cs) i = apply_ev p (s, cs) (g i)) ->
  forall l s cs s' cs', fold_left f l (s, cs) = (s', cs') -> deff p s cs (map g l) s' cs'.
Proof.
  intros F. induction l as [|i l IH]; intros s cs s' cs'; cbn [fold_left map].
  - intros [= <- <-]. apply deff_nil.
  - destruct (f (s, cs) i) as [s1 cs1] eqn:E. intros H. rewrite F in E.
    change (g i :: map g l) with ([g i] ++ map g l).
    eapply deff_trans; [apply deff_one; exact E|apply IH; exact H].
Qed.

Lemma create_fold_deff p e comps s cs s' cs' :
  fold_left (create_events p e) comps (s, cs) = (s', cs') ->
  deff p s cs (map (fun i => EvAtt i e) comps) s' cs'.
Proof. apply deff_fold. intros. apply create_events_ev. Qed.

Lemma delete_fold_deff p e (r : row) s cs s' cs' :
  fold_left (delete_events p e) r (s, cs) = (s', cs') ->
  deff p s cs (map (fun ti => EvDet (snd ti) e) r) s' cs'.
Proof.
  revert s cs s' cs'. induction r as [|ti r IH]; intros s cs s' cs'; cbn [fold_left map].
  - intros [= <- <-]. apply deff_nil.
  - destruct (delete_events p e (s, cs) ti) as [s1 cs1] eqn:E. intros H.
    rewrite delete_events_ev in E.
    change (EvDet (snd ti) e :: ?l) with ([EvDet (snd ti) e] ++ l).
    eapply deff_trans; [apply deff_one; exact E|apply IH; exact H].
Qed.

Lemma delete_imm_deff p s cs e s' cs' :
  delete_imm p (s, cs) e = Some (s', cs') -> deff p s cs (del_events (ents s) [e]) s' cs'.
Proof.
  unfold delete_imm. cbn [del_events]. rewrite app_nil_r. unfold trow.
  destruct (alookup e (ents s)) as [r|]; [|discriminate]. intros [= H].
  apply delete_fold_deff in H. eapply deff_dview; [|exact H]. reflexivity.
Qed.

Lemma delete_all_deff p es : forall s cs s' cs',
  delete_all p (s, cs) es = Some (s', cs') -> deff p s cs (del_events (ents s) es) s' cs'.
Proof.
  induction es as [|e es IH]; intros s cs s' cs'; cbn [delete_all].
  - intros [= <- <-]. apply deff_nil.
  - destruct (delete_imm p (s, cs) e) as [[s1 cs1]|] eqn:D; [|discriminate]. intros H.
    assert (D' := D). apply delete_imm_spec in D'. destruct D' as (_ & D1 & _).
    apply delete_imm_deff in D. cbn [del_events] in *. rewrite app_nil_r in D.
    eapply deff_trans; [exact D|]. rewrite <- D1. apply IH. exact H.
Qed.

Lemma remove_component_deff p s e ty s' cs r :
  remove_component p s e ty = (s', cs, r) ->
  deff p s [] (match tget (ents s) e ty with Some old => [EvDet old e] | None => [] end) s' cs.
Proof.
  unfold remove_component. destruct (tget (ents s) e ty) as [rm|].
  2:{ intros [= <- <- _]. apply deff_nil. }
  set (t := tdel (ents s) e ty).
  set (s1 := if towns t e then set_ents s t else set_dead (set_ents s t) (zrem e (dead (set_ents s t)))).
  assert (V : dview s1 = dview s) by (unfold s1; destruct (towns t e); reflexivity).
  intros H. eapply deff_dview; [exact V|]. apply deff_one. cbn [apply_ev]. unfold emit.
  destruct (k_h (kind_of p rm)) eqn:KH; cbn [negb] in H.
  2:{ now injection H as <- <- _. }
  destruct (k_rem (kind_of p rm)); cbn [andb] in H.
  - destruct (enabled s1); now injection H as <- <- _.
  - now injection H as <- <- _.
Qed.

(* ---- slots of the table --------------------------------------------------------------- *)
Lemma trow_tset t e ty i e' : trow (tset t e ty i) e' = if e' =? e then aset ty i (trow t e) else trow t e'.
Proof. unfold trow at 1, tset. rewrite alookup_aset. destruct (e' =? e); reflexivity. Qed.
Lemma trow_adel t e e' : trow (adel e t) e' = if e' =? e then [] else trow t e'.
Proof. unfold trow. rewrite alookup_adel. destruct (e' =? e); reflexivity. Qed.
Lemma trow_tdel t e ty e' : trow (tdel t e ty) e' = if e' =? e then adel ty (trow t e) else trow t e'.
Proof.
  unfold tdel. destruct (adel ty (trow t e)) as [|a r] eqn:A.
  - rewrite trow_adel. destruct (e' =? e); reflexivity.
  - unfold trow at 1. rewrite alookup_aset. destruct (e' =? e); reflexivity.
Qed.

Lemma tget_tset t e ty i e' ty' :
  tget (tset t e ty i) e' ty' = if (e' =? e) && (ty' =? ty) then Some i else tget t e' ty'.
Proof.
  unfold tget. rewrite trow_tset. destruct (e' =? e) eqn:E; cbn [andb]; [|reflexivity].
  apply Z.eqb_eq in E; subst e'. apply alookup_aset.
Qed.
Lemma tget_tdel t e ty e' ty' :
  tget (tdel t e ty) e' ty' = if (e' =? e) && (ty' =? ty) then None else tget t e' ty'.
Proof.
  unfold tget. rewrite trow_tdel. destruct (e' =? e) eqn:E; cbn [andb]; [|reflexivity].
  apply Z.eqb_eq in E; subst e'. apply alookup_adel.
Qed.
Lemma tget_adel t e e' ty' : tget (adel e t) e' ty' = if e' =? e then None else tget t e' ty'.
Proof. unfold tget. rewrite trow_adel. destruct (e' =? e); reflexivity. Qed.

Lemma tget_towns t e ty i : tget t e ty = Some i -> towns t e = true.
Proof.
  unfold tget, trow, towns, amem. destruct (alookup e t); [reflexivity|discriminate].
Qed.

Definition attached (p : params) (t : table) (i : Z) : Prop :=
  exists e, tget t e (ty_of p i) = Some i.

Lemma oz_eqb_spec a b : oz_eqb a b = true <-> a = b.
Proof.
  destruct a, b; cbn; try (split; [discriminate|intros [=]]); try tauto.
  rewrite Z.eqb_eq. split; [now intros ->|now intros [=]].
Qed.

Lemma attached_b_spec p t i : attached_b p t i = true <-> attached p t i.
Proof.
  unfold attached_b, attached. rewrite existsb_exists. split.
  - intros (e & _ & H). exists e. now apply oz_eqb_spec.
  - intros (e & H). exists e. split; [|now apply oz_eqb_spec].
    apply amem_In. eapply tget_towns; eauto.
Qed.

(* ---- sets as duplicate-free lists ---------------------------------------------------------- *)
Lemma NoDup_zadd x l : NoDup l -> NoDup (zadd x l).
Proof.
  unfold zadd. destruct (zmem x l) eqn:E; [auto|]. intros H.
  apply NoDup_snoc; [exact H|now apply zmem_false].
Qed.
Lemma NoDup_zrem x l : NoDup l -> NoDup (zrem x l).
Proof.
  induction l as [|y l IH]; cbn [zrem]; [auto|]. intros H. inversion H as [|? ? N H']; subst.
  destruct (x =? y); [auto|]. constructor; [|auto]. intros I. apply In_zrem in I. tauto.
Qed.

(* ---- consistency of table and registrations (holds between operations) ----------------------- *)
Record Tt (p : params) (t : table) : Prop := mkTt {
  T_uniq  : forall i e1 e2, tget t e1 (ty_of p i) = Some i -> tget t e2 (ty_of p i) = Some i -> e1 = e2;
  T_typed : forall e ty i, tget t e ty = Some i -> ty = ty_of p i;
  T_rows  : forall e, NoDup (akeys (trow t e)) }.

Record Jt (p : params) (s : st) : Prop := mkJt {
  J_selfl : selfl s = true;
  J_tab   : Tt p (ents s);
  J_reg   : forall i, In i (reg s) <-> k_h (kind_of p i) = true /\ attached p (ents s) i;
  J_nodup : NoDup (reg s);
  J_pkey  : forall i, In i (reg s) -> k_probe (kind_of p i) = true -> pkey s = true }.

Lemma Jt_init p : Jt p init.
Proof.
  constructor.
  - reflexivity.
  - constructor; cbn.
    + intros i e1 e2 H. discriminate.
    + intros e ty i H. discriminate.
    + intros e. constructor.
  - intros i. cbn. split; [intros []|]. intros (_ & e & H). discriminate.
  - constructor.
  - intros i [].
Qed.

Lemma In_row_tget p t e ty i : Tt p t -> (In (ty, i) (trow t e) <-> tget t e ty = Some i).
Proof.
  intros T. unfold tget. split.
  - apply In_alookup_nodup, T.
  - apply alookup_In.
Qed.

Lemma andb_eqb_true a b c d : (a =? b) && (c =? d) = true -> a = b /\ c = d.
Proof. intros H. apply andb_true_iff in H. now rewrite !Z.eqb_eq in H. Qed.

Lemma Tt_tdel p t e ty : Tt p t -> Tt p (tdel t e ty).
Proof.
  intros [U Ty Ro]. constructor.
  - intros i e1 e2. rewrite !tget_tdel.
    destruct ((e1 =? e) && _); [discriminate|]. destruct ((e2 =? e) && _); [discriminate|]. apply U.
  - intros e' ty' i. rewrite tget_tdel. destruct ((e' =? e) && _); [discriminate|]. apply Ty.
  - intros e'. rewrite trow_tdel. destruct (e' =? e); [apply NoDup_akeys_adel|]; apply Ro.
Qed.
Lemma Tt_adel p t e : Tt p t -> Tt p (adel e t).
Proof.
  intros [U Ty Ro]. constructor.
  - intros i e1 e2. rewrite !tget_adel.
    destruct (e1 =? e); [discriminate|]. destruct (e2 =? e); [discriminate|]. apply U.
  - intros e' ty' i. rewrite tget_adel. destruct (e' =? e); [discriminate|]. apply Ty.
  - intros e'. rewrite trow_adel. destruct (e' =? e); [constructor|apply Ro].
Qed.
Lemma Tt_tset p t e i : Tt p t -> ~ attached p t i -> Tt p (tset t e (ty_of p i) i).
Proof.
  intros [U Ty Ro] NA. constructor.
  - intros j e1 e2. rewrite !tget_tset.
    destruct ((e1 =? e) && _) eqn:C1; destruct ((e2 =? e) && _) eqn:C2.
    + apply andb_eqb_true in C1, C2. intros _ _. destruct C1, C2. congruence.
    + intros [= <-] H. exfalso. apply NA. now exists e2.
    + intros H [= <-]. exfalso. apply NA. now exists e1.
    + apply U.
  - intros e' ty' j. rewrite tget_tset. destruct ((e' =? e) && _) eqn:C.
    + apply andb_eqb_true in C. destruct C as [_ ->]. now intros [= <-].
    + apply Ty.
  - intros e'. rewrite trow_tset. destruct (e' =? e); [apply NoDup_akeys_aset|]; apply Ro.
Qed.

Lemma attached_tdel p t e ty old x : Tt p t -> tget t e ty = Some old ->
  (attached p (tdel t e ty) x <-> attached p t x /\ x <> old).
Proof.
  intros [U Ty Ro] G. unfold attached. split.
  - intros (e' & H). rewrite tget_tdel in H. destruct ((e' =? e) && _) eqn:C; [discriminate|].
    split; [now exists e'|]. intros ->.
    assert (ty = ty_of p old) by (eapply Ty; eauto). subst ty.
    assert (e' = e) by (eapply U; eauto). subst e'. now rewrite !Z.eqb_refl in C.
  - intros ((e' & H) & N). exists e'. rewrite tget_tdel.
    destruct ((e' =? e) && _) eqn:C; [|exact H].
    apply andb_eqb_true in C. destruct C as [-> E]. rewrite E in H. congruence.
Qed.
Lemma attached_adel p t e x : Tt p t ->
  (attached p (adel e t) x <-> attached p t x /\ ~ In x (map snd (trow t e))).
Proof.
  intros T. assert (T' := T). destruct T' as [U Ty Ro]. unfold attached. split.
  - intros (e' & H). rewrite tget_adel in H. destruct (e' =? e) eqn:C; [discriminate|].
    split; [now exists e'|]. intros I. apply in_map_iff in I. destruct I as ([ty j] & E & I).
    cbn in E. subst j. apply (In_row_tget p t e ty x T) in I.
    assert (ty = ty_of p x) by (eapply Ty; eauto). subst ty.
    assert (e' = e) by (eapply U; eauto). subst e'. now rewrite Z.eqb_refl in C.
  - intros ((e' & H) & N). exists e'. rewrite tget_adel. destruct (e' =? e) eqn:C; [|exact H].
    apply Z.eqb_eq in C. subst e'. exfalso. apply N. apply in_map_iff.
    exists (ty_of p x, x). split; [reflexivity|]. now apply (In_row_tget p t e _ x T).
Qed.
Lemma attached_tset p t e i x : tget t e (ty_of p i) = None ->
  (attached p (tset t e (ty_of p i) i) x <-> x = i \/ attached p t x).
Proof.
  intros G. unfold attached. split.
  - intros (e' & H). rewrite tget_tset in H. destruct ((e' =? e) && _) eqn:C.
    + left. congruence.
    + right. now exists e'.
  - intros [->|(e' & H)].
    + exists e. now rewrite tget_tset, !Z.eqb_refl.
    + exists e'. rewrite tget_tset. destruct ((e' =? e) && _) eqn:C; [|exact H].
      apply andb_eqb_true in C. destruct C as [-> E]. rewrite E in H. congruence.
Qed.

(* registrations after the detach events of one row *)
Lemma fold_reg_det p e x (r : row) : forall rg,
  In x (fold_left (fun rg y => reg_ev p y rg) (map (fun ti => EvDet (snd ti) e) r) rg)
  <-> In x rg /\ ~ (k_h (kind_of p x) = true /\ In x (map snd r)).
Proof.
  induction r as [|[ty j] r IH]; intros rg; cbn [map fold_left snd In].
  - tauto.
  - rewrite IH. cbn [reg_ev]. destruct (k_h (kind_of p j)) eqn:KH.
    + rewrite In_zrem. split.
      * intros [[N I] H]. split; [exact I|]. intros [K [E|E]]; [congruence|tauto].
      * intros [I H]. split; [split; [|exact I]|]; [intros ->; apply H; auto|tauto].
    + split.
      * intros [I H]. split; [exact I|]. intros [K [E|E]]; [congruence|tauto].
      * intros [I H]. split; [exact I|]. tauto.
Qed.
Lemma fold_reg_det_nodup p e (r : row) : forall rg, NoDup rg ->
  NoDup (fold_left (fun rg y => reg_ev p y rg) (map (fun ti => EvDet (snd ti) e) r) rg).
Proof.
  induction r as [|[ty j] r IH]; intros rg H; cbn [map fold_left snd]; [exact H|].
  apply IH. cbn [reg_ev]. destruct (k_h (kind_of p j)); [now apply NoDup_zrem|exact H].
Qed.
Lemma fold_pkey_det p e (r : row) : forall b,
  fold_left (fun b y => pkey_ev p y b) (map (fun ti => EvDet (snd ti) e) r) b = b.
Proof. induction r as [|ti r IH]; intros b; cbn [map fold_left pkey_ev]; auto. Qed.

Lemma delete_imm_Jt p s cs e s' cs' : Jt p s -> delete_imm p (s, cs) e = Some (s', cs') -> Jt p s'.
Proof.
  intros [S T G N K] D. assert (D' := D). apply delete_imm_spec in D'.
  destruct D' as (_ & D1 & _). apply delete_imm_deff in D. cbn [del_events] in D.
  rewrite app_nil_r in D. destruct D as (_ & E2 & _ & _ & E5 & E6).
  rewrite fold_pkey_det in E6. constructor.
  - congruence.
  - rewrite D1. now apply Tt_adel.
  - intros x. rewrite E5, D1, fold_reg_det, G, (attached_adel p _ e x T). tauto.
  - rewrite E5. now apply fold_reg_det_nodup.
  - intros x. rewrite E5, E6, fold_reg_det. intros [I _]. now apply K.
Qed.

Lemma delete_all_Jt p es : forall s cs s' cs', Jt p s -> delete_all p (s, cs) es = Some (s', cs') -> Jt p s'.
Proof.
  induction es as [|e es IH]; intros s cs s' cs' J; cbn [delete_all].
  - now intros [= <- _].
  - destruct (delete_imm p (s, cs) e) as [[s1 cs1]|] eqn:D; [|discriminate].
    apply IH. eapply delete_imm_Jt; eauto.
Qed.

Lemma remove_component_Jt p s e ty s' cs r : Jt p s -> remove_component p s e ty = (s', cs, r) -> Jt p s'.
Proof.
  intros [S T G N K] H. assert (H' := H). apply remove_component_core in H'.
  destruct H' as (-> & _ & _ & C). apply remove_component_deff in H.
  destruct H as (_ & E2 & _ & _ & E5 & E6).
  destruct (tget (ents s) e ty) as [old|] eqn:GT.
  - destruct C as [C1 _]. cbn [fold_left reg_ev pkey_ev] in E5, E6. constructor.
    + congruence.
    + rewrite C1. now apply Tt_tdel.
    + intros x. rewrite C1, (attached_tdel p _ e ty old x T GT), E5.
      destruct (k_h (kind_of p old)) eqn:KH.
      * rewrite In_zrem, G. tauto.
      * rewrite G. split; [|tauto]. intros [K1 A]. repeat split; auto. intros ->. congruence.
    + rewrite E5. destruct (k_h (kind_of p old)); [now apply NoDup_zrem|exact N].
    + intros x. rewrite E5, E6. intros I. apply K.
      destruct (k_h (kind_of p old)); [now apply In_zrem in I|exact I].
  - destruct C as [C1 _]. cbn [fold_left] in E5, E6. constructor.
    + congruence.
    + now rewrite C1.
    + intros x. now rewrite C1, E5.
    + now rewrite E5.
    + intros x. rewrite E5, E6. apply K.
Qed.

(* ---- attaching ------------------------------------------------------------------------------ *)
Definition JJ (p : params) (t : table) (rg : list Z) (pk : bool) : Prop :=
  Tt p t /\ (forall i, In i rg <-> k_h (kind_of p i) = true /\ attached p t i) /\ NoDup rg /\
  (forall i, In i rg -> k_probe (kind_of p i) = true -> pk = true).

Lemma Jt_JJ p s : Jt p s <-> selfl s = true /\ JJ p (ents s) (reg s) (pkey s).
Proof.
  unfold JJ. split.
  - intros [S T G N K]. auto 10.
  - intros (S & T & G & N & K). now constructor.
Qed.

Lemma JJ_attach p t rg pk e i :
  JJ p t rg pk -> tget t e (ty_of p i) = None -> ~ attached p t i ->
  JJ p (tset t e (ty_of p i) i) (reg_ev p (EvAtt i e) rg) (pkey_ev p (EvAtt i e) pk).
Proof.
  intros (T & G & N & K) G0 NA. unfold JJ. cbn [reg_ev pkey_ev]. split; [now apply Tt_tset|].
  assert (AT := fun x => attached_tset p t e i x G0).
  destruct (k_h (kind_of p i)) eqn:KH; cbn [andb].
  - split; [|split].
    + intros x. rewrite In_zadd, AT, G. split.
      * intros [->|[K1 A]]; auto.
      * intros [K1 [->|A]]; auto.
    + now apply NoDup_zadd.
    + intros x I P. apply In_zadd in I. destruct I as [->|I]; [rewrite P; apply orb_true_r|].
      rewrite (K x I P). reflexivity.
  - rewrite orb_false_r. split; [|split; [exact N|exact K]].
    intros x. rewrite AT, G. split.
    + intros [K1 A]; auto.
    + intros [K1 [->|A]]; [congruence|auto].
Qed.

Lemma JJ_fold p e comps : forall t rg pk,
  JJ p t rg pk -> NoDup (map (ty_of p) comps) ->
  (forall i, In i comps -> tget t e (ty_of p i) = None) ->
  (forall i, In i comps -> ~ attached p t i) ->
  JJ p (fold_left (fun t i => tset t e (ty_of p i) i) comps t)
       (fold_left (fun rg x => reg_ev p x rg) (map (fun i => EvAtt i e) comps) rg)
       (fold_left (fun b x => pkey_ev p x b) (map (fun i => EvAtt i e) comps) pk).
Proof.
  induction comps as [|i comps IH]; intros t rg pk J ND G0 NA; cbn [fold_left map]; [exact J|].
  cbn [map] in ND. inversion ND as [|? ? NI ND']; subst.
  apply IH; [apply JJ_attach; auto; try apply G0; try apply NA; now left|exact ND'| |].
  - intros j Hj. rewrite tget_tset, Z.eqb_refl. cbn [andb].
    destruct (ty_of p j =? ty_of p i) eqn:E; [|apply G0; now right].
    apply Z.eqb_eq in E. exfalso. apply NI. rewrite <- E. now apply in_map.
  - intros j Hj A. apply attached_tset in A; [|apply G0; now left].
    destruct A as [->|A]; [|apply (NA j); auto; now right].
    apply NI. now apply in_map.
Qed.

Lemma create_Jt p s e comps cs s' cs' :
  Jt p s -> NoDup (map (ty_of p) comps) ->
  (forall i, In i comps -> tget (ents s) e (ty_of p i) = None) ->
  (forall i, In i comps -> ~ attached p (ents s) i) ->
  fold_left (create_events p e) comps
    (set_ents s (fold_left (fun t i => tset t e (ty_of p i) i) comps (ents s)), cs) = (s', cs') ->
  Jt p s'.
Proof.
  intros J ND G0 NA F. apply Jt_JJ in J. destruct J as [S J].
  assert (C := core_create_fold _ _ _ _ _ _ _ F). apply core_eq in C. destruct C as (C1 & _).
  apply create_fold_deff in F. destruct F as (_ & E2 & _ & _ & E5 & E6).
  apply Jt_JJ. split; [now rewrite E2|]. rewrite C1, E5, E6. cbn [ents reg pkey set_ents].
  now apply JJ_fold.
Qed.

(* ---- glue --------------------------------------------------------------------------------------- *)
Lemma deff_shift p s cs evs s' c : deff p s [] evs s' c -> deff p s cs evs s' (cs ++ c).
Proof. unfold deff. cbn [app]. intros (A1 & A2 & -> & A4 & A5 & A6). auto 10. Qed.

Lemma Jt_view p s s' :
  ents s' = ents s -> reg s' = reg s -> pkey s' = pkey s -> selfl s' = selfl s -> Jt p s -> Jt p s'.
Proof. intros E1 E2 E3 E4 J. apply Jt_JJ. apply Jt_JJ in J. now rewrite E1, E2, E3, E4. Qed.

(* what an operation did, in the vocabulary of the property:
   its lifecycle events [evs], applied to the dispatcher, and a log that is the
   resulting calls plus entries that are not lifecycle calls *)
Definition effect (p : params) (s : st) (evs : list ev) (ob : obs) (s' : st) : Prop :=
  exists cs tail, deff p s [] evs s' cs /\ Permutation (o_log ob) (cs ++ tail) /\
                  (forall c, In c tail -> is_lc c = false).

Lemma effect_lc p s evs ob s' :
  effect p s evs ob s' ->
  let n := flat_map (ncall p) evs in
  selfl s' = selfl s /\ enabled s' = enabled s /\
  (enabled s = true -> Permutation (filter is_lc (o_log ob)) n /\ queue s' = queue s) /\
  (enabled s = false -> filter is_lc (o_log ob) = [] /\
                        queue s' = if selfl s then qpushes (queue s) n else queue s).
Proof.
  intros (cs & tail & (A1 & A2 & A3 & A4 & _) & P & Tl) n. cbn [app] in A3. fold n in A3, A4.
  apply (Permutation_filter is_lc) in P. rewrite filter_app, (filter_none _ tail Tl), app_nil_r in P.
  split; [exact A2|]. split; [exact A1|]. split.
  - intros EN. rewrite EN in A3, A4. subst cs. split; [|exact A4].
    rewrite (filter_all is_lc n) in P; [exact P|].
    intros c Hc. apply lc_shape_is_lc. eapply notifs_shape; eauto.
  - intros EN. rewrite EN in A3, A4. subst cs. cbn in P. split; [|exact A4].
    now apply Permutation_nil, Permutation_sym.
Qed.

Lemma effect_nil p s ob s' : dview s' = dview s -> nil_b (o_log ob) = true -> effect p s [] ob s'.
Proof.
  intros V L. apply nil_b_true in L. exists [], []. rewrite L. split; [|split].
  - eapply deff_dview with (s0 := s'); [exact V|apply deff_nil].
  - apply Permutation_refl.
  - intros c [].
Qed.

Lemma known_create_facts p ss pt eid comps e :
  known_step p ss pt (Create eid comps) = false ->
  (eid = Some e \/ (eid = None /\ towns (att ss) e = false)) ->
  NoDup (map (ty_of p) comps) /\
  (forall i, In i comps -> tget (att ss) e (ty_of p i) = None) /\
  (forall i, In i comps -> ~ attached p (att ss) i).
Proof.
  cbn [known_step]. intros H E. apply orb_false_iff in H. destruct H as [H K3].
  apply orb_false_iff in H. destruct H as [K2a K2b]. apply negb_false_iff in K2a.
  split; [|split].
  - clear -K2a. induction (map (ty_of p) comps) as [|x l IH]; [constructor|].
    cbn [znodup_b] in K2a. apply andb_true_iff in K2a. destruct K2a as [A B].
    constructor; [|auto]. apply negb_true_iff in A. now apply zmem_false.
  - intros i Hi. destruct E as [->|[-> T]].
    + destruct (tget (att ss) e (ty_of p i)) eqn:G; [|reflexivity].
      assert (X : existsb (fun i => is_some (tget (att ss) e (ty_of p i))) comps = true).
      { apply existsb_exists. exists i. split; [exact Hi|]. now rewrite G. }
      congruence.
    + destruct (tget (att ss) e (ty_of p i)) eqn:G; [|reflexivity].
      apply tget_towns in G. congruence.
  - intros i Hi A. apply attached_b_spec in A.
    assert (X : existsb (fun i => attached_b p (att ss) i) comps = true).
    { apply existsb_exists. exists i. auto. }
    congruence.
Qed.

(* ---- per operation: Jt is kept and the operation has the effect of its events ------------------ *)
Lemma cperm_effect p s evs ob s' cs :
  deff p s [] evs s' cs -> cperm_b (o_log ob) cs = true -> effect p s evs ob s'.
Proof.
  intros D P. exists cs, []. rewrite app_nil_r. split; [exact D|]. split; [now apply cperm_sound|].
  intros c [].
Qed.

Lemma fact_create p s ss pt eid comps ob s' :
  R s ss -> Jt p s -> known_step p ss pt (Create eid comps) = false ->
  step_op p s (Create eid comps) ob = Some s' ->
  Jt p s' /\ effect p s (events p ss (Create eid comps) ob) ob s'.
Proof.
  intros HR J KN. assert (HE := R_ents _ _ HR). cbn [step_op events].
  assert (X : forall e, (eid = Some e \/ (eid = None /\ towns (ents s) e = false)) ->
     forall s1 cs,
     fold_left (create_events p e) comps
       (set_ents s (fold_left (fun t i => tset t e (ty_of p i) i) comps (ents s)), []) = (s1, cs) ->
     cperm_b (o_log ob) cs = true ->
     Jt p s1 /\ effect p s (map (fun i => EvAtt i e) comps) ob s1).
  { intros e E s1 cs F P. rewrite HE in E.
    destruct (known_create_facts p ss pt eid comps e KN E) as (K1 & K2 & K3). rewrite <- HE in K2, K3.
    split; [eapply create_Jt; eauto|].
    eapply cperm_effect; [|exact P]. apply create_fold_deff in F.
    eapply deff_dview; [|exact F]. reflexivity. }
  destruct eid as [e|].
  - destruct (oz_eqb (o_ret ob) (Some e)); [|discriminate].
    destruct (fold_left _ comps _) as [s1 cs] eqn:F.
    destruct (o_exc ob =? 0); [|discriminate]. cbn [andb].
    destruct (cperm_b (o_log ob) cs) eqn:P; [|discriminate]. intros [= <-].
    eapply X; eauto.
  - destruct (o_ret ob) as [e|]; [|discriminate].
    destruct (amem e (ents s)) eqn:AM; [discriminate|].
    destruct (fold_left _ comps _) as [s1 cs] eqn:F.
    destruct (o_exc ob =? 0); [|discriminate]. cbn [andb].
    destruct (cperm_b (o_log ob) cs) eqn:P; [|discriminate]. intros [= <-].
    eapply X; eauto.
Qed.

Lemma fact_remove p s ss e ty ob s' :
  R s ss -> Jt p s -> step_op p s (Remove e ty) ob = Some s' ->
  Jt p s' /\ effect p s (events p ss (Remove e ty) ob) ob s'.
Proof.
  intros HR J. assert (HE := R_ents _ _ HR). cbn [step_op events]. rewrite <- HE.
  destruct (remove_component p s e ty) as [[s1 cs] r] eqn:RC.
  destruct (o_exc ob =? 0); [|discriminate]. cbn [andb].
  destruct (oz_eqb (o_ret ob) r); [|discriminate]. cbn [andb].
  destruct (cperm_b (o_log ob) cs) eqn:P; [|discriminate]. intros [= <-].
  split; [eapply remove_component_Jt; eauto|].
  eapply cperm_effect; [|exact P]. eapply remove_component_deff; eauto.
Qed.

Lemma fact_delete p s ss e imm ob s' :
  R s ss -> Jt p s -> step_op p s (Delete e imm) ob = Some s' ->
  Jt p s' /\ effect p s (events p ss (Delete e imm) ob) ob s'.
Proof.
  intros HR J. assert (HE := R_ents _ _ HR). cbn [step_op events]. rewrite <- HE. destruct imm.
  - destruct (delete_imm p (s, []) e) as [[s1 cs]|] eqn:D.
    + destruct (o_exc ob =? 0); [|discriminate]. cbn [andb].
      destruct (cperm_b (o_log ob) cs) eqn:P; [|discriminate]. intros [= <-].
      split; [eapply delete_imm_Jt; eauto|].
      eapply cperm_effect; [|exact P]. now apply delete_imm_deff.
    + apply delete_imm_none in D. destruct (o_exc ob =? 1); [|discriminate]. cbn [andb].
      destruct (nil_b (o_log ob)) eqn:L; [|discriminate]. intros [= <-]. split; [exact J|].
      cbn [del_events]. unfold trow. unfold towns, amem in D.
      destruct (alookup e (ents s)); [discriminate|]. cbn [map app].
      now apply effect_nil.
  - destruct (o_exc ob =? 0); [|discriminate]. cbn [andb].
    destruct (nil_b (o_log ob)) eqn:L; [|discriminate]. intros [= <-]. split.
    + eapply Jt_view; [| | | |exact J]; reflexivity.
    + now apply effect_nil.
Qed.

Lemma fact_add p s ss pt e i ob s' :
  R s ss -> Jt p s -> known_step p ss pt (Add e i) = false ->
  step_op p s (Add e i) ob = Some s' ->
  Jt p s' /\ effect p s (events p ss (Add e i) ob) ob s'.
Proof.
  intros HR J KN. assert (HE := R_ents _ _ HR). cbn [step_op events known_step] in *.
  rewrite <- HE in *. set (ty := ty_of p i) in *.
  (* the attach half, from a state sA whose slot is free and where i is detached *)
  assert (X : forall sA s3 cs2,
     Jt p sA -> tget (ents sA) e ty = None -> ~ attached p (ents sA) i ->
     add_events p e i (set_ents sA (tset (ents sA) e ty i)) = (s3, cs2) ->
     Jt p s3 /\ deff p sA [] [EvAtt i e] s3 cs2).
  { intros sA s3 cs2 JA G0 NA AE. split.
    - eapply (create_Jt p sA e [i] [] s3 cs2); [exact JA| | | |].
      + cbn. constructor; [intros []|constructor].
      + intros j [<-|[]]. exact G0.
      + intros j [<-|[]]. exact NA.
      + cbn [fold_left]. rewrite create_events_ev, <- add_events_ev. exact AE.
    - rewrite add_events_ev in AE. apply deff_one in AE.
      eapply deff_dview; [|exact AE]. reflexivity. }
  destruct (tget (ents s) e ty) as [old|] eqn:G.
  - destruct (remove_component p s e ty) as [[s1 cs1] r] eqn:RC.
    assert (J1 := remove_component_Jt _ _ _ _ _ _ _ J RC).
    assert (C := remove_component_core _ _ _ _ _ _ _ RC). rewrite G in C.
    destruct C as (-> & _ & _ & C1 & _).
    assert (D1 := remove_component_deff _ _ _ _ _ _ _ RC). rewrite G in D1.
    set (sA := if zmem e (dead s) then set_dead s1 (dead s) else s1).
    assert (VA : dview sA = dview s1 /\ ents sA = ents s1).
    { unfold sA. destruct (zmem e (dead s)); split; reflexivity. }
    destruct VA as [VA EA].
    destruct (add_events p e i (set_ents sA (tset (ents sA) e ty i))) as [s3 cs2] eqn:AE.
    destruct (o_exc ob =? 0); [|discriminate]. cbn [andb].
    destruct (oz_eqb (o_ret ob) None); [|discriminate]. cbn [andb].
    destruct (cperm_b (o_log ob) (cs1 ++ cs2)) eqn:P; [|discriminate]. intros [= <-].
    destruct (X sA s3 cs2) as [J3 D2]; auto.
    + unfold dview in VA. injection VA as V1 V2 V3 V4 V5. eapply Jt_view; [exact EA| | | |exact J1]; auto.
    + rewrite EA, C1, tget_tdel, !Z.eqb_refl. reflexivity.
    + rewrite EA, C1. intros A. apply (attached_tdel p _ e ty old i (J_tab _ _ J) G) in A.
      destruct A as [A N]. apply attached_b_spec in A. rewrite A in KN. cbn [andb] in KN.
      apply negb_false_iff, oz_eqb_spec in KN. congruence.
    + split; [exact J3|]. eapply cperm_effect; [|exact P].
      eapply deff_trans; [exact D1|]. apply deff_shift. eapply deff_dview; [|exact D2].
      now symmetry.
  - destruct (add_events p e i (set_ents s (tset (ents s) e ty i))) as [s3 cs2] eqn:AE.
    destruct (o_exc ob =? 0); [|discriminate]. cbn [andb].
    destruct (oz_eqb (o_ret ob) None); [|discriminate]. cbn [andb app].
    destruct (cperm_b (o_log ob) cs2) eqn:P; [|discriminate]. intros [= <-].
    destruct (X s s3 cs2) as [J3 D2]; auto.
    + intros A. apply attached_b_spec in A. rewrite A in KN. discriminate.
    + split; [exact J3|]. eapply cperm_effect; [|exact P]. exact D2.
Qed.

Lemma fact_process p s ss ob s' :
  R s ss -> Jt p s -> step_op p s Process ob = Some s' ->
  Jt p s' /\ effect p s (events p ss Process ob) ob s'.
Proof.
  intros HR J. assert (HE := R_ents _ _ HR). assert (HD := R_dead _ _ HR).
  cbn [step_op events]. rewrite <- HE, <- HD.
  destruct (forallb (fun e => amem e (ents s)) (dead s)).
  - destruct (delete_all p (s, []) (dead s)) as [[s1 cs]|] eqn:DA; [|discriminate].
    destruct (o_exc ob =? 0) eqn:X0; [|discriminate]. cbn [andb].
    destruct (cperm_b (firstn _ _) cs) eqn:P1; [|discriminate]. cbn [andb].
    destruct (cperm_b (skipn _ _) _) eqn:P2; [|discriminate]. intros [= <-].
    assert (J1 := delete_all_Jt _ _ _ _ _ _ J DA). split.
    + eapply Jt_view; [| | | |exact J1]; reflexivity.
    + exists cs, (if procs (set_dead s1 []) then [call CProc 0 0] else []). split; [|split].
      * apply delete_all_deff in DA. destruct DA as (A1 & A2 & A3 & A4 & A5 & A6).
        unfold deff. cbn [enabled selfl queue reg pkey set_dead]. auto 10.
      * rewrite <- (firstn_skipn (length cs) (o_log ob)) at 1.
        apply Permutation_app; now apply cperm_sound.
      * intros c. destruct (procs _); [|intros []]. now intros [<-|[]].
  - destruct (o_ret ob) as [f|]; [|discriminate].
    destruct (_ && _); [|discriminate].
    destruct (delete_all p (s, []) (o_done ob)) as [[s1 cs]|] eqn:DA; [|discriminate].
    destruct (o_exc ob =? 1) eqn:X1; [|discriminate]. cbn [andb]. rewrite (eqb1_not0 _ X1).
    destruct (cperm_b (o_log ob) cs) eqn:P; [|discriminate]. intros [= <-].
    assert (J1 := delete_all_Jt _ _ _ _ _ _ J DA). split.
    + eapply Jt_view; [| | | |exact J1]; reflexivity.
    + eapply cperm_effect; [|exact P]. apply delete_all_deff in DA.
      destruct DA as (A1 & A2 & A3 & A4 & A5 & A6).
      unfold deff. cbn [enabled selfl queue reg pkey set_dead]. auto 10.
Qed.

(* ---- read side: is_handler and probe delivery ------------------------------------------------------ *)
Lemma reg_attached_b p s ss i : R s ss -> Jt p s ->
  zmem i (reg s) = k_h (kind_of p i) && attached_b p (att ss) i.
Proof.
  intros HR J. rewrite <- (R_ents _ _ HR). destruct (zmem i (reg s)) eqn:Z.
  - apply zmem_In, (J_reg _ _ J) in Z. destruct Z as [K A]. apply attached_b_spec in A. now rewrite K, A.
  - destruct (k_h (kind_of p i) && attached_b p (ents s) i) eqn:B; [|reflexivity].
    apply andb_true_iff in B. destruct B as [K A]. apply attached_b_spec in A.
    assert (I : In i (reg s)) by (apply (J_reg _ _ J); auto). apply zmem_In in I. congruence.
Qed.

Lemma qcheck2_sim p s ss q : R s ss -> Jt p s -> qcheck s q = true -> qcheck2 p ss q = true.
Proof.
  intros HR J. destruct q as [e r|l|e l|i r|e ty r|e ty r|ty l]; cbn [qcheck qcheck2]; auto.
  now rewrite (reg_attached_b p s ss i HR J).
Qed.

Lemma znodup_b_complete l : NoDup l -> znodup_b l = true.
Proof.
  induction 1 as [|x l N _ IH]; cbn [znodup_b]; [reflexivity|].
  rewrite IH, andb_true_r. apply negb_true_iff. now apply zmem_false.
Qed.

Lemma probe_sim p s ss tok log :
  R s ss -> Jt p s ->
  (if negb (pkey s) then nil_b log
   else cperm_b log (deliver p s (QProbeE tok))) = true ->
  probe_check p ss tok log = true.
Proof.
  intros HR J H. set (D := deliver p s (QProbeE tok)).
  assert (RA := fun i => reg_attached_b p s ss i HR J).
  (* the probe calls in the log are a permutation of the model's deliveries *)
  assert (P : Permutation (filter is_pr log) D).
  { destruct (pkey s) eqn:PK; cbn [negb] in H.
    - apply cperm_sound, (Permutation_filter is_pr) in H. fold D in H.
      rewrite (filter_all is_pr D) in H; [exact H|].
      intros c Hc. apply in_map_iff in Hc. now destruct Hc as (i & <- & _).
    - apply nil_b_true in H. subst log. cbn [filter].
      assert (E : D = []); [|rewrite E; constructor].
      unfold D. cbn [deliver]. rewrite filter_none; [reflexivity|].
      intros i Hi. destruct (k_probe (kind_of p i)) eqn:KP; [|reflexivity].
      rewrite (J_pkey _ _ J i Hi KP) in PK. discriminate. }
  assert (PI : Permutation (map c_i (filter is_pr log))
                           (filter (fun i => k_probe (kind_of p i)) (reg s))).
  { eapply perm_trans; [apply Permutation_map; exact P|]. unfold D. cbn [deliver].
    rewrite map_map. cbn. rewrite map_id. apply Permutation_refl. }
  unfold probe_check. rewrite !andb_true_iff. split; [split|].
  - apply forallb_forall. intros c Hc. eapply Permutation_in in Hc; [|exact P].
    unfold D in Hc. cbn [deliver] in Hc. apply in_map_iff in Hc. destruct Hc as (i & <- & Hi).
    apply filter_In in Hi. destruct Hi as [Hi KP]. cbn. rewrite Z.eqb_refl, KP. cbn.
    apply zmem_In in Hi. rewrite RA in Hi. apply andb_true_iff in Hi. apply Hi.
  - apply znodup_b_complete. eapply Permutation_NoDup; [apply Permutation_sym; exact PI|].
    apply NoDup_filter, (J_nodup _ _ J).
  - apply forallb_forall. intros i _.
    destruct (k_probe (kind_of p i) && attached_b p (att ss) i) eqn:B; [|reflexivity]. cbn [negb orb].
    apply andb_true_iff in B. destruct B as [KP A].
    apply zmem_In. eapply Permutation_in; [apply Permutation_sym; exact PI|].
    apply filter_In. split; [|exact KP]. apply zmem_In. rewrite RA, A, (kind_norm_probe p i KP). reflexivity.
Qed.

(* ---- the main simulation ------------------------------------------------------------------------------ *)
Definition Inv (p : params) (s : st) (ss : s5) (owed : list (list cb)) : Prop :=
  R s ss /\ Jt p s /\ map glc (queue s) = owed.

Lemma lc_generic p s0 ss owed evs ob s1 q :
  Jt p s0 -> enabled s0 = en ss -> map glc q = owed ->
  queue s0 = (if en ss then q else q ++ [[]]) ->
  effect p s0 evs ob s1 ->
  exists owed',
    (if en ss then (if cperm_b (filter is_lc (o_log ob)) (flat_map (ncall p) evs) then Some owed else None)
     else (if nil_b (filter is_lc (o_log ob)) then Some (owed ++ [flat_map (ncall p) evs]) else None))
    = Some owed' /\ map glc (queue s1) = owed'.
Proof.
  intros J0 EN Q Q0 EF. apply effect_lc in EF. destruct EF as (_ & _ & E1 & E2). rewrite EN in E1, E2.
  destruct (en ss).
  - destruct (E1 eq_refl) as [P ->]. rewrite (cperm_complete _ _ P). exists owed. now rewrite Q0.
  - destruct (E2 eq_refl) as [-> ->]. cbn [nil_b]. eexists; split; [reflexivity|].
    rewrite (J_selfl _ _ J0), Q0, qpushes_last, map_app, Q. cbn [map app]. f_equal. f_equal.
    apply glc_to_relay. intros c Hc. eapply notifs_shape; eauto.
Qed.

Lemma op_lc p s ss ss' owed pt o ob s1 :
  Inv p s ss owed -> (en ss = true -> pt = false -> owed = []) -> known_step p ss pt o = false ->
  step_op p (open_group s) o ob = Some s1 -> step5 p ss o ob = Some ss' -> R s1 ss' ->
  exists owed', lc_check p ss owed o ob = Some owed' /\ Jt p s1 /\ map glc (queue s1) = owed' /\
    match o with Probe tok => negb (en ss) || probe_check p ss tok (o_log ob) | _ => true end = true.
Proof.
  intros (HR & J & Q) OE KN OP S5 HR1. set (s0 := open_group s) in *.
  assert (HR0 : R s0 ss) by (eapply R_core; [apply core_open_group|exact HR]).
  assert (EN0 : enabled s0 = en ss).
  { rewrite <- (R_en _ _ HR). unfold s0, open_group. destruct (enabled s) eqn:E; cbn; congruence. }
  assert (J0 : Jt p s0).
  { apply (Jt_view p s s0); [| | | |exact J]; unfold s0, open_group; destruct (enabled s); reflexivity. }
  assert (Q0 : queue s0 = if en ss then queue s else queue s ++ [[]]).
  { rewrite <- (R_en _ _ HR). unfold s0, open_group. destruct (enabled s); reflexivity. }
  assert (G : forall evs, effect p s0 evs ob s1 -> Jt p s1 ->
     flat_map (ncall p) evs = notifs p ss o ob ->
     exists owed',
       (if en ss then (if cperm_b (filter is_lc (o_log ob)) (notifs p ss o ob) then Some owed else None)
        else (if nil_b (filter is_lc (o_log ob)) then Some (owed ++ [notifs p ss o ob]) else None))
       = Some owed' /\ Jt p s1 /\ map glc (queue s1) = owed' /\ true = true).
  { intros evs EF J1 <-. destruct (lc_generic p s0 ss owed evs ob s1 (queue s) J0 EN0 Q Q0 EF) as (ow & A & B).
    exists ow. auto. }
  (* operations without lifecycle events and without effect on registrations *)
  assert (Z : forall sZ, ents sZ = ents s0 -> reg sZ = reg s0 -> pkey sZ = pkey s0 -> selfl sZ = selfl s0 ->
     queue sZ = queue s0 -> filter is_lc (o_log ob) = [] -> notifs p ss o ob = [] ->
     exists owed',
       (if en ss then (if cperm_b (filter is_lc (o_log ob)) (notifs p ss o ob) then Some owed else None)
        else (if nil_b (filter is_lc (o_log ob)) then Some (owed ++ [notifs p ss o ob]) else None))
       = Some owed' /\ Jt p sZ /\ map glc (queue sZ) = owed').
  { intros sZ Z1 Z2 Z3 Z4 Z5 L N. rewrite L, N. cbn [nil_b]. rewrite Z5, Q0.
    assert (JZ : Jt p sZ) by (eapply Jt_view; eauto).
    destruct (en ss); eexists; (split; [reflexivity|split; [exact JZ|]]); [exact Q|].
    rewrite map_app, Q. reflexivity. }
  destruct o as [eid comps|e i|e ty|e imm| | |v|tok|]; unfold lc_check.
  - destruct (fact_create _ _ _ _ _ _ _ _ HR0 J0 KN OP) as [J1 EF]. eapply G; eauto.
  - destruct (fact_add _ _ _ _ _ _ _ _ HR0 J0 KN OP) as [J1 EF]. eapply G; eauto.
  - destruct (fact_remove _ _ _ _ _ _ _ HR0 J0 OP) as [J1 EF]. eapply G; eauto.
  - destruct (fact_delete _ _ _ _ _ _ _ HR0 J0 OP) as [J1 EF]. destruct imm; eapply G; eauto.
  - destruct (fact_process _ _ _ _ _ HR0 J0 OP) as [J1 EF]. eapply G; eauto.
  - (* Clear: only while enabled and with nothing postponed *)
    cbn [known_step] in KN. apply orb_false_iff in KN. destruct KN as [KN KP].
    apply negb_false_iff in KN. rewrite (OE KN KP). rewrite KN in *.
    cbn [step_op] in OP.
    destruct (delete_all p (s0, []) (akeys (ents s0))) as [[s2 cs]|] eqn:DA; [|discriminate].
    destruct (o_exc ob =? 0); [|discriminate]. cbn [andb] in OP.
    destruct (cperm_b (o_log ob) cs) eqn:P; [|discriminate]. injection OP as <-.
    apply delete_all_deff in DA. destruct DA as (_ & _ & A3 & _). rewrite EN0 in A3. cbn [app] in A3.
    assert (N : notifs p ss Clear ob = cs).
    { unfold notifs. cbn [events]. now rewrite <- (R_ents _ _ HR0). }
    rewrite N. apply cperm_sound, (Permutation_filter is_lc) in P.
    rewrite (filter_all is_lc cs) in P.
    2:{ intros c Hc. subst cs. apply lc_shape_is_lc. eapply notifs_shape; eauto. }
    cbn [app]. rewrite (match_groups_single _ _ P). exists []. split; [reflexivity|].
    split; [|split; reflexivity].
    assert (E0 : ents s2 = []).
    { assert (X := R_ents _ _ HR1). cbn [ents] in X. rewrite X. apply step5_qs in S5. destruct S5 as [S5 _]. cbn in S5. now injection S5 as <-. }
    apply (Jt_view p init); [exact E0|reflexivity|reflexivity|reflexivity|apply Jt_init].
  - (* SetEnabled *)
    cbn [step_op] in OP. destruct v.
    + assert (N : notifs p ss (SetEnabled true) ob = []) by reflexivity. rewrite N.
      assert (QW : map glc (queue s0) = (if en ss then owed else owed ++ [[]])).
      { rewrite Q0. destruct (en ss); [exact Q|]. rewrite map_app, Q. reflexivity. }
      destruct (o_exc ob =? 3).
      * (* a postponed callback raised: the rest stays in the queue / owed *)
        destruct (selfl _); [|discriminate].
        destruct (release_raise _ _ _) as [q'|] eqn:RR; [|discriminate]. injection OP as <-.
        cbn [queue set_enabled] in RR. apply release_raise_sim in RR. destruct RR as [RR FL].
        rewrite FL, <- QW, RR. exists (map glc q'). split; [reflexivity|].
        split; [|split; reflexivity].
        eapply Jt_view; [| | | |exact J0]; reflexivity.
      * destruct (o_exc ob =? 4).
        { (* a postponed callback disabled dispatching: the release stopped there *)
          destruct (selfl _); [|discriminate].
          destruct (release_raise _ _ _) as [q'|] eqn:RR; [|discriminate]. injection OP as <-.
          cbn [queue set_enabled] in RR. apply release_raise_sim in RR. destruct RR as [RR FL].
          rewrite FL, <- QW, RR. exists (map glc q'). split; [reflexivity|].
          split; [|split; reflexivity].
          eapply Jt_view; [| | | |exact J0]; reflexivity. }
        destruct (o_exc ob =? 0); [|discriminate]. cbn [andb] in OP.
        destruct (match_groups _ _) eqn:MG; [|discriminate]. cbn [andb] in OP.
        destruct (forallb _ (o_log ob)); [|discriminate]. injection OP as <-.
        apply (match_groups_filter is_lc) in MG. rewrite map_map in MG.
        rewrite (map_ext _ glc) in MG.
        2:{ intros g. apply deliver_lc. cbn. apply (J_selfl _ _ J0). }
        cbn [queue set_enabled] in MG. rewrite QW in MG.
        rewrite MG. exists []. split; [reflexivity|]. split; [|split; reflexivity].
        eapply Jt_view; [| | | |exact J0]; reflexivity.
    + destruct (o_exc ob =? 0); [|discriminate]. cbn [andb] in OP.
      destruct (nil_b (o_log ob)) eqn:L; [|discriminate]. injection OP as <-. apply nil_b_true in L.
      destruct (Z (set_enabled s0 false)) as (ow & A & B & C); try reflexivity; [now rewrite L|].
      exists ow. auto.
  - (* Probe *)
    cbn [step_op] in OP.
    assert (PL : cperm_b (o_log ob) (deliver p s0 (QProbeE tok)) = true -> filter is_lc (o_log ob) = []).
    { intros P. apply cperm_sound, (Permutation_filter is_lc) in P.
      rewrite (filter_none is_lc (deliver p s0 (QProbeE tok))) in P.
      - now apply Permutation_nil, Permutation_sym.
      - intros c Hc. apply in_map_iff in Hc. now destruct Hc as (i & <- & _). }
    destruct (negb (pkey s0)) eqn:PK.
    + destruct (o_exc ob =? 0); [|discriminate]. cbn [andb] in OP.
      destruct (nil_b (o_log ob)) eqn:L; [|discriminate]. injection OP as <-.
      destruct (Z s0) as (ow & A & B & C); try reflexivity; [apply nil_b_true in L; now rewrite L|].
      exists ow. split; [exact A|split; [exact B|split; [exact C|]]].
      destruct (en ss); [|reflexivity]. cbn [negb orb].
      apply (probe_sim p s0 ss tok _ HR0 J0). now rewrite PK.
    + destruct (negb (enabled s0)) eqn:EN.
      * destruct (o_exc ob =? 0); [|discriminate]. cbn [andb] in OP.
        destruct (nil_b (o_log ob)) eqn:L; [|discriminate]. injection OP as <-.
        apply negb_true_iff in EN. rewrite EN0 in EN. rewrite EN in *. apply nil_b_true in L.
        rewrite L. cbn [filter nil_b]. eexists; split; [reflexivity|]. split; [|split; [|reflexivity]].
        -- eapply Jt_view; [| | | |exact J0]; reflexivity.
        -- cbn [queue set_queue]. rewrite Q0, qpush_last, !map_app, Q. reflexivity.
      * destruct (o_exc ob =? 0); [|discriminate]. cbn [andb] in OP.
        destruct (cperm_b (o_log ob) _) eqn:P; [|discriminate]. injection OP as <-.
        destruct (Z s0) as (ow & A & B & C); try reflexivity; [now apply PL|].
        exists ow. split; [exact A|split; [exact B|split; [exact C|]]].
      destruct (en ss); [|reflexivity]. cbn [negb orb].
        apply (probe_sim p s0 ss tok _ HR0 J0). now rewrite PK.
  - (* AddProc *)
    cbn [step_op] in OP. destruct (o_exc ob =? 0); [|discriminate]. cbn [andb] in OP.
    destruct (nil_b (o_log ob)) eqn:L; [|discriminate]. injection OP as <-. apply nil_b_true in L.
    destruct (Z (set_procs s0 true)) as (ow & A & B & C); try reflexivity; [now rewrite L|].
    exists ow. auto.
Qed.

(* dispatching state after an operation, read off the operation *)
Lemma en_step5 p s o ob s' : step5 p s o ob = Some s' ->
  en s' = match o with SetEnabled v => v | Clear => true | _ => en s end.
Proof.
  intros H. apply step5_qs in H. destruct H as [H _].
  destruct o as [eid comps|e i|e ty|e imm| | |v|tok|]; cbn [step5_op] in H.
  - destruct (match eid with Some e => Some e | None => o_ret ob end); [|discriminate]. now injection H as <-.
  - now injection H as <-.
  - destruct (oz_eqb _ _); [|discriminate]. destruct (tget (att s) e ty); now injection H as <-.
  - destruct imm.
    + destruct (towns (att s) e); [destruct (o_exc ob =? 0)|destruct (o_exc ob =? 1)];
        try discriminate; now injection H as <-.
    + destruct (o_exc ob =? 0); [|discriminate]. now injection H as <-.
  - destruct (o_exc ob =? 0).
    + destruct (apply_deletes p (en s) (att s) (pend s)) as [t cs].
      destruct (_ && _); [|discriminate]. now injection H as <-.
    + destruct (o_exc ob =? 1); [|discriminate]. destruct (o_ret ob) as [f|]; [|discriminate].
      destruct (_ && _); [|discriminate].
      destruct (apply_deletes p (en s) (att s) (o_done ob)) as [t cs].
      destruct (cperm_b _ _); [|discriminate]. now injection H as <-.
  - now injection H as <-.
  - now injection H as <-.
  - now injection H as <-.
  - now injection H as <-.
Qed.

Lemma step2_parts p s owed o ob s' owed' : step2 p (s, owed) o ob = Some (s', owed') ->
  step5 p s o ob = Some s' /\ lc_check p s owed o ob = Some owed' /\
  (forall q, In q (o_qs ob) -> qcheck2 p s' q = true).
Proof.
  unfold step2. destruct (step5 p s o ob) as [s1|]; [|discriminate].
  destruct (lc_check p s owed o ob) as [ow|]; [|discriminate].
  destruct (forallb (qcheck2 p s1) (o_qs ob)) eqn:Q; [|discriminate]. cbn [andb].
  destruct (match o with Probe _ => _ | _ => true end); [|discriminate]. intros [= <- <-].
  split; [reflexivity|]. split; [reflexivity|]. now apply forallb_forall.
Qed.

Lemma owed_inv p s owed pt o ob s' owed' :
  step5 p s o ob = Some s' -> lc_check p s owed o ob = Some owed' ->
  (en s = true -> pt = false -> owed = []) ->
  (en s' = true -> partial_next pt o ob = false -> owed' = []).
Proof.
  intros S5 LC I. rewrite (en_step5 _ _ _ _ _ S5). unfold lc_check in LC. unfold partial_next.
  destruct o as [eid comps|e i|e ty|e imm| | |v|tok|];
    try (intros EN PT; rewrite EN in LC; destruct (cperm_b _ _); [|discriminate];
         injection LC as <-; now apply I).
  - intros _ _. destruct (match_groups _ _); [|discriminate]. now injection LC as <-.
  - destruct v; [|discriminate]. intros _ X. apply negb_false_iff, Z.eqb_eq in X. rewrite X in LC.
    cbn in LC. destruct (match_groups _ _); [|discriminate]. now injection LC as <-.
Qed.

Lemma step2_sim p s ss owed pt o ob s' :
  Inv p s ss owed -> (en ss = true -> pt = false -> owed = []) ->
  known_step p ss pt o = false -> step p s o ob = Some s' ->
  exists ss' owed', step2 p (ss, owed) o ob = Some (ss', owed') /\
                    step5 p ss o ob = Some ss' /\ Inv p s' ss' owed' /\
                    (en ss' = true -> partial_next pt o ob = false -> owed' = []).
Proof.
  intros I OE KN ST. assert (I' := I). destruct I' as (HR & J & Q).
  destruct (step_sim _ _ _ _ _ _ HR ST) as (ss' & S5 & HR').
  unfold step in ST. destruct (step_op p (open_group s) o ob) as [s1|] eqn:OP; [|discriminate].
  destruct (forallb (qcheck s1) (o_qs ob)) eqn:QS; [|discriminate]. injection ST as <-.
  destruct (op_lc _ _ _ _ _ _ _ _ _ I OE KN OP S5 HR') as (ow & LC & J1 & Q1 & PC).
  exists ss', ow. unfold step2. rewrite S5, LC.
  assert (QC : forallb (qcheck2 p ss') (o_qs ob) = true).
  { apply forallb_forall. intros q Hq. eapply qcheck2_sim; eauto.
    eapply forallb_forall in QS; eauto. }
  rewrite QC, PC. cbn [andb]. split; [reflexivity|]. split; [reflexivity|].
  split; [split; [exact HR'|split; [exact J1|exact Q1]]|].
  eapply owed_inv; eauto.
Qed.

Lemma run2_sim p tr : forall s ss owed pt s',
  Inv p s ss owed -> (en ss = true -> pt = false -> owed = []) ->
  known_from p ss pt tr = false -> run p s tr = Some s' ->
  exists sw, run2 p (ss, owed) tr = Some sw.
Proof.
  induction tr as [|[o ob] tr IH]; intros s ss owed pt s' I OE KN; cbn [run run2 known_from] in *.
  - eauto.
  - apply orb_false_iff in KN. destruct KN as [K1 K2].
    destruct (step p s o ob) as [s1|] eqn:E; [|discriminate]. intros H.
    destruct (step2_sim _ _ _ _ _ _ _ _ I OE K1 E) as (ss1 & ow & -> & S5 & I1 & OE1).
    rewrite S5 in K2. eapply IH; eauto.
Qed.

Lemma Inv_init p : Inv p init s5_init [].
Proof. split; [apply R_init|split; [apply Jt_init|reflexivity]]. Qed.

Theorem accepts_holds2 c : known_b c = false -> accepts c = true -> holds c.
Proof.
  unfold known_b, accepts, holds, holds_b. intros KN.
  destruct (run (c_p c) init (c_tr c)) as [s'|] eqn:E; [|discriminate]. intros _.
  destruct (run2_sim _ _ _ _ _ _ _ (Inv_init (c_p c)) (fun _ _ => eq_refl) KN E) as [sw ->].
  reflexivity.
Qed.

(* ---- what the property machine says on raw observations ---------------------------------------------- *)
(* a release log is the owed groups one after the other, each up to order *)
Lemma match_groups_chunks gs : forall l, match_groups l gs = true ->
  exists chunks, l = concat chunks /\ Forall2 (@Permutation cb) chunks gs.
Proof.
  induction gs as [|g gs IH]; intros l; cbn [match_groups].
  - destruct l; [|discriminate]. exists []. split; [reflexivity|constructor].
  - intros H. apply andb_true_iff in H. destruct H as [H1 H2]. apply cperm_sound in H1.
    destruct (IH _ H2) as (ch & E & F). exists (firstn (length g) l :: ch). split.
    + cbn [concat]. rewrite <- E. symmetry. apply firstn_skipn.
    + now constructor.
Qed.
Lemma chunks_perm (chunks gs : list (list cb)) :
  Forall2 (@Permutation cb) chunks gs -> Permutation (concat chunks) (concat gs).
Proof. induction 1; cbn [concat]; [constructor|now apply Permutation_app]. Qed.

Lemma lc_check_conserves p s owed o ob owed' :
  lc_check p s owed o ob = Some owed' ->
  Permutation (concat owed ++ notifs p s o ob) (filter is_lc (o_log ob) ++ concat owed').
Proof.
  intros H.
  assert (G : (if en s then (if cperm_b (filter is_lc (o_log ob)) (notifs p s o ob) then Some owed else None)
               else (if nil_b (filter is_lc (o_log ob)) then Some (owed ++ [notifs p s o ob]) else None))
              = Some owed' ->
              Permutation (concat owed ++ notifs p s o ob) (filter is_lc (o_log ob) ++ concat owed')).
  { destruct (en s).
    - destruct (cperm_b _ _) eqn:P; [|discriminate]. intros [= <-]. apply cperm_sound in P.
      eapply perm_trans; [apply Permutation_app_comm|]. apply Permutation_app_tail. now apply Permutation_sym.
    - destruct (nil_b _) eqn:L; [|discriminate]. intros [= <-]. apply nil_b_true in L. rewrite L.
      cbn [app]. rewrite concat_app. cbn [concat]. now rewrite app_nil_r. }
  assert (M : forall gs, match_groups (filter is_lc (o_log ob)) gs = true ->
              Permutation (concat gs) (filter is_lc (o_log ob) ++ concat [])).
  { intros gs MG. apply match_groups_chunks in MG. destruct MG as (ch & -> & F).
    cbn [concat]. rewrite app_nil_r. apply Permutation_sym. now apply chunks_perm. }
  unfold lc_check in H. destruct o as [eid comps|e i|e ty|e imm| | |v|tok|]; try (now apply G).
  - (* Clear *)
    destruct (match_groups _ _) eqn:MG; [|discriminate]. injection H as <-.
    apply M in MG. rewrite concat_app in MG. cbn [concat] in MG. now rewrite app_nil_r in MG.
  - destruct v; [|now apply G].
    assert (N : notifs p s (SetEnabled true) ob = []) by reflexivity. rewrite N in *.
    assert (C : concat (if en s then owed else owed ++ [[]]) = concat owed ++ []).
    { destruct (en s); [now rewrite app_nil_r|]. rewrite concat_app. reflexivity. }
    destruct (o_exc ob =? 3); [apply owed_raise_perm in H; now rewrite C in H|].
    destruct (o_exc ob =? 4); [apply owed_raise_perm in H; now rewrite C in H|].
    destruct (match_groups _ _) eqn:MG; [|discriminate]. injection H as <-. apply M in MG.
    now rewrite C in MG.
Qed.

(* all events of a history / all lifecycle calls observed in it *)
Fixpoint total_notifs (p : params) (s : s5) (tr : trace) : list cb :=
  match tr with
  | [] => []
  | (o, ob) :: tr => notifs p s o ob ++
      match step5 p s o ob with Some s' => total_notifs p s' tr | None => [] end
  end.
Definition total_calls (tr : trace) : list cb := flat_map (fun oo => filter is_lc (o_log (snd oo))) tr.

(* exactly once, nothing lost: what the events of a history owe = what was
   called + what is still postponed *)
Lemma conservation p tr : forall s owed s' owed',
  run2 p (s, owed) tr = Some (s', owed') ->
  Permutation (concat owed ++ total_notifs p s tr) (total_calls tr ++ concat owed').
Proof.
  induction tr as [|[o ob] tr IH]; intros s owed s' owed'; cbn [run2 total_notifs total_calls flat_map].
  - intros [= <- <-]. rewrite app_nil_r. apply Permutation_refl.
  - destruct (step2 p (s, owed) o ob) as [[s1 ow]|] eqn:E; [|discriminate]. intros H.
    apply step2_parts in E. destruct E as (S5 & LC & _). rewrite S5.
    specialize (IH _ _ _ _ H). apply lc_check_conserves in LC. cbn [snd].
    rewrite app_assoc. eapply perm_trans; [apply Permutation_app_tail; exact LC|].
    rewrite <- !app_assoc. now apply Permutation_app_head.
Qed.

(* a release delivers the postponed calls operation after operation *)
Lemma release_in_order p s owed ob s' owed' :
  step2 p (s, owed) (SetEnabled true) ob = Some (s', owed') -> en s = false ->
  (o_exc ob =? 3) = false -> (o_exc ob =? 4) = false ->
  owed' = [] /\ exists chunks, filter is_lc (o_log ob) = concat chunks /\
                Forall2 (@Permutation cb) chunks (owed ++ [[]]).
Proof.
  intros H EN X X4. apply step2_parts in H. destruct H as (_ & LC & _). unfold lc_check in LC.
  rewrite EN, X, X4 in LC. destruct (match_groups _ _) eqn:MG; [|discriminate]. injection LC as <-.
  split; [reflexivity|]. now apply match_groups_chunks.
Qed.

(* while enabled the calls of an operation are those its events owe; while
   disabled there are none and they are postponed *)
Lemma inside_operation p s owed o ob s' owed' :
  step2 p (s, owed) o ob = Some (s', owed') -> o <> SetEnabled true -> o <> Clear ->
  (en s = true -> Permutation (filter is_lc (o_log ob)) (notifs p s o ob) /\ owed' = owed) /\
  (en s = false -> filter is_lc (o_log ob) = [] /\ owed' = owed ++ [notifs p s o ob]).
Proof.
  intros H N1 N2. apply step2_parts in H. destruct H as (_ & LC & _). unfold lc_check in LC.
  assert (G : (if en s then (if cperm_b (filter is_lc (o_log ob)) (notifs p s o ob) then Some owed else None)
               else (if nil_b (filter is_lc (o_log ob)) then Some (owed ++ [notifs p s o ob]) else None))
              = Some owed' ->
     (en s = true -> Permutation (filter is_lc (o_log ob)) (notifs p s o ob) /\ owed' = owed) /\
     (en s = false -> filter is_lc (o_log ob) = [] /\ owed' = owed ++ [notifs p s o ob])).
  { destruct (en s).
    - destruct (cperm_b _ _) eqn:P; [|discriminate]. intros [= <-]. split; [|discriminate].
      intros _. split; [now apply cperm_sound|reflexivity].
    - destruct (nil_b _) eqn:L; [|discriminate]. intros [= <-]. split; [discriminate|].
      intros _. split; [now apply nil_b_true|reflexivity]. }
  destruct o as [eid comps|e i|e ty|e imm| | |v|tok|]; try (now apply G).
  destruct v; [congruence|now apply G].
Qed.

Lemma registered_iff_attached p s owed o ob s' owed' i r :
  step2 p (s, owed) o ob = Some (s', owed') -> In (QIsH i r) (o_qs ob) ->
  (r = true <-> k_h (kind_of p i) = true /\ attached p (att s') i).
Proof.
  intros H I. apply step2_parts in H. destruct H as (_ & _ & Q). specialize (Q _ I).
  cbn [qcheck2] in Q. apply eqb_prop in Q. rewrite Q, andb_true_iff, attached_b_spec. tauto.
Qed.

(* a release interrupted by a raising callback: what was called, one call after
   the other from the oldest operation that is still owed something, ends with
   the raising call; everything else is still owed *)
Lemma release_interrupted p s owed ob s' owed' :
  step2 p (s, owed) (SetEnabled true) ob = Some (s', owed') -> (o_exc ob =? 3) = true ->
  owed_raise raises (if en s then owed else owed ++ [[]]) (filter is_lc (o_log ob)) = Some owed' /\
  Permutation (concat owed) (filter is_lc (o_log ob) ++ concat owed').
Proof.
  intros H X. apply step2_parts in H. destruct H as (_ & LC & _). assert (LC' := LC).
  unfold lc_check in LC. rewrite X in LC. split; [exact LC|].
  apply lc_check_conserves in LC'. now rewrite app_nil_r in LC'.
Qed.

(* a release stopped by a callback that disabled dispatching again: the same,
   with the disabling call last *)
Lemma release_stopped p s owed ob s' owed' :
  step2 p (s, owed) (SetEnabled true) ob = Some (s', owed') -> (o_exc ob =? 4) = true ->
  owed_raise disables (if en s then owed else owed ++ [[]]) (filter is_lc (o_log ob)) = Some owed' /\
  Permutation (concat owed) (filter is_lc (o_log ob) ++ concat owed').
Proof.
  intros H X. apply step2_parts in H. destruct H as (_ & LC & _). assert (LC' := LC).
  unfold lc_check in LC. apply Z.eqb_eq in X. rewrite X in LC. cbn in LC. split; [exact LC|].
  apply lc_check_conserves in LC'. now rewrite app_nil_r in LC'.
Qed.
