(* C05 with re-entrant callbacks: every log accepted by the stack machine of
   LRModel.v satisfies the property machine of LR05.v.  The property machine is
   the projection of the model (handler bookkeeping and queue dropped); the
   content is that the relation R of LC05Proofs.v - in particular "a mark on an
   entity without a row is an error-path mark" - holds at every log entry, so
   that process() can only fail on such a mark.  Induction over the log; no
   fuel anywhere. *)
From Coq Require Import ZArith List Bool Lia Permutation.
From Desper Require Import Lib.Alist World.LLib World.LModel World.LC05 World.LC05Proofs
                           World.LRModel World.LR05.
Import ListNotations.
Open Scope Z_scope.

(* ---- projection of continuations ---------------------------------------------- *)
Definition pim (m : micro) : list micro :=
  match m with
  | MAddH _ | MRemH _ => []
  | MRelease _ => [MRelease []]
  | m => [m]
  end.
Definition pi (ms : list micro) : list micro := flat_map pim ms.

Lemma pi_app a b : pi (a ++ b) = pi a ++ pi b.
Proof. apply flat_map_app. Qed.
Lemma pi_rm p old e : pi (rm_micros p old e) = rm5 p old e.
Proof. unfold rm_micros, rm5. destruct (k_h (kind_of p old)); reflexivity. Qed.
Lemma pi_att p i e : pi (att_micros p i e) = att5 p i e.
Proof. unfold att_micros, att5. destruct (k_h (kind_of p i)); reflexivity. Qed.
Lemma pi_row p e r : pi (row_micros p e r) = row5 p e r.
Proof.
  unfold row_micros, row5. induction r as [|ti r IH]; cbn [flat_map]; [reflexivity|].
  now rewrite pi_app, pi_rm, IH.
Qed.
Lemma pi_atts p e comps :
  pi (flat_map (fun i => att_micros p i e) comps) = flat_map (fun i => att5 p i e) comps.
Proof.
  induction comps as [|i comps IH]; cbn [flat_map]; [reflexivity|]. now rewrite pi_app, pi_att, IH.
Qed.

Lemma pi_MSet e ty i d ms : pi (MSet e ty i d :: ms) = MSet e ty i d :: pi ms.
Proof. reflexivity. Qed.
Lemma pi_MRet r x : pi [MRet r x] = [MRet r x].
Proof. reflexivity. Qed.

(* ---- silent runs ------------------------------------------------------------------ *)
Lemma R_set s ss e ty i (d : bool) : R s ss ->
  R (set_ents (if d then set_dead s (zadd e (dead s)) else s)
              (tset (ents (if d then set_dead s (zadd e (dead s)) else s)) e ty i))
    (upd ss (tset (att ss) e ty i) (if d then zadd e (pend ss) else pend ss) (bad ss)).
Proof.
  intros [H1 H2 H3 H4 H5].
  destruct d; constructor; cbn [ents dead enabled procs set_ents set_dead att pend en prc bad upd];
    try congruence.
  - intros x Hx T. rewrite towns_tset in T. apply orb_false_iff in T. destruct T as [N T].
    apply Z.eqb_neq in N. apply In_zadd in Hx. destruct Hx as [->|Hx]; [congruence|]. now apply H5.
  - intros x Hx T. rewrite towns_tset in T. apply orb_false_iff in T. destruct T as [N T]. now apply H5.
Qed.

Lemma run_sim p ms : forall s ss s' ms',
  R s ss -> run_micro p s ms = (s', ms') ->
  exists ss', srun p ss (pi ms) = (ss', pi ms') /\ R s' ss'.
Proof.
  induction ms as [|m ms IH]; intros s ss s' ms' HR; cbn [run_micro].
  - intros [= <- <-]. exists ss. auto.
  - destruct m as [i|i|k i e|e ty i d|r x| | |gs].
    + intros H. cbn [pi flat_map pim app]. eapply IH; [|exact H].
      eapply R_core; [|exact HR]. apply core_add_handler.
    + intros H. cbn [pi flat_map pim app]. eapply IH; [|exact H].
      eapply R_core; [|exact HR]. apply core_remove_handler.
    + change (pi (MNotify k i e :: ms)) with (MNotify k i e :: pi ms). cbn [srun].
      rewrite <- (R_en _ _ HR). destruct (has_cb p k i); [|now apply IH].
      destruct (enabled s).
      * intros [= <- <-]. exists ss. auto.
      * intros H. eapply IH; [|exact H]. eapply R_core; [|exact HR]. apply core_relay.
    + change (pi (MSet e ty i d :: ms)) with (MSet e ty i d :: pi ms). cbn [srun].
      intros H. eapply IH; [|exact H]. now apply R_set.
    + intros [= <- <-]. exists ss. auto.
    + change (pi (MDrain :: ms)) with (MDrain :: pi ms). cbn [srun].
      rewrite <- (R_dead _ _ HR). destruct (nil_b (dead s)); [now apply IH|].
      intros [= <- <-]. exists ss. auto.
    + change (pi (MProcs :: ms)) with (MProcs :: pi ms). cbn [srun].
      rewrite <- (R_prc _ _ HR). destruct (procs s); [|now apply IH].
      intros [= <- <-]. exists ss. auto.
    + intros [= <- <-]. exists ss. auto.
Qed.

(* ---- immediate effects of an operation ------------------------------------------------ *)
Ltac rcbn := cbn [ents dead enabled procs queue set_ents set_dead set_enabled set_queue set_procs
                  att pend en prc bad upd].

Lemma R_tdel s ss e ty : R s ss ->
  R (if towns (tdel (ents s) e ty) e then set_ents s (tdel (ents s) e ty)
     else set_dead (set_ents s (tdel (ents s) e ty)) (zrem e (dead (set_ents s (tdel (ents s) e ty)))))
    (upd ss (tdel (att ss) e ty)
         (if towns (tdel (att ss) e ty) e then pend ss else zrem e (pend ss)) (bad ss)).
Proof.
  intros [H1 H2 H3 H4 H5]. rewrite <- H1.
  destruct (towns (tdel (ents s) e ty) e) eqn:T; constructor; rcbn; try congruence.
  - intros x Hx Tx. destruct (Z.eq_dec x e) as [->|N]; [congruence|].
    rewrite towns_tdel_other in Tx by exact N. now apply H5.
  - intros x Hx Tx. apply In_zrem in Hx. destruct Hx as [N Hx].
    rewrite towns_tdel_other in Tx by exact N. now apply H5.
Qed.

Lemma R_adel s ss e : R s ss ->
  R (set_dead (set_ents s (adel e (ents s))) (zrem e (dead s)))
    (upd ss (adel e (att ss)) (zrem e (pend ss)) (bad ss)).
Proof.
  intros [H1 H2 H3 H4 H5]. constructor; rcbn; try congruence.
  intros x Hx Tx. apply In_zrem in Hx. destruct Hx as [N Hx]. apply H5; [exact Hx|].
  unfold towns in *. rewrite amem_adel in Tx. apply Z.eqb_neq in N. now rewrite N in Tx.
Qed.

Lemma R_mark s ss e : R s ss ->
  R (set_dead s (zadd e (dead s)))
    (upd ss (att ss) (zadd e (pend ss)) (if towns (att ss) e then bad ss else zadd e (bad ss))).
Proof.
  intros [H1 H2 H3 H4 H5]. rewrite <- H1. constructor; rcbn; try congruence.
  intros x Hx Tx. apply In_zadd in Hx. destruct Hx as [->|Hx].
  - rewrite Tx. apply In_zadd. now left.
  - destruct (towns (ents s) e); [|apply In_zadd; right]; now apply H5.
Qed.

Lemma R_fold_tset (f : Z -> Z) s ss e comps : R s ss ->
  R (set_ents s (fold_left (fun t i => tset t e (f i) i) comps (ents s)))
    (upd ss (fold_left (fun t i => tset t e (f i) i) comps (att ss)) (pend ss) (bad ss)).
Proof.
  intros [H1 H2 H3 H4 H5]. constructor; rcbn; try congruence.
  intros x Hx Tx. apply H5; [exact Hx|]. eapply mono_false; [|exact Tx]. apply towns_fold_tset.
Qed.

Lemma compile_sim p s ss a oret s1 ms :
  R s ss -> compile p s a oret = Some (s1, ms) ->
  exists ss1, compile5 p ss a oret = Some (ss1, pi ms) /\ R s1 ss1.
Proof.
  intros HR. assert (HE := R_ents _ _ HR). assert (HD := R_dead _ _ HR).
  destruct a as [eid comps|e i|e ty|e imm| | |v|tok|]; cbn [compile compile5].
  - (* Create *)
    assert (X : forall e, exists ss1,
       Some (upd ss (fold_left (fun t i => tset t e (ty_of p i) i) comps (att ss)) (pend ss) (bad ss),
             flat_map (fun i => att5 p i e) comps ++ [MRet (Some e) 0])
       = Some (ss1, pi (flat_map (fun i => att_micros p i e) comps ++ [MRet (Some e) 0]))
       /\ R (set_ents s (fold_left (fun t i => tset t e (ty_of p i) i) comps (ents s))) ss1).
    { intros e. eexists. split; [now rewrite pi_app, pi_atts|]. now apply R_fold_tset. }
    destruct eid as [e|].
    + intros [= <- <-]. apply X.
    + destruct oret as [e|]; [|discriminate].
      replace (towns (att ss) e) with (amem e (ents s)) by (unfold towns; now rewrite HE).
      destruct (amem e (ents s)); [discriminate|]. intros [= <- <-]. apply X.
  - (* Add *)
    replace (tget (att ss) e (ty_of p i)) with (tget (ents s) e (ty_of p i)) by now rewrite HE.
    replace (zmem e (pend ss)) with (zmem e (dead s)) by now rewrite HD.
    destruct (tget (ents s) e (ty_of p i)) as [old|].
    + intros [= <- <-]. eexists. split.
      * cbn [app]. rewrite pi_app, pi_rm, pi_MSet, pi_app, pi_att, pi_MRet. reflexivity.
      * apply (R_tdel s ss e (ty_of p i) HR).
    + intros [= <- <-]. exists ss. split; [|exact HR].
      cbn [app]. rewrite pi_MSet, pi_app, pi_att, pi_MRet. reflexivity.
  - (* Remove *)
    replace (tget (att ss) e ty) with (tget (ents s) e ty) by now rewrite HE.
    destruct (tget (ents s) e ty) as [old|].
    + intros [= <- <-]. eexists. split.
      * rewrite pi_app, pi_rm, pi_MRet. reflexivity.
      * apply (R_tdel s ss e ty HR).
    + intros [= <- <-]. exists ss. auto.
  - (* Delete *)
    destruct imm.
    + replace (alookup e (att ss)) with (alookup e (ents s)) by now rewrite HE.
      destruct (alookup e (ents s)) as [r|].
      * intros [= <- <-]. eexists. split.
        -- rewrite pi_app, pi_row, pi_MRet. reflexivity.
        -- now apply R_adel.
      * intros [= <- <-]. exists ss. auto.
    + intros [= <- <-]. eexists. split; [reflexivity|]. now apply R_mark.
  - intros [= <- <-]. exists ss. auto.
  - discriminate.
  - destruct HR as [H1 H2 H3 H4 H5]. destruct v; intros [= <- <-]; eexists; (split; [reflexivity|]);
      constructor; rcbn; auto.
  - discriminate.
  - destruct HR as [H1 H2 H3 H4 H5]. intros [= <- <-]. eexists. split; [reflexivity|].
    constructor; rcbn; auto.
Qed.
