(* C05 with re-entrant callbacks: every log accepted by the stack machine of
   LRModel.v satisfies the property machine of LR05.v.  The property machine is
   the projection of the model (handler bookkeeping and queue dropped); the
   content is that the relation R of LC05Proofs.v - in particular "a mark on an
   entity without a row is an error-path mark" - holds at every log entry, so
   that process() can only fail on such a mark.  Induction over the log; no
   fuel anywhere. *)
From Coq Require Import ZArith List Bool Lia Permutation.
From Desper Require Import Lib.Alist World.LLib World.LModel World.LC05 World.LC05Proofs
                           World.LRModel World.LR05.
Import ListNotations.
Open Scope Z_scope.

(* ---- projection of continuations ---------------------------------------------- *)
Definition pim (m : micro) : list micro :=
  match m with
  | MAddH _ | MRemH _ => []
  | MRelease _ => [MRelease []]
  | m => [m]
  end.
Definition pi (ms : list micro) : list micro := flat_map pim ms.

Lemma pi_app a b : pi (a ++ b) = pi a ++ pi b.
Proof. apply flat_map_app. Qed.
Lemma pi_rm p old e : pi (rm_micros p old e) = rm5 p old e.
Proof. unfold rm_micros, rm5. destruct (k_h (kind_of p old)); reflexivity. Qed.
Lemma pi_att p i e : pi (att_micros p i e) = att5 p i e.
Proof. unfold att_micros, att5. destruct (k_h (kind_of p i)); reflexivity. Qed.
Lemma pi_row p e r : pi (row_micros p e r) = row5 p e r.
Proof.
  unfold row_micros, row5. induction r as [|ti r IH]; cbn [flat_map]; [reflexivity|].
  now rewrite pi_app, pi_rm, IH.
Qed.
Lemma pi_atts p e comps :
  pi (flat_map (fun i => att_micros p i e) comps) = flat_map (fun i => att5 p i e) comps.
Proof.
  induction comps as [|i comps IH]; cbn [flat_map]; [reflexivity|]. now rewrite pi_app, pi_att, IH.
Qed.

(* ---- silent runs ------------------------------------------------------------------ *)
Lemma R_set p s ss e ty i d : R s ss ->
  R (set_ents (if d then set_dead s (zadd e (dead s)) else s)
              (tset (ents (if d then set_dead s (zadd e (dead s)) else s)) e ty i))
    (upd ss (tset (att ss) e ty i) (if d then zadd e (pend ss) else pend ss) (bad ss)).
Proof.
  intros [H1 H2 H3 H4 H5]. destruct d; constructor; cbn; try congruence.
  - intros x Hx T. rewrite towns_tset in T. apply orb_false_iff in T. destruct T as [N T].
    apply Z.eqb_neq in N. apply In_zadd in Hx. destruct Hx as [->|Hx]; [congruence|]. now apply H5.
  - intros x Hx T. rewrite towns_tset in T. apply orb_false_iff in T. destruct T as [N T]. now apply H5.
Qed.

Lemma run_sim p ms : forall s ss s' ms',
  R s ss -> run_micro p s ms = (s', ms') ->
  exists ss', srun p ss (pi ms) = (ss', pi ms') /\ R s' ss'.
Proof.
  induction ms as [|m ms IH]; intros s ss s' ms' HR; cbn [run_micro].
  - intros [= <- <-]. exists ss. auto.
  - destruct m as [i|i|k i e|e ty i d|r x| | |gs].
    + intros H. cbn [pi flat_map pim app]. eapply IH; [|exact H].
      eapply R_core; [|exact HR]. apply core_add_handler.
    + intros H. cbn [pi flat_map pim app]. eapply IH; [|exact H].
      eapply R_core; [|exact HR]. apply core_remove_handler.
    + change (pi (MNotify k i e :: ms)) with (MNotify k i e :: pi ms). cbn [srun].
      rewrite <- (R_en _ _ HR). destruct (has_cb p k i); [|now apply IH].
      destruct (enabled s).
      * intros [= <- <-]. exists ss. auto.
      * intros H. eapply IH; [|exact H]. eapply R_core; [|exact HR]. apply core_relay.
    + change (pi (MSet e ty i d :: ms)) with (MSet e ty i d :: pi ms). cbn [srun].
      intros H. eapply IH; [|exact H]. now apply R_set.
    + intros [= <- <-]. exists ss. auto.
    + change (pi (MDrain :: ms)) with (MDrain :: pi ms). cbn [srun].
      rewrite <- (R_dead _ _ HR). destruct (nil_b (dead s)); [now apply IH|].
      intros [= <- <-]. exists ss. auto.
    + change (pi (MProcs :: ms)) with (MProcs :: pi ms). cbn [srun].
      rewrite <- (R_prc _ _ HR). destruct (procs s); [|now apply IH].
      intros [= <- <-]. exists ss. auto.
    + intros [= <- <-]. exists ss. auto.
Qed.
