(* C05 with re-entrant callbacks: every log accepted by the stack machine of
   LRModel.v satisfies the property machine of LR05.v.  The property machine is
   the projection of the model (handler bookkeeping and queue dropped); the
   content is that the relation R of LC05Proofs.v - in particular "a mark on an
   entity without a row is an error-path mark" - holds at every log entry, so
   that process() can only fail on such a mark.  Induction over the log; no
   fuel anywhere. *)
From Coq Require Import ZArith List Bool Lia Permutation.
From Desper Require Import Lib.Alist World.LLib World.LModel World.LC05 World.LC05Proofs
                           World.LRModel World.LR05.
Import ListNotations.
Open Scope Z_scope.

(* ---- projection of continuations ---------------------------------------------- *)
Definition pim (m : micro) : list micro :=
  match m with
  | MAddH _ | MRemH _ => []
  | MRelease _ => [MRelease []]
  | m => [m]
  end.
Definition pi (ms : list micro) : list micro := flat_map pim ms.

Lemma pi_app a b : pi (a ++ b) = pi a ++ pi b.
Proof. apply flat_map_app. Qed.
Lemma pi_rm p old e : pi (rm_micros p old e) = rm5 p old e.
Proof. unfold rm_micros, rm5. destruct (k_h (kind_of p old)); reflexivity. Qed.
Lemma pi_att p i e : pi (att_micros p i e) = att5 p i e.
Proof. unfold att_micros, att5. destruct (k_h (kind_of p i)); reflexivity. Qed.
Lemma pi_row p e r : pi (row_micros p e r) = row5 p e r.
Proof.
  unfold row_micros, row5. induction r as [|ti r IH]; cbn [flat_map]; [reflexivity|].
  now rewrite pi_app, pi_rm, IH.
Qed.
Lemma pi_atts p e comps :
  pi (flat_map (fun i => att_micros p i e) comps) = flat_map (fun i => att5 p i e) comps.
Proof.
  induction comps as [|i comps IH]; cbn [flat_map]; [reflexivity|]. now rewrite pi_app, pi_att, IH.
Qed.

Lemma pi_MSet e ty i d ms : pi (MSet e ty i d :: ms) = MSet e ty i d :: pi ms.
Proof. reflexivity. Qed.
Lemma pi_MRet r x : pi [MRet r x] = [MRet r x].
Proof. reflexivity. Qed.

(* ---- silent runs ------------------------------------------------------------------ *)
Lemma R_set s ss e ty i (d : bool) : R s ss ->
  R (set_ents (if d then set_dead s (zadd e (dead s)) else s)
              (tset (ents (if d then set_dead s (zadd e (dead s)) else s)) e ty i))
    (upd ss (tset (att ss) e ty i) (if d then zadd e (pend ss) else pend ss) (bad ss)).
Proof.
  intros [H1 H2 H3 H4 H5].
  destruct d; constructor; cbn [ents dead enabled procs set_ents set_dead att pend en prc bad upd];
    try congruence.
  - intros x Hx T. rewrite towns_tset in T. apply orb_false_iff in T. destruct T as [N T].
    apply Z.eqb_neq in N. apply In_zadd in Hx. destruct Hx as [->|Hx]; [congruence|]. now apply H5.
  - intros x Hx T. rewrite towns_tset in T. apply orb_false_iff in T. destruct T as [N T]. now apply H5.
Qed.

Lemma run_sim p ms : forall s ss s' ms',
  R s ss -> run_micro p s ms = (s', ms') ->
  exists ss', srun p ss (pi ms) = (ss', pi ms') /\ R s' ss'.
Proof.
  induction ms as [|m ms IH]; intros s ss s' ms' HR; cbn [run_micro].
  - intros [= <- <-]. exists ss. auto.
  - destruct m as [i|i|k i e|e ty i d|r x| | |gs].
    + intros H. cbn [pi flat_map pim app]. eapply IH; [|exact H].
      eapply R_core; [|exact HR]. apply core_add_handler.
    + intros H. cbn [pi flat_map pim app]. eapply IH; [|exact H].
      eapply R_core; [|exact HR]. apply core_remove_handler.
    + change (pi (MNotify k i e :: ms)) with (MNotify k i e :: pi ms). cbn [srun].
      rewrite <- (R_en _ _ HR). destruct (has_cb p k i); [|now apply IH].
      destruct (enabled s).
      * intros [= <- <-]. exists ss. auto.
      * intros H. eapply IH; [|exact H]. eapply R_core; [|exact HR]. apply core_relay.
    + change (pi (MSet e ty i d :: ms)) with (MSet e ty i d :: pi ms). cbn [srun].
      intros H. eapply IH; [|exact H]. now apply R_set.
    + intros [= <- <-]. exists ss. auto.
    + change (pi (MDrain :: ms)) with (MDrain :: pi ms). cbn [srun].
      rewrite <- (R_dead _ _ HR). destruct (nil_b (dead s)); [now apply IH|].
      intros [= <- <-]. exists ss. auto.
    + change (pi (MProcs :: ms)) with (MProcs :: pi ms). cbn [srun].
      rewrite <- (R_prc _ _ HR). destruct (procs s); [|now apply IH].
      intros [= <- <-]. exists ss. auto.
    + intros [= <- <-]. exists ss. auto.
Qed.

(* ---- immediate effects of an operation ------------------------------------------------ *)
Ltac rcbn := cbn [ents dead enabled procs queue set_ents set_dead set_enabled set_queue set_procs
                  att pend en prc bad upd].

Lemma R_tdel s ss e ty : R s ss ->
  R (if towns (tdel (ents s) e ty) e then set_ents s (tdel (ents s) e ty)
     else set_dead (set_ents s (tdel (ents s) e ty)) (zrem e (dead (set_ents s (tdel (ents s) e ty)))))
    (upd ss (tdel (att ss) e ty)
         (if towns (tdel (att ss) e ty) e then pend ss else zrem e (pend ss)) (bad ss)).
Proof.
  intros [H1 H2 H3 H4 H5]. rewrite <- H1.
  destruct (towns (tdel (ents s) e ty) e) eqn:T; constructor; rcbn; try congruence.
  - intros x Hx Tx. destruct (Z.eq_dec x e) as [->|N]; [congruence|].
    rewrite towns_tdel_other in Tx by exact N. now apply H5.
  - intros x Hx Tx. apply In_zrem in Hx. destruct Hx as [N Hx].
    rewrite towns_tdel_other in Tx by exact N. now apply H5.
Qed.

Lemma R_adel s ss e : R s ss ->
  R (set_dead (set_ents s (adel e (ents s))) (zrem e (dead s)))
    (upd ss (adel e (att ss)) (zrem e (pend ss)) (bad ss)).
Proof.
  intros [H1 H2 H3 H4 H5]. constructor; rcbn; try congruence.
  intros x Hx Tx. apply In_zrem in Hx. destruct Hx as [N Hx]. apply H5; [exact Hx|].
  unfold towns in *. rewrite amem_adel in Tx. apply Z.eqb_neq in N. now rewrite N in Tx.
Qed.

Lemma R_mark s ss e : R s ss ->
  R (set_dead s (zadd e (dead s)))
    (upd ss (att ss) (zadd e (pend ss)) (if towns (att ss) e then bad ss else zadd e (bad ss))).
Proof.
  intros [H1 H2 H3 H4 H5]. rewrite <- H1. constructor; rcbn; try congruence.
  intros x Hx Tx. apply In_zadd in Hx. destruct Hx as [->|Hx].
  - rewrite Tx. apply In_zadd. now left.
  - destruct (towns (ents s) e); [|apply In_zadd; right]; now apply H5.
Qed.

Lemma R_fold_tset (f : Z -> Z) s ss e comps : R s ss ->
  R (set_ents s (fold_left (fun t i => tset t e (f i) i) comps (ents s)))
    (upd ss (fold_left (fun t i => tset t e (f i) i) comps (att ss)) (pend ss) (bad ss)).
Proof.
  intros [H1 H2 H3 H4 H5]. constructor; rcbn; try congruence.
  intros x Hx Tx. apply H5; [exact Hx|]. eapply mono_false; [|exact Tx]. apply towns_fold_tset.
Qed.

Lemma compile_sim p s ss a oret s1 ms :
  R s ss -> compile p s a oret = Some (s1, ms) ->
  exists ss1, compile5 p ss a oret = Some (ss1, pi ms) /\ R s1 ss1.
Proof.
  intros HR. assert (HE := R_ents _ _ HR). assert (HD := R_dead _ _ HR).
  destruct a as [eid comps|e i|e ty|e imm| | |v|tok|]; cbn [compile compile5].
  - (* Create *)
    assert (X : forall e, exists ss1,
       Some (upd ss (fold_left (fun t i => tset t e (ty_of p i) i) comps (att ss)) (pend ss) (bad ss),
             flat_map (fun i => att5 p i e) comps ++ [MRet (Some e) 0])
       = Some (ss1, pi (flat_map (fun i => att_micros p i e) comps ++ [MRet (Some e) 0]))
       /\ R (set_ents s (fold_left (fun t i => tset t e (ty_of p i) i) comps (ents s))) ss1).
    { intros e. eexists. split; [now rewrite pi_app, pi_atts|]. now apply R_fold_tset. }
    destruct eid as [e|].
    + intros [= <- <-]. apply X.
    + destruct oret as [e|]; [|discriminate].
      replace (towns (att ss) e) with (amem e (ents s)) by (unfold towns; now rewrite HE).
      destruct (amem e (ents s)); [discriminate|]. intros [= <- <-]. apply X.
  - (* Add *)
    replace (tget (att ss) e (ty_of p i)) with (tget (ents s) e (ty_of p i)) by now rewrite HE.
    replace (zmem e (pend ss)) with (zmem e (dead s)) by now rewrite HD.
    destruct (tget (ents s) e (ty_of p i)) as [old|].
    + intros [= <- <-]. eexists. split.
      * cbn [app]. rewrite pi_app, pi_rm, pi_MSet, pi_app, pi_att, pi_MRet. reflexivity.
      * apply (R_tdel s ss e (ty_of p i) HR).
    + intros [= <- <-]. exists ss. split; [|exact HR].
      cbn [app]. rewrite pi_MSet, pi_app, pi_att, pi_MRet. reflexivity.
  - (* Remove *)
    replace (tget (att ss) e ty) with (tget (ents s) e ty) by now rewrite HE.
    destruct (tget (ents s) e ty) as [old|].
    + intros [= <- <-]. eexists. split.
      * rewrite pi_app, pi_rm, pi_MRet. reflexivity.
      * apply (R_tdel s ss e ty HR).
    + intros [= <- <-]. exists ss. auto.
  - (* Delete *)
    destruct imm.
    + replace (alookup e (att ss)) with (alookup e (ents s)) by now rewrite HE.
      destruct (alookup e (ents s)) as [r|].
      * intros [= <- <-]. eexists. split.
        -- rewrite pi_app, pi_row, pi_MRet. reflexivity.
        -- now apply R_adel.
      * intros [= <- <-]. exists ss. auto.
    + intros [= <- <-]. eexists. split; [reflexivity|]. now apply R_mark.
  - intros [= <- <-]. exists ss. auto.
  - discriminate.
  - destruct HR as [H1 H2 H3 H4 H5]. destruct v; intros [= <- <-]; eexists; (split; [reflexivity|]);
      constructor; rcbn; auto.
  - discriminate.
  - destruct HR as [H1 H2 H3 H4 H5]. intros [= <- <-]. eexists. split; [reflexivity|].
    constructor; rcbn; auto.
Qed.

(* ---- one log entry ------------------------------------------------------------------------ *)
Definition frel (f f5 : frame) : Prop :=
  match f, f5 with
  | FK ms, FK sms => sms = pi ms
  | FCb _, FCb _ => True
  | _, _ => False
  end.
Definition Rc (c : config) (c5 : config5) : Prop :=
  R (fst c) (fst c5) /\ Forall2 frel (snd c) (snd c5).

Lemma frel_FK ms f5 : frel (FK ms) f5 -> f5 = FK (pi ms).
Proof. destruct f5; cbn; [now intros ->|tauto]. Qed.
Lemma frel_FCb rest f5 : frel (FCb rest) f5 -> exists r5, f5 = FCb r5.
Proof. destruct f5; cbn; [tauto|eauto]. Qed.

Lemma pi_keep m ms : pim m = [m] -> pi (m :: ms) = m :: pi ms.
Proof. unfold pi. cbn [flat_map]. now intros ->. Qed.

Lemma lstep_sim p sc n c c5 x c' :
  Rc c c5 -> lstep p sc n c x = Some c' -> exists c5', lstep5 p c5 x = Some c5' /\ Rc c' c5'.
Proof.
  destruct c as [s stk], c5 as [ss sstk]. intros [HR HF]. cbn [fst snd] in HR, HF.
  assert (HE := R_ents _ _ HR). assert (HD := R_dead _ _ HR).
  destruct x as [a|r x|k i e w| |q|]; cbn [lstep].
  - (* LAct *)
    destruct stk as [|[ms|[|a' rest]] stk']; try discriminate.
    inversion HF as [|f f5 l l5 F1 F2]; subst. apply frel_FCb in F1. destruct F1 as [r5 ->].
    destruct (op_eqb a a' && script_ok a) eqn:C; [|discriminate].
    apply andb_true_iff in C. destruct C as [_ C].
    destruct (compile p s a None) as [[s1 ms]|] eqn:CP; [|discriminate].
    destruct (run_micro p s1 ms) as [s2 ms2] eqn:RM. intros [= <-].
    destruct (compile_sim _ _ _ _ _ _ _ HR CP) as (ss1 & CP5 & HR1).
    destruct (run_sim _ _ _ _ _ _ HR1 RM) as (ss2 & RM5 & HR2).
    cbn [lstep5]. rewrite C, CP5, RM5. eexists. split; [reflexivity|].
    split; [exact HR2|]. cbn [snd]. constructor; [reflexivity|]. constructor; [exact I|exact F2].
  - (* LRet *)
    destruct stk as [|[[|[]]|] stk']; try discriminate.
    destruct l; try discriminate.
    inversion HF as [|f f5 l l5 F1 F2]; subst. apply frel_FK in F1. subst f5.
    destruct (oz_eqb r r0 && (x =? x0)) eqn:C; [|discriminate]. intros [= <-].
    cbn [lstep5 pi flat_map pim app]. rewrite C. eexists. split; [reflexivity|]. split; assumption.
  - (* LCall *)
    destruct stk as [|[[|m ms]|] stk']; try discriminate.
    inversion HF as [|f f5 l l5 F1 F2]; subst. apply frel_FK in F1. subst f5.
    destruct m as [i0|i0|k0 i0 e0|e0 ty0 i0 d0|r0 x0| | |gs]; try discriminate.
    + (* a notification of the running operation *)
      destruct (_ && w); [|discriminate]. intros [= <-].
      rewrite pi_keep by reflexivity. cbn [lstep5]. eexists. split; [reflexivity|].
      split; [exact HR|]. cbn [snd]. constructor; [exact I|]. constructor; [reflexivity|exact F2].
    + (* the drain turns to the next marked entity *)
      rewrite pi_keep by reflexivity. cbn [lstep5]. rewrite <- HE, <- HD.
      destruct (alookup e (ents s)) as [r|]; [|discriminate].
      destruct (ck_eqb k CRem && w && zmem e (dead s)) eqn:C; [|discriminate].
      apply andb_true_iff in C. destruct C as [_ C]. rewrite C.
      destruct (run_micro p _ (row_micros p e r ++ MDrain :: ms)) as [s2 ms2] eqn:RM.
      destruct (run_sim _ _ _ _ _ _ (R_adel s ss e HR) RM) as (ss2 & RM5 & HR2).
      rewrite pi_app, pi_row, pi_keep in RM5 by reflexivity. rewrite HE, HD in *. rewrite RM5.
      destruct ms2 as [|[i1|i1|k1 i1 e1|e1 ty1 i1 d1|r1 x1| | |gs1] ms2]; try discriminate.
      destruct k1; try discriminate.
      destruct ((i =? i1) && (e =? e1)); [|discriminate]. intros [= <-].
      rewrite pi_keep by reflexivity. eexists. split; [reflexivity|].
      split; [exact HR2|]. cbn [snd]. constructor; [exact I|]. constructor; [reflexivity|exact F2].
    + (* a postponed notification is released *)
      destruct (take_relay k i e gs) as [gs'|]; [|discriminate]. destruct w; [|discriminate].
      intros [= <-]. change (pi (MRelease gs :: ms)) with (MRelease [] :: pi ms). cbn [lstep5].
      eexists. split; [reflexivity|]. split; [exact HR|]. cbn [snd].
      constructor; [exact I|]. constructor; [reflexivity|exact F2].
  - (* LEnd *)
    destruct stk as [|[|[|]] [|[ms|] stk']]; try discriminate.
    inversion HF as [|f f5 l l5 F1 F2]; subst. apply frel_FCb in F1. destruct F1 as [r5 ->].
    inversion F2 as [|g g5 l' l5' G1 G2]; subst. apply frel_FK in G1. subst g5.
    destruct (run_micro p s ms) as [s2 ms2] eqn:RM. intros [= <-].
    destruct (run_sim _ _ _ _ _ _ HR RM) as (ss2 & RM5 & HR2).
    cbn [lstep5]. rewrite RM5. eexists. split; [reflexivity|]. split; [exact HR2|]. cbn [snd].
    constructor; [reflexivity|exact G2].
  - (* LQ *)
    destruct stk as [|[|rest] stk']; try discriminate.
    inversion HF as [|f f5 l l5 F1 F2]; subst. apply frel_FCb in F1. destruct F1 as [r5 ->].
    destruct (qcheck s q) eqn:Q; [|discriminate]. intros [= <-].
    cbn [lstep5]. rewrite (qcheck_sim _ _ _ HR Q). eexists. split; [reflexivity|].
    split; [exact HR|]. cbn [snd]. constructor; [exact I|exact F2].
  - (* LProc *)
    destruct stk as [|[[|m ms]|] stk']; try discriminate.
    destruct m; try discriminate.
    inversion HF as [|f f5 l l5 F1 F2]; subst. apply frel_FK in F1. subst f5.
    destruct (run_micro p s ms) as [s2 ms2] eqn:RM. intros [= <-].
    destruct (run_sim _ _ _ _ _ _ HR RM) as (ss2 & RM5 & HR2).
    rewrite pi_keep by reflexivity. cbn [lstep5]. rewrite RM5.
    eexists. split; [reflexivity|]. split; [exact HR2|]. cbn [snd]. constructor; [reflexivity|exact F2].
Qed.

Lemma lrun_sim p sc log : forall n c c5 c',
  Rc c c5 -> lrun p sc n c log = Some c' -> exists c5', lrun5 p c5 log = Some c5' /\ Rc c' c5'.
Proof.
  induction log as [|x log IH]; intros n c c5 c' H; cbn [lrun lrun5].
  - intros [= <-]. eauto.
  - destruct (lstep p sc n c x) as [c1|] eqn:E; [|discriminate]. intros L.
    destruct (lstep_sim _ _ _ _ _ _ _ H E) as (c51 & -> & H1). eapply IH; eauto.
Qed.

Lemma R_prune s ss : R s ss ->
  R s (upd ss (att ss) (pend ss) (filter (fun e => zmem e (pend ss)) (bad ss))).
Proof.
  intros [H1 H2 H3 H4 H5]. constructor; rcbn; auto.
  intros x Hx T. apply filter_In. split; [now apply H5|]. apply zmem_In. now rewrite <- H2.
Qed.

(* a top-level operation through the machine *)
Lemma mstep_sim p sc s ss o ob s' :
  R s ss -> mstep p sc s o ob = Some s' -> exists ss', mstep5 p ss o ob = Some ss' /\ R s' ss'.
Proof.
  intros HR. unfold mstep, mstep5.
  destruct (compile p s o (ro_ret ob)) as [[s1 ms]|] eqn:CP; [|discriminate].
  destruct (compile_sim _ _ _ _ _ _ _ HR CP) as (ss1 & -> & HR1).
  destruct (run_micro p s1 ms) as [s2 ms2] eqn:RM.
  destruct (run_sim _ _ _ _ _ _ HR1 RM) as (ss2 & -> & HR2).
  destruct (lrun p sc 0%nat (s2, [FK ms2]) (ro_log ob)) as [[s3 stk]|] eqn:L; [|discriminate].
  assert (C0 : Rc (s2, [FK ms2]) (ss2, [FK (pi ms2)])).
  { split; [exact HR2|]. cbn [snd]. constructor; [reflexivity|constructor]. }
  destruct (lrun_sim _ _ _ _ _ _ _ C0 L) as ([ss3 sstk] & -> & HR3 & HF). cbn [fst snd] in HR3, HF.
  destruct stk as [|[[|m ms3]|] [|]]; try discriminate.
  inversion HF as [|f f5 l l5 F1 F2]; subst. inversion F2; subst. apply frel_FK in F1. subst f5.
  destruct m as [i0|i0|k0 i0 e0|e0 ty0 i0 d0|r0 x0| | |gs]; try discriminate.
  - (* returned *)
    destruct ms3; [|discriminate]. cbn [pi flat_map pim app].
    destruct (oz_eqb (ro_ret ob) r0 && (ro_exc ob =? x0)); [|discriminate]. intros [= <-].
    eexists. split; [reflexivity|]. destruct o; try exact HR3. now apply R_prune.
  - (* process() raised out of the drain *)
    rewrite pi_keep by reflexivity.
    destruct (ro_ret ob) as [f|]; [|discriminate].
    destruct (zmem f (dead s3)) eqn:ZF; [|discriminate].
    destruct (amem f (ents s3)) eqn:AF; [discriminate|]. cbn [negb andb].
    destruct (ro_exc ob =? 1); [|discriminate]. intros [= <-].
    assert (FB : zmem f (bad ss3) = true).
    { apply zmem_In. apply (R_bad _ _ HR3); [now apply zmem_In|exact AF]. }
    rewrite FB. cbn [andb]. eexists. split; [reflexivity|].
    destruct HR3 as [H1 H2 H3 H4 H5]. constructor; rcbn; try congruence.
    intros x Hx T. apply In_zrem in Hx. destruct Hx as [N Hx]. apply In_zrem. split; [exact N|].
    now apply H5.
  - (* the setter returned *)
    destruct ms3 as [|[i1|i1|k1 i1 e1|e1 ty1 i1 d1|r1 x1| | |gs1] [|]]; try discriminate.
    change (pi [MRelease gs; MRet r1 x1]) with [MRelease []; MRet r1 x1].
    destruct (forallb nil_b gs); [|discriminate]. cbn [andb].
    destruct (oz_eqb (ro_ret ob) r1 && (ro_exc ob =? x1)); [|discriminate]. intros [= <-].
    eexists. split; [reflexivity|exact HR3].
  - destruct m; try (intros X; discriminate X); destruct ms3; intros X; cbn in X; try discriminate X;
      destruct m; try discriminate X; destruct ms3; discriminate X.
Qed.

Lemma rstep_sim p sc s ss o ob s' :
  R s ss -> rstep p sc s o ob = Some s' -> exists ss', rstep5 p ss o ob = Some ss' /\ R s' ss'.
Proof.
  intros HR. unfold rstep, rstep5, use_machine, use_machine5. rewrite <- (R_en _ _ HR).
  destruct (enabled s || _).
  - destruct (mstep p sc s o ob) as [s1|] eqn:M; [|discriminate].
    destruct (forallb (qcheck s1) (ro_qs ob)) eqn:Q; [|discriminate]. intros [= <-].
    destruct (mstep_sim _ _ _ _ _ _ _ HR M) as (ss1 & -> & HR1).
    replace (forallb (qcheck5 ss1) (ro_qs ob)) with true; [eauto|].
    symmetry. apply forallb_forall. intros q Hq. eapply qcheck_sim; [exact HR1|].
    eapply forallb_forall in Q; eauto.
  - apply step_sim. exact HR.
Qed.

Lemma rrun_sim p sc tr : forall s ss s',
  R s ss -> rrun p sc s tr = Some s' -> exists ss', rrun5 p ss tr = Some ss'.
Proof.
  induction tr as [|[o ob] tr IH]; intros s ss s' HR; cbn [rrun rrun5].
  - eauto.
  - destruct (rstep p sc s o ob) as [s1|] eqn:E; [|discriminate]. intros H.
    destruct (rstep_sim _ _ _ _ _ _ _ HR E) as (ss1 & -> & HR1). eapply IH; eauto.
Qed.

Theorem raccepts_rholds c : raccepts c = true -> rholds_b c = true.
Proof.
  unfold raccepts, rholds_b.
  destruct (rrun (r_p c) (r_scr c) init (r_tr c)) as [s'|] eqn:E; [|discriminate]. intros _.
  destruct (rrun_sim _ _ _ _ _ _ R_init E) as [ss' ->]. reflexivity.
Qed.

Theorem xaccepts_xholds c : xaccepts c = true -> xholds c.
Proof.
  unfold xholds. destruct c as [c|c]; cbn [xaccepts xholds_b].
  - apply accepts_holds.
  - apply raccepts_rholds.
Qed.
