(* Class hierarchies and the six subclass walks of desper/logic/world.py
   (C06).  Definitions only; the proofs are in QHierProofs.v.

   A hierarchy is H : list (list nat): class i lists its direct bases, all
   of them < i (a class is created after its bases).  [subclasses H t] is
   what t.__subclasses__() returns: the classes that list t as a direct
   base, in creation order.

   Every walk of world.py has the form

       fringe = [T]
       while fringe:
           subtype = fringe.pop()          # LIFO: the LAST element
           ...test / return...
           fringe += subtype.__subclasses__()

   The model keeps the fringe as a list whose HEAD is the LAST element of
   the Python list, so [pop] is the head and [fringe += l] is
   [rev l ++ fringe].  Loops inside one step run on fuel; [walk_fuel H]
   suffices for every walk (QHierProofs.find_walk_fuel / get_walk_fuel). *)
From Coq Require Import ZArith List Bool Arith.
From Desper Require Import World.QLib.
Import ListNotations.

Definition hier := list (list nat).

Definition bases (H : hier) (i : nat) : list nat := nth i H [].

(* t.__subclasses__() *)
Definition subclasses (H : hier) (t : nat) : list nat :=
  filter (fun i => mem t (bases H i)) (seq 0 (length H)).

(* bases precede subclasses *)
Definition hier_wf_b (H : hier) : bool :=
  forallb (fun i => forallb (fun b => b <? i) (bases H i)) (seq 0 (length H)).

(* issubclass(u, t): reflexive-transitive closure of "lists as a base",
   by recursion towards the bases (which are smaller than u) *)
Fixpoint issub_f (H : hier) (fuel u t : nat) : bool :=
  (u =? t) ||
  match fuel with
  | 0 => false
  | S f => existsb (fun b => issub_f H f b t) (bases H u)
  end.
Definition issub (H : hier) (u t : nat) : bool := issub_f H u u t.

(* the same relation as a proposition (what the theorems talk about) *)
Inductive sub (H : hier) : nat -> nat -> Prop :=
| sub_refl t : sub H t t
| sub_step u b t : In b (bases H u) -> sub H b t -> sub H u t.

(* result of a walk with early return *)
Inductive wres :=
| WFound (u : nat)      (* returned at subtype u *)
| WNone                 (* fringe exhausted *)
| WFuel.                (* never happens with walk_fuel (lemma) *)

(* shape of get_component / remove_component / get_processor /
   remove_processor:  pop; test-and-return; extend the fringe *)
Fixpoint find_walk (H : hier) (test : nat -> bool) (fuel : nat) (fringe : list nat) : wres :=
  match fringe with
  | [] => WNone
  | u :: rest =>
      match fuel with
      | 0 => WFuel
      | S f =>
          if test u then WFound u
          else find_walk H test f (rev (subclasses H u) ++ rest)
      end
  end.

(* shape of has_component:  pop; extend the fringe; test-and-return *)
Fixpoint has_walk (H : hier) (test : nat -> bool) (fuel : nat) (fringe : list nat) : wres :=
  match fringe with
  | [] => WNone
  | u :: rest =>
      match fuel with
      | 0 => WFuel
      | S f =>
          let fringe' := rev (subclasses H u) ++ rest in
          if test u then WFound u
          else has_walk H test f fringe'
      end
  end.

(* shape of _get: visited set, no early return; the result is the list of
   subtypes whose components are yielded, in the order of the yields *)
Fixpoint get_walk (H : hier) (fuel : nat) (fringe visited : list nat) : option (list nat) :=
  match fringe with
  | [] => Some []
  | u :: rest =>
      match fuel with
      | 0 => None
      | S f =>
          if mem u visited then get_walk H f rest visited
          else
            match get_walk H f (rev (subclasses H u) ++ rest) (u :: visited) with
            | Some l => Some (u :: l)
            | None => None
            end
      end
  end.

Definition walk_fuel (H : hier) : nat := S (2 ^ length H).

(* the six copies *)
Definition has_component_walk (H : hier) (fuel : nat) (row : alist nat Z) (T : nat) : wres :=
  has_walk H (fun u => amem u row) fuel [T].
Definition get_component_walk (H : hier) (fuel : nat) (row : alist nat Z) (T : nat) : wres :=
  find_walk H (fun u => amem u row) fuel [T].
Definition remove_component_walk (H : hier) (fuel : nat) (row : alist nat Z) (T : nat) : wres :=
  find_walk H (fun u => amem u row) fuel [T].
Definition get_processor_walk (H : hier) (fuel : nat) (procs : alist nat Z) (T : nat) : wres :=
  find_walk H (fun u => amem u procs) fuel [T].
Definition remove_processor_walk (H : hier) (fuel : nat) (procs : alist nat Z) (T : nat) : wres :=
  find_walk H (fun u => amem u procs) fuel [T].
Definition get_types_walk (H : hier) (fuel : nat) (T : nat) : option (list nat) :=
  get_walk H fuel [T] [].
