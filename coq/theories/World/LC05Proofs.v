(* C05: every trace accepted by the model satisfies the property machine.
   Refinement relation R between model state and specification state,
   preserved by every operation; no bound on anything. *)
From Coq Require Import ZArith List Bool Lia Permutation.
From Desper Require Import Lib.Alist World.LLib World.LModel World.LC05.
Import ListNotations.
Open Scope Z_scope.

(* ---- tables --------------------------------------------------------------- *)
Lemma amem_In {A} k (l : list (Z * A)) : amem k l = true <-> In k (akeys l).
Proof.
  unfold amem. destruct (alookup k l) eqn:E.
  - split; [intros _|auto]. destruct (in_dec Z.eq_dec k (akeys l)) as [H|H]; auto.
    apply alookup_None_notin in H. congruence.
  - split; [discriminate|]. intros H. apply alookup_None_notin in E. contradiction.
Qed.

Lemma amem_adel {A} k k' (l : list (Z * A)) :
  amem k (adel k' l) = negb (k =? k') && amem k l.
Proof. unfold amem. rewrite alookup_adel. destruct (k =? k'); reflexivity. Qed.

Lemma amem_aset {A} k k' (v : A) l : amem k (aset k' v l) = (k =? k') || amem k l.
Proof. unfold amem. rewrite alookup_aset. destruct (k =? k'); reflexivity. Qed.

Lemma towns_tset t e ty i x : towns (tset t e ty i) x = (x =? e) || towns t x.
Proof. unfold towns, tset. apply amem_aset. Qed.

Lemma towns_tdel_other t e ty x : x <> e -> towns (tdel t e ty) x = towns t x.
Proof.
  intros N. unfold towns, tdel. apply Z.eqb_neq in N.
  destruct (adel ty (trow t e)); [rewrite amem_adel|rewrite amem_aset]; now rewrite N.
Qed.

Definition del_all (es : list Z) (t : table) : table := fold_left (fun t e => adel e t) es t.

Lemma towns_del_all es : forall t x, towns (del_all es t) x = towns t x && negb (zmem x es).
Proof.
  unfold del_all, towns. induction es as [|e es IH]; intros t x; cbn [fold_left zmem].
  - now rewrite andb_true_r.
  - rewrite IH, amem_adel. destruct (x =? e); cbn [negb orb andb]; [now rewrite andb_false_r|reflexivity].
Qed.

Lemma del_all_keys ks : forall (t : table), (forall k, In k (akeys t) -> In k ks) -> del_all ks t = [].
Proof.
  unfold del_all. induction ks as [|k ks IH]; intros t H; cbn [fold_left].
  - destruct t as [|[k v] t]; [reflexivity|]. exfalso. apply (H k). now left.
  - apply IH. intros x Hx. rewrite akeys_adel in Hx. apply filter_In in Hx.
    destruct Hx as [Hx N]. destruct (H x Hx) as [->|H']; [|exact H'].
    now rewrite Z.eqb_refl in N.
Qed.

Lemma In_fold_zrem es : forall l x,
  In x (fold_left (fun l d => zrem d l) es l) <-> In x l /\ ~ In x es.
Proof.
  induction es as [|e es IH]; intros l x; cbn [fold_left In].
  - tauto.
  - rewrite IH, In_zrem. split.
    + intros [[N H] H2]. split; [exact H|]. intros [E|E]; [congruence|contradiction].
    + intros [H H2]. split; [split; [intros E; apply H2; now left|exact H]|].
      intros E; apply H2; now right.
Qed.

(* ---- classes: a class without __events__ declares nothing ------------------- *)
Lemma kind_norm p i : k_h (kind_of p i) = false -> k_rem (kind_of p i) = false.
Proof.
  unfold kind_of, kind_of_ty. destruct (alookup (ty_of p i) (p_kinds p)) as [k|]; [|reflexivity].
  destruct (k_h k) eqn:E; [congruence|reflexivity].
Qed.

(* ---- the part of the model state C05 talks about ---------------------------- *)
Definition core (s : st) := (ents s, dead s, enabled s, procs s).

Lemma core_add_handler p s i : core (add_handler p s i) = core s.
Proof. reflexivity. Qed.
Lemma core_remove_handler s i : core (remove_handler s i) = core s.
Proof. reflexivity. Qed.
Lemma core_relay s k i e : core (relay s k i e) = core s.
Proof. unfold relay. destruct (selfl s); reflexivity. Qed.
Lemma core_open_group s : core (open_group s) = core s.
Proof. unfold open_group. destruct (enabled s); reflexivity. Qed.

Lemma core_eq s s' : core s' = core s ->
  ents s' = ents s /\ dead s' = dead s /\ enabled s' = enabled s /\ procs s' = procs s.
Proof. unfold core. intros [= -> -> -> ->]. auto. Qed.

Lemma core_create_events p e i s cs s' cs' :
  create_events p e (s, cs) i = (s', cs') -> core s' = core s.
Proof.
  unfold create_events. destruct (k_h (kind_of p i)); [|now intros [= <- _]].
  destruct (k_add (kind_of p i) && enabled (add_handler p s i)).
  { now intros [= <- _]. }
  destruct (k_add (kind_of p i) && negb (enabled (add_handler p s i))).
  - intros [= <- _]. now rewrite core_relay.
  - now intros [= <- _].
Qed.

Lemma core_create_fold p e comps : forall s cs s' cs',
  fold_left (create_events p e) comps (s, cs) = (s', cs') -> core s' = core s.
Proof.
  induction comps as [|i comps IH]; intros s cs s' cs'; cbn [fold_left].
  - now intros [= <- _].
  - destruct (create_events p e (s, cs) i) as [s1 cs1] eqn:E. intros H.
    rewrite (IH _ _ _ _ H). eapply core_create_events; eauto.
Qed.

Lemma core_add_events p e i s s' cs' : add_events p e i s = (s', cs') -> core s' = core s.
Proof.
  unfold add_events. destruct (k_h (kind_of p i)); [|now intros [= <- _]].
  destruct (k_add (kind_of p i) && enabled (add_handler p s i)).
  { now intros [= <- _]. }
  destruct (k_add (kind_of p i) && negb (enabled (add_handler p s i))).
  - intros [= <- _]. now rewrite core_relay.
  - now intros [= <- _].
Qed.

(* ---- remove_component -------------------------------------------------------- *)
Lemma remove_component_core p s e ty s' cs r :
  remove_component p s e ty = (s', cs, r) ->
  r = tget (ents s) e ty /\ enabled s' = enabled s /\ procs s' = procs s /\
  match r with
  | None => ents s' = ents s /\ dead s' = dead s
  | Some _ => ents s' = tdel (ents s) e ty /\
              dead s' = if towns (tdel (ents s) e ty) e then dead s else zrem e (dead s)
  end.
Proof.
  unfold remove_component. destruct (tget (ents s) e ty) as [rm|] eqn:G.
  2:{ intros [= <- _ <-]. auto. }
  set (t := tdel (ents s) e ty).
  set (s1 := if towns t e then set_ents s t else set_dead (set_ents s t) (zrem e (dead (set_ents s t)))).
  assert (C1 : ents s1 = t /\ dead s1 = (if towns t e then dead s else zrem e (dead s))
               /\ enabled s1 = enabled s /\ procs s1 = procs s).
  { unfold s1. destruct (towns t e); cbn; auto. }
  destruct C1 as (C1 & C2 & C3 & C4).
  destruct (negb (k_h (kind_of p rm))).
  { intros [= <- _ <-]. auto. }
  destruct (k_rem (kind_of p rm) && enabled s1).
  { intros [= <- _ <-]. cbn. auto. }
  destruct (k_rem (kind_of p rm)).
  - intros [= <- _ <-].
    destruct (core_eq _ _ (core_relay s1 CRem rm e)) as (R1 & R2 & R3 & R4).
    cbn. rewrite R1, R2, R3, R4. auto.
  - intros [= <- _ <-]. cbn. auto.
Qed.

(* ---- delete_entity(e, immediate=True) ------------------------------------------ *)
Definition rem_calls_row (p : params) (e : Z) (r : row) : list cb :=
  map (fun ti => call CRem (snd ti) e) (filter (fun ti => k_rem (kind_of p (snd ti))) r).

Lemma delete_events_fold p e r : forall s cs s' cs',
  fold_left (delete_events p e) r (s, cs) = (s', cs') ->
  core s' = core s /\ cs' = cs ++ (if enabled s then rem_calls_row p e r else []).
Proof.
  induction r as [|[ty i] r IH]; intros s cs s' cs'; cbn [fold_left].
  - intros [= <- <-]. split; [reflexivity|]. unfold rem_calls_row. cbn. destruct (enabled s); now rewrite app_nil_r.
  - destruct (delete_events p e (s, cs) (ty, i)) as [s1 cs1] eqn:E. intros H.
    destruct (IH _ _ _ _ H) as [C ->]. clear IH H.
    unfold delete_events in E. cbn [snd] in E.
    unfold rem_calls_row. cbn [filter snd].
    destruct (k_h (kind_of p i)) eqn:KH; cbn [negb] in E.
    2:{ injection E as <- <-. rewrite (kind_norm p i KH). split; [exact C|reflexivity]. }
    destruct (k_rem (kind_of p i)) eqn:KR; cbn [andb] in E.
    + destruct (enabled s) eqn:EN.
      * injection E as <- <-. split; [exact C|]. cbn [enabled remove_handler set_reg].
        rewrite EN. cbn [map]. now rewrite <- app_assoc.
      * injection E as <- <-. split.
        { now rewrite C, core_remove_handler, core_relay. }
        destruct (core_eq _ _ (core_relay s CRem i e)) as (_ & _ & R3 & _).
        cbn [enabled remove_handler set_reg]. now rewrite R3, EN.
    + injection E as <- <-. split; [exact C|]. cbn [enabled remove_handler set_reg]. reflexivity.
Qed.

Lemma delete_imm_spec p s cs e s' cs' :
  delete_imm p (s, cs) e = Some (s', cs') ->
  towns (ents s) e = true /\ ents s' = adel e (ents s) /\ dead s' = zrem e (dead s) /\
  enabled s' = enabled s /\ procs s' = procs s /\
  cs' = cs ++ (if enabled s then rem_calls p (ents s) e else []).
Proof.
  unfold delete_imm, towns, amem, rem_calls, trow.
  destruct (alookup e (ents s)) as [r|] eqn:L; [|discriminate]. intros [= H].
  apply delete_events_fold in H. destruct H as [C ->].
  apply core_eq in C. cbn in C. destruct C as (-> & -> & -> & ->). auto 10.
Qed.

Lemma delete_imm_none p s cs e : delete_imm p (s, cs) e = None -> towns (ents s) e = false.
Proof.
  unfold delete_imm, towns, amem. destruct (alookup e (ents s)); [|reflexivity].
  discriminate.
Qed.

Lemma delete_all_spec p es : forall s cs s' cs' t cs2,
  delete_all p (s, cs) es = Some (s', cs') ->
  apply_deletes p (enabled s) (ents s) es = (t, cs2) ->
  ents s' = t /\ cs' = cs ++ cs2 /\
  dead s' = fold_left (fun l d => zrem d l) es (dead s) /\
  enabled s' = enabled s /\ procs s' = procs s.
Proof.
  induction es as [|e es IH]; intros s cs s' cs' t cs2; cbn [delete_all apply_deletes fold_left].
  - intros [= <- <-] [= <- <-]. now rewrite app_nil_r.
  - destruct (delete_imm p (s, cs) e) as [[s1 cs1]|] eqn:D; [|discriminate].
    apply delete_imm_spec in D. destruct D as (_ & D1 & D2 & D3 & D4 & ->).
    intros H. destruct (apply_deletes p (enabled s) (adel e (ents s)) es) as [t' c'] eqn:A.
    intros [= <- <-]. rewrite <- D1, <- D3 in A.
    destruct (IH _ _ _ _ _ _ H A) as (I1 & I2 & I3 & I4 & I5).
    rewrite I1, I2, I3, I4, I5, D2, D3, D4, <- app_assoc. auto.
Qed.

Lemma apply_deletes_fst p b es : forall t, fst (apply_deletes p b t es) = del_all es t.
Proof.
  unfold del_all. induction es as [|e es IH]; intros t; cbn [apply_deletes fold_left]; [reflexivity|].
  specialize (IH (adel e t)). destruct (apply_deletes p b (adel e t) es). exact IH.
Qed.

(* ---- the refinement relation ---------------------------------------------------- *)
Record R (s : st) (ss : s5) : Prop := mkR {
  R_ents : ents s = att ss;
  R_dead : dead s = pend ss;
  R_en   : enabled s = en ss;
  R_prc  : procs s = prc ss;
  (* a mark on an entity without a row was put there on the error path *)
  R_bad  : forall e, In e (dead s) -> towns (ents s) e = false -> In e (bad ss) }.

Lemma R_core s s' ss : core s' = core s -> R s ss -> R s' ss.
Proof.
  intros C [H1 H2 H3 H4 H5]. apply core_eq in C. destruct C as (C1 & C2 & C3 & C4).
  constructor; try congruence. intros e. rewrite C1, C2. apply H5.
Qed.

Lemma R_init : R init s5_init.
Proof. constructor; try reflexivity. intros e []. Qed.

Lemma qcheck_sim s ss q : R s ss -> qcheck s q = true -> qcheck5 ss q = true.
Proof.
  intros [H1 H2 H3 H4 H5]. destruct q as [e r|l|e l|i r|e ty r|e ty r|ty l]; cbn [qcheck qcheck5]; unfold exists5, towns.
  - rewrite H1, H2. intros ->. apply orb_true_r.
  - rewrite H1, H2. intros P. apply zperm_b_sound in P. apply andb_true_iff. split.
    + apply forallb_forall. intros x Hx.
      assert (I : In x (filter (fun e => negb (zmem e (pend ss))) (akeys (att ss)))).
      { eapply Permutation_in; eauto. }
      apply filter_In in I. destruct I as [I1 I2]. apply amem_In in I1. rewrite I1, I2.
      apply orb_true_r.
    + apply forallb_forall. intros x Hx.
      destruct (zmem x (pend ss)) eqn:Z; [now rewrite orb_true_r|].
      assert (I : In x l).
      { eapply Permutation_in; [apply Permutation_sym; exact P|].
        apply filter_In. split; [exact Hx|now rewrite Z]. }
      apply zmem_In in I. rewrite I. apply orb_true_r.
  - now rewrite H1.
  - reflexivity.
  - now rewrite H1.
  - now rewrite H1.
  - now rewrite H1.
Qed.

Lemma towns_fold_tset (f : Z -> Z) e comps : forall t x,
  towns t x = true -> towns (fold_left (fun t i => tset t e (f i) i) comps t) x = true.
Proof.
  induction comps as [|i comps IH]; intros t x H; cbn [fold_left]; [exact H|].
  apply IH. rewrite towns_tset, H. apply orb_true_r.
Qed.

Lemma mono_false (a b : bool) : (a = true -> b = true) -> b = false -> a = false.
Proof. destruct a, b; auto. intros H _. now discriminate H. Qed.

(* ---- one operation ------------------------------------------------------------------ *)
Lemma create_sim p s ss e comps s' cs :
  R s ss ->
  fold_left (create_events p e) comps
    (set_ents s (fold_left (fun t i => tset t e (ty_of p i) i) comps (ents s)), []) = (s', cs) ->
  R s' (upd ss (fold_left (fun t i => tset t e (ty_of p i) i) comps (att ss)) (pend ss) (bad ss)).
Proof.
  intros [H1 H2 H3 H4 H5] F. apply core_create_fold in F. apply core_eq in F. cbn in F.
  destruct F as (F1 & F2 & F3 & F4). constructor; cbn; try congruence.
  intros x Hx T. rewrite F2 in Hx. apply H5; [exact Hx|].
  rewrite F1 in T. eapply mono_false; [|exact T]. apply towns_fold_tset.
Qed.

Lemma sim_create p s ss eid comps ob s' :
  R s ss -> step_op p s (Create eid comps) ob = Some s' ->
  exists ss', step5_op p ss (Create eid comps) ob = Some ss' /\ R s' ss'.
Proof.
  intros HR. cbn [step_op step5_op].
  destruct eid as [e|].
  - destruct (oz_eqb (o_ret ob) (Some e)); [|discriminate].
    destruct (fold_left _ comps _) as [s1 cs] eqn:F.
    destruct (_ && _); [|discriminate]. intros [= <-]. eexists; split; [reflexivity|].
    eapply create_sim; eauto.
  - destruct (o_ret ob) as [e|]; [|discriminate].
    destruct (amem e (ents s)); [discriminate|].
    destruct (fold_left _ comps _) as [s1 cs] eqn:F.
    destruct (_ && _); [|discriminate]. intros [= <-]. eexists; split; [reflexivity|].
    eapply create_sim; eauto.
Qed.

Lemma sim_add p s ss e i ob s' :
  R s ss -> step_op p s (Add e i) ob = Some s' ->
  exists ss', step5_op p ss (Add e i) ob = Some ss' /\ R s' ss'.
Proof.
  intros [H1 H2 H3 H4 H5]. cbn [step_op step5_op]. rewrite <- H1.
  set (ty := ty_of p i).
  destruct (tget (ents s) e ty) as [old|] eqn:G.
  - destruct (remove_component p s e ty) as [[s1 cs1] r] eqn:RC.
    apply remove_component_core in RC. rewrite G in RC.
    destruct RC as (-> & C3 & C4 & C1 & C2).
    set (sA := if zmem e (dead s) then set_dead s1 (dead s) else s1).
    assert (CA : ents sA = tdel (ents s) e ty /\ enabled sA = enabled s /\ procs sA = procs s
                 /\ (forall x, In x (dead sA) -> In x (dead s))
                 /\ (zmem e (dead s) = true -> dead sA = dead s)
                 /\ (zmem e (dead s) = false -> dead sA = dead s)).
    { unfold sA. destruct (zmem e (dead s)) eqn:Z; cbn; repeat split; auto; try discriminate.
      - rewrite C2. destruct (towns _ e); auto. intros x Hx. now apply In_zrem in Hx.
      - intros _. rewrite C2. destruct (towns _ e); auto.
        apply zmem_false in Z. clear -Z. induction (dead s) as [|y l IH]; cbn [zrem]; auto.
        destruct (e =? y) eqn:E; [apply Z.eqb_eq in E; subst; exfalso; apply Z; now left|].
        f_equal. apply IH. intros H; apply Z; now right. }
    destruct CA as (A1 & A3 & A4 & A5 & A6 & A7).
    destruct (add_events p e i (set_ents sA (tset (ents sA) e ty i))) as [s3 cs2] eqn:AE.
    apply core_add_events in AE. apply core_eq in AE. cbn in AE. destruct AE as (E1 & E2 & E3 & E4).
    destruct (_ && _); [|discriminate]. intros [= <-]. eexists; split; [reflexivity|].
    assert (D : dead s3 = dead s).
    { rewrite E2. destruct (zmem e (dead s)); auto. }
    constructor; cbn; try congruence.
    intros x Hx T. rewrite D in Hx. apply H5; [exact Hx|].
    rewrite E1, A1, towns_tset in T. apply orb_false_iff in T. destruct T as [N T].
    apply Z.eqb_neq in N. now rewrite towns_tdel_other in T.
  - destruct (add_events p e i (set_ents s (tset (ents s) e ty i))) as [s3 cs2] eqn:AE.
    apply core_add_events in AE. apply core_eq in AE. cbn in AE. destruct AE as (E1 & E2 & E3 & E4).
    destruct (_ && _); [|discriminate]. intros [= <-]. eexists; split; [reflexivity|].
    constructor; cbn; try congruence.
    intros x Hx T. rewrite E2 in Hx. apply H5; [exact Hx|].
    rewrite E1, towns_tset in T. now apply orb_false_iff in T.
Qed.

Lemma sim_remove p s ss e ty ob s' :
  R s ss -> step_op p s (Remove e ty) ob = Some s' ->
  exists ss', step5_op p ss (Remove e ty) ob = Some ss' /\ R s' ss'.
Proof.
  intros [H1 H2 H3 H4 H5]. cbn [step_op step5_op]. rewrite <- H1.
  destruct (remove_component p s e ty) as [[s1 cs1] r] eqn:RC.
  apply remove_component_core in RC. destruct RC as (-> & C3 & C4 & C).
  destruct (o_exc ob =? 0); [|discriminate]. cbn [andb].
  destruct (oz_eqb (o_ret ob) (tget (ents s) e ty)); [|discriminate]. cbn [andb].
  destruct (cperm_b _ _); [|discriminate]. intros [= <-].
  destruct (tget (ents s) e ty) as [old|].
  - destruct C as [C1 C2]. eexists; split; [reflexivity|].
    constructor; cbn; try congruence.
    + rewrite C2, H2. reflexivity.
    + intros x Hx T. rewrite C1 in T. destruct (Z.eq_dec x e) as [->|N].
      * rewrite C2, T in Hx. now apply In_zrem in Hx.
      * rewrite towns_tdel_other in T by exact N. apply H5; [|exact T].
        rewrite C2 in Hx. destruct (towns _ e); [exact Hx|]. now apply In_zrem in Hx.
  - destruct C as [C1 C2]. eexists; split; [reflexivity|].
    constructor; try congruence. intros x. rewrite C1, C2. apply H5.
Qed.

Lemma sim_delete p s ss e imm ob s' :
  R s ss -> step_op p s (Delete e imm) ob = Some s' ->
  exists ss', step5_op p ss (Delete e imm) ob = Some ss' /\ R s' ss'.
Proof.
  intros [H1 H2 H3 H4 H5]. cbn [step_op step5_op]. rewrite <- H1. destruct imm.
  - destruct (delete_imm p (s, []) e) as [[s1 cs]|] eqn:D.
    + apply delete_imm_spec in D. destruct D as (T & D1 & D2 & D3 & D4 & _). rewrite T.
      destruct (o_exc ob =? 0); [|discriminate]. cbn [andb].
      destruct (cperm_b _ _); [|discriminate]. intros [= <-].
      eexists; split; [reflexivity|]. constructor; cbn; try congruence.
      intros x Hx Tx. rewrite D2 in Hx. apply In_zrem in Hx. destruct Hx as [N Hx].
      apply H5; [exact Hx|]. rewrite D1 in Tx. unfold towns in *. rewrite amem_adel in Tx.
      apply Z.eqb_neq in N. now rewrite N in Tx.
    + apply delete_imm_none in D. rewrite D.
      destruct (o_exc ob =? 1); [|discriminate]. cbn [andb].
      destruct (nil_b _); [|discriminate]. intros [= <-].
      eexists; split; [reflexivity|]. now constructor.
  - destruct (o_exc ob =? 0); [|discriminate]. cbn [andb].
    destruct (nil_b _); [|discriminate]. intros [= <-].
    eexists; split; [reflexivity|]. constructor; cbn; try congruence.
    intros x Hx Tx. apply In_zadd in Hx. destruct Hx as [->|Hx].
    + rewrite Tx. apply In_zadd. now left.
    + destruct (towns (ents s) e); [|apply In_zadd; right]; now apply H5.
Qed.

Lemma eqb1_not0 x : (x =? 1) = true -> (x =? 0) = false.
Proof. intros H. apply Z.eqb_eq in H. now subst. Qed.

Lemma sim_process p s ss ob s' :
  R s ss -> step_op p s Process ob = Some s' ->
  exists ss', step5_op p ss Process ob = Some ss' /\ R s' ss'.
Proof.
  intros [H1 H2 H3 H4 H5]. cbn [step_op step5_op]. rewrite <- H1, <- H2, <- H3, <- H4.
  destruct (forallb (fun e => amem e (ents s)) (dead s)) eqn:FA.
  - destruct (delete_all p (s, []) (dead s)) as [[s1 cs]|] eqn:DA; [|discriminate].
    destruct (apply_deletes p (enabled s) (ents s) (dead s)) as [t cs2] eqn:A.
    destruct (delete_all_spec _ _ _ _ _ _ _ _ DA A) as (D1 & D2 & D3 & D4 & D5).
    cbn [app] in D2. subst cs2. cbn [procs set_dead]. rewrite D5.
    destruct (o_exc ob =? 0); [|discriminate]. cbn [andb].
    destruct (cperm_b (firstn _ _) cs && cperm_b (skipn _ _) _); [|discriminate].
    intros [= <-]. eexists; split; [reflexivity|]. constructor; cbn; try congruence.
  - destruct (o_ret ob) as [f|]; [|discriminate].
    destruct (zmem f (dead s)) eqn:ZF; [|discriminate].
    destruct (amem f (ents s)) eqn:AF; [discriminate|]. cbn [negb andb].
    destruct (forallb (fun d => zmem d (dead s)) (o_done ob)) eqn:FD; [|discriminate].
    destruct (delete_all p (s, []) (o_done ob)) as [[s1 cs]|] eqn:DA; [|discriminate].
    destruct (apply_deletes p (enabled s) (ents s) (o_done ob)) as [t cs2] eqn:A.
    destruct (delete_all_spec _ _ _ _ _ _ _ _ DA A) as (D1 & D2 & D3 & D4 & D5).
    cbn [app] in D2. subst cs2.
    destruct (o_exc ob =? 1) eqn:X; [|discriminate]. cbn [andb]. rewrite (eqb1_not0 _ X).
    destruct (cperm_b (o_log ob) cs); [|discriminate]. intros [= <-].
    assert (FB : zmem f (bad ss) = true).
    { apply zmem_In. apply H5; [now apply zmem_In|exact AF]. }
    rewrite FB. cbn [andb]. eexists; split; [reflexivity|].
    constructor; cbn; try congruence.
    intros x Hx Tx. rewrite D3 in Hx. apply In_zrem in Hx. destruct Hx as [N Hx].
    apply In_fold_zrem in Hx. destruct Hx as [Hx ND].
    apply In_zrem. split; [exact N|]. apply H5; [exact Hx|].
    rewrite D1 in Tx. assert (Et : t = del_all (o_done ob) (ents s)).
    { rewrite <- apply_deletes_fst with (p := p) (b := enabled s). now rewrite A. }
    rewrite Et, towns_del_all in Tx. apply zmem_false in ND. now rewrite ND, andb_true_r in Tx.
Qed.

Lemma sim_clear p s ss ob s' :
  R s ss -> step_op p s Clear ob = Some s' ->
  exists ss', step5_op p ss Clear ob = Some ss' /\ R s' ss'.
Proof.
  intros [H1 H2 H3 H4 H5]. cbn [step_op step5_op].
  destruct (delete_all p (s, []) (akeys (ents s))) as [[s1 cs]|] eqn:DA; [|discriminate].
  destruct (apply_deletes p (enabled s) (ents s) (akeys (ents s))) as [t cs2] eqn:A.
  destruct (delete_all_spec _ _ _ _ _ _ _ _ DA A) as (D1 & _).
  destruct (_ && _); [|discriminate]. intros [= <-]. eexists; split; [reflexivity|].
  assert (Et : t = []).
  { rewrite <- (del_all_keys (akeys (ents s)) (ents s)) by auto.
    rewrite <- apply_deletes_fst with (p := p) (b := enabled s). now rewrite A. }
  constructor; cbn; try congruence.
Qed.

Lemma step_op_sim p s ss o ob s' :
  R s ss -> step_op p s o ob = Some s' ->
  exists ss', step5_op p ss o ob = Some ss' /\ R s' ss'.
Proof.
  intros HR. destruct o as [eid comps|e i|e ty|e imm| | |v|tok|].
  - now apply sim_create.
  - now apply sim_add.
  - now apply sim_remove.
  - now apply sim_delete.
  - now apply sim_process.
  - now apply sim_clear.
  - destruct HR as [H1 H2 H3 H4 H5]. cbn [step_op step5_op]. destruct v.
    + destruct (o_exc ob =? 3).
      * destruct (selfl _); [|discriminate]. destruct (release_raise _ _ _); [|discriminate].
        intros [= <-]. eexists; split; [reflexivity|]. now constructor.
      * destruct (o_exc ob =? 4).
        { destruct (selfl _); [|discriminate]. destruct (release_raise _ _ _); [|discriminate].
          intros [= <-]. eexists; split; [reflexivity|]. now constructor. }
        destruct (_ && _); [|discriminate]. intros [= <-]. eexists; split; [reflexivity|].
        now constructor.
    + destruct (_ && _); [|discriminate]. intros [= <-]. eexists; split; [reflexivity|].
      now constructor.
  - cbn [step_op step5_op]. intros H. exists ss. split; [reflexivity|].
    destruct (negb (pkey s)); [|destruct (negb (enabled s))];
      (destruct (_ && _); [|discriminate]); injection H as <-; auto.
    eapply R_core; [|exact HR]. reflexivity.
  - destruct HR as [H1 H2 H3 H4 H5]. cbn [step_op step5_op].
    destruct (_ && _); [|discriminate]. intros [= <-]. eexists; split; [reflexivity|].
    now constructor.
Qed.

Lemma step_sim p s ss o ob s' :
  R s ss -> step p s o ob = Some s' -> exists ss', step5 p ss o ob = Some ss' /\ R s' ss'.
Proof.
  intros HR. unfold step, step5.
  destruct (step_op p (open_group s) o ob) as [s1|] eqn:E; [|discriminate].
  destruct (forallb (qcheck s1) (o_qs ob)) eqn:Q; [|discriminate]. intros [= <-].
  destruct (step_op_sim p (open_group s) ss o ob s1) as (ss' & E5 & HR'); [|exact E|].
  { eapply R_core; [apply core_open_group|exact HR]. }
  rewrite E5. exists ss'. split; [|exact HR'].
  replace (forallb (qcheck5 ss') (o_qs ob)) with true; [reflexivity|].
  symmetry. apply forallb_forall. intros q Hq. eapply qcheck_sim; [exact HR'|].
  eapply forallb_forall in Q; eauto.
Qed.

Lemma run_sim p tr : forall s ss s', R s ss -> run p s tr = Some s' -> exists ss', run5 p ss tr = Some ss'.
Proof.
  induction tr as [|[o ob] tr IH]; intros s ss s' HR; cbn [run run5].
  - eauto.
  - destruct (step p s o ob) as [s1|] eqn:E; [|discriminate]. intros H.
    destruct (step_sim _ _ _ _ _ _ HR E) as (ss1 & -> & HR1). eapply IH; eauto.
Qed.

Theorem accepts_holds c : accepts c = true -> holds c.
Proof.
  unfold accepts, holds, holds_b. destruct (run (c_p c) init (c_tr c)) as [s'|] eqn:E; [|discriminate].
  intros _. destruct (run_sim _ _ _ _ _ R_init E) as [ss' ->]. reflexivity.
Qed.

(* ---- what the property machine says on raw observations --------------------------- *)
Lemma step5_qs p s o ob s' : step5 p s o ob = Some s' ->
  step5_op p s o ob = Some s' /\ forall q, In q (o_qs ob) -> qcheck5 s' q = true.
Proof.
  unfold step5. destruct (step5_op p s o ob) as [s1|]; [|discriminate].
  destruct (forallb (qcheck5 s1) (o_qs ob)) eqn:Q; [|discriminate]. intros [= <-].
  split; [reflexivity|]. now apply forallb_forall.
Qed.

(* (i) two-step visibility: right after delete_entity(e) of an entity that owns
   components, e does not exist, is not listed, and still has all its components *)
Lemma deferred_delete_hides p s e ob s' :
  step5 p s (Delete e false) ob = Some s' ->
  towns (att s) e = true -> zmem e (bad s) = false ->
  (forall r, In (QExists e r) (o_qs ob) -> r = false) /\
  (forall l, In (QEntities l) (o_qs ob) -> ~ In e l) /\
  (forall l, In (QComps e l) (o_qs ob) -> Permutation l (map snd (trow (att s) e))).
Proof.
  intros H T B. apply step5_qs in H. destruct H as [H Q]. cbn [step5_op] in H.
  destruct (o_exc ob =? 0); [|discriminate]. injection H as <-. rewrite T in Q.
  assert (P : zmem e (zadd e (pend s)) = true) by (apply zmem_In, In_zadd; now left).
  repeat split.
  - intros r Hr. specialize (Q _ Hr). cbn in Q. unfold exists5 in Q. cbn in Q.
    rewrite B, P, andb_false_r in Q. cbn in Q. now destruct r.
  - intros l Hl I. specialize (Q _ Hl). cbn in Q. apply andb_true_iff in Q. destruct Q as [Q _].
    eapply forallb_forall in Q; [|exact I]. unfold exists5 in Q. cbn in Q.
    rewrite B, P, andb_false_r in Q. discriminate.
  - intros l Hl. specialize (Q _ Hl). cbn in Q. now apply zperm_b_sound.
Qed.

(* (ii)/(iii) a frame with no error-path mark returns normally; the on_remove
   calls come first in the log, then at most the processor; afterwards nothing
   is marked and no marked entity owns anything *)
Lemma process_total p s ob s' :
  step5 p s Process ob = Some s' -> bad s = [] ->
  o_exc ob = 0 /\ pend s' = [] /\ bad s' = [] /\
  (forall e, In e (pend s) -> towns (att s') e = false) /\
  exists cs, snd (apply_deletes p (en s) (att s) (pend s)) = cs /\
    Permutation (firstn (length cs) (o_log ob)) cs /\
    Permutation (skipn (length cs) (o_log ob)) (if prc s then [call CProc 0 0] else []).
Proof.
  intros H B. apply step5_qs in H. destruct H as [H _]. cbn [step5_op] in H.
  destruct (o_exc ob =? 0) eqn:X.
  - destruct (apply_deletes p (en s) (att s) (pend s)) as [t cs] eqn:A.
    destruct (cperm_b (firstn _ _) cs) eqn:P1; [|discriminate].
    destruct (cperm_b (skipn _ _) _) eqn:P2; [|discriminate]. injection H as <-.
    cbn. apply Z.eqb_eq in X. repeat split; auto.
    + intros e He. assert (Et : t = del_all (pend s) (att s)).
      { rewrite <- apply_deletes_fst with (p := p) (b := en s). now rewrite A. }
      rewrite Et, towns_del_all. apply zmem_In in He. rewrite He. apply andb_false_r.
    + exists cs. split; [reflexivity|].
      assert (S : forall x y, cb_eqb x y = true <-> x = y).
      { intros [k1 i1 a1 w1] [k2 i2 a2 w2]. unfold cb_eqb. cbn.
        rewrite !andb_true_iff, !Z.eqb_eq, eqb_true_iff. split.
        - intros [[[K ->] ->] ->]. destruct k1, k2; try discriminate; reflexivity.
        - intros [= -> -> -> ->]. destruct k2; auto. }
      split; eapply perm_b_sound; eauto.
  - destruct (o_exc ob =? 1); [|discriminate]. destruct (o_ret ob); [|discriminate].
    rewrite B in H. cbn in H. discriminate.
Qed.

Lemma length_zrem_lt f l : In f l -> (length (zrem f l) < length l)%nat.
Proof.
  induction l as [|y l IH]; cbn [zrem In length]; [tauto|]. intros H.
  assert (L : (length (zrem f l) <= length l)%nat).
  { clear. induction l as [|z l IH]; cbn [zrem length]; [lia|]. destruct (f =? z); cbn [length]; lia. }
  destruct (f =? y) eqn:E; cbn [length]; [lia|].
  destruct H as [->|H]; [now rewrite Z.eqb_refl in E|]. specialize (IH H). lia.
Qed.

(* (iv) a frame that raises consumes the error-path mark that caused it: it is a
   KeyError naming that entity, and strictly fewer such marks remain, so a failed
   frame can never repeat for ever *)
Lemma process_failure_consumed p s ob s' :
  step5 p s Process ob = Some s' -> o_exc ob <> 0 ->
  o_exc ob = 1 /\ exists f, o_ret ob = Some f /\ In f (bad s) /\
  (length (bad s') < length (bad s))%nat.
Proof.
  intros H X. apply step5_qs in H. destruct H as [H _]. cbn [step5_op] in H.
  destruct (o_exc ob =? 0) eqn:X0; [apply Z.eqb_eq in X0; contradiction|].
  destruct (o_exc ob =? 1) eqn:X1; [|discriminate]. apply Z.eqb_eq in X1.
  destruct (o_ret ob) as [f|]; [|discriminate].
  destruct (zmem f (bad s)) eqn:ZF; [|discriminate]. cbn [andb] in H.
  destruct (forallb _ _); [|discriminate].
  destruct (apply_deletes p (en s) (att s) (o_done ob)) as [t cs].
  destruct (cperm_b _ _); [|discriminate]. injection H as <-. cbn.
  apply zmem_In in ZF. split; [exact X1|]. exists f. repeat split; auto.
  now apply length_zrem_lt.
Qed.

(* error-path marks only come from delete_entity(e) on an entity owning nothing *)
Lemma bad_only_from_delete p s o ob s' :
  step5 p s o ob = Some s' ->
  (forall e, o = Delete e false -> towns (att s) e = true) ->
  forall x, In x (bad s') -> In x (bad s).
Proof.
  intros H N x. apply step5_qs in H. destruct H as [H _].
  destruct o as [eid comps|e i|e ty|e imm| | |v|tok|]; cbn [step5_op] in H.
  - destruct (match eid with Some e => Some e | None => o_ret ob end); [|discriminate].
    now injection H as <-.
  - now injection H as <-.
  - destruct (oz_eqb _ _); [|discriminate]. destruct (tget (att s) e ty); now injection H as <-.
  - destruct imm.
    + destruct (towns (att s) e); [destruct (o_exc ob =? 0)|destruct (o_exc ob =? 1)];
        try discriminate; now injection H as <-.
    + rewrite (N e eq_refl) in H. destruct (o_exc ob =? 0); [|discriminate]. now injection H as <-.
  - destruct (o_exc ob =? 0).
    + destruct (apply_deletes p (en s) (att s) (pend s)) as [t cs].
      destruct (_ && _); [|discriminate]. injection H as <-. intros [].
    + destruct (o_exc ob =? 1); [|discriminate]. destruct (o_ret ob) as [f|]; [|discriminate].
      destruct (_ && _); [|discriminate].
      destruct (apply_deletes p (en s) (att s) (o_done ob)) as [t cs].
      destruct (cperm_b _ _); [|discriminate]. injection H as <-. cbn. intros I.
      now apply In_zrem in I.
  - injection H as <-. intros [].
  - now injection H as <-.
  - now injection H as <-.
  - now injection H as <-.
Qed.

(* (i) continued: has_component / get_component / get answer after a deferred
   delete exactly as before it (the ownership table is untouched by the mark) *)
Lemma deferred_delete_keeps_components p s e ob s' :
  step5 p s (Delete e false) ob = Some s' ->
  att s' = att s /\
  (forall e' ty r, In (QHas e' ty r) (o_qs ob) ->
     r = match tget (att s) e' ty with Some _ => true | None => false end) /\
  (forall e' ty r, In (QGetC e' ty r) (o_qs ob) -> r = tget (att s) e' ty) /\
  (forall ty l, In (QGet ty l) (o_qs ob) -> Permutation l (tall (att s) ty)).
Proof.
  intros H. apply step5_qs in H. destruct H as [H Q]. cbn [step5_op] in H.
  destruct (o_exc ob =? 0); [|discriminate]. injection H as <-. cbn [att upd] in *.
  split; [reflexivity|]. split; [|split].
  - intros e' ty r Hr. specialize (Q _ Hr). cbn in Q. now apply eqb_prop in Q.
  - intros e' ty r Hr. specialize (Q _ Hr). cbn in Q.
    destruct r as [x|], (tget (att s) e' ty) as [y|]; cbn in Q; try discriminate; auto.
    apply Z.eqb_eq in Q. now subst.
  - intros ty l Hl. specialize (Q _ Hl). cbn in Q. eapply perm_b_sound; [apply pz_eqb_spec|exact Q].
Qed.
