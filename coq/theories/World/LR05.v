(* C05 over histories with RE-ENTRANT lifecycle callbacks: the PROPERTY.

   The ownership / marks state of LC05.v (att, pend, bad, en, prc) is driven by
   the log: every operation - top level or scripted inside a callback - has
   its effect on ownership when it starts, except the two places where the
   code itself interleaves with callbacks:
     add_component over an occupied slot : the old component is detached at
       once, the new one is stored (and a mark restored) after the old one's
       on_remove returned;
     process() : the marked entities are deleted one after the other, each when
       the previous one's notifications (and everything they did) are over;
       an entity marked meanwhile is deleted in the same frame.
   The machine knows nothing of scripts, handlers or queues: it reads the
   scripted actions from the log (LAct) and only uses the class declarations
   to know whether a callback separates two effects.  What it checks:
     - a scripted or top-level delete_entity(immediate) raises KeyError iff
       the entity owns nothing; remove_component returns the slot's component;
     - process() pops only marked entities; it raises only when it pops a mark
       that was put on an entity owning nothing (error path), consuming it;
       the processor runs after the last deletion, with no mark left;
     - the sampled queries after every operation (as in LC05).
   Suspended operations are continuations, as in the model, without the
   handler bookkeeping.  Models only: no proofs in this file. *)
From Coq Require Import ZArith List Bool.
From Desper Require Import Lib.Alist World.LLib.
From Desper Require Export World.LC05 World.LRModel.
Import ListNotations.
Open Scope Z_scope.

Fixpoint srun (p : params) (s : s5) (ms : list micro) : s5 * list micro :=
  match ms with
  | [] => (s, [])
  | m :: ms' =>
      match m with
      | MAddH _ | MRemH _ => srun p s ms'
      | MNotify k i e =>
          if has_cb p k i then (if en s then (s, ms) else srun p s ms') else srun p s ms'
      | MSet e ty i d =>
          srun p (upd s (tset (att s) e ty i) (if d then zadd e (pend s) else pend s) (bad s)) ms'
      | MRet _ _ => (s, ms)
      | MDrain => if nil_b (pend s) then srun p s ms' else (s, ms)
      | MProcs => if prc s then (s, ms) else srun p s ms'
      | MRelease _ => (s, ms)
      end
  end.

(* a callback separates two effects only if the class declares events *)
Definition rm5 (p : params) (old e : Z) : list micro :=
  if k_h (kind_of p old) then [MNotify CRem old e] else [].
Definition att5 (p : params) (i e : Z) : list micro :=
  if k_h (kind_of p i) then [MNotify CAdd i e] else [].
Definition row5 (p : params) (e : Z) (r : row) : list micro :=
  flat_map (fun ti => rm5 p (snd ti) e) r.

(* immediate effect on ownership, and what is still to come *)
Definition compile5 (p : params) (s : s5) (a : op) (oret : option Z) : option (s5 * list micro) :=
  match a with
  | Create eid comps =>
      let oe := match eid with
                | Some e => Some e
                | None => match oret with
                          | Some e => if towns (att s) e then None else Some e
                          | None => None
                          end
                end in
      match oe with
      | None => None
      | Some e =>
          Some (upd s (fold_left (fun t i => tset t e (ty_of p i) i) comps (att s)) (pend s) (bad s),
                flat_map (fun i => att5 p i e) comps ++ [MRet (Some e) 0])
      end
  | Add e i =>
      let ty := ty_of p i in
      match tget (att s) e ty with
      | Some old =>
          let d := zmem e (pend s) in
          let t := tdel (att s) e ty in
          Some (upd s t (if towns t e then pend s else zrem e (pend s)) (bad s),
                rm5 p old e ++ [MSet e ty i d] ++ att5 p i e ++ [MRet None 0])
      | None => Some (s, [MSet e ty i false] ++ att5 p i e ++ [MRet None 0])
      end
  | Remove e ty =>
      match tget (att s) e ty with
      | Some old =>
          let t := tdel (att s) e ty in
          Some (upd s t (if towns t e then pend s else zrem e (pend s)) (bad s),
                rm5 p old e ++ [MRet (Some old) 0])
      | None => Some (s, [MRet None 0])
      end
  | Delete e true =>
      match alookup e (att s) with
      | None => Some (s, [MRet None 1])
      | Some r => Some (upd s (adel e (att s)) (zrem e (pend s)) (bad s), row5 p e r ++ [MRet None 0])
      end
  | Delete e false =>
      Some (upd s (att s) (zadd e (pend s)) (if towns (att s) e then bad s else zadd e (bad s)),
            [MRet None 0])
  | Process => Some (s, [MDrain; MProcs; MRet None 0])
  | SetEnabled true =>
      Some ({| att := att s; pend := pend s; bad := bad s; en := true; prc := prc s |},
            [MRelease []; MRet None 0])
  | SetEnabled false =>
      Some ({| att := att s; pend := pend s; bad := bad s; en := false; prc := prc s |}, [MRet None 0])
  | AddProc =>
      Some ({| att := att s; pend := pend s; bad := bad s; en := en s; prc := true |}, [MRet None 0])
  | Clear | Probe _ => None
  end.

Definition config5 := (s5 * list frame)%type.

Definition lstep5 (p : params) (c : config5) (x : lent) : option config5 :=
  let '(s, stk) := c in
  match x, stk with
  | LCall _ _ _ _, FK (MNotify _ _ _ :: ms) :: stk' => Some (s, FCb [] :: FK ms :: stk')
  | LCall k i e w, FK (MDrain :: ms) :: stk' =>
      (* the frame turns to the next marked entity: it must be marked and own something *)
      match alookup e (att s) with
      | None => None
      | Some r =>
          if zmem e (pend s) then
            match srun p (upd s (adel e (att s)) (zrem e (pend s)) (bad s)) (row5 p e r ++ MDrain :: ms) with
            | (s2, MNotify _ _ _ :: ms2) => Some (s2, FCb [] :: FK ms2 :: stk')
            | _ => None
            end
          else None
      end
  | LCall _ _ _ _, FK (MRelease g :: ms) :: stk' => Some (s, FCb [] :: FK (MRelease g :: ms) :: stk')
  | LEnd, FCb _ :: FK ms :: stk' => let '(s', ms') := srun p s ms in Some (s', FK ms' :: stk')
  | LAct a, FCb _ :: stk' =>
      if script_ok a then
        match compile5 p s a None with
        | Some (s1, ms) => let '(s2, ms2) := srun p s1 ms in Some (s2, FK ms2 :: FCb [] :: stk')
        | None => None
        end
      else None
  | LRet r x, FK [MRet r' x'] :: stk' =>
      if oz_eqb r r' && (x =? x') then Some (s, stk') else None
  | LProc, FK (MProcs :: ms) :: stk' => let '(s', ms') := srun p s ms in Some (s', FK ms' :: stk')
  | LQ q, FCb _ :: stk' => if qcheck5 s q then Some (s, stk) else None
  | _, _ => None
  end.

Fixpoint lrun5 (p : params) (c : config5) (log : list lent) : option config5 :=
  match log with
  | [] => Some c
  | x :: log => match lstep5 p c x with Some c' => lrun5 p c' log | None => None end
  end.

Definition mstep5 (p : params) (s : s5) (o : op) (ob : robs) : option s5 :=
  match compile5 p s o (ro_ret ob) with
  | None => None
  | Some (s1, ms) =>
      let '(s2, ms2) := srun p s1 ms in
      match lrun5 p (s2, [FK ms2]) (ro_log ob) with
      | Some (s3, [FK [MRet r x]]) =>
          if oz_eqb (ro_ret ob) r && (ro_exc ob =? x)
          (* after a frame that returned, only marks that are still there can fail a later one *)
          then Some (match o with
                     | Process => upd s3 (att s3) (pend s3) (filter (fun e => zmem e (pend s3)) (bad s3))
                     | _ => s3
                     end)
          else None
      | Some (s3, [FK [MRelease _; MRet r x]]) =>
          if oz_eqb (ro_ret ob) r && (ro_exc ob =? x) then Some s3 else None
      | Some (s3, [FK (MDrain :: _)]) =>
          (* process() raised: only an error-path mark may do that, and it is consumed *)
          match ro_ret ob with
          | Some f => if zmem f (bad s3) && (ro_exc ob =? 1)
                      then Some (upd s3 (att s3) (zrem f (pend s3)) (zrem f (bad s3))) else None
          | None => None
          end
      | _ => None
      end
  end.

Definition use_machine5 (s : s5) (o : op) : bool :=
  en s || match o with SetEnabled true => true | _ => false end.

Definition rstep5 (p : params) (s : s5) (o : op) (ob : robs) : option s5 :=
  if use_machine5 s o then
    match mstep5 p s o ob with
    | Some s' => if forallb (qcheck5 s') (ro_qs ob) then Some s' else None
    | None => None
    end
  else step5 p s o (to_obs ob).      (* disabled: nothing calls back, the atomic rules of LC05 *)

Fixpoint rrun5 (p : params) (s : s5) (tr : list (op * robs)) : option s5 :=
  match tr with
  | [] => Some s
  | (o, ob) :: tr => match rstep5 p s o ob with Some s' => rrun5 p s' tr | None => None end
  end.

Definition rholds_b (c : LR_case) : bool :=
  match rrun5 (r_p c) s5_init (r_tr c) with Some _ => true | None => false end.

(* ---- the extended case type: old cases unchanged, re-entrant cases added ------------------ *)
Inductive C05x_case := Old (c : L_case) | Re (c : LR_case).

(* input domain of the re-entrant traces (see LRModel.v): no Clear / Probe,
   scripts of supported actions only, every class declares on_remove *)
Definition rwf_b (c : LR_case) : bool :=
  forallb (fun oo => match fst oo with Clear | Probe _ => false | _ => true end) (r_tr c)
  && forallb (fun ts => forallb script_ok (fst (snd ts)) && forallb script_ok (snd (snd ts))) (r_scr c)
  && forallb (fun tk => k_h (snd tk) && k_rem (snd tk)) (p_kinds (r_p c))
  && forallb (fun it => amem (snd it) (p_kinds (r_p c))) (p_cls (r_p c)).

Definition xwf_b (c : C05x_case) : bool := match c with Old c => wf_b c | Re c => rwf_b c end.
Definition xknown_b (c : C05x_case) : bool := match c with Old c => known_b c | Re _ => false end.
Definition xaccepts (c : C05x_case) : bool := match c with Old c => accepts c | Re c => raccepts c end.
Definition xholds_b (c : C05x_case) : bool := match c with Old c => holds_b c | Re c => rholds_b c end.
Definition xholds (c : C05x_case) : Prop := xholds_b c = true.

Definition C05x_verdict (c : C05x_case) : nat :=
  (bit (xwf_b c) 1 + bit (xknown_b c) 2 + bit (xaccepts c) 4 + bit (xholds_b c) 8)%nat.
