(* C01 / C06 - model of the query side of desper/logic/world.py (World),
   written as an acceptor of observed traces, the specification machine of
   the two properties, the input domain and the verdicts.

   Models only: no proofs in this file (QProofs.v).

   Values: entity ids and component / processor instances are Z (the harness
   keeps the bijection with Python objects: automatic ids are the positive
   integers of itertools.count(1), other hashables get negative numbers);
   classes are nat indices into the hierarchy H of the case (QHier.v).  The
   same hierarchy shape is realised twice by the harness: as component
   classes under a fresh root and as Processor subclasses.

   Not modelled here (other families do): event notifications (C02), the
   priority order of processors (C07).  World._sorted_processors is
   therefore absent; World._processors is [procs]. *)
From Coq Require Import ZArith List Bool Arith.
From Desper Require Import World.QLib World.QHier.
Import ListNotations.
Open Scope Z_scope.

(* ---- operations and observations ----------------------------------------- *)
Inductive op :=
| OCreate (eid : option Z) (cs : list (nat * Z))
    (* create_entity( *cs, entity_id=eid ); cs = (exact type, instance) *)
| OAdd (e : Z) (u : nat) (c : Z)          (* add_component(e, c), type(c) = u *)
| ORemove (e : Z) (T : nat)               (* remove_component(e, T) *)
| ODelete (e : Z) (immediate : bool)      (* delete_entity(e, immediate) *)
| OProcess                                (* process() *)
| OClear                                  (* clear() *)
| OSetEnabled (b : bool)                  (* dispatch_enabled = b *)
| OAddProc (u : nat) (p : Z)              (* add_processor(p), type(p) = u *)
| ORemoveProc (T : nat)                   (* remove_processor(T) *)
| ONop.                                   (* nothing (carries a snapshot) *)

Inductive res :=
| RUnit                  (* returned None *)
| RId (e : Z)            (* create_entity's return value *)
| RObj (c : option Z)    (* remove_component / remove_processor's return value *)
| RErr (k : Z).          (* raised: 1 KeyError, 2 AssertionError, 0 anything else *)

Inductive qobs :=
| QGet (T : nat) (r : list (Z * Z))               (* get(T) -> [(entity, component)] *)
| QGetComponent (e : Z) (T : nat) (r : option Z)  (* get_component(e, T) *)
| QGetComponents (e : Z) (r : list Z)             (* get_components(e) *)
| QHas (e : Z) (T : nat) (r : bool)               (* has_component(e, T) *)
| QEntities (r : list Z)                          (* entities *)
| QExists (e : Z) (r : bool)                      (* entity_exists(e) *)
| QGetProc (T : nat) (r : option Z)               (* get_processor(T) *)
| QErr.                                           (* a query raised *)

(* one operation, its outcome, and the queries asked right after it *)
Definition entry := (op * res * list qobs)%type.
Definition trace := list entry.

Record wcase := { c_H : hier; c_trace : trace }.

(* ========================================================================= *)
(*  The model: World                                                          *)
(* ========================================================================= *)
Record world := mkW {
  ents : alist Z (alist nat Z);     (* _entities: id -> {exact type -> component} *)
  comps : alist nat (list Z);       (* _components: exact type -> set of ids *)
  dead : list Z;                    (* _dead_entities *)
  next_id : Z;                      (* next value of id_generator = count(1) *)
  procs : alist nat Z               (* _processors: exact type -> processor *)
}.

Definition w_init : world := mkW [] [] [] 1 [].

Definition set_dead (s : world) (d : list Z) : world :=
  mkW (ents s) (comps s) d (next_id s) (procs s).
Definition set_next (s : world) (n : Z) : world :=
  mkW (ents s) (comps s) (dead s) n (procs s).
Definition set_procs (s : world) (p : alist nat Z) : world :=
  mkW (ents s) (comps s) (dead s) (next_id s) p.

(* self._entities.get(e, {}) *)
Definition rowof (s : world) (e : Z) : alist nat Z :=
  match alookup e (ents s) with Some r => r | None => [] end.
(* self._components.get(u, []) *)
Definition idxof (cm : alist nat (list Z)) (u : nat) : list Z :=
  match alookup u cm with Some l => l | None => [] end.

(* the four statements shared by the loop of create_entity and the tail of
   add_component:
       if t not in self._components: self._components[t] = set()
       self._components[t].add(e)
       if e not in self._entities: self._entities[e] = {}
       self._entities[e][t] = c                                            *)
Definition attach (s : world) (e : Z) (u : nat) (c : Z) : world :=
  mkW (aset e (aset u c (rowof s e)) (ents s))
      (aset u (sadd e (idxof (comps s) u)) (comps s))
      (dead s) (next_id s) (procs s).

(* comps[u].discard(e); if not comps[u]: del comps[u] *)
Definition unindex (cm : alist nat (list Z)) (e : Z) (u : nat) : alist nat (list Z) :=
  let idx := sdiscard e (idxof cm u) in
  match idx with [] => adel u cm | _ => aset u idx cm end.

(* body of remove_component once [subtype in self._entities.get(entity, {})]:
       self._components[subtype].discard(entity); free the index entry if empty
       del self._entities[entity][subtype]
       if not self._entities[entity]: del self._entities[entity];
                                      self._dead_entities.discard(entity)   *)
Definition detach (s : world) (e : Z) (u : nat) : world :=
  let cm := unindex (comps s) e u in
  match adel u (rowof s e) with
  | [] => mkW (adel e (ents s)) cm (sdiscard e (dead s)) (next_id s) (procs s)
  | row => mkW (aset e row (ents s)) cm (dead s) (next_id s) (procs s)
  end.

(* delete_entity(e, immediate=True) for e in self._entities:
       components = self._entities.pop(e); self._dead_entities.discard(e)
       for t in components: comps[t].discard(e); free if empty              *)
Definition delete_imm (s : world) (e : Z) : world :=
  mkW (adel e (ents s))
      (fold_left (fun cm u => unindex cm e u) (akeys (rowof s e)) (comps s))
      (sdiscard e (dead s)) (next_id s) (procs s).

(* entity_id = next(gen); while entity_id in self._entities: entity_id = next(gen)
   at most |_entities| + 1 draws (QProofs.draw_id_fuel) *)
Fixpoint draw_id (fuel : nat) (k : Z) (en : alist Z (alist nat Z)) : option Z :=
  match fuel with
  | O => None
  | S f => if amem k en then draw_id f (k + 1) en else Some k
  end.

Definition create_loop (s : world) (e : Z) (cs : list (nat * Z)) : world :=
  fold_left (fun s uc => attach s e (fst uc) (snd uc)) cs s.

(* remove_component as called from add_component (no observation of the
   choice: the walk starts at an exact type that is present) *)
Definition m_remove_det (H : hier) (fuel : nat) (s : world) (e : Z) (T : nat) : option world :=
  match remove_component_walk H fuel (rowof s e) T with
  | WFound u => Some (detach s e u)
  | WNone => Some s
  | WFuel => None
  end.

(* add_component *)
Definition m_add (H : hier) (fuel : nat) (s : world) (e : Z) (u : nat) (c : Z) : option world :=
  let s1 :=
    if amem u (rowof s e) then
      let d := mem e (dead s) in
      match m_remove_det H fuel s e u with
      | Some s' => Some (if d then set_dead s' (sadd e (dead s')) else s')
      | None => None
      end
    else Some s in
  match s1 with
  | Some s1 => Some (attach s1 e u c)
  | None => None
  end.

(* _clear_dead_entities: while dead: delete_entity(dead.pop(), immediate=True).
   [l] is what is still in the set; returns the state and whether the
   KeyError of a vanished entity escaped *)
Fixpoint clear_dead (s : world) (l : list Z) : world * bool :=
  match l with
  | [] => (set_dead s [], false)
  | e :: l' =>
      if amem e (ents s) then clear_dead (delete_imm (set_dead s l') e) l'
      else (set_dead s l', true)
  end.

Definition m_remove_proc_det (H : hier) (fuel : nat) (s : world) (T : nat) : option world :=
  match remove_processor_walk H fuel (procs s) T with
  | WFound u => Some (set_procs s (adel u (procs s)))
  | WNone => Some s
  | WFuel => None
  end.

(* add_processor *)
Definition m_add_proc (H : hier) (fuel : nat) (s : world) (u : nat) (p : Z) : option world :=
  let s1 := if amem u (procs s) then m_remove_proc_det H fuel s u else Some s in
  match s1 with
  | Some s1 => Some (set_procs s1 (aset u p (procs s1)))
  | None => None
  end.

(* clear():
       for e in tuple(self._entities): self.delete_entity(e, immediate=True)
       self._dead_entities.clear()
       for p in tuple(self._sorted_processors): self.remove_processor(type(p))
       self.id_generator = self.id_generator_factory()                       *)
Definition m_clear (H : hier) (fuel : nat) (s : world) : option world :=
  let s1 := fold_left delete_imm (akeys (ents s)) s in
  let s2 := set_dead s1 [] in
  let s3 := fold_left (fun so u => match so with
                                   | Some s => m_remove_proc_det H fuel s u
                                   | None => None end)
                      (akeys (procs s2)) (Some s2) in
  match s3 with
  | Some s3 => Some (set_next s3 1)
  | None => None
  end.

(* ---- single-result queries: which answer is allowed ----------------------
   [tbl] is the row of the entity (or _processors), [w] the outcome of the
   code-shaped walk, [r] the object the implementation returned.  The model
   does not insist on its own walk's choice among non-exact subtypes: it
   reads the returned object and checks that it is attached under a type the
   subclass walk reaches, and under exactly T when T is present.
   Result: None = not allowed; Some None = nothing found; Some (Some u) =
   the object attached under type u. *)
Definition type_of (c : Z) (tbl : alist nat Z) : option nat :=
  match find (fun kv => snd kv =? c) tbl with Some kv => Some (fst kv) | None => None end.

Definition pick (H : hier) (fuel : nat) (tbl : alist nat Z) (w : wres) (T : nat)
           (r : option Z) : option (option nat) :=
  match w, r with
  | WNone, None => Some None
  | WFound _, Some c =>
      match type_of c tbl with
      | None => None
      | Some u =>
          if amem T tbl then (if Nat.eqb u T then Some (Some u) else None)
          else match get_types_walk H fuel T with
               | Some l => if mem u l then Some (Some u) else None
               | None => None
               end
      end
  | _, _ => None
  end.

(* ---- read side ------------------------------------------------------------ *)
(* list(self._get(T)) *)
Definition m_get (H : hier) (fuel : nat) (s : world) (T : nat) : option (list (Z * Z)) :=
  match get_types_walk H fuel T with
  | Some types =>
      Some (flat_map (fun u =>
              flat_map (fun e => match alookup u (rowof s e) with
                                 | Some c => [(e, c)]
                                 | None => [] end)
                       (idxof (comps s) u)) types)
  | None => None
  end.

Definition m_entities (s : world) : list Z :=
  filter (fun e => negb (mem e (dead s))) (akeys (ents s)).

Definition is_some {A} (o : option A) : bool := match o with Some _ => true | None => false end.

Definition m_query (H : hier) (fuel : nat) (s : world) (q : qobs) : bool :=
  match q with
  | QGet T r =>
      match m_get H fuel s T with Some l => perm_b r l | None => false end
  | QGetComponent e T r =>
      is_some (pick H fuel (rowof s e) (get_component_walk H fuel (rowof s e) T) T r)
  | QGetComponents e r => perm_b r (avals (rowof s e))
  | QHas e T r =>
      if amem e (ents s) then
        match has_component_walk H fuel (rowof s e) T with
        | WFound _ => r
        | WNone => negb r
        | WFuel => false
        end
      else negb r
  | QEntities r => perm_b r (m_entities s)
  | QExists e r => Bool.eqb r (amem e (ents s) && negb (mem e (dead s)))
  | QGetProc T r =>
      is_some (pick H fuel (procs s) (get_processor_walk H fuel (procs s) T) T r)
  | QErr => false
  end.

(* ---- one operation -------------------------------------------------------- *)
Definition m_step (H : hier) (fuel : nat) (s : world) (o : op) (r : res) : option world :=
  match o, r with
  | OCreate (Some e) cs, RId rid =>
      if rid =? e then Some (create_loop s e cs) else None
  | OCreate None cs, RId rid =>
      match draw_id (S (length (ents s))) (next_id s) (ents s) with
      | Some e => if rid =? e then Some (create_loop (set_next s (e + 1)) e cs) else None
      | None => None
      end
  | OAdd e u c, RUnit => m_add H fuel s e u c
  | ORemove e T, RObj r =>
      match pick H fuel (rowof s e) (remove_component_walk H fuel (rowof s e) T) T r with
      | None => None
      | Some None => Some s
      | Some (Some u) => Some (detach s e u)
      end
  | ODelete e true, RUnit => if amem e (ents s) then Some (delete_imm s e) else None
  | ODelete e true, RErr k => if amem e (ents s) then None else if k =? 1 then Some s else None
  | ODelete e false, RUnit => Some (set_dead s (sadd e (dead s)))
  | OProcess, RUnit => let (s', raised) := clear_dead s (dead s) in
                       if raised then None else Some s'
  | OProcess, RErr k => let (s', raised) := clear_dead s (dead s) in
                        if raised && (k =? 1) then Some s' else None
  | OClear, RUnit => m_clear H fuel s
  | OSetEnabled _, RUnit => Some s
  | OAddProc u p, RUnit => m_add_proc H fuel s u p
  | ORemoveProc T, RObj r =>
      match pick H fuel (procs s) (remove_processor_walk H fuel (procs s) T) T r with
      | None => None
      | Some None => Some s
      | Some (Some u) => Some (set_procs s (adel u (procs s)))
      end
  | ONop, RUnit => Some s
  | _, _ => None
  end.

Fixpoint m_run (H : hier) (fuel : nat) (s : world) (tr : trace) : bool :=
  match tr with
  | [] => true
  | (o, r, qs) :: tr =>
      match m_step H fuel s o r with
      | Some s' => forallb (m_query H fuel s') qs && m_run H fuel s' tr
      | None => false
      end
  end.

Definition accepts (c : wcase) : bool :=
  m_run (c_H c) (walk_fuel (c_H c)) w_init (c_trace c).

(* ========================================================================= *)
(*  The specification: who owns what, from the history alone                  *)
(* ========================================================================= *)
Definition triple := (Z * nat * Z)%type.       (* (entity, exact type, component) *)
Definition t_e (x : triple) : Z := fst (fst x).
Definition t_u (x : triple) : nat := snd (fst x).
Definition t_c (x : triple) : Z := snd x.

Record spec := mkS {
  att : list triple;          (* attached components *)
  pend : list Z;              (* entities awaiting deletion *)
  sprocs : list (nat * Z)     (* attached processors: (exact type, processor) *)
}.
Definition spec_init : spec := mkS [] [] [].

Definition owns (a : list triple) (e : Z) : bool := existsb (fun x => t_e x =? e) a.
(* (type, object) pairs attached to entity e *)
Definition of_entity (a : list triple) (e : Z) : list (nat * Z) :=
  map (fun x => (t_u x, t_c x)) (filter (fun x => t_e x =? e) a).

(* a query for ONE object of type T among the attached (type, object) pairs:
   nothing is returned iff nothing of a subtype of T is attached; otherwise
   the result is attached under a subtype of T, and under exactly T if an
   object of exactly type T is attached *)
Definition ok_single (H : hier) (cands : list (nat * Z)) (T : nat) (r : option Z) : bool :=
  match r with
  | None => negb (existsb (fun x => issub H (fst x) T) cands)
  | Some c =>
      existsb (fun x => (snd x =? c) && issub H (fst x) T) cands &&
      forallb (fun x => if Nat.eqb (fst x) T then snd x =? c else true) cands
  end.

Definition spec_step (H : hier) (t : spec) (o : op) (r : res) : option spec :=
  match o, r with
  | OCreate eo cs, RId rid =>
      (* an explicit id is used as given; an automatic id owns nothing yet *)
      if match eo with Some e => rid =? e | None => negb (owns (att t) rid) end
      then Some (mkS (att t ++ map (fun uc => (rid, fst uc, snd uc)) cs) (pend t) (sprocs t))
      else None
  | OAdd e u c, RUnit =>
      (* c takes the slot (e, u), whatever was there is detached *)
      Some (mkS (filter (fun x => negb ((t_e x =? e) && Nat.eqb (t_u x) u)) (att t) ++ [(e, u, c)])
                (pend t) (sprocs t))
  | ORemove e T, RObj r =>
      if ok_single H (of_entity (att t) e) T r then
        match r with
        | None => Some t
        | Some c =>
            (* exactly the returned object is detached; an entity left
               without components is no longer awaiting deletion *)
            let a := filter (fun x => negb ((t_e x =? e) && (t_c x =? c))) (att t) in
            Some (mkS a (if owns a e then pend t else sdiscard e (pend t)) (sprocs t))
        end
      else None
  | ODelete e true, RUnit =>
      Some (mkS (filter (fun x => negb (t_e x =? e)) (att t)) (sdiscard e (pend t)) (sprocs t))
  | ODelete e true, RErr _ =>
      (* only an entity without components may be refused *)
      if owns (att t) e then None else Some t
  | ODelete e false, RUnit => Some (mkS (att t) (sadd e (pend t)) (sprocs t))
  | OProcess, RUnit =>
      Some (mkS (filter (fun x => negb (mem (t_e x) (pend t))) (att t)) [] (sprocs t))
  | OClear, RUnit => Some (mkS [] [] [])
  | OSetEnabled _, RUnit => Some t
  | OAddProc u p, RUnit =>
      Some (mkS (att t) (pend t) (filter (fun x => negb (Nat.eqb (fst x) u)) (sprocs t) ++ [(u, p)]))
  | ORemoveProc T, RObj r =>
      if ok_single H (sprocs t) T r then
        match r with
        | None => Some t
        | Some p => Some (mkS (att t) (pend t) (filter (fun x => negb (snd x =? p)) (sprocs t)))
        end
      else None
  | ONop, RUnit => Some t
  | _, _ => None
  end.

(* what get(T) has to list, up to order *)
Definition spec_get (H : hier) (t : spec) (T : nat) : list (Z * Z) :=
  map (fun x => (t_e x, t_c x)) (filter (fun x => issub H (t_u x) T) (att t)).
(* what entities has to list, up to order *)
Definition spec_entities (t : spec) : list Z :=
  filter (fun e => negb (mem e (pend t))) (nodup Z.eq_dec (map t_e (att t))).

Definition spec_query (H : hier) (t : spec) (q : qobs) : bool :=
  match q with
  | QGet T r => perm_b r (spec_get H t T)
  | QGetComponent e T r => ok_single H (of_entity (att t) e) T r
  | QGetComponents e r => perm_b r (map snd (of_entity (att t) e))
  | QHas e T r => Bool.eqb r (existsb (fun x => issub H (fst x) T) (of_entity (att t) e))
  | QEntities r => perm_b r (spec_entities t)
  | QExists e r => Bool.eqb r (owns (att t) e && negb (mem e (pend t)))
  | QGetProc T r => ok_single H (sprocs t) T r
  | QErr => false
  end.

(* the queries of one property: C01 looks at all of them, C06 at the
   queries by type *)
Definition sel_all (q : qobs) : bool := true.
Definition sel_type (q : qobs) : bool :=
  match q with
  | QGet _ _ | QGetComponent _ _ _ | QHas _ _ _ | QGetProc _ _ | QErr => true
  | _ => false
  end.

Fixpoint spec_run (H : hier) (sel : qobs -> bool) (t : spec) (tr : trace) : bool :=
  match tr with
  | [] => true
  | (o, r, qs) :: tr =>
      match spec_step H t o r with
      | Some t' =>
          forallb (fun q => negb (sel q) || spec_query H t' q) qs && spec_run H sel t' tr
      | None => false
      end
  end.

(* ---- input domain (DESIGN 3.7) -------------------------------------------- *)
Fixpoint nodup_b {K} `{EqB K} (l : list K) : bool :=
  match l with [] => true | x :: l => negb (mem x l) && nodup_b l end.

Definition wf_op (t : spec) (o : op) : bool :=
  match o with
  | OCreate eo cs =>
      (* at most one component per exact type, distinct instances, none of
         them attached anywhere, and no occupied slot of an explicit id *)
      nodup_b (map fst cs) && nodup_b (map snd cs) &&
      forallb (fun uc => negb (existsb (fun x => t_c x =? snd uc) (att t))) cs &&
      match eo with
      | Some e => forallb (fun uc => negb (existsb (fun x => (t_e x =? e) && Nat.eqb (t_u x) (fst uc))
                                                   (att t))) cs
      | None => true
      end
  | OAdd e u c =>
      (* the instance is not attached in another slot *)
      forallb (fun x => negb (t_c x =? c) || ((t_e x =? e) && Nat.eqb (t_u x) u)) (att t)
  | ODelete e false => owns (att t) e      (* a deferred delete names an entity with components *)
  | OAddProc u p =>
      forallb (fun x => negb (snd x =? p) || Nat.eqb (fst x) u) (sprocs t)
  | _ => true
  end.

(* well-formed as far as the history is determined by the observations *)
Fixpoint wf_run (H : hier) (t : spec) (tr : trace) : bool :=
  match tr with
  | [] => true
  | (o, r, _) :: tr =>
      wf_op t o &&
      match spec_step H t o r with
      | Some t' => wf_run H t' tr
      | None => true
      end
  end.

Definition wf_b (c : wcase) : bool := hier_wf_b (c_H c) && wf_run (c_H c) spec_init (c_trace c).
Definition known_b (c : wcase) : bool := false.

Definition holds01_b (c : wcase) : bool := spec_run (c_H c) sel_all spec_init (c_trace c).
Definition holds06_b (c : wcase) : bool := spec_run (c_H c) sel_type spec_init (c_trace c).
Definition holds01 (c : wcase) : Prop := holds01_b c = true.
Definition holds06 (c : wcase) : Prop := holds06_b c = true.

Definition bit (b : bool) (n : nat) : nat := if b then n else 0%nat.
Definition C01_case := wcase.
Definition C06_case := wcase.
Definition C01_verdict (c : C01_case) : nat :=
  (bit (wf_b c) 1 + bit (known_b c) 2 + bit (accepts c) 4 + bit (holds01_b c) 8)%nat.
Definition C06_verdict (c : C06_case) : nat :=
  (bit (wf_b c) 1 + bit (known_b c) 2 + bit (accepts c) 4 + bit (holds06_b c) 8)%nat.
