(* Proofs about class hierarchies and the subclass walks (C06). *)
From Coq Require Import ZArith List Bool Arith Lia.
From Desper Require Import World.QLib World.QHier.
Import ListNotations.

(* bases precede subclasses: every DAG of classes, in creation order *)
Definition hier_wf (H : hier) : Prop := forall i b, In b (bases H i) -> b < i.

Lemma bases_lt_len H i b : In b (bases H i) -> i < length H.
Proof.
  intros Hb. destruct (Nat.lt_ge_cases i (length H)) as [L|G]; auto.
  unfold bases in Hb. rewrite nth_overflow in Hb by assumption. destruct Hb.
Qed.

Lemma hier_wf_b_spec H : hier_wf_b H = true -> hier_wf H.
Proof.
  unfold hier_wf_b. rewrite forallb_forall. intros Hf i b Hb.
  pose proof (bases_lt_len _ _ _ Hb) as L.
  assert (Hi : In i (seq 0 (length H))) by (apply in_seq; lia).
  specialize (Hf i Hi). rewrite forallb_forall in Hf.
  apply Nat.ltb_lt. now apply Hf.
Qed.

Lemma in_subclasses H t c : In c (subclasses H t) <-> In t (bases H c).
Proof.
  unfold subclasses. rewrite filter_In, mem_In, in_seq. split.
  - tauto.
  - intros Hb. pose proof (bases_lt_len _ _ _ Hb). split; auto. lia.
Qed.

Lemma NoDup_subclasses H t : NoDup (subclasses H t).
Proof. apply NoDup_filter, seq_NoDup. Qed.

(* ---- the subclass relation ------------------------------------------------ *)
Lemma sub_child H t c : In c (subclasses H t) -> sub H c t.
Proof. intros Hc. apply in_subclasses in Hc. eapply sub_step; eauto. constructor. Qed.

Lemma sub_trans H u v t : sub H u v -> sub H v t -> sub H u t.
Proof. induction 1; intros; auto. eapply sub_step; eauto. Qed.

(* looking down from t: a proper subclass is below a direct subclass *)
Lemma sub_down H w u : sub H w u -> w = u \/ exists c, In c (subclasses H u) /\ sub H w c.
Proof.
  induction 1 as [t|w b u Hb Hs IH]; auto.
  right. destruct IH as [->|(c & Hc & Hsc)].
  - exists w. split; [now apply in_subclasses|constructor].
  - exists c. split; auto. eapply sub_step; eauto.
Qed.

Lemma issub_f_sound H f : forall u t, issub_f H f u t = true -> sub H u t.
Proof.
  induction f as [|f IH]; intros u t; cbn [issub_f]; rewrite orb_true_iff.
  - intros [E|E]; [|discriminate]. apply Nat.eqb_eq in E. subst. constructor.
  - intros [E|E].
    + apply Nat.eqb_eq in E. subst. constructor.
    + apply existsb_exists in E as (b & Hb & Hs). eapply sub_step; eauto.
Qed.

Lemma issub_f_complete H : hier_wf H ->
  forall u t, sub H u t -> forall f, u <= f -> issub_f H f u t = true.
Proof.
  intros WF u t Hs. induction Hs as [t|u b t Hb Hs IH]; intros f Hf.
  - destruct f; cbn [issub_f]; now rewrite Nat.eqb_refl.
  - pose proof (WF _ _ Hb) as L. destruct f as [|f]; [lia|].
    cbn [issub_f]. apply orb_true_iff. right.
    apply existsb_exists. exists b. split; auto. apply IH. lia.
Qed.

Theorem issub_spec H : hier_wf H -> forall u t, issub H u t = true <-> sub H u t.
Proof.
  intros WF u t. unfold issub. split.
  - apply issub_f_sound.
  - intros Hs. now apply issub_f_complete.
Qed.

(* ---- walks with early return ---------------------------------------------- *)
Section Find.
  Variable H : hier.
  Variable test : nat -> bool.

  Lemma find_sound : forall fuel st u,
    find_walk H test fuel st = WFound u ->
    test u = true /\ exists v, In v st /\ sub H u v.
  Proof.
    induction fuel as [|f IH]; intros st u; destruct st as [|u0 rest]; cbn [find_walk];
      try discriminate.
    destruct (test u0) eqn:E.
    - intros [= <-]. split; auto. exists u0. split; [now left|constructor].
    - intros Hw. destruct (IH _ _ Hw) as (Ht & v & Hv & Hs). split; auto.
      apply in_app_iff in Hv as [Hv|Hv].
      + apply in_rev in Hv. exists u0. split; [now left|].
        eapply sub_trans; eauto. now apply sub_child.
      + exists v. split; auto. now right.
  Qed.

  Lemma find_complete : forall fuel st,
    find_walk H test fuel st = WNone ->
    forall v u, In v st -> sub H u v -> test u = false.
  Proof.
    induction fuel as [|f IH]; intros st; destruct st as [|u0 rest]; cbn [find_walk];
      try discriminate; try (intros _ v u Hv; now destruct Hv).
    destruct (test u0) eqn:E; [discriminate|].
    intros Hw v u Hv Hs. destruct Hv as [<-|Hv].
    - apply sub_down in Hs as [->|(c & Hc & Hs)]; auto.
      apply (IH _ Hw c u); auto. apply in_app_iff. left. now apply in_rev in Hc.
    - apply (IH _ Hw v u); auto. apply in_app_iff. now right.
  Qed.

  (* the exact type is popped first: it has priority *)
  Lemma find_exact fuel T rest :
    test T = true -> find_walk H test (S fuel) (T :: rest) = WFound T.
  Proof. intros E. cbn [find_walk]. now rewrite E. Qed.

  Lemma has_walk_find : forall fuel st, has_walk H test fuel st = find_walk H test fuel st.
  Proof.
    induction fuel as [|f IH]; intros st; destruct st as [|u0 rest]; cbn [has_walk find_walk]; auto.
    all: try (destruct (test u0); auto).
  Qed.
End Find.

(* ---- the walk with a visited set ------------------------------------------ *)
Section Get.
  Variable H : hier.

  Lemma get_sound : forall fuel st vis l,
    get_walk H fuel st vis = Some l ->
    NoDup l /\ forall x, In x l -> ~ In x vis /\ exists v, In v st /\ sub H x v.
  Proof.
    induction fuel as [|f IH]; intros st vis l; destruct st as [|u rest]; cbn [get_walk];
      try discriminate.
    - intros [= <-]. split; [constructor|intros x []].
    - intros [= <-]. split; [constructor|intros x []].
    - destruct (mem u vis) eqn:E.
      + intros Hw. destruct (IH _ _ _ Hw) as (ND & Hx). split; auto.
        intros x Hi. destruct (Hx x Hi) as (Hn & v & Hv & Hs). split; auto.
        exists v. split; auto. now right.
      + destruct (get_walk H f (rev (subclasses H u) ++ rest) (u :: vis)) as [l'|] eqn:Hw;
          [|discriminate].
        intros [= <-]. destruct (IH _ _ _ Hw) as (ND & Hx). apply mem_false in E. split.
        * constructor; auto. intros Hi. destruct (Hx u Hi) as (Hn & _). apply Hn. now left.
        * intros x [<-|Hi].
          -- split; auto. exists u. split; [now left|constructor].
          -- destruct (Hx x Hi) as (Hn & v & Hv & Hs). split.
             ++ intros Hv'. apply Hn. now right.
             ++ apply in_app_iff in Hv as [Hv|Hv].
                ** apply in_rev in Hv. exists u. split; [now left|].
                   eapply sub_trans; eauto. now apply sub_child.
                ** exists v. split; auto. now right.
  Qed.

  Lemma get_complete : forall fuel st vis l,
    get_walk H fuel st vis = Some l ->
    (forall w c, In w vis -> In c (subclasses H w) -> In c vis \/ In c st) ->
    (forall v, In v st -> In v l \/ In v vis) /\
    (forall w c, In w l \/ In w vis -> In c (subclasses H w) -> In c l \/ In c vis).
  Proof.
    induction fuel as [|f IH]; intros st vis l; destruct st as [|u rest]; cbn [get_walk];
      try discriminate.
    - intros [= <-] Hcl. split; [intros v []|].
      intros w c [[]|Hw] Hc. destruct (Hcl w c Hw Hc) as [Hv|[]]. now right.
    - intros [= <-] Hcl. split; [intros v []|].
      intros w c [[]|Hw] Hc. destruct (Hcl w c Hw Hc) as [Hv|[]]. now right.
    - destruct (mem u vis) eqn:E.
      + apply mem_In in E. intros Hw Hcl.
        destruct (IH _ _ _ Hw) as (Hst & Hcl').
        { intros w c Hwv Hc. destruct (Hcl w c Hwv Hc) as [Hv|[<-|Hv]]; auto. }
        split; auto. intros v [<-|Hv]; auto.
      + destruct (get_walk H f (rev (subclasses H u) ++ rest) (u :: vis)) as [l'|] eqn:Hw;
          [|discriminate].
        intros [= <-] Hcl.
        destruct (IH _ _ _ Hw) as (Hst & Hcl').
        { intros w c [<-|Hwv] Hc.
          - right. apply in_app_iff. left. now apply in_rev in Hc.
          - destruct (Hcl w c Hwv Hc) as [Hv|[<-|Hv]].
            + left. now right.
            + left. now left.
            + right. apply in_app_iff. now right. }
        assert (Hmv : forall x, In x l' \/ In x (u :: vis) -> In x (u :: l') \/ In x vis).
        { intros x [Hx|[<-|Hx]]; auto; left; [now right|now left]. }
        split.
        * intros v [<-|Hv]; [left; now left|].
          apply Hmv, Hst, in_app_iff. now right.
        * intros w c Hw' Hc. apply Hmv. apply (Hcl' w c); auto.
          destruct Hw' as [[<-|Hw']|Hw']; auto.
          -- right. now left.
          -- right. now right.
  Qed.

  (* the repaired _get visits exactly the subclasses of T, once each *)
  Theorem walk_visits fuel T l :
    get_types_walk H fuel T = Some l ->
    NoDup l /\ forall u, In u l <-> sub H u T.
  Proof.
    unfold get_types_walk. intros Hw.
    destruct (get_sound _ _ _ _ Hw) as (ND & Hs).
    destruct (get_complete _ _ _ _ Hw) as (Hst & Hcl); [intros w c []|].
    split; auto. intros u. split.
    - intros Hu. destruct (Hs u Hu) as (_ & v & [<-|[]] & Hsub). exact Hsub.
    - intros Hsub.
      assert (HT : In T l) by (destruct (Hst T) as [Ht|[]]; auto; now left).
      assert (Hcl' : forall w c, In w l -> In c (subclasses H w) -> In c l).
      { intros w c Hwl Hc. destruct (Hcl w c) as [Hu|[]]; auto. }
      clear Hw Hs Hst Hcl.
      induction Hsub as [t|u b t Hb Hsub IH]; auto.
      apply (Hcl' b u); auto. now apply in_subclasses.
  Qed.
End Get.

(* ---- the fuel suffices ---------------------------------------------------- *)
Section Fuel.
  Variable H : hier.
  Hypothesis WF : hier_wf H.
  Let N := length H.

  Definition wt (v : nat) : nat := 2 ^ (N - v).
  Fixpoint pot (st : list nat) : nat :=
    match st with [] => 0 | v :: st => wt v + pot st end.

  Lemma wt_pos v : 1 <= wt v.
  Proof. unfold wt. pose proof (Nat.pow_nonzero 2 (N - v)). lia. Qed.

  Lemma pot_app a b : pot (a ++ b) = pot a + pot b.
  Proof. induction a as [|x a IH]; cbn [app pot]; lia. Qed.

  Lemma pot_rev a : pot (rev a) = pot a.
  Proof.
    induction a as [|x a IH]; cbn [rev]; auto.
    rewrite pot_app, IH. cbn [pot]. lia.
  Qed.

  Lemma pot_seq_bound (P : nat -> bool) : forall n a,
    a + n = N -> pot (filter P (seq a n)) + 2 <= 2 * 2 ^ n.
  Proof.
    induction n as [|n IH]; intros a E; cbn [seq filter].
    - cbn. lia.
    - specialize (IH (S a) ltac:(lia)).
      rewrite Nat.pow_succ_r'. destruct (P a).
      + cbn [pot]. unfold wt at 1.
        replace (N - a) with (S n) by lia. rewrite Nat.pow_succ_r'. lia.
      + lia.
  Qed.

  Lemma filter_none {A} (P : A -> bool) l : (forall x, In x l -> P x = false) -> filter P l = [].
  Proof.
    induction l as [|x l IH]; cbn [filter]; auto. intros Hf.
    rewrite (Hf x) by now left. apply IH. intros y Hy. apply Hf. now right.
  Qed.

  (* pushing all direct subclasses weighs less than the class popped *)
  Lemma pot_subclasses u : pot (subclasses H u) < wt u.
  Proof.
    unfold subclasses. fold N.
    set (P := fun i => mem u (bases H i)).
    assert (HP : forall c, P c = true -> u < c).
    { intros c Hc. apply mem_In in Hc. now apply WF. }
    destruct (Nat.lt_ge_cases u N) as [L|G].
    - replace N with (S u + (N - S u)) at 1 by lia.
      rewrite seq_app, filter_app, pot_app. cbn [plus].
      rewrite (filter_none P (seq 0 (S u))).
      + pose proof (pot_seq_bound P (N - S u) (S u) ltac:(lia)) as B.
        unfold wt. replace (N - u) with (S (N - S u)) by lia.
        rewrite Nat.pow_succ_r'. cbn [pot plus] in *. lia.
      + intros c Hc. apply in_seq in Hc. destruct (P c) eqn:E; auto.
        apply HP in E. lia.
    - rewrite (filter_none P (seq 0 N)).
      + cbn. pose proof (wt_pos u). lia.
      + intros c Hc. apply in_seq in Hc. destruct (P c) eqn:E; auto.
        apply HP in E. lia.
  Qed.

  Lemma find_walk_pot test : forall fuel st,
    pot st < fuel -> find_walk H test fuel st <> WFuel.
  Proof.
    induction fuel as [|f IH]; intros st Hp; destruct st as [|u rest]; cbn [find_walk];
      try discriminate.
    - lia.
    - destruct (test u); [discriminate|]. apply IH.
      rewrite pot_app, pot_rev. pose proof (pot_subclasses u).
      cbn [pot] in Hp. lia.
  Qed.

  Lemma get_walk_pot : forall fuel st vis,
    pot st < fuel -> get_walk H fuel st vis <> None.
  Proof.
    induction fuel as [|f IH]; intros st vis Hp; destruct st as [|u rest]; cbn [get_walk];
      try discriminate.
    - lia.
    - assert (Hu : pot (u :: rest) = wt u + pot rest) by reflexivity.
      pose proof (wt_pos u). destruct (mem u vis).
      + apply IH. lia.
      + destruct (get_walk H f (rev (subclasses H u) ++ rest) (u :: vis)) eqn:E; [discriminate|].
        exfalso. revert E. apply IH.
        rewrite pot_app, pot_rev. pose proof (pot_subclasses u). lia.
  Qed.

  Lemma pot_single T : pot [T] < walk_fuel H.
  Proof.
    unfold walk_fuel, wt. cbn [pot]. unfold wt. fold N.
    assert (2 ^ (N - T) <= 2 ^ N) by (apply Nat.pow_le_mono_r; lia). lia.
  Qed.

  (* with walk_fuel no walk of the model ever runs out of fuel *)
  Theorem find_walk_fuel test T : find_walk H test (walk_fuel H) [T] <> WFuel.
  Proof. apply find_walk_pot, pot_single. Qed.

  Theorem has_walk_fuel test T : has_walk H test (walk_fuel H) [T] <> WFuel.
  Proof. rewrite has_walk_find. apply find_walk_fuel. Qed.

  Theorem get_walk_fuel T : get_types_walk H (walk_fuel H) T <> None.
  Proof. apply get_walk_pot, pot_single. Qed.
End Fuel.
