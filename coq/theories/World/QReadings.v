(* C01 / C06 - what the specification machine says, on raw observations:
   the history summary exists after every prefix of an accepted trace, it is
   a functional attachment relation, and each query clause of [spec_query]
   is spelled out as a statement about lists and the subclass relation. *)
From Coq Require Import ZArith List Bool Arith Lia Permutation.
From Desper Require Import World.QLib World.QHier World.QHierProofs World.QModel World.QProofs.
Import ListNotations.
Open Scope Z_scope.

(* the history summary after a prefix (queries do not change it) *)
Fixpoint spec_after (H : hier) (t : spec) (tr : trace) : option spec :=
  match tr with
  | [] => Some t
  | (o, r, _) :: tr =>
      match spec_step H t o r with
      | Some t' => spec_after H t' tr
      | None => None
      end
  end.

Record story (t : spec) : Prop := {
  (* a component instance is attached in at most one slot *)
  st_once : NoDup (map t_c (att t));
  (* a slot (entity, exact type) holds at most one component *)
  st_slot : forall e u c c', In (e, u, c) (att t) -> In (e, u, c') (att t) -> c = c';
  (* entities awaiting deletion own components *)
  st_pend : forall e, In e (pend t) -> owns (att t) e = true;
  st_pid : NoDup (map snd (sprocs t));
  st_ptype : forall u p p', In (u, p) (sprocs t) -> In (u, p') (sprocs t) -> p = p'
}.

Lemma rel_story s t : Rel s t -> story t.
Proof.
  intros (C & (NDd & Hd & Hda) & P). split.
  - apply (co_cid _ _ _ C).
  - intros e u c c' H1 H2. apply (co_att _ _ _ C) in H1, H2. congruence.
  - intros e He. rewrite (owns_amem _ _ _ e C). apply Hda. now apply Hd.
  - apply (po_pid _ _ P).
  - intros u p p' H1 H2. apply (po_att _ _ P) in H1, H2. congruence.
Qed.

Lemma run_rel H fuel : hier_wf H -> fuel <> 0%nat -> forall p rest s t,
  Rel s t -> wf_run H t (p ++ rest) = true -> m_run H fuel s (p ++ rest) = true ->
  exists s' t', spec_after H t p = Some t' /\ Rel s' t' /\
                wf_run H t' rest = true /\ m_run H fuel s' rest = true.
Proof.
  intros WF Hfuel. induction p as [|[[o r] qs] p IH]; intros rest s t R Hwf Hm.
  - exists s, t. auto.
  - cbn [app wf_run m_run spec_after] in *.
    apply andb_true_iff in Hwf as [Hwo Hwf].
    destruct (m_step H fuel s o r) as [s1|] eqn:Ms; [|discriminate].
    apply andb_true_iff in Hm as [Hq Hm].
    destruct (step_sim H fuel s t o r s1 WF Hfuel R Hwo Ms) as (t1 & Hs & R1).
    rewrite Hs in *. eapply IH; eauto.
Qed.

(* after every prefix of an accepted well-formed trace the history summary
   exists and is a functional attachment relation *)
Theorem every_prefix_story c p rest :
  wf_b c = true -> accepts c = true -> c_trace c = p ++ rest ->
  exists t, spec_after (c_H c) spec_init p = Some t /\ story t.
Proof.
  unfold wf_b, accepts. intros Hwf Ha E. rewrite E in *.
  apply andb_true_iff in Hwf as [Hh Hwf]. apply hier_wf_b_spec in Hh.
  destruct (run_rel _ _ Hh (walk_fuel_pos _) p rest _ _ rel_init Hwf Ha) as (s' & t' & Hs & R & _).
  exists t'. split; auto. eapply rel_story; eauto.
Qed.

(* ---- the query clauses, spelled out -------------------------------------------- *)
Section Readings.
  Variable H : hier.
  Hypothesis WF : hier_wf H.
  Variable t : spec.
  Hypothesis ST : story t.

  Lemma NoDup_att : NoDup (att t).
  Proof. apply (NoDup_map_inv t_c), (st_once _ ST). Qed.

  Lemma in_get_list T e c :
    In (e, c) (spec_get H t T) <-> exists u, In (e, u, c) (att t) /\ sub H u T.
  Proof.
    unfold spec_get. rewrite in_map_iff. split.
    - intros ([[e' u] c'] & [= <- <-] & Hi). apply filter_In in Hi as [Hi Hs].
      exists u. split; auto. now apply (issub_spec H WF).
    - intros (u & Hi & Hs). exists (e, u, c). split; auto. apply filter_In. split; auto.
      now apply (issub_spec H WF).
  Qed.

  Lemma NoDup_get_list T : NoDup (spec_get H t T).
  Proof.
    unfold spec_get. apply NoDup_map_inj_in.
    - apply NoDup_filter, NoDup_att.
    - intros x y Hx Hy E. apply filter_In in Hx as [Hx _]. apply filter_In in Hy as [Hy _].
      apply (NoDup_map_inj t_c (att t)); auto; [apply (st_once _ ST)|]. now injection E.
  Qed.

  (* get(T) lists exactly one (entity, component) pair for every attached
     component whose type is T or a subclass of T, and nothing else *)
  Theorem reading_get T r :
    spec_query H t (QGet T r) = true ->
    NoDup r /\ forall e c, In (e, c) r <-> exists u, In (e, u, c) (att t) /\ sub H u T.
  Proof.
    cbn [spec_query]. intros Hp. apply perm_b_spec in Hp. split.
    - eapply Permutation_NoDup; [apply Permutation_sym; exact Hp|apply NoDup_get_list].
    - intros e c. rewrite <- in_get_list. split; apply Permutation_in; auto.
      now apply Permutation_sym.
  Qed.

  Theorem reading_get_components e r :
    spec_query H t (QGetComponents e r) = true ->
    NoDup r /\ forall c, In c r <-> exists u, In (e, u, c) (att t).
  Proof.
    cbn [spec_query]. intros Hp. apply perm_b_spec in Hp.
    assert (ND : NoDup (map snd (of_entity (att t) e))).
    { unfold of_entity. rewrite map_map. cbn [snd]. apply NoDup_map_filter, (st_once _ ST). }
    assert (Hin : forall c, In c (map snd (of_entity (att t) e)) <-> exists u, In (e, u, c) (att t)).
    { intros c. rewrite in_map_iff. split.
      - intros ([u c'] & E & Hi). cbn [snd] in E. subst. exists u. now apply in_of_entity.
      - intros (u & Hi). exists (u, c). split; auto. now apply in_of_entity. }
    split.
    - eapply Permutation_NoDup; [apply Permutation_sym; exact Hp|exact ND].
    - intros c. rewrite <- Hin. split; apply Permutation_in; auto. now apply Permutation_sym.
  Qed.

  Theorem reading_has_component e T r :
    spec_query H t (QHas e T r) = true ->
    (r = true <-> exists u c, In (e, u, c) (att t) /\ sub H u T).
  Proof.
    cbn [spec_query]. intros Hq. apply Bool.eqb_prop in Hq. subst r.
    rewrite existsb_exists. split.
    - intros ([u c] & Hi & Hs). cbn [fst] in Hs. exists u, c. split.
      + now apply in_of_entity.
      + now apply (issub_spec H WF).
    - intros (u & c & Hi & Hs). exists (u, c). split.
      + now apply in_of_entity.
      + cbn [fst]. now apply (issub_spec H WF).
  Qed.

  (* single-result queries: nothing iff nothing matches; otherwise an
     attached object of a subtype, the one of exactly type T if there is one *)
  Lemma reading_single cands T r :
    ok_single H cands T r = true ->
    match r with
    | None => forall u c, In (u, c) cands -> ~ sub H u T
    | Some c => (exists u, In (u, c) cands /\ sub H u T) /\
                (forall c', In (T, c') cands -> c' = c)
    end.
  Proof.
    destruct r as [c|]; cbn [ok_single].
    - rewrite andb_true_iff, existsb_exists, forallb_forall. intros [(x & Hi & Hx) Hf]. split.
      + destruct x as [u c']. cbn [fst snd] in Hx. apply andb_true_iff in Hx as [E Hs].
        apply Z.eqb_eq in E. subst c'. exists u. split; auto. now apply (issub_spec H WF).
      + intros c' Hi'. specialize (Hf _ Hi'). cbn [fst snd] in Hf.
        rewrite Nat.eqb_refl in Hf. now apply Z.eqb_eq in Hf.
    - rewrite negb_true_iff. intros Hn u c Hi Hs.
      assert (existsb (fun x => issub H (fst x) T) cands = true); [|congruence].
      apply existsb_exists. exists (u, c). split; auto. cbn [fst]. now apply (issub_spec H WF).
  Qed.

  Theorem reading_get_component e T r :
    spec_query H t (QGetComponent e T r) = true ->
    match r with
    | None => forall u c, In (e, u, c) (att t) -> ~ sub H u T
    | Some c => (exists u, In (e, u, c) (att t) /\ sub H u T) /\
                (forall c', In (e, T, c') (att t) -> c' = c)
    end.
  Proof.
    cbn [spec_query]. intros Hq. apply reading_single in Hq. destruct r as [c|].
    - destruct Hq as [(u & Hi & Hs) Hx]. split.
      + exists u. split; auto. now apply in_of_entity.
      + intros c' Hi'. apply Hx. now apply in_of_entity.
    - intros u c Hi. apply (Hq u c). now apply in_of_entity.
  Qed.

  Theorem reading_get_processor T r :
    spec_query H t (QGetProc T r) = true ->
    match r with
    | None => forall u p, In (u, p) (sprocs t) -> ~ sub H u T
    | Some p => (exists u, In (u, p) (sprocs t) /\ sub H u T) /\
                (forall p', In (T, p') (sprocs t) -> p' = p)
    end.
  Proof. cbn [spec_query]. apply reading_single. Qed.

  Lemma in_owners_spec e : In e (map t_e (att t)) <-> exists u c, In (e, u, c) (att t).
  Proof.
    rewrite in_map_iff. split.
    - intros ([[e' u] c] & E & Hi). cbn in E. subst. eauto.
    - intros (u & c & Hi). exists (e, u, c). split; auto.
  Qed.

  (* entities names exactly the entities that own a component and are not
     awaiting deletion, once each *)
  Theorem reading_entities r :
    spec_query H t (QEntities r) = true ->
    NoDup r /\ forall e, In e r <-> (exists u c, In (e, u, c) (att t)) /\ ~ In e (pend t).
  Proof.
    cbn [spec_query]. intros Hp. apply perm_b_spec in Hp.
    assert (Hin : forall e, In e (spec_entities t) <->
                            (exists u c, In (e, u, c) (att t)) /\ ~ In e (pend t)).
    { intros e. unfold spec_entities. rewrite filter_In, nodup_In, in_owners_spec.
      rewrite negb_true_iff, mem_false. tauto. }
    split.
    - eapply Permutation_NoDup; [apply Permutation_sym; exact Hp|].
      apply NoDup_filter, NoDup_nodup.
    - intros e. rewrite <- Hin. split; apply Permutation_in; auto. now apply Permutation_sym.
  Qed.

  Theorem reading_entity_exists e r :
    spec_query H t (QExists e r) = true ->
    (r = true <-> (exists u c, In (e, u, c) (att t)) /\ ~ In e (pend t)).
  Proof.
    cbn [spec_query]. intros Hq. apply Bool.eqb_prop in Hq. subst r.
    rewrite andb_true_iff, owns_spec, negb_true_iff, mem_false. tauto.
  Qed.

  (* remove_component detaches exactly the returned object *)
  Theorem reading_remove e T c t' :
    spec_step H t (ORemove e T) (RObj (Some c)) = Some t' ->
    exists u, In (e, u, c) (att t) /\ sub H u T /\
              (forall c', In (e, T, c') (att t) -> c' = c) /\
              Permutation (att t) ((e, u, c) :: att t') /\ sprocs t' = sprocs t.
  Proof.
    cbn [spec_step]. destruct (ok_single H (of_entity (att t) e) T (Some c)) eqn:Hok; [|discriminate].
    intros [= <-]. apply reading_single in Hok as [(u & Hi & Hs) Hx].
    apply in_of_entity in Hi. exists u. split; auto. split; auto. split.
    { intros c' Hi'. apply Hx. now apply in_of_entity. }
    split; auto. cbn [att].
    apply NoDup_Permutation.
    - apply NoDup_att.
    - constructor.
      + rewrite filter_In. cbn. rewrite !Z.eqb_refl. intros [_ Hd]. discriminate.
      + apply NoDup_filter, NoDup_att.
    - intros [[e1 u1] c1]. cbn [In]. rewrite filter_In. cbn [t_e t_c fst snd]. split.
      + intros Hx1. destruct (Z.eqb_spec e1 e) as [->|N]; [|right; split; auto].
        destruct (Z.eqb_spec c1 c) as [->|Nc]; [|right; split; auto].
        left. assert (E : (e, u, c) = (e, u1, c)); [|now rewrite E].
        apply (NoDup_map_inj t_c (att t)); auto. apply (st_once _ ST).
      + intros [[= <- <- <-]|[Hx1 _]]; auto.
  Qed.

  (* remove_processor detaches exactly the returned processor *)
  Theorem reading_remove_processor T p t' :
    spec_step H t (ORemoveProc T) (RObj (Some p)) = Some t' ->
    exists u, In (u, p) (sprocs t) /\ sub H u T /\
              (forall p', In (T, p') (sprocs t) -> p' = p) /\
              Permutation (sprocs t) ((u, p) :: sprocs t') /\ att t' = att t.
  Proof.
    cbn [spec_step]. destruct (ok_single H (sprocs t) T (Some p)) eqn:Hok; [|discriminate].
    intros [= <-]. apply reading_single in Hok as [(u & Hi & Hs) Hx].
    exists u. split; auto. split; auto. split; auto. split; auto. cbn [sprocs].
    assert (NDs : NoDup (sprocs t)) by (apply (NoDup_map_inv snd), (st_pid _ ST)).
    apply NoDup_Permutation; auto.
    - constructor.
      + rewrite filter_In. cbn. rewrite Z.eqb_refl. intros [_ Hd]. discriminate.
      + now apply NoDup_filter.
    - intros [u1 p1]. cbn [In]. rewrite filter_In. cbn [snd]. split.
      + intros Hx1. destruct (Z.eqb_spec p1 p) as [->|Np]; [|right; split; auto].
        left. apply (NoDup_map_inj snd (sprocs t)); auto. apply (st_pid _ ST).
      + intros [[= <- <-]|[Hx1 _]]; auto.
  Qed.

  (* an automatically assigned identifier names an entity without components *)
  Theorem reading_auto_id cs rid t' :
    spec_step H t (OCreate None cs) (RId rid) = Some t' ->
    forall u c, ~ In (rid, u, c) (att t).
  Proof.
    cbn [spec_step]. destruct (owns (att t) rid) eqn:Ho; cbn [negb]; [discriminate|].
    intros _ u c Hi. assert (owns (att t) rid = true); [|congruence].
    apply owns_spec. eauto.
  Qed.
End Readings.

(* ---- adequacy of the acceptor: the code-shaped loops' own results are accepted --- *)
Lemma find_unique c : forall (tbl : alist nat Z) u,
  NoDup (avals tbl) -> In (u, c) tbl -> type_of c tbl = Some u.
Proof.
  unfold type_of, avals. induction tbl as [|[k v] tbl IH]; intros u ND Hi; [destruct Hi|].
  cbn [find snd map] in *. inversion ND as [|? ? Hn ND']; subst.
  destruct (Z.eqb_spec v c) as [->|N].
  - destruct Hi as [[= -> ]|Hi]; auto. exfalso. apply Hn.
    change c with (snd (u, c)). now apply in_map.
  - destruct Hi as [[= _ E]|Hi]; [congruence|]. now apply IH.
Qed.

(* whatever get_component / remove_component / get_processor /
   remove_processor return by their own walk is an answer the model allows *)
Theorem own_answer_allowed H tbl T :
  hier_wf H -> NoDup (akeys tbl) -> NoDup (avals tbl) ->
  match find_walk H (fun u => amem u tbl) (walk_fuel H) [T] with
  | WFound u0 =>
      exists c, alookup u0 tbl = Some c /\
        pick H (walk_fuel H) tbl (WFound u0) T (Some c) = Some (Some u0)
  | WNone => pick H (walk_fuel H) tbl WNone T None = Some None
  | WFuel => False
  end.
Proof.
  intros WF NDk NDv.
  destruct (find_walk H (fun u => amem u tbl) (walk_fuel H) [T]) as [u0| |] eqn:W.
  - destruct (find_sound H _ _ _ _ W) as (Ht & v & [<-|[]] & Hs).
    unfold amem in Ht. destruct (alookup u0 tbl) as [c|] eqn:E; [|discriminate].
    exists c. split; auto. unfold pick.
    rewrite (find_unique c tbl u0 NDv (alookup_In _ _ _ E)).
    destruct (amem T tbl) eqn:MT.
    + unfold walk_fuel in W. rewrite (find_exact H _ _ T [] MT) in W. injection W as <-.
      now rewrite Nat.eqb_refl.
    + destruct (get_types_walk H (walk_fuel H) T) as [l|] eqn:G.
      * destruct (walk_visits H _ T l G) as (_ & Hl).
        assert (M : mem u0 l = true) by (apply mem_In, Hl; exact Hs). now rewrite M.
      * exfalso. now apply (get_walk_fuel H WF T).
  - reflexivity.
  - now apply (find_walk_fuel H WF (fun u => amem u tbl) T).
Qed.

(* the id draw of create_entity terminates within |_entities| + 1 draws *)
Lemma filter_len_le {A} (P Q : A -> bool) l :
  (forall x, P x = true -> Q x = true) -> (length (filter P l) <= length (filter Q l))%nat.
Proof.
  intros PQ. induction l as [|x l IH]; cbn [filter]; auto.
  destruct (P x) eqn:EP.
  - rewrite (PQ x EP). cbn [length]. lia.
  - destruct (Q x); cbn [length]; lia.
Qed.

Lemma count_ge_drop k l :
  In k l ->
  (length (filter (fun x => (k + 1 <=? x)%Z) l) < length (filter (fun x => (k <=? x)%Z) l))%nat.
Proof.
  induction l as [|x l IH]; intros Hi; [destruct Hi|]. cbn [filter].
  assert (Hle : (length (filter (fun x => (k + 1 <=? x)%Z) l) <=
                 length (filter (fun x => (k <=? x)%Z) l))%nat).
  { apply filter_len_le. intros y Hy. apply Z.leb_le in Hy. apply Z.leb_le. lia. }
  destruct (Z.eq_dec x k) as [->|N].
  - assert (E1 : k + 1 <=? k = false) by (apply Z.leb_gt; lia).
    assert (E2 : k <=? k = true) by (apply Z.leb_le; lia).
    rewrite E1, E2. cbn [length]. lia.
  - destruct Hi as [E|Hi]; [congruence|]. specialize (IH Hi).
    destruct (k + 1 <=? x) eqn:E1.
    + assert (E2 : k <=? x = true) by (apply Z.leb_le; apply Z.leb_le in E1; lia).
      rewrite E2. cbn [length]. lia.
    + destruct (k <=? x); cbn [length]; lia.
Qed.

Lemma draw_id_count : forall fuel k (en : alist Z (alist nat Z)),
  (length (filter (fun x => (k <=? x)%Z) (akeys en)) < fuel)%nat -> draw_id fuel k en <> None.
Proof.
  induction fuel as [|f IH]; intros k en Hlt; [lia|]. cbn [draw_id].
  destruct (amem k en) eqn:M; [|discriminate].
  apply IH. apply amem_In in M. pose proof (count_ge_drop k (akeys en) M). lia.
Qed.

Theorem draw_id_fuel s : draw_id (S (length (ents s))) (next_id s) (ents s) <> None.
Proof.
  apply draw_id_count.
  assert (Hl : forall (P : Z -> bool) l, (length (filter P l) <= length l)%nat).
  { intros P l. induction l as [|x l IH]; cbn [filter length]; auto.
    destruct (P x); cbn [length]; lia. }
  specialize (Hl (fun x => next_id s <=? x) (akeys (ents s))).
  unfold akeys in *. rewrite map_length in Hl. lia.
Qed.
