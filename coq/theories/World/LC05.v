(* C05 - deferred entity deletion is applied at the next process(), safely.
   The PROPERTY, as a small machine over operations and observations only.

   Specification state:
     att  : which instance sits in which (entity, type) slot  (no empty rows:
            "e owns something" = e has a row)
     pend : entities with a deletion mark: from delete_entity(e) until the next
            process() / clear(), or until e stops owning components (its last
            component removed, or deleted immediately); a replacement through
            add_component keeps the mark
     bad  : marks that were put on an entity owning nothing at that time (the
            error path the test-suite pins down: the next process() raises
            KeyError).  Each such mark may make ONE process() fail; what the
            queries say about such an entity is left open.
     en, prc : dispatching enabled / the harness processor present.
   Models only: no proofs in this file. *)
From Coq Require Import ZArith List Bool.
From Desper Require Import Lib.Alist World.LLib.
From Desper Require Export World.LModel.
Import ListNotations.
Open Scope Z_scope.

Record s5 := { att : table; pend : list Z; bad : list Z; en : bool; prc : bool }.
Definition s5_init : s5 := {| att := []; pend := []; bad := []; en := true; prc := true |}.

(* on_remove notifications owed to the components of e *)
Definition rem_calls (p : params) (t : table) (e : Z) : list cb :=
  map (fun ti => call CRem (snd ti) e)
      (filter (fun ti => k_rem (kind_of p (snd ti))) (trow t e)).

(* entity after entity: its components are notified (now, if dispatching is
   enabled) and it owns nothing afterwards *)
Fixpoint apply_deletes (p : params) (enabled : bool) (t : table) (es : list Z) : table * list cb :=
  match es with
  | [] => (t, [])
  | e :: es =>
      let cs := if enabled then rem_calls p t e else [] in
      let '(t', cs') := apply_deletes p enabled (adel e t) es in
      (t', cs ++ cs')
  end.

Definition exists5 (s : s5) (e : Z) : bool := towns (att s) e && negb (zmem e (pend s)).

Definition qcheck5 (s : s5) (q : qobs) : bool :=
  match q with
  | QExists e r => zmem e (bad s) || Bool.eqb r (exists5 s e)
  | QEntities l =>
      forallb (fun x => zmem x (bad s) || exists5 s x) l
      && forallb (fun x => zmem x (bad s) || zmem x (pend s) || zmem x l) (akeys (att s))
  | QComps e l => zperm_b l (map snd (trow (att s) e))
  | QIsH _ _ => true
  (* components stay queryable whatever the marks: clause (i) *)
  | QHas e ty r => Bool.eqb r (match tget (att s) e ty with Some _ => true | None => false end)
  | QGetC e ty r => oz_eqb r (tget (att s) e ty)
  | QGet ty l => pperm_b l (tall (att s) ty)
  end.

Definition upd (s : s5) (t : table) (pd bd : list Z) : s5 :=
  {| att := t; pend := pd; bad := bd; en := en s; prc := prc s |}.

(* None = the observation violates the property *)
Definition step5_op (p : params) (s : s5) (o : op) (ob : obs) : option s5 :=
  match o with
  | Create eid comps =>
      match (match eid with Some e => Some e | None => o_ret ob end) with
      | None => None
      | Some e => Some (upd s (fold_left (fun t i => tset t e (ty_of p i) i) comps (att s))
                            (pend s) (bad s))
      end
  | Add e i =>
      (* a component already in the slot is detached first; the mark stays, also
         when the only component of an entity awaiting deletion is replaced *)
      let t := match tget (att s) e (ty_of p i) with
               | Some _ => tdel (att s) e (ty_of p i)
               | None => att s
               end in
      Some (upd s (tset t e (ty_of p i) i) (pend s) (bad s))
  | Remove e ty =>
      if oz_eqb (o_ret ob) (tget (att s) e ty) then
        match tget (att s) e ty with
        | None => Some s
        | Some _ =>
            let t := tdel (att s) e ty in
            Some (upd s t (if towns t e then pend s else zrem e (pend s)) (bad s))
        end
      else None
  | Delete e true =>
      if towns (att s) e then
        if o_exc ob =? 0 then Some (upd s (adel e (att s)) (zrem e (pend s)) (bad s)) else None
      else
        if o_exc ob =? 1 then Some s else None
  | Delete e false =>
      (* never raises, whatever e is; nothing is removed yet *)
      if o_exc ob =? 0 then
        Some (upd s (att s) (zadd e (pend s)) (if towns (att s) e then bad s else zadd e (bad s)))
      else None
  | Process =>
      if o_exc ob =? 0 then
        (* every marked entity is deleted and notified BEFORE the processor runs *)
        let '(t, cs) := apply_deletes p (en s) (att s) (pend s) in
        let n := length cs in
        let tail := if prc s then [call CProc 0 0] else [] in
        if cperm_b (firstn n (o_log ob)) cs && cperm_b (skipn n (o_log ob)) tail
        then Some (upd s t [] []) else None
      else if o_exc ob =? 1 then
        (* only a mark put on an entity that owned nothing may fail a frame, and
           it is consumed by the failure; the marks applied before it (o_done)
           are applied properly, the others stay *)
        match o_ret ob with
        | None => None
        | Some f =>
            if zmem f (bad s) && forallb (fun d => zmem d (pend s)) (o_done ob) then
              let '(t, cs) := apply_deletes p (en s) (att s) (o_done ob) in
              if cperm_b (o_log ob) cs
              then Some (upd s t (zrem f (fold_left (fun l d => zrem d l) (o_done ob) (pend s)))
                             (zrem f (bad s)))
              else None
            else None
        end
      else None
  | Clear => Some {| att := []; pend := []; bad := []; en := true; prc := false |}
  | SetEnabled v => Some {| att := att s; pend := pend s; bad := bad s; en := v; prc := prc s |}
  | Probe _ => Some s
  | AddProc => Some {| att := att s; pend := pend s; bad := bad s; en := en s; prc := true |}
  end.

Definition step5 (p : params) (s : s5) (o : op) (ob : obs) : option s5 :=
  match step5_op p s o ob with
  | Some s' => if forallb (qcheck5 s') (o_qs ob) then Some s' else None
  | None => None
  end.

Fixpoint run5 (p : params) (s : s5) (tr : trace) : option s5 :=
  match tr with
  | [] => Some s
  | (o, ob) :: tr => match step5 p s o ob with Some s' => run5 p s' tr | None => None end
  end.

Definition holds_b (c : L_case) : bool :=
  match run5 (c_p c) s5_init (c_tr c) with Some _ => true | None => false end.
Definition holds (c : L_case) : Prop := holds_b c = true.

(* every finite history over any classes is in the domain; no known finding
   concerns C05 *)
Definition wf_b (c : L_case) : bool := true.
Definition known_b (c : L_case) : bool := false.

Definition C05_case := L_case.
Definition C05_verdict (c : C05_case) : nat :=
  (bit (wf_b c) 1 + bit (known_b c) 2 + bit (accepts c) 4 + bit (holds_b c) 8)%nat.
