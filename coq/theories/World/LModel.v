(* World lifecycle (C05 deferred deletion, C02 lifecycle callbacks): the MODEL.

   Executable mirror of desper/logic/world.py (create_entity, add_component,
   remove_component, delete_entity, _clear_dead_entities, process, clear) and
   of the part of desper/events.py those methods use (add_handler,
   remove_handler, dispatch while disabled, the dispatch_enabled setter,
   clear), run along the observed trace as an acceptor.

   Scope decisions (stated in the report):
   * exact component types only (the subtype walks belong to C06): the
     harness builds unrelated classes, remove_component names an exact type;
   * one harness processor (not an event handler) is present from the start
     and can be re-added after clear(); its call is a log entry;
   * callbacks only log, they never call back into the world (re-entrancy is
     the subject of C03/C04).
   Models only: no proofs in this file. *)
From Coq Require Import ZArith List Bool.
From Desper Require Import Lib.Alist World.LLib.
Import ListNotations.
Open Scope Z_scope.

(* ---- classes ----------------------------------------------------------- *)
(* what a component class declares: hasattr(c,'__events__'), and which of
   on_add / on_remove / probe are keys of __events__ *)
Record kind := { k_h : bool; k_add : bool; k_rem : bool; k_probe : bool }.
Definition plain := {| k_h := false; k_add := false; k_rem := false; k_probe := false |}.

Record params := {
  p_cls   : list (Z * Z);       (* instance -> its class (type(component)) *)
  p_kinds : list (Z * kind) }.  (* class -> what it declares *)

Definition ty_of (p : params) (i : Z) : Z :=
  match alookup i (p_cls p) with Some t => t | None => 0 end.
Definition kind_of_ty (p : params) (t : Z) : kind :=
  match alookup t (p_kinds p) with Some k => if k_h k then k else plain | None => plain end.
Definition kind_of (p : params) (i : Z) : kind := kind_of_ty p (ty_of p i).

(* ---- operations and observations ---------------------------------------- *)
Inductive op :=
| Create (eid : option Z) (comps : list Z)   (* create_entity(comps..., entity_id=eid) *)
| Add (e i : Z)                              (* add_component(e, i) *)
| Remove (e ty : Z)                          (* remove_component(e, ty), exact type *)
| Delete (e : Z) (imm : bool)                (* delete_entity(e, immediate=imm) *)
| Process                                    (* process() *)
| Clear                                      (* clear() *)
| SetEnabled (b : bool)                      (* dispatch_enabled = b *)
| Probe (tok : Z)                            (* dispatch('probe', tok) *)
| AddProc.                                   (* add_processor(the harness processor) *)

(* one callback invocation seen by the harness doubles *)
Inductive ck := CAdd | CRem | CProbe | CProc.
Record cb := mkcb { c_k : ck; c_i : Z;     (* which callback, on which instance (0 for the processor) *)
               c_a : Z;               (* entity argument (token for probe, 0 for the processor) *)
               c_w : bool }.          (* the world argument is this world (true for probe / processor) *)

Definition ck_eqb (a b : ck) : bool :=
  match a, b with CAdd, CAdd | CRem, CRem | CProbe, CProbe | CProc, CProc => true | _, _ => false end.
Definition cb_eqb (x y : cb) : bool :=
  ck_eqb (c_k x) (c_k y) && (c_i x =? c_i y) && (c_a x =? c_a y) && Bool.eqb (c_w x) (c_w y).
Definition cperm_b := perm_b cb_eqb.

(* queries sampled after the operation *)
Inductive qobs :=
| QExists (e : Z) (r : bool)         (* entity_exists(e) *)
| QEntities (l : list Z)             (* entities *)
| QComps (e : Z) (l : list Z)        (* get_components(e), as instances *)
| QIsH (i : Z) (r : bool)            (* is_handler(i) (false for a non-handler object) *)
| QHas (e ty : Z) (r : bool)         (* has_component(e, ty) *)
| QGetC (e ty : Z) (r : option Z)    (* get_component(e, ty): the instance or None *)
| QGet (ty : Z) (l : list (Z * Z)).  (* get(ty): pairs (entity, instance) *)

Record obs := mkobs {
  o_ret  : option Z;    (* Create: the id; Remove: the removed instance; Process that raised: the KeyError key *)
  o_exc  : Z;           (* 0 none, 1 KeyError, 2 anything else (also hang / crash) *)
  o_done : list Z;      (* Process that raised: entities whose components were gone afterwards *)
  o_log  : list cb;     (* callbacks invoked during the operation, in order *)
  o_qs   : list qobs }.

Definition trace := list (op * obs).
Record L_case := { c_p : params; c_tr : trace }.

(* ---- model state --------------------------------------------------------- *)
Inductive qent :=
| QRelay (k : ck) (i e : Z)     (* ('on_single_dispatch', (k, i, e, self), {}) *)
| QProbeE (tok : Z).            (* ('probe', (tok,), {}) *)

Record st := {
  ents    : table;              (* World._entities *)
  dead    : list Z;             (* World._dead_entities *)
  enabled : bool;               (* EventDispatcher._dispatch_enabled *)
  queue   : list (list qent);   (* _event_queue, cut into one group per operation (acceptor bookkeeping) *)
  reg     : list Z;             (* component instances in _handlers *)
  selfl   : bool;               (* the world is a handler of itself: 'on_single_dispatch' in _events *)
  pkey    : bool;               (* 'probe' in _events *)
  procs   : bool }.             (* the harness processor is in _sorted_processors *)

Definition init : st :=
  {| ents := []; dead := []; enabled := true; queue := []; reg := [];
     selfl := true; pkey := false; procs := true |}.

Definition set_ents (s : st) v := {| ents := v; dead := dead s; enabled := enabled s; queue := queue s;
  reg := reg s; selfl := selfl s; pkey := pkey s; procs := procs s |}.
Definition set_dead (s : st) v := {| ents := ents s; dead := v; enabled := enabled s; queue := queue s;
  reg := reg s; selfl := selfl s; pkey := pkey s; procs := procs s |}.
Definition set_enabled (s : st) v := {| ents := ents s; dead := dead s; enabled := v; queue := queue s;
  reg := reg s; selfl := selfl s; pkey := pkey s; procs := procs s |}.
Definition set_queue (s : st) v := {| ents := ents s; dead := dead s; enabled := enabled s; queue := v;
  reg := reg s; selfl := selfl s; pkey := pkey s; procs := procs s |}.
Definition set_reg (s : st) v pk := {| ents := ents s; dead := dead s; enabled := enabled s; queue := queue s;
  reg := v; selfl := selfl s; pkey := pk; procs := procs s |}.
Definition set_procs (s : st) v := {| ents := ents s; dead := dead s; enabled := enabled s; queue := queue s;
  reg := reg s; selfl := selfl s; pkey := pkey s; procs := v |}.

(* ---- events.py ----------------------------------------------------------- *)
(* add_handler(component): _handlers is a dict keyed by weakref, _events[name] a set *)
Definition add_handler (p : params) (s : st) (i : Z) : st :=
  set_reg s (zadd i (reg s)) (pkey s || k_probe (kind_of p i)).
(* remove_handler(component) *)
Definition remove_handler (s : st) (i : Z) : st := set_reg s (zrem i (reg s)) (pkey s).

(* append to the group of the running operation *)
Fixpoint qpush (q : list (list qent)) (x : qent) : list (list qent) :=
  match q with
  | [] => [[x]]
  | [g] => [g ++ [x]]
  | g :: q => g :: qpush q x
  end.
(* dispatch(ON_SINGLE_DISPATCH_EVENT_NAME, k, i, e, self) while disabled:
   dropped unless the name is known, i.e. unless the world listens to itself *)
Definition relay (s : st) (k : ck) (i e : Z) : st :=
  if selfl s then set_queue s (qpush (queue s) (QRelay k i e)) else s.

Definition call (k : ck) (i e : Z) : cb := {| c_k := k; c_i := i; c_a := e; c_w := true |}.

(* ---- world.py: the replicated event-handling blocks ----------------------- *)
(* create_entity, second loop, one component *)
Definition create_events (p : params) (e : Z) (sc : st * list cb) (i : Z) : st * list cb :=
  let '(s, cs) := sc in
  let k := kind_of p i in
  if k_h k then
    let s := add_handler p s i in
    if k_add k && enabled s then (s, cs ++ [call CAdd i e])
    else if k_add k && negb (enabled s) then (relay s CAdd i e, cs)
    else (s, cs)
  else (s, cs).

(* add_component, event handling part *)
Definition add_events (p : params) (e i : Z) (s : st) : st * list cb :=
  let k := kind_of p i in
  if k_h k then
    let s := add_handler p s i in
    if k_add k && enabled s then (s, [call CAdd i e])
    else if k_add k && negb (enabled s) then (relay s CAdd i e, [])
    else (s, [])
  else (s, []).

(* remove_component(e, ty) for an exact type: returns (state, calls, removed) *)
Definition remove_component (p : params) (s : st) (e ty : Z) : st * list cb * option Z :=
  match tget (ents s) e ty with
  | None => (s, [], None)
  | Some removed =>
      let t := tdel (ents s) e ty in
      let s := set_ents s t in
      (* if not self._entities[entity]: del ...; self._dead_entities.discard(entity) *)
      let s := if towns t e then s else set_dead s (zrem e (dead s)) in
      let k := kind_of p removed in
      if negb (k_h k) then (s, [], Some removed)
      else
        let '(s, cs) :=
          if k_rem k && enabled s then (s, [call CRem removed e])
          else if k_rem k then (relay s CRem removed e, [])
          else (s, []) in
        (remove_handler s removed, cs, Some removed)
  end.

(* delete_entity(e, immediate=True), event handling of one component *)
Definition delete_events (p : params) (e : Z) (sc : st * list cb) (ti : Z * Z) : st * list cb :=
  let '(s, cs) := sc in
  let i := snd ti in
  let k := kind_of p i in
  if negb (k_h k) then (s, cs)
  else
    let '(s, cs) :=
      if k_rem k && enabled s then (s, cs ++ [call CRem i e])
      else if k_rem k then (relay s CRem i e, cs)
      else (s, cs) in
    (remove_handler s i, cs).

(* delete_entity(e, immediate=True); None = KeyError from self._entities.pop(e) *)
Definition delete_imm (p : params) (sc : st * list cb) (e : Z) : option (st * list cb) :=
  let '(s, cs) := sc in
  match alookup e (ents s) with
  | None => None
  | Some r =>
      let s := set_ents s (adel e (ents s)) in
      let s := set_dead s (zrem e (dead s)) in
      Some (fold_left (delete_events p e) r (s, cs))
  end.

Fixpoint delete_all (p : params) (sc : st * list cb) (es : list Z) : option (st * list cb) :=
  match es with
  | [] => Some sc
  | e :: es => match delete_imm p sc e with Some sc => delete_all p sc es | None => None end
  end.

(* ---- the dispatch_enabled setter ------------------------------------------ *)
(* what delivering one queued event calls.  A relay reaches the world's own
   _on_single_dispatch (if the world listens to itself), which calls the
   component's callback; a probe goes to every registered listener of it. *)
Definition deliver (p : params) (s : st) (x : qent) : list cb :=
  match x with
  | QRelay k i e => if selfl s then [call k i e] else []
  | QProbeE tok => map (fun i => call CProbe i tok) (filter (fun i => k_probe (kind_of p i)) (reg s))
  end.

(* the log of a release: group after group (= operation after operation),
   any order inside one group *)
Fixpoint match_groups (log : list cb) (gs : list (list cb)) : bool :=
  match gs with
  | [] => match log with [] => true | _ => false end
  | g :: gs => cperm_b (firstn (length g) log) g && match_groups (skipn (length g) log) gs
  end.

Definition nil_b {A} (l : list A) : bool := match l with [] => true | _ => false end.
Definition oz_eqb (a b : option Z) : bool :=
  match a, b with Some x, Some y => x =? y | None, None => true | _, _ => false end.

(* ---- a postponed callback that raises ------------------------------------------------ *)
(* Harness doubles: the lifecycle callbacks of the instances numbered >= 1000
   raise a marker exception (kind 3) when they are invoked by the release of
   postponed events, after having logged the call; those of the instances
   numbered >= 2000 execute  world.dispatch_enabled = False  there instead: the
   release stops (outcome kind 4) and the harness records that nested assignment
   as the next operation of the history. *)
Definition raises (i : Z) : bool := (1000 <=? i) && (i <? 2000).
Definition disables (i : Z) : bool := 2000 <=? i.
Definition lc_kind (k : ck) : bool := match k with CAdd | CRem => true | _ => false end.

Definition rmatch (k : ck) (i e : Z) (x : qent) : bool :=
  match x with QRelay k' i' e' => ck_eqb k k' && (i =? i') && (e =? e') | QProbeE _ => false end.
Fixpoint rtake1 (k : ck) (i e : Z) (g : list qent) : option (list qent) :=
  match g with
  | [] => None
  | x :: g => if rmatch k i e x then Some g
              else match rtake1 k i e g with Some g' => Some (x :: g') | None => None end
  end.
(* the event popped next belongs to the oldest operation that still has one *)
Fixpoint rtake (k : ck) (i e : Z) (gs : list (list qent)) : option (list (list qent)) :=
  match gs with
  | [] => None
  | [] :: gs => rtake k i e gs
  | g :: gs => match rtake1 k i e g with Some g' => Some (g' :: gs) | None => None end
  end.
(* the setter pops an event, then delivers it: when the callback raises, that
   event and all before it have left the queue, the others are still there
   (the same when the callback disables dispatching: the loop condition fails).
   The log ends with the call of the halting instance (h). *)
Fixpoint release_raise (h : Z -> bool) (gs : list (list qent)) (log : list cb)
  : option (list (list qent)) :=
  match log with
  | [] => None
  | c :: log' =>
      if lc_kind (c_k c) && c_w c then
        match rtake (c_k c) (c_i c) (c_a c) gs with
        | None => None
        | Some gs' =>
            if h (c_i c) then (if nil_b log' then Some gs' else None)
            else release_raise h gs' log'
        end
      else None
  end.

(* ---- read side (after the operation) --------------------------------------- *)
Definition qcheck (s : st) (q : qobs) : bool :=
  match q with
  | QExists e r => Bool.eqb r (amem e (ents s) && negb (zmem e (dead s)))
  | QEntities l => zperm_b l (filter (fun e => negb (zmem e (dead s))) (akeys (ents s)))
  | QComps e l => zperm_b l (map snd (trow (ents s) e))
  | QIsH i r => Bool.eqb r (zmem i (reg s))
  (* the component queries read _entities / _components only: marks do not matter *)
  | QHas e ty r => Bool.eqb r (match tget (ents s) e ty with Some _ => true | None => false end)
  | QGetC e ty r => oz_eqb r (tget (ents s) e ty)
  | QGet ty l => pperm_b l (tall (ents s) ty)
  end.


(* acceptor bookkeeping: while disabled every operation opens its own group *)
Definition open_group (s : st) : st :=
  if enabled s then s else set_queue s (queue s ++ [[]]).

(* ---- one operation: the code's behaviour compared with the observation ----- *)
Definition step_op (p : params) (s : st) (o : op) (ob : obs) : option st :=
  match o with
  | Create eid comps =>
      let oe := match eid with
                | Some e => if oz_eqb (o_ret ob) (Some e) then Some e else None
                | None => (* next(self.id_generator), skipping ids in _entities (C01) *)
                    match o_ret ob with
                    | Some e => if amem e (ents s) then None else Some e
                    | None => None
                    end
                end in
      match oe with
      | None => None
      | Some e =>
          let s := set_ents s (fold_left (fun t i => tset t e (ty_of p i) i) comps (ents s)) in
          let '(s, cs) := fold_left (create_events p e) comps (s, []) in
          if (o_exc ob =? 0) && cperm_b (o_log ob) cs then Some s else None
      end
  | Add e i =>
      let ty := ty_of p i in
      let '(s, cs1) :=
        match tget (ents s) e ty with
        | Some _ =>
            let marks := dead s in
            let d := zmem e marks in
            let '(s, cs, _) := remove_component p s e ty in
            (* a replacement does not revoke a pending deletion: remove_component
               may have discarded e, "if dead: add(e)" puts it back; on a set
               that contained e, discard-then-add gives the same set *)
            ((if d then set_dead s marks else s), cs)
        | None => (s, [])
        end in
      let s := set_ents s (tset (ents s) e ty i) in
      let '(s, cs2) := add_events p e i s in
      if (o_exc ob =? 0) && oz_eqb (o_ret ob) None && cperm_b (o_log ob) (cs1 ++ cs2)
      then Some s else None
  | Remove e ty =>
      let '(s, cs, r) := remove_component p s e ty in
      if (o_exc ob =? 0) && oz_eqb (o_ret ob) r && cperm_b (o_log ob) cs then Some s else None
  | Delete e true =>
      match delete_imm p (s, []) e with
      | None => if (o_exc ob =? 1) && nil_b (o_log ob) then Some s else None
      | Some (s, cs) => if (o_exc ob =? 0) && cperm_b (o_log ob) cs then Some s else None
      end
  | Delete e false =>
      if (o_exc ob =? 0) && nil_b (o_log ob) then Some (set_dead s (zadd e (dead s))) else None
  | Process =>
      let ds := dead s in
      if forallb (fun e => amem e (ents s)) ds then
        (* _clear_dead_entities drains the whole set, then the processors run *)
        match delete_all p (s, []) ds with
        | None => None
        | Some (s, cs) =>
            let s := set_dead s [] in
            let n := length cs in
            let tail := if procs s then [call CProc 0 0] else [] in
            if (o_exc ob =? 0) && cperm_b (firstn n (o_log ob)) cs
               && cperm_b (skipn n (o_log ob)) tail
            then Some s else None
        end
      else
        (* some marked entity has no row: KeyError when the loop pops it.  Which
           one (the set's order) and which were applied before it: from obs *)
        match o_ret ob with
        | None => None
        | Some f =>
            if zmem f ds && negb (amem f (ents s))
               && forallb (fun d => zmem d ds) (o_done ob) then
              match delete_all p (s, []) (o_done ob) with
              | None => None
              | Some (s, cs) =>
                  let s := set_dead s (zrem f (dead s)) in
                  if (o_exc ob =? 1) && cperm_b (o_log ob) cs then Some s else None
              end
            else None
        end
  | Clear =>
      match delete_all p (s, []) (akeys (ents s)) with
      | None => None
      | Some (s, cs) =>
          if (o_exc ob =? 0) && cperm_b (o_log ob) cs then
            (* _dead_entities.clear(); processors removed; super().clear(); add_handler(self) *)
            Some {| ents := ents s; dead := []; enabled := true; queue := []; reg := [];
                    selfl := true; pkey := false; procs := false |}
          else None
      end
  | SetEnabled false =>
      if (o_exc ob =? 0) && nil_b (o_log ob) then Some (set_enabled s false) else None
  | SetEnabled true =>
      (* self._dispatch_enabled = True; while queue and enabled: pop(0), dispatch *)
      let s := set_enabled s true in
      if o_exc ob =? 3 then
        if selfl s then
          match release_raise raises (queue s) (o_log ob) with
          | Some q => Some (set_queue s q)
          | None => None
          end
        else None
      else if o_exc ob =? 4 then
        if selfl s then
          match release_raise disables (queue s) (o_log ob) with
          | Some q => Some (set_queue s q)
          | None => None
          end
        else None
      else
        let gs := map (flat_map (deliver p s)) (queue s) in
        if (o_exc ob =? 0) && match_groups (o_log ob) gs
           && forallb (fun c => negb (lc_kind (c_k c) && (raises (c_i c) || disables (c_i c)))) (o_log ob)
        then Some (set_queue s []) else None
  | Probe tok =>
      if negb (pkey s) then          (* if event_name not in self._events: return *)
        if (o_exc ob =? 0) && nil_b (o_log ob) then Some s else None
      else if negb (enabled s) then
        if (o_exc ob =? 0) && nil_b (o_log ob)
        then Some (set_queue s (qpush (queue s) (QProbeE tok))) else None
      else
        if (o_exc ob =? 0) && cperm_b (o_log ob) (deliver p s (QProbeE tok)) then Some s else None
  | AddProc =>
      if (o_exc ob =? 0) && nil_b (o_log ob) then Some (set_procs s true) else None
  end.

Definition step (p : params) (s : st) (o : op) (ob : obs) : option st :=
  match step_op p (open_group s) o ob with
  | Some s' => if forallb (qcheck s') (o_qs ob) then Some s' else None
  | None => None
  end.

Fixpoint run (p : params) (s : st) (tr : trace) : option st :=
  match tr with
  | [] => Some s
  | (o, ob) :: tr => match step p s o ob with Some s' => run p s' tr | None => None end
  end.

Definition accepts (c : L_case) : bool :=
  match run (c_p c) init (c_tr c) with Some _ => true | None => false end.

Definition bit (b : bool) (n : nat) : nat := if b then n else 0%nat.
