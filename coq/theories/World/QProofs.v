(* C01 / C06 - proofs: the model of World (QModel.accepts) refines the
   specification machine (QModel.spec_run), for every hierarchy and every
   trace. *)
From Coq Require Import ZArith List Bool Arith Lia Permutation.
From Desper Require Import World.QLib World.QHier World.QHierProofs World.QModel.
Import ListNotations.
Open Scope Z_scope.

(* ---- small list facts ------------------------------------------------------ *)
Lemma filter_all {A} (P : A -> bool) l : (forall x, In x l -> P x = true) -> filter P l = l.
Proof.
  induction l as [|x l IH]; cbn [filter]; auto. intros Hf.
  rewrite (Hf x) by now left. f_equal. apply IH. intros y Hy. apply Hf. now right.
Qed.

Lemma filter_nil {A} (P : A -> bool) l : (forall x, In x l -> P x = false) -> filter P l = [].
Proof.
  induction l as [|x l IH]; cbn [filter]; auto. intros Hf.
  rewrite (Hf x) by now left. apply IH. intros y Hy. apply Hf. now right.
Qed.

Lemma filter_filter {A} (P Q : A -> bool) l :
  filter P (filter Q l) = filter (fun x => Q x && P x) l.
Proof.
  induction l as [|x l IH]; cbn [filter]; auto.
  destruct (Q x); cbn [filter andb]; [destruct (P x)|]; now rewrite IH.
Qed.

Lemma NoDup_map_filter {A B} (f : A -> B) (P : A -> bool) l :
  NoDup (map f l) -> NoDup (map f (filter P l)).
Proof.
  induction l as [|x l IH]; cbn [map filter]; auto. intros ND.
  inversion ND as [|? ? Hn ND']; subst. destruct (P x); cbn [map]; auto.
  constructor; auto. intros Hi. apply Hn.
  apply in_map_iff in Hi as (y & E & Hy). apply filter_In in Hy as [Hy _].
  apply in_map_iff. eauto.
Qed.

Lemma NoDup_map_inj {A B} (f : A -> B) l x y :
  NoDup (map f l) -> In x l -> In y l -> f x = f y -> x = y.
Proof.
  induction l as [|a l IH]; cbn [map In]; [tauto|]. intros ND Hx Hy E.
  inversion ND as [|? ? Hn ND']; subst. destruct Hx as [->|Hx], Hy as [->|Hy]; auto.
  - exfalso. apply Hn. rewrite E. now apply in_map.
  - exfalso. apply Hn. rewrite <- E. now apply in_map.
Qed.

Lemma nodup_b_spec {K} `{EqB K} (l : list K) : nodup_b l = true -> NoDup l.
Proof.
  induction l as [|x l IH]; cbn [nodup_b]; [constructor|].
  rewrite andb_true_iff, negb_true_iff. intros [Hm Hn]. constructor; auto.
  now apply mem_false.
Qed.

Lemma sdiscard_idem {K} `{EqB K} (x : K) l : sdiscard x (sdiscard x l) = sdiscard x l.
Proof.
  unfold sdiscard. rewrite filter_filter. apply filter_ext. intros y.
  now destruct (negb (eqb x y)).
Qed.

(* ---- rows and index entries ------------------------------------------------ *)
Definition rowE (en : alist Z (alist nat Z)) (e : Z) : alist nat Z :=
  match alookup e en with Some r => r | None => [] end.

Lemma rowof_rowE s e : rowof s e = rowE (ents s) e.
Proof. reflexivity. Qed.

Lemma rowE_aset en e r e' : rowE (aset e r en) e' = if e' =? e then r else rowE en e'.
Proof. unfold rowE. rewrite alookup_aset. cbn [eqb EqB_Z]. now destruct (e' =? e). Qed.

Lemma rowE_adel en e e' : rowE (adel e en) e' = if e' =? e then [] else rowE en e'.
Proof. unfold rowE. rewrite alookup_adel. cbn [eqb EqB_Z]. now destruct (e' =? e). Qed.

Lemma idxof_aset cm u l u' : idxof (aset u l cm) u' = if Nat.eqb u' u then l else idxof cm u'.
Proof. unfold idxof. rewrite alookup_aset. cbn [eqb EqB_nat]. now destruct (Nat.eqb u' u). Qed.

Lemma idxof_adel cm u u' : idxof (adel u cm) u' = if Nat.eqb u' u then [] else idxof cm u'.
Proof. unfold idxof. rewrite alookup_adel. cbn [eqb EqB_nat]. now destruct (Nat.eqb u' u). Qed.

Lemma idxof_unindex cm e u u' :
  idxof (unindex cm e u) u' = if Nat.eqb u' u then sdiscard e (idxof cm u) else idxof cm u'.
Proof.
  unfold unindex. destruct (sdiscard e (idxof cm u)) eqn:E.
  - apply idxof_adel.
  - apply idxof_aset.
Qed.

Lemma idxof_fold_unindex e : forall ks cm u',
  idxof (fold_left (fun cm u => unindex cm e u) ks cm) u' =
  if mem u' ks then sdiscard e (idxof cm u') else idxof cm u'.
Proof.
  induction ks as [|k ks IH]; intros cm u'; cbn [fold_left mem existsb]; auto.
  rewrite IH, idxof_unindex. cbn [eqb EqB_nat].
  destruct (Nat.eqb_spec u' k) as [->|N]; cbn [orb].
  - fold (mem k ks). destruct (mem k ks); auto. apply sdiscard_idem.
  - reflexivity.
Qed.

(* ---- the entity tables against the attachment relation ---------------------- *)
Record Core (en : alist Z (alist nat Z)) (cm : alist nat (list Z)) (a : list triple) : Prop := {
  co_keys : NoDup (akeys en);
  co_rows : forall e r, alookup e en = Some r -> NoDup (akeys r) /\ r <> [];
  co_tr : forall e u, amem u (rowE en e) = true <-> In e (idxof cm u);
  co_idx : forall u, NoDup (idxof cm u);
  co_att : forall e u c, In (e, u, c) a <-> alookup u (rowE en e) = Some c;
  co_cid : NoDup (map t_c a)
}.

Lemma core_init : Core [] [] [].
Proof.
  split; cbn; try constructor; try discriminate; try tauto.
Qed.

Lemma core_row_nodup en cm a e : Core en cm a -> NoDup (akeys (rowE en e)).
Proof.
  intros C. unfold rowE. destruct (alookup e en) eqn:E.
  - now apply (co_rows _ _ _ C e).
  - constructor.
Qed.

Lemma amem_rowE en cm a e : Core en cm a -> (amem e en = true <-> rowE en e <> []).
Proof.
  intros C. unfold amem, rowE. destruct (alookup e en) eqn:E.
  - split; auto. intros _. now apply (co_rows _ _ _ C e).
  - split; [discriminate|]. intros Hn. now exfalso.
Qed.

Lemma core_amem en cm a e :
  Core en cm a -> (amem e en = true <-> exists u c, In (e, u, c) a).
Proof.
  intros C. rewrite (amem_rowE _ _ _ _ C). split.
  - intros Hn. destruct (rowE en e) as [|[u c] r] eqn:E; [congruence|].
    exists u, c. apply (co_att _ _ _ C). rewrite E. cbn [alookup eqb EqB_nat].
    now rewrite Nat.eqb_refl.
  - intros (u & c & Hi). apply (co_att _ _ _ C) in Hi. intros E. rewrite E in Hi. discriminate.
Qed.

Lemma owns_spec a e : owns a e = true <-> exists u c, In (e, u, c) a.
Proof.
  unfold owns. rewrite existsb_exists. split.
  - intros ([[e' u] c] & Hi & E). cbn in E. apply Z.eqb_eq in E. subst. eauto.
  - intros (u & c & Hi). exists (e, u, c). split; auto. cbn. apply Z.eqb_refl.
Qed.

Lemma owns_amem en cm a e : Core en cm a -> owns a e = amem e en.
Proof.
  intros C. apply eq_true_iff_eq. rewrite owns_spec. symmetry. eapply core_amem; eauto.
Qed.

(* a component instance is attached in one slot only *)
Lemma core_cid_unique en cm a e1 u1 e2 u2 c :
  Core en cm a -> In (e1, u1, c) a -> In (e2, u2, c) a -> e1 = e2 /\ u1 = u2.
Proof.
  intros C H1 H2.
  assert (E : (e1, u1, c) = (e2, u2, c)).
  { apply (NoDup_map_inj t_c a); auto. apply (co_cid _ _ _ C). }
  injection E; auto.
Qed.

(* create_entity's loop body / add_component's tail *)
Lemma attach_core en cm a e u c :
  Core en cm a -> (forall c', ~ In (e, u, c') a) -> ~ In c (map t_c a) ->
  Core (aset e (aset u c (rowE en e)) en) (aset u (sadd e (idxof cm u)) cm) (a ++ [(e, u, c)]).
Proof.
  intros C Hfree Hc. split.
  - apply NoDup_akeys_aset, (co_keys _ _ _ C).
  - intros e' r. rewrite alookup_aset. cbn [eqb EqB_Z].
    destruct (Z.eqb_spec e' e) as [->|N].
    + intros [= <-]. split; [|apply aset_not_nil].
      apply NoDup_akeys_aset. eapply core_row_nodup; eauto.
    + apply (co_rows _ _ _ C).
  - intros e' u'. rewrite rowE_aset, idxof_aset.
    destruct (Z.eqb_spec e' e) as [->|N]; destruct (Nat.eqb_spec u' u) as [->|N'].
    + rewrite amem_aset, eqb_refl. cbn [orb]. rewrite In_sadd. tauto.
    + rewrite amem_aset. cbn [eqb EqB_nat]. apply Nat.eqb_neq in N'. rewrite N'. cbn [orb].
      apply (co_tr _ _ _ C).
    + rewrite In_sadd. rewrite (co_tr _ _ _ C). split; auto. intros [E|Hi]; [contradiction|auto].
    + apply (co_tr _ _ _ C).
  - intros u'. rewrite idxof_aset. destruct (Nat.eqb u' u).
    + apply NoDup_sadd, (co_idx _ _ _ C).
    + apply (co_idx _ _ _ C).
  - intros e' u' c'. rewrite in_app_iff, rowE_aset. cbn [In].
    destruct (Z.eqb_spec e' e) as [->|N].
    + rewrite alookup_aset. cbn [eqb EqB_nat]. destruct (Nat.eqb_spec u' u) as [->|N'].
      * split.
        -- intros [Hi|[[= <-]|[]]]; auto. exfalso. eapply Hfree; eauto.
        -- intros [= <-]. auto.
      * rewrite <- (co_att _ _ _ C). split; auto.
        intros [Hi|[[= E1 E2]|[]]]; auto. congruence.
    + rewrite <- (co_att _ _ _ C). split; auto.
      intros [Hi|[[= E1 E2]|[]]]; auto. congruence.
  - rewrite map_app. cbn [map t_c snd]. apply NoDup_snoc; auto. apply (co_cid _ _ _ C).
Qed.

Definition slot_b (e : Z) (u : nat) (x : triple) : bool := (t_e x =? e) && Nat.eqb (t_u x) u.

Definition detach_ents (en : alist Z (alist nat Z)) (e : Z) (u : nat) :=
  match adel u (rowE en e) with
  | [] => adel e en
  | row => aset e row en
  end.

Lemma rowE_detach en e u e' :
  rowE (detach_ents en e u) e' = if e' =? e then adel u (rowE en e) else rowE en e'.
Proof.
  unfold detach_ents. destruct (adel u (rowE en e)) eqn:E.
  - apply rowE_adel.
  - apply rowE_aset.
Qed.

(* the removal statements of remove_component *)
Lemma detach_core en cm a e u :
  Core en cm a ->
  Core (detach_ents en e u) (unindex cm e u) (filter (fun x => negb (slot_b e u x)) a).
Proof.
  intros C. split.
  - unfold detach_ents. destruct (adel u (rowE en e)).
    + apply NoDup_akeys_adel, (co_keys _ _ _ C).
    + apply NoDup_akeys_aset, (co_keys _ _ _ C).
  - intros e' r. unfold detach_ents. destruct (adel u (rowE en e)) eqn:E.
    + rewrite alookup_adel. destruct (eqb e' e); [discriminate|]. apply (co_rows _ _ _ C).
    + rewrite alookup_aset. cbn [eqb EqB_Z]. destruct (Z.eqb_spec e' e) as [->|N].
      * intros [= <-]. split; [|discriminate]. rewrite <- E.
        apply NoDup_akeys_adel. eapply core_row_nodup; eauto.
      * apply (co_rows _ _ _ C).
  - intros e' u'. rewrite rowE_detach, idxof_unindex.
    destruct (Z.eqb_spec e' e) as [->|N]; destruct (Nat.eqb_spec u' u) as [->|N'].
    + rewrite amem_adel, eqb_refl. cbn [negb andb]. rewrite In_sdiscard.
      split; [discriminate|]. intros [_ Hn]. now exfalso.
    + rewrite amem_adel. cbn [eqb EqB_nat]. apply Nat.eqb_neq in N'. rewrite N'. cbn [negb andb].
      apply (co_tr _ _ _ C).
    + rewrite In_sdiscard, (co_tr _ _ _ C). tauto.
    + apply (co_tr _ _ _ C).
  - intros u'. rewrite idxof_unindex. destruct (Nat.eqb u' u).
    + apply NoDup_sdiscard, (co_idx _ _ _ C).
    + apply (co_idx _ _ _ C).
  - intros e' u' c'. rewrite filter_In, rowE_detach. unfold slot_b. cbn [t_e t_u fst snd].
    rewrite (co_att _ _ _ C).
    destruct (Z.eqb_spec e' e) as [->|N]; cbn [andb negb].
    + rewrite alookup_adel. cbn [eqb EqB_nat].
      destruct (Nat.eqb_spec u' u) as [->|N']; cbn [negb].
      * split; [intros [_ Hd]; discriminate|discriminate].
      * tauto.
    + tauto.
  - apply NoDup_map_filter, (co_cid _ _ _ C).
Qed.

(* delete_entity(e, immediate=True) *)
Lemma delete_core en cm a e :
  Core en cm a ->
  Core (adel e en) (fold_left (fun cm u => unindex cm e u) (akeys (rowE en e)) cm)
       (filter (fun x => negb (t_e x =? e)) a).
Proof.
  intros C. split.
  - apply NoDup_akeys_adel, (co_keys _ _ _ C).
  - intros e' r. rewrite alookup_adel. destruct (eqb e' e); [discriminate|].
    apply (co_rows _ _ _ C).
  - intros e' u'. rewrite rowE_adel, idxof_fold_unindex.
    destruct (Z.eqb_spec e' e) as [->|N].
    + split; [discriminate|]. intros Hi. exfalso.
      destruct (mem u' (akeys (rowE en e))) eqn:M.
      * apply In_sdiscard in Hi. now destruct Hi.
      * apply (co_tr _ _ _ C) in Hi. apply amem_In, mem_In in Hi. congruence.
    + rewrite (co_tr _ _ _ C). destruct (mem u' (akeys (rowE en e))); [|tauto].
      rewrite In_sdiscard. tauto.
  - intros u'. rewrite idxof_fold_unindex. destruct (mem u' (akeys (rowE en e))).
    + apply NoDup_sdiscard, (co_idx _ _ _ C).
    + apply (co_idx _ _ _ C).
  - intros e' u' c'. rewrite filter_In, rowE_adel. cbn [t_e fst].
    rewrite (co_att _ _ _ C). destruct (Z.eqb_spec e' e) as [->|N]; cbn [negb].
    + split; [intros [_ Hd]; discriminate|discriminate].
    + tauto.
  - apply NoDup_map_filter, (co_cid _ _ _ C).
Qed.

(* ---- single-result queries -------------------------------------------------- *)
Lemma issub_refl H t : issub H t t = true.
Proof. unfold issub. destruct t; cbn [issub_f]; now rewrite Nat.eqb_refl. Qed.

Lemma type_of_some c (tbl : alist nat Z) u :
  NoDup (akeys tbl) -> type_of c tbl = Some u -> alookup u tbl = Some c.
Proof.
  intros ND. unfold type_of. destruct (find (fun kv => snd kv =? c) tbl) as [[u' c']|] eqn:F;
    [|discriminate].
  intros [= <-]. apply find_some in F as [Hi E]. cbn [snd fst] in *.
  apply Z.eqb_eq in E. subst. now apply In_alookup.
Qed.

Section Pick.
  Variable H : hier.
  Hypothesis WF : hier_wf H.
  Variable fuel : nat.
  Variable tbl : alist nat Z.
  Hypothesis ND : NoDup (akeys tbl).
  Variable cands : list (nat * Z).
  Hypothesis HC : forall u c, In (u, c) cands <-> alookup u tbl = Some c.

  (* an answer the model allows satisfies the specification of the query,
     and names an attached object *)
  Lemma pick_ok T r x :
    pick H fuel tbl (find_walk H (fun u => amem u tbl) fuel [T]) T r = Some x ->
    ok_single H cands T r = true /\
    match x with
    | None => r = None
    | Some u => exists c, r = Some c /\ alookup u tbl = Some c
    end.
  Proof.
    unfold pick. destruct (find_walk H (fun u => amem u tbl) fuel [T]) as [u0| |] eqn:W;
      destruct r as [c|]; try discriminate.
    - destruct (type_of c tbl) as [n|] eqn:Ety; [|discriminate].
      pose proof (type_of_some _ _ _ ND Ety) as Hn.
      destruct (amem T tbl) eqn:MT.
      + destruct (Nat.eqb_spec n T) as [->|N]; [|discriminate]. intros [= <-].
        split; [|eauto]. cbn [ok_single]. apply andb_true_iff. split.
        * apply existsb_exists. exists (T, c). split; [now apply HC|]. cbn [fst snd].
          now rewrite Z.eqb_refl, issub_refl.
        * apply forallb_forall. intros [u' c'] Hi. cbn [fst snd].
          destruct (Nat.eqb_spec u' T) as [->|N]; auto.
          apply HC in Hi. rewrite Hi in Hn. injection Hn as ->. apply Z.eqb_refl.
      + destruct (get_types_walk H fuel T) as [l|] eqn:G; [|discriminate].
        destruct (mem n l) eqn:M; [|discriminate]. intros [= <-].
        split; [|eauto]. apply mem_In in M.
        apply (walk_visits H fuel T l G) in M. apply (issub_spec H WF) in M.
        cbn [ok_single]. apply andb_true_iff. split.
        * apply existsb_exists. exists (n, c). split; [now apply HC|]. cbn [fst snd].
          now rewrite Z.eqb_refl, M.
        * apply forallb_forall. intros [u' c'] Hi. cbn [fst snd].
          destruct (Nat.eqb_spec u' T) as [->|N]; auto.
          apply HC in Hi. unfold amem in MT. rewrite Hi in MT. discriminate.
    - intros [= <-]. split; auto. cbn [ok_single]. apply negb_true_iff.
      destruct (existsb (fun x => issub H (fst x) T) cands) eqn:E; auto.
      apply existsb_exists in E as ([u c] & Hi & Hs). cbn [fst] in Hs.
      apply (issub_spec H WF) in Hs.
      pose proof (find_complete H _ _ _ W T u ltac:(now left) Hs) as Hf. cbn in Hf.
      apply HC in Hi. unfold amem in Hf. rewrite Hi in Hf. discriminate.
  Qed.

  (* has_component's answer *)
  Lemma has_ok T (r : bool) :
    match has_walk H (fun u => amem u tbl) fuel [T] with
    | WFound _ => r | WNone => negb r | WFuel => false end = true ->
    r = existsb (fun x => issub H (fst x) T) cands.
  Proof.
    rewrite has_walk_find.
    destruct (find_walk H (fun u => amem u tbl) fuel [T]) as [u0| |] eqn:W; try discriminate.
    - intros ->. symmetry. apply existsb_exists.
      destruct (find_sound H _ _ _ _ W) as (Ht & v & [<-|[]] & Hs).
      unfold amem in Ht. destruct (alookup u0 tbl) as [c|] eqn:E; [|discriminate].
      exists (u0, c). split; [now apply HC|]. cbn [fst]. now apply (issub_spec H WF).
    - intros Hr. apply negb_true_iff in Hr. subst r. symmetry.
      destruct (existsb (fun x => issub H (fst x) T) cands) eqn:E; auto.
      apply existsb_exists in E as ([u c] & Hi & Hs). cbn [fst] in Hs.
      apply (issub_spec H WF) in Hs.
      pose proof (find_complete H _ _ _ W T u ltac:(now left) Hs) as Hf. cbn in Hf.
      apply HC in Hi. unfold amem in Hf. rewrite Hi in Hf. discriminate.
  Qed.
End Pick.

(* ---- the relation between model state and specification state ---------------- *)
Definition DeadOk (en : alist Z (alist nat Z)) (d p : list Z) : Prop :=
  NoDup d /\ (forall x, In x d <-> In x p) /\ (forall x, In x d -> amem x en = true).

Record ProcOk (pr : alist nat Z) (sp : list (nat * Z)) : Prop := {
  po_keys : NoDup (akeys pr);
  po_att : forall u p, In (u, p) sp <-> alookup u pr = Some p;
  po_pid : NoDup (map snd sp)
}.

Definition Rel (s : world) (t : spec) : Prop :=
  Core (ents s) (comps s) (att t) /\
  DeadOk (ents s) (dead s) (pend t) /\
  ProcOk (procs s) (sprocs t).

Lemma rel_init : Rel w_init spec_init.
Proof.
  split; [apply core_init|]. split.
  - cbn. split; [constructor|]. split; [tauto|]. intros x [].
  - split; cbn; try constructor; try tauto; try discriminate.
Qed.

Lemma in_of_entity a e u c : In (u, c) (of_entity a e) <-> In (e, u, c) a.
Proof.
  unfold of_entity. rewrite in_map_iff. split.
  - intros ([[e' u'] c'] & [= <- <-] & Hi). apply filter_In in Hi as [Hi E].
    cbn in E. apply Z.eqb_eq in E. now subst.
  - intros Hi. exists (e, u, c). split; auto. apply filter_In. split; auto.
    cbn. apply Z.eqb_refl.
Qed.

Lemma mem_dead_pend en d p x : DeadOk en d p -> mem x d = mem x p.
Proof.
  intros (_ & Hd & _). apply eq_true_iff_eq. rewrite !mem_In. apply Hd.
Qed.

(* ---- get(T) ------------------------------------------------------------------- *)
Section GetQuery.
  Variable H : hier.
  Hypothesis WF : hier_wf H.
  Variables (en : alist Z (alist nat Z)) (cm : alist nat (list Z)) (a : list triple).
  Hypothesis C : Core en cm a.

  Definition yield (u : nat) : list (Z * Z) :=
    flat_map (fun e => match alookup u (rowE en e) with Some c => [(e, c)] | None => [] end)
             (idxof cm u).

  Lemma in_yield u e c : In (e, c) (yield u) <-> alookup u (rowE en e) = Some c.
  Proof.
    unfold yield. rewrite in_flat_map. split.
    - intros (e' & Hi & Hm). destruct (alookup u (rowE en e')) as [c'|] eqn:E; [|destruct Hm].
      destruct Hm as [[= <- <-]|[]]. exact E.
    - intros E. exists e. split.
      + apply (co_tr _ _ _ C). unfold amem. now rewrite E.
      + rewrite E. now left.
  Qed.

  Lemma NoDup_yield u : NoDup (yield u).
  Proof.
    unfold yield. apply NoDup_flat_map.
    - apply (co_idx _ _ _ C).
    - intros e _. destruct (alookup u (rowE en e)); repeat constructor; auto.
    - intros e1 e2 [e c] _ _ H1 H2.
      destruct (alookup u (rowE en e1)); [|destruct H1].
      destruct (alookup u (rowE en e2)); [|destruct H2].
      destruct H1 as [[= <- _]|[]]. destruct H2 as [[= <- _]|[]]. reflexivity.
  Qed.

  Lemma in_spec_get T e c :
    In (e, c) (map (fun x => (t_e x, t_c x)) (filter (fun x => issub H (t_u x) T) a)) <->
    exists u, In (e, u, c) a /\ sub H u T.
  Proof.
    rewrite in_map_iff. split.
    - intros ([[e' u] c'] & [= <- <-] & Hi). apply filter_In in Hi as [Hi Hs].
      exists u. split; auto. now apply (issub_spec H WF).
    - intros (u & Hi & Hs). exists (e, u, c). split; auto. apply filter_In. split; auto.
      now apply (issub_spec H WF).
  Qed.

  Lemma get_perm fuel T types :
    get_types_walk H fuel T = Some types ->
    Permutation (flat_map yield types)
                (map (fun x => (t_e x, t_c x)) (filter (fun x => issub H (t_u x) T) a)).
  Proof.
    intros G. destruct (walk_visits H fuel T types G) as (NDt & Ht).
    apply NoDup_Permutation.
    - apply NoDup_flat_map; auto.
      + intros u _. apply NoDup_yield.
      + intros u1 u2 [e c] _ _ H1 H2. apply in_yield in H1, H2.
        apply (co_att _ _ _ C) in H1, H2.
        now destruct (core_cid_unique _ _ _ _ _ _ _ _ C H1 H2).
    - apply NoDup_map_inj_in.
      + apply NoDup_filter. apply (NoDup_map_inv t_c). apply (co_cid _ _ _ C).
      + intros x y Hx Hy E. apply filter_In in Hx as [Hx _]. apply filter_In in Hy as [Hy _].
        apply (NoDup_map_inj t_c a); auto; [apply (co_cid _ _ _ C)|]. now injection E.
    - intros [e c]. rewrite in_spec_get, in_flat_map. split.
      + intros (u & Hu & Hy). exists u. split; [|now apply Ht].
        apply (co_att _ _ _ C). now apply in_yield.
      + intros (u & Hi & Hs). exists u. split; [now apply Ht|].
        apply in_yield. now apply (co_att _ _ _ C).
  Qed.

  Lemma components_perm e :
    Permutation (avals (rowE en e)) (map snd (of_entity a e)).
  Proof.
    pose proof (core_row_nodup _ _ _ e C) as NDr.
    apply NoDup_Permutation.
    - unfold avals. apply NoDup_map_inj_in.
      + apply (NoDup_map_inv fst). exact NDr.
      + intros [u1 c1] [u2 c2] H1 H2 E. cbn [snd] in E. subst c2.
        apply In_alookup in H1, H2; auto. apply (co_att _ _ _ C) in H1, H2.
        destruct (core_cid_unique _ _ _ _ _ _ _ _ C H1 H2) as [_ ->]. reflexivity.
    - unfold of_entity. rewrite map_map. cbn [snd].
      apply (NoDup_map_filter t_c). apply (co_cid _ _ _ C).
    - intros c. rewrite (In_avals _ _ NDr). rewrite in_map_iff. split.
      + intros (u & Hl). exists (u, c). split; auto. apply in_of_entity.
        now apply (co_att _ _ _ C).
      + intros ([u c'] & E & Hi). cbn [snd] in E. subst c'. exists u.
        apply in_of_entity in Hi. now apply (co_att _ _ _ C).
  Qed.

  Lemma in_owners e : In e (map t_e a) <-> amem e en = true.
  Proof.
    rewrite (core_amem _ _ _ e C), in_map_iff. split.
    - intros ([[e' u] c] & E & Hi). cbn in E. subst. eauto.
    - intros (u & c & Hi). exists (e, u, c). split; auto.
  Qed.

  Lemma entities_perm d p :
    DeadOk en d p ->
    Permutation (filter (fun e => negb (mem e d)) (akeys en))
                (filter (fun e => negb (mem e p)) (nodup Z.eq_dec (map t_e a))).
  Proof.
    intros D. apply NoDup_Permutation.
    - apply NoDup_filter, (co_keys _ _ _ C).
    - apply NoDup_filter, NoDup_nodup.
    - intros e. rewrite !filter_In, nodup_In, in_owners, <- amem_In.
      now rewrite (mem_dead_pend _ _ _ e D).
  Qed.
End GetQuery.

Lemma query_sim H fuel s t q :
  hier_wf H -> Rel s t -> m_query H fuel s q = true -> spec_query H t q = true.
Proof.
  intros WF (C & D & P) Hq.
  assert (HCe : forall e u c, In (u, c) (of_entity (att t) e) <-> alookup u (rowof s e) = Some c).
  { intros e u c. rewrite in_of_entity. apply (co_att _ _ _ C). }
  destruct q as [T r|e T r|e r|e T r|r|e r|T r|]; cbn [m_query spec_query] in *.
  - unfold m_get in Hq. destruct (get_types_walk H fuel T) as [types|] eqn:G; [|discriminate].
    eapply perm_b_trans; [exact Hq|]. apply (get_perm H WF _ _ _ C fuel T types G).
  - unfold is_some, get_component_walk in Hq.
    destruct (pick H fuel (rowof s e) _ T r) as [x|] eqn:Pk; [|discriminate].
    assert (NDr : NoDup (akeys (rowof s e))) by (rewrite rowof_rowE; eapply core_row_nodup; eauto).
    now destruct (pick_ok H WF fuel (rowof s e) NDr _ (HCe e) T r x Pk).
  - eapply perm_b_trans; [exact Hq|]. rewrite rowof_rowE.
    apply (components_perm _ _ _ C).
  - apply eqb_true_iff. destruct (amem e (ents s)) eqn:M.
    + unfold has_component_walk in Hq. eapply has_ok; eauto.
    + apply negb_true_iff in Hq. subst r. symmetry.
      destruct (existsb (fun x => issub H (fst x) T) (of_entity (att t) e)) eqn:E; auto.
      apply existsb_exists in E as ([u c] & Hi & _). apply HCe in Hi.
      rewrite rowof_rowE in Hi.
      assert (amem e (ents s) = true).
      { apply (amem_rowE _ _ _ e C). intros E0. rewrite E0 in Hi. discriminate. }
      congruence.
  - eapply perm_b_trans; [exact Hq|]. apply (entities_perm _ _ _ C _ _ D).
  - apply Bool.eqb_prop in Hq. apply (proj2 (Bool.eqb_true_iff _ _)). subst r.
    rewrite (owns_amem _ _ _ e C). now rewrite (mem_dead_pend _ _ _ e D).
  - unfold is_some, get_processor_walk in Hq.
    destruct (pick H fuel (procs s) _ T r) as [x|] eqn:Pk; [|discriminate].
    now destruct (pick_ok H WF fuel (procs s) (po_keys _ _ P) _ (po_att _ _ P) T r x Pk).
  - discriminate.
Qed.

(* ---- the operations ----------------------------------------------------------- *)
Lemma amem_detach_ents en e u x : x <> e -> amem x (detach_ents en e u) = amem x en.
Proof.
  intros N. unfold detach_ents. destruct (adel u (rowE en e)).
  - rewrite amem_adel. cbn [eqb EqB_Z]. apply Z.eqb_neq in N. now rewrite N.
  - rewrite amem_aset. cbn [eqb EqB_Z]. apply Z.eqb_neq in N. now rewrite N.
Qed.

Lemma detach_cases s e u :
  ents (detach s e u) = detach_ents (ents s) e u /\
  comps (detach s e u) = unindex (comps s) e u /\
  procs (detach s e u) = procs s /\
  ((amem e (ents (detach s e u)) = false /\ dead (detach s e u) = sdiscard e (dead s)) \/
   (amem e (ents (detach s e u)) = true /\ dead (detach s e u) = dead s)).
Proof.
  unfold detach, detach_ents. rewrite rowof_rowE.
  destruct (adel u (rowE (ents s) e)) eqn:E; cbn [ents comps procs dead].
  - repeat split; auto. left. split; auto. rewrite amem_adel, eqb_refl. reflexivity.
  - repeat split; auto. right. split; auto. rewrite amem_aset, eqb_refl. reflexivity.
Qed.

Lemma create_loop_core e : forall cs s a,
  Core (ents s) (comps s) a ->
  NoDup (map fst cs) -> NoDup (map snd cs) ->
  (forall u c, In (u, c) cs -> (forall c', ~ In (e, u, c') a) /\ ~ In c (map t_c a)) ->
  Core (ents (create_loop s e cs)) (comps (create_loop s e cs))
       (a ++ map (fun uc => (e, fst uc, snd uc)) cs) /\
  dead (create_loop s e cs) = dead s /\ procs (create_loop s e cs) = procs s /\
  (forall x, amem x (ents s) = true -> amem x (ents (create_loop s e cs)) = true).
Proof.
  induction cs as [|[u c] cs IH]; intros s a C ND1 ND2 Hfree.
  - cbn [create_loop fold_left map]. rewrite app_nil_r. auto.
  - cbn [map fst snd] in ND1, ND2.
    inversion ND1 as [|? ? Hn1 ND1']; subst. inversion ND2 as [|? ? Hn2 ND2']; subst.
    destruct (Hfree u c ltac:(now left)) as (Hf & Hc).
    pose proof (attach_core _ _ _ e u c C Hf Hc) as C1.
    change (create_loop s e ((u, c) :: cs)) with (create_loop (attach s e u c) e cs).
    destruct (IH (attach s e u c) (a ++ [(e, u, c)])) as (C2 & Hd & Hp & Hm); auto.
    + intros u' c' Hi. destruct (Hfree u' c' ltac:(now right)) as (Hf' & Hc'). split.
      * intros c'' Hin. apply in_app_iff in Hin as [Hin|[[= E1 E2]|[]]].
        -- eapply Hf'; eauto.
        -- apply Hn1. subst u. change u' with (fst (u', c')). now apply in_map.
      * rewrite map_app, in_app_iff. cbn [map t_c snd In]. intros [Hin|[<-|[]]]; auto.
        apply Hn2. change c with (snd (u', c)). now apply in_map.
    + cbn [map fst snd]. rewrite <- app_assoc in C2. cbn [app] in C2.
      split; [exact C2|]. split; [exact Hd|]. split; [exact Hp|].
      intros x Hx. apply Hm. cbn [attach ents]. rewrite amem_aset, Hx. apply orb_true_r.
Qed.

Lemma draw_id_notin : forall fuel k en e, draw_id fuel k en = Some e -> amem e en = false.
Proof.
  induction fuel as [|f IH]; intros k en e; cbn [draw_id]; [discriminate|].
  destruct (amem k en) eqn:M.
  - apply IH.
  - now intros [= <-].
Qed.

(* _clear_dead_entities *)
Lemma clear_dead_ok : forall l s a,
  Core (ents s) (comps s) a -> NoDup l -> (forall x, In x l -> amem x (ents s) = true) ->
  exists s', clear_dead s l = (s', false) /\
    Core (ents s') (comps s') (filter (fun x => negb (mem (t_e x) l)) a) /\
    dead s' = [] /\ procs s' = procs s.
Proof.
  induction l as [|e l IH]; intros s a C ND Hin.
  - exists (set_dead s []). cbn [clear_dead]. split; [reflexivity|].
    split; [|split; reflexivity].
    cbn [set_dead ents comps]. rewrite filter_all; auto.
  - inversion ND as [|? ? Hn ND']; subst.
    cbn [clear_dead]. rewrite (Hin e) by now left.
    destruct (IH (delete_imm (set_dead s l) e) (filter (fun x => negb (t_e x =? e)) a))
      as (s' & Hc & C' & Hd & Hp); auto.
    + cbn [delete_imm set_dead ents comps]. now apply delete_core.
    + intros x Hx. cbn [delete_imm set_dead ents]. rewrite amem_adel.
      rewrite (Hin x) by now right. cbn [eqb EqB_Z].
      destruct (Z.eqb_spec x e) as [->|N]; [contradiction|reflexivity].
    + exists s'. split; [exact Hc|]. split; [|split; [exact Hd|exact Hp]].
      rewrite filter_filter in C'.
      erewrite filter_ext; [exact C'|].
      intros x. cbn [mem existsb eqb EqB_Z]. now rewrite negb_orb.
Qed.

(* clear(): the loop over the entities *)
Lemma clear_entities_core : forall ks s a,
  Core (ents s) (comps s) a ->
  Core (ents (fold_left delete_imm ks s)) (comps (fold_left delete_imm ks s))
       (filter (fun x => negb (mem (t_e x) ks)) a) /\
  procs (fold_left delete_imm ks s) = procs s.
Proof.
  induction ks as [|e ks IH]; intros s a C; cbn [fold_left].
  - rewrite filter_all; auto.
  - destruct (IH (delete_imm s e) (filter (fun x => negb (t_e x =? e)) a)) as (C' & Hp).
    + cbn [delete_imm ents comps]. now apply delete_core.
    + split; auto. rewrite filter_filter in C'.
      erewrite filter_ext; [exact C'|].
      intros x. cbn [mem existsb eqb EqB_Z]. now rewrite negb_orb.
Qed.

(* clear(): the loop over the processors *)
Lemma fold_remove_proc_none H fuel ks :
  fold_left (fun so u => match so with
                         | Some s => m_remove_proc_det H fuel s u
                         | None => None end) ks None = None.
Proof. induction ks; cbn [fold_left]; auto. Qed.

Lemma clear_procs_ok H fuel : fuel <> 0%nat -> forall ks s s3,
  fold_left (fun so u => match so with
                         | Some s => m_remove_proc_det H fuel s u
                         | None => None end) ks (Some s) = Some s3 ->
  ents s3 = ents s /\ comps s3 = comps s /\ dead s3 = dead s /\
  forall u p, alookup u (procs s3) = Some p -> alookup u (procs s) = Some p /\ ~ In u ks.
Proof.
  intros Hf. induction ks as [|k ks IH]; intros s s3; cbn [fold_left].
  - intros [= <-]. split; [reflexivity|]. split; [reflexivity|]. split; [reflexivity|].
    intros u p Hu. split; auto.
  - unfold m_remove_proc_det at 2, remove_processor_walk.
    destruct (find_walk H (fun u => amem u (procs s)) fuel [k]) as [w| |] eqn:W.
    + intros Hfold. destruct (IH _ _ Hfold) as (He & Hc & Hd & Hl).
      cbn [set_procs ents comps dead procs] in *.
      split; [exact He|]. split; [exact Hc|]. split; [exact Hd|].
      intros u p Hu. destruct (Hl u p Hu) as (Hu' & Hn).
      rewrite alookup_adel in Hu'. cbn [eqb EqB_nat] in Hu'.
      destruct (Nat.eqb_spec u w) as [->|N]; [discriminate|]. split; auto.
      intros [<-|Hi]; auto.
      destruct fuel as [|f]; [congruence|].
      assert (M : amem k (procs s) = true) by (unfold amem; now rewrite Hu').
      rewrite (find_exact H (fun u => amem u (procs s)) f k [] M) in W.
      injection W as <-. congruence.
    + intros Hfold. destruct (IH _ _ Hfold) as (He & Hc & Hd & Hl).
      split; [exact He|]. split; [exact Hc|]. split; [exact Hd|].
      intros u p Hu. destruct (Hl u p Hu) as (Hu' & Hn). split; auto.
      intros [<-|Hi]; auto.
      pose proof (find_complete H _ _ _ W k k ltac:(now left) (sub_refl H k)) as Hk.
      cbn in Hk. unfold amem in Hk. rewrite Hu' in Hk. discriminate.
    + rewrite fold_remove_proc_none. discriminate.
Qed.

Lemma alist_all_none {V} (l : alist nat V) : (forall u, alookup u l = None) -> l = [].
Proof.
  destruct l as [|[k v] l]; auto. intros Hn. specialize (Hn k).
  cbn [alookup eqb EqB_nat] in Hn. rewrite Nat.eqb_refl in Hn. discriminate.
Qed.

Lemma procok_nil : ProcOk [] [].
Proof. split; cbn; try constructor; try tauto; try discriminate. Qed.

Lemma attach_world s a e u c :
  Core (ents s) (comps s) a -> (forall c', ~ In (e, u, c') a) -> ~ In c (map t_c a) ->
  Core (ents (attach s e u c)) (comps (attach s e u c)) (a ++ [(e, u, c)]).
Proof. intros C Hf Hc. exact (attach_core _ _ _ e u c C Hf Hc). Qed.

(* ---- create_entity -------------------------------------------------------------- *)
Lemma create_rel s t e cs :
  Rel s t -> NoDup (map fst cs) -> NoDup (map snd cs) ->
  (forall u c, In (u, c) cs ->
     (forall c', ~ In (e, u, c') (att t)) /\ ~ In c (map t_c (att t))) ->
  Rel (create_loop s e cs)
      (mkS (att t ++ map (fun uc => (e, fst uc, snd uc)) cs) (pend t) (sprocs t)).
Proof.
  intros (C & (NDd & Hd & Hda) & P) ND1 ND2 Hfree.
  destruct (create_loop_core e cs s (att t) C ND1 ND2 Hfree) as (C' & Hdead & Hprocs & Hm).
  split; [exact C'|]. cbn [pend sprocs]. rewrite Hdead, Hprocs. split; auto.
  split; auto.
Qed.

Lemma wf_fresh_cids a (cs : list (nat * Z)) :
  forallb (fun uc => negb (existsb (fun x => t_c x =? snd uc) a)) cs = true ->
  forall u c, In (u, c) cs -> ~ In c (map t_c a).
Proof.
  rewrite forallb_forall. intros Hf u c Hi Hin. specialize (Hf _ Hi). cbn [snd] in Hf.
  apply negb_true_iff in Hf. apply in_map_iff in Hin as (x & E & Hx).
  assert (existsb (fun x => t_c x =? c) a = true); [|congruence].
  apply existsb_exists. exists x. split; auto. subst. apply Z.eqb_refl.
Qed.

Lemma wf_free_slots a e (cs : list (nat * Z)) :
  forallb (fun uc => negb (existsb (fun x => (t_e x =? e) && Nat.eqb (t_u x) (fst uc)) a)) cs = true ->
  forall u c, In (u, c) cs -> forall c', ~ In (e, u, c') a.
Proof.
  rewrite forallb_forall. intros Hf u c Hi c' Hin. specialize (Hf _ Hi). cbn [fst] in Hf.
  apply negb_true_iff in Hf.
  assert (existsb (fun x => (t_e x =? e) && Nat.eqb (t_u x) u) a = true); [|congruence].
  apply existsb_exists. exists (e, u, c'). split; auto. cbn.
  now rewrite Z.eqb_refl, Nat.eqb_refl.
Qed.

Lemma step_create H fuel s t eo cs r s' :
  Rel s t -> wf_op t (OCreate eo cs) = true ->
  m_step H fuel s (OCreate eo cs) r = Some s' ->
  exists t', spec_step H t (OCreate eo cs) r = Some t' /\ Rel s' t'.
Proof.
  intros R Hwf Hm. cbn [wf_op] in Hwf.
  apply andb_true_iff in Hwf as [Hwf Hslots]. apply andb_true_iff in Hwf as [Hwf Hcids].
  apply andb_true_iff in Hwf as [Hn1 Hn2].
  apply nodup_b_spec in Hn1, Hn2. pose proof (wf_fresh_cids _ _ Hcids) as Hfresh.
  destruct eo as [e|]; destruct r as [|rid|?|?]; cbn [m_step] in Hm; try discriminate.
  - destruct (Z.eqb_spec rid e) as [->|N]; [|discriminate]. injection Hm as <-.
    cbn [spec_step]. rewrite Z.eqb_refl. eexists. split; [reflexivity|].
    apply create_rel; auto. intros u c Hi. split; [|eapply Hfresh; eauto].
    eapply wf_free_slots; eauto.
  - destruct (draw_id (S (length (ents s))) (next_id s) (ents s)) as [e|] eqn:Dr; [|discriminate].
    destruct (Z.eqb_spec rid e) as [->|N]; [|discriminate]. injection Hm as <-.
    apply draw_id_notin in Dr. destruct R as (C & D & P).
    assert (Ho : owns (att t) e = false) by (rewrite (owns_amem _ _ _ e C); exact Dr).
    cbn [spec_step]. rewrite Ho. cbn [negb]. eexists. split; [reflexivity|].
    apply (create_rel (set_next s (e + 1)) t e cs); auto.
    + split; [exact C|]. split; [exact D|exact P].
    + intros u c Hi. split; [|eapply Hfresh; eauto].
      intros c' Hin. assert (owns (att t) e = true); [|congruence].
      apply owns_spec. eauto.
Qed.

(* ---- add_component --------------------------------------------------------------- *)
Lemma add_tail s1 s t a1 sp e u c :
  Core (ents s1) (comps s1) a1 -> (forall c', ~ In (e, u, c') a1) -> ~ In c (map t_c a1) ->
  DeadOk (ents s) (dead s) (pend t) -> NoDup (dead s1) ->
  (forall x, In x (dead s1) <-> In x (dead s)) ->
  (forall x, x <> e -> amem x (ents s1) = amem x (ents s)) ->
  ProcOk (procs s1) sp ->
  Rel (attach s1 e u c) (mkS (a1 ++ [(e, u, c)]) (pend t) sp).
Proof.
  intros C Hf Hc (NDd & Hd & Hda) ND1 Hd1 Hm P.
  split; [now apply attach_world|]. cbn [attach dead procs ents pend sprocs]. split; auto.
  split; auto. split.
  - intros x. rewrite Hd1. apply Hd.
  - intros x Hx. rewrite amem_aset. cbn [eqb EqB_Z].
    destruct (Z.eqb_spec x e) as [->|N]; auto. cbn [orb]. rewrite Hm by auto.
    apply Hda. now apply Hd1.
Qed.

Lemma step_add H fuel s t e u c s' :
  fuel <> 0%nat -> Rel s t -> wf_op t (OAdd e u c) = true ->
  m_add H fuel s e u c = Some s' ->
  Rel s' (mkS (filter (fun x => negb ((t_e x =? e) && Nat.eqb (t_u x) u)) (att t) ++ [(e, u, c)])
              (pend t) (sprocs t)).
Proof.
  intros Hfuel (C & D & P) Hwf Hm. cbn [wf_op] in Hwf. rewrite forallb_forall in Hwf.
  change (fun x => negb ((t_e x =? e) && Nat.eqb (t_u x) u)) with (fun x => negb (slot_b e u x)).
  set (a1 := filter (fun x => negb (slot_b e u x)) (att t)).
  assert (Hfree : forall c', ~ In (e, u, c') a1).
  { intros c' Hi. apply filter_In in Hi as [_ Hi]. unfold slot_b in Hi. cbn in Hi.
    now rewrite Z.eqb_refl, Nat.eqb_refl in Hi. }
  assert (Hc : ~ In c (map t_c a1)).
  { intros Hi. apply in_map_iff in Hi as (x & E & Hx). apply filter_In in Hx as [Hx Hs].
    specialize (Hwf x Hx). fold (slot_b e u x) in Hwf. apply negb_true_iff in Hs.
    rewrite Hs, E, Z.eqb_refl in Hwf. discriminate. }
  unfold m_add in Hm. destruct (amem u (rowof s e)) eqn:M.
  - destruct fuel as [|f]; [congruence|].
    unfold m_remove_det, remove_component_walk in Hm.
    rewrite (find_exact H (fun u0 => amem u0 (rowof s e)) f u [] M) in Hm.
    destruct (detach_cases s e u) as (He & Hcm & Hp & Hdc).
    pose proof (detach_core _ _ _ e u C) as C1. fold a1 in C1.
    destruct D as (NDd & Hd & Hda).
    assert (NDs : NoDup (dead (detach s e u))).
    { destruct Hdc as [[_ ->]|[_ ->]]; auto. now apply NoDup_sdiscard. }
    destruct (mem e (dead s)) eqn:Md; injection Hm as <-.
    + apply mem_In in Md.
      apply (add_tail (set_dead (detach s e u) (sadd e (dead (detach s e u)))) s t); auto.
      * cbn [set_dead ents comps]. now rewrite He, Hcm.
      * split; auto.
      * cbn [set_dead dead]. now apply NoDup_sadd.
      * cbn [set_dead dead]. intros x. rewrite In_sadd.
        destruct Hdc as [[_ ->]|[_ ->]].
        -- rewrite In_sdiscard. split; [intros [->|[Hx _]]; auto|].
           intros Hx. destruct (Z.eq_dec x e); auto.
        -- split; [intros [->|Hx]; auto|auto].
      * cbn [set_dead ents]. intros x N. rewrite He. now apply amem_detach_ents.
      * cbn [set_procs set_dead procs]. now rewrite Hp.
    + apply mem_false in Md.
      apply (add_tail (detach s e u) s t); auto.
      * now rewrite He, Hcm.
      * split; auto.
      * intros x. destruct Hdc as [[_ ->]|[_ ->]]; [|tauto].
        rewrite sdiscard_notin by auto. tauto.
      * intros x N. rewrite He. now apply amem_detach_ents.
      * now rewrite Hp.
  - injection Hm as <-.
    assert (Ea : a1 = att t).
    { apply filter_all. intros [[e' u'] c'] Hx. unfold slot_b. cbn [t_e t_u fst snd].
      destruct (Z.eqb_spec e' e) as [->|N]; auto. destruct (Nat.eqb_spec u' u) as [->|N']; auto.
      apply (co_att _ _ _ C) in Hx. rewrite <- rowof_rowE in Hx. unfold amem in M.
      rewrite Hx in M. discriminate. }
    destruct D as (NDd & Hd & Hda).
    apply (add_tail s s t); auto.
    + now rewrite Ea.
    + split; auto.
    + tauto.
Qed.

(* ---- remove_component ------------------------------------------------------------- *)
Lemma step_remove H fuel s t e T r s' :
  hier_wf H -> Rel s t ->
  m_step H fuel s (ORemove e T) (RObj r) = Some s' ->
  exists t', spec_step H t (ORemove e T) (RObj r) = Some t' /\ Rel s' t'.
Proof.
  intros WF (C & D & P) Hm. cbn [m_step] in Hm. unfold remove_component_walk in Hm.
  destruct (pick H fuel (rowof s e) _ T r) as [x|] eqn:Pk; [|discriminate].
  assert (NDr : NoDup (akeys (rowof s e))) by (rewrite rowof_rowE; eapply core_row_nodup; eauto).
  assert (HCe : forall u c, In (u, c) (of_entity (att t) e) <-> alookup u (rowof s e) = Some c).
  { intros u c. rewrite in_of_entity. apply (co_att _ _ _ C). }
  destruct (pick_ok H WF fuel (rowof s e) NDr _ HCe T r x Pk) as (Hok & Hx).
  cbn [spec_step]. rewrite Hok. destruct x as [u0|].
  - destruct Hx as (c & -> & Hl). injection Hm as <-. eexists. split; [reflexivity|].
    assert (Ef : filter (fun x => negb ((t_e x =? e) && (t_c x =? c))) (att t) =
                 filter (fun x => negb (slot_b e u0 x)) (att t)).
    { apply filter_ext_in. intros [[e1 u1] c1] Hx. unfold slot_b. cbn [t_e t_u t_c fst snd].
      destruct (Z.eqb_spec e1 e) as [->|N]; auto. cbn [andb]. f_equal.
      assert (H0 : In (e, u0, c) (att t)) by (apply (co_att _ _ _ C); exact Hl).
      destruct (Z.eqb_spec c1 c) as [->|Nc]; destruct (Nat.eqb_spec u1 u0) as [->|Nu]; auto.
      - exfalso. destruct (core_cid_unique _ _ _ _ _ _ _ _ C Hx H0). contradiction.
      - exfalso. apply (co_att _ _ _ C) in Hx. rewrite <- rowof_rowE in Hx. congruence. }
    rewrite Ef.
    destruct (detach_cases s e u0) as (He & Hcm & Hp & Hdc).
    pose proof (detach_core _ _ _ e u0 C) as C1. rewrite <- He, <- Hcm in C1.
    split; [exact C1|]. cbn [pend sprocs]. rewrite Hp. split; auto.
    rewrite (owns_amem _ _ _ e C1). destruct D as (NDd & Hd & Hda).
    destruct Hdc as [[Ha ->]|[Ha ->]]; rewrite Ha.
    + split; [now apply NoDup_sdiscard|]. split.
      * intros x. rewrite !In_sdiscard. now rewrite Hd.
      * intros x Hx. apply In_sdiscard in Hx as [Hx N]. rewrite He.
        rewrite amem_detach_ents by auto. now apply Hda.
    + split; auto. split; auto. intros x Hx.
      destruct (Z.eq_dec x e) as [->|N]; auto. rewrite He.
      rewrite amem_detach_ents by auto. now apply Hda.
  - subst r. injection Hm as <-. eexists. split; [reflexivity|]. split; auto.
Qed.

(* ---- processors ------------------------------------------------------------------- *)
Lemma step_add_proc H fuel s t u p s' :
  fuel <> 0%nat -> Rel s t -> wf_op t (OAddProc u p) = true ->
  m_add_proc H fuel s u p = Some s' ->
  Rel s' (mkS (att t) (pend t)
              (filter (fun x => negb (Nat.eqb (fst x) u)) (sprocs t) ++ [(u, p)])).
Proof.
  intros Hfuel (C & D & P) Hwf Hm. cbn [wf_op] in Hwf. rewrite forallb_forall in Hwf.
  assert (Hs1 : exists pr1, s' = set_procs s (aset u p pr1) /\ NoDup (akeys pr1) /\
                 forall u', alookup u' (aset u p pr1) =
                            if Nat.eqb u' u then Some p else alookup u' (procs s)).
  { unfold m_add_proc in Hm. destruct (amem u (procs s)) eqn:M.
    - destruct fuel as [|f]; [congruence|].
      unfold m_remove_proc_det, remove_processor_walk in Hm.
      rewrite (find_exact H (fun u0 => amem u0 (procs s)) f u [] M) in Hm.
      injection Hm as <-. exists (adel u (procs s)). split; [reflexivity|].
      split; [apply NoDup_akeys_adel, (po_keys _ _ P)|].
      intros u'. rewrite alookup_aset, alookup_adel. cbn [eqb EqB_nat].
      now destruct (Nat.eqb u' u).
    - injection Hm as <-. exists (procs s). split; [reflexivity|].
      split; [apply (po_keys _ _ P)|].
      intros u'. rewrite alookup_aset. reflexivity. }
  destruct Hs1 as (pr1 & -> & NDp & Hl).
  split; [exact C|]. split; [exact D|]. cbn [set_procs procs sprocs].
  assert (NDk : NoDup (akeys (aset u p pr1))) by now apply NoDup_akeys_aset.
  split; auto.
  - intros u' p'. rewrite Hl, in_app_iff, filter_In. cbn [In fst].
    rewrite (po_att _ _ P). destruct (Nat.eqb_spec u' u) as [->|N]; cbn [negb].
    + split.
      * intros [[_ Hd]|[[= <-]|[]]]; [discriminate|reflexivity].
      * intros [= <-]. auto.
    + split.
      * intros [[Hd _]|[[= E1 E2]|[]]]; [auto|congruence].
      * intros Hd. auto.
  - rewrite map_app. cbn [map snd]. apply NoDup_snoc.
    + apply NoDup_map_filter, (po_pid _ _ P).
    + intros Hi. apply in_map_iff in Hi as ([u' p'] & E & Hx). cbn [snd] in E. subst p'.
      apply filter_In in Hx as [Hx Hn]. specialize (Hwf _ Hx). cbn [fst snd] in *.
      rewrite Z.eqb_refl in Hwf. cbn [negb orb] in Hwf. rewrite Hwf in Hn. discriminate.
Qed.

Lemma step_remove_proc H fuel s t T r s' :
  hier_wf H -> Rel s t ->
  m_step H fuel s (ORemoveProc T) (RObj r) = Some s' ->
  exists t', spec_step H t (ORemoveProc T) (RObj r) = Some t' /\ Rel s' t'.
Proof.
  intros WF (C & D & P) Hm. cbn [m_step] in Hm. unfold remove_processor_walk in Hm.
  destruct (pick H fuel (procs s) _ T r) as [x|] eqn:Pk; [|discriminate].
  destruct (pick_ok H WF fuel (procs s) (po_keys _ _ P) _ (po_att _ _ P) T r x Pk) as (Hok & Hx).
  cbn [spec_step]. rewrite Hok. destruct x as [u0|].
  - destruct Hx as (p & -> & Hl). injection Hm as <-. eexists. split; [reflexivity|].
    split; [exact C|]. split; [exact D|]. cbn [set_procs procs sprocs]. split.
    + apply NoDup_akeys_adel, (po_keys _ _ P).
    + intros u' p'. rewrite filter_In, alookup_adel, (po_att _ _ P). cbn [snd eqb EqB_nat].
      destruct (Nat.eqb_spec u' u0) as [->|N].
      * split; [|discriminate]. intros [Hd Hn]. rewrite Hl in Hd. injection Hd as <-.
        rewrite Z.eqb_refl in Hn. discriminate.
      * split; [tauto|]. intros Hd. split; auto.
        destruct (Z.eqb_spec p' p) as [->|Np]; auto. exfalso. apply N.
        apply (po_att _ _ P) in Hd, Hl.
        assert (E : (u', p) = (u0, p)) by (apply (NoDup_map_inj snd (sprocs t)); auto; apply (po_pid _ _ P)).
        now injection E.
    + apply NoDup_map_filter, (po_pid _ _ P).
  - subst r. injection Hm as <-. eexists. split; [reflexivity|]. split; auto.
Qed.

(* ---- clear() ---------------------------------------------------------------------- *)
Lemma step_clear H fuel s s' :
  fuel <> 0%nat -> (exists t, Rel s t) -> m_clear H fuel s = Some s' -> Rel s' (mkS [] [] []).
Proof.
  intros Hfuel (t & C & D & P) Hm. unfold m_clear in Hm.
  set (s1 := fold_left delete_imm (akeys (ents s)) s) in *.
  destruct (clear_entities_core (akeys (ents s)) s (att t) C) as (C1 & Hp1). fold s1 in C1, Hp1.
  assert (Ea : filter (fun x => negb (mem (t_e x) (akeys (ents s)))) (att t) = []).
  { apply filter_nil. intros [[e u] c] Hx. cbn [t_e fst]. apply negb_false_iff, mem_In, amem_In.
    apply (core_amem _ _ _ e C). eauto. }
  rewrite Ea in C1.
  destruct (fold_left _ (akeys (procs (set_dead s1 []))) (Some (set_dead s1 []))) as [s3|] eqn:F;
    [|discriminate].
  injection Hm as <-.
  destruct (clear_procs_ok H fuel Hfuel _ _ _ F) as (He & Hc & Hd & Hl).
  cbn [set_dead ents comps dead procs] in He, Hc, Hd, Hl.
  assert (Ep : procs s3 = []).
  { apply alist_all_none. intros u. destruct (alookup u (procs s3)) as [p|] eqn:E; auto.
    destruct (Hl u p E) as (Hu & Hn). exfalso. apply Hn.
    apply alookup_In in Hu. change u with (fst (u, p)). now apply in_map. }
  split; cbn [set_next ents comps dead procs att pend sprocs].
  - now rewrite He, Hc.
  - rewrite Hd, Ep. split; [|apply procok_nil].
    split; [constructor|]. split; [tauto|]. intros x [].
Qed.

(* ---- one operation ---------------------------------------------------------------- *)
Theorem step_sim H fuel s t o r s' :
  hier_wf H -> fuel <> 0%nat -> Rel s t -> wf_op t o = true ->
  m_step H fuel s o r = Some s' ->
  exists t', spec_step H t o r = Some t' /\ Rel s' t'.
Proof.
  intros WF Hfuel R Hwf Hm.
  destruct o as [eo cs|e u c|e T|e imm| | |b|u p|T|].
  - eapply step_create; eauto.
  - destruct r; try discriminate. cbn [m_step] in Hm. cbn [spec_step].
    eexists. split; [reflexivity|]. eapply step_add; eauto.
  - destruct r as [| |r|]; try discriminate. eapply step_remove; eauto.
  - destruct R as (C & D & P). destruct imm; destruct r as [| | |k]; try discriminate;
      cbn [m_step] in Hm; cbn [spec_step].
    + destruct (amem e (ents s)) eqn:M; [|discriminate]. injection Hm as <-.
      eexists. split; [reflexivity|]. split; [|split; [|exact P]].
      * cbn [delete_imm ents comps att]. now apply delete_core.
      * cbn [delete_imm ents dead pend]. destruct D as (NDd & Hd & Hda).
        split; [now apply NoDup_sdiscard|]. split.
        -- intros x. rewrite !In_sdiscard. now rewrite Hd.
        -- intros x Hx. apply In_sdiscard in Hx as [Hx N]. rewrite amem_adel.
           cbn [eqb EqB_Z]. apply Z.eqb_neq in N. rewrite N. cbn [negb andb]. now apply Hda.
    + destruct (amem e (ents s)) eqn:M; [discriminate|].
      destruct (k =? 1); [|discriminate]. injection Hm as <-.
      rewrite (owns_amem _ _ _ e C), M. eexists. split; [reflexivity|].
      split; [exact C|]. split; [exact D|exact P].
    + injection Hm as <-. eexists. split; [reflexivity|]. split; [exact C|]. split; [|exact P].
      cbn [set_dead ents dead pend]. destruct D as (NDd & Hd & Hda).
      cbn [wf_op] in Hwf. rewrite (owns_amem _ _ _ e C) in Hwf.
      split; [now apply NoDup_sadd|]. split.
      * intros x. rewrite !In_sadd. now rewrite Hd.
      * intros x Hx. apply In_sadd in Hx as [->|Hx]; auto.
  - destruct R as (C & (NDd & Hd & Hda) & P).
    destruct (clear_dead_ok (dead s) s (att t) C NDd Hda) as (s1 & Hc & C1 & Hd1 & Hp1).
    destruct r as [| | |k]; try discriminate; cbn [m_step] in Hm; rewrite Hc in Hm;
      [|discriminate].
    injection Hm as <-. cbn [spec_step]. eexists. split; [reflexivity|].
    split; [|split].
    + cbn [att]. erewrite filter_ext; [exact C1|]. intros x. cbn beta.
      f_equal. apply eq_true_iff_eq. rewrite !mem_In. symmetry. apply Hd.
    + cbn [pend]. rewrite Hd1. split; [constructor|]. split; [tauto|]. intros x [].
    + cbn [sprocs]. now rewrite Hp1.
  - destruct r; try discriminate. cbn [m_step] in Hm. cbn [spec_step].
    eexists. split; [reflexivity|]. eapply step_clear; eauto.
  - destruct r; try discriminate. cbn [m_step] in Hm. injection Hm as <-.
    cbn [spec_step]. eauto.
  - destruct r; try discriminate. cbn [m_step] in Hm. cbn [spec_step].
    eexists. split; [reflexivity|]. eapply step_add_proc; eauto.
  - destruct r as [| |r|]; try discriminate. eapply step_remove_proc; eauto.
  - destruct r; try discriminate. cbn [m_step] in Hm. injection Hm as <-.
    cbn [spec_step]. eauto.
Qed.

(* ---- whole traces ----------------------------------------------------------------- *)
Theorem run_sim H fuel sel : hier_wf H -> fuel <> 0%nat -> forall tr s t,
  Rel s t -> wf_run H t tr = true -> m_run H fuel s tr = true -> spec_run H sel t tr = true.
Proof.
  intros WF Hfuel. induction tr as [|[[o r] qs] tr IH]; intros s t R Hwf Hm; auto.
  cbn [wf_run m_run spec_run] in *.
  apply andb_true_iff in Hwf as [Hwo Hwf].
  destruct (m_step H fuel s o r) as [s'|] eqn:Ms; [|discriminate].
  apply andb_true_iff in Hm as [Hq Hm].
  destruct (step_sim H fuel s t o r s' WF Hfuel R Hwo Ms) as (t' & Hs & R').
  rewrite Hs in *. apply andb_true_iff. split.
  - rewrite forallb_forall in *. intros q Hi. apply orb_true_iff. right.
    eapply query_sim; eauto.
  - eapply IH; eauto.
Qed.

Lemma walk_fuel_pos H : walk_fuel H <> 0%nat.
Proof. unfold walk_fuel. discriminate. Qed.

Theorem accepts_holds01 c :
  wf_b c = true -> known_b c = false -> accepts c = true -> holds01 c.
Proof.
  unfold wf_b, accepts, holds01, holds01_b. intros Hwf _ Ha.
  apply andb_true_iff in Hwf as [Hh Hwf]. apply hier_wf_b_spec in Hh.
  eapply run_sim; eauto using walk_fuel_pos, rel_init.
Qed.

Theorem accepts_holds06 c :
  wf_b c = true -> known_b c = false -> accepts c = true -> holds06 c.
Proof.
  unfold wf_b, accepts, holds06, holds06_b. intros Hwf _ Ha.
  apply andb_true_iff in Hwf as [Hh Hwf]. apply hier_wf_b_spec in Hh.
  eapply run_sim; eauto using walk_fuel_pos, rel_init.
Qed.
