(* Library for the World-query family (C01, C06): association lists over any
   key type with a boolean equality (Python dict, insertion order kept),
   duplicate-free lists as sets, and a boolean multiset comparison.
   Definitions and their get/set laws. *)
From Coq Require Import ZArith List Bool Lia Arith Permutation.
Import ListNotations.

Class EqB (K : Type) := {
  eqb : K -> K -> bool;
  eqb_eq : forall a b, eqb a b = true <-> a = b
}.

#[export] Instance EqB_Z : EqB Z := {| eqb := Z.eqb; eqb_eq := Z.eqb_eq |}.
#[export] Instance EqB_nat : EqB nat := {| eqb := Nat.eqb; eqb_eq := Nat.eqb_eq |}.

Lemma pair_eqb_eq {A B} `{EqB A} `{EqB B} (x y : A * B) :
  (eqb (fst x) (fst y) && eqb (snd x) (snd y)) = true <-> x = y.
Proof.
  destruct x as [a b], y as [a' b']. cbn [fst snd].
  rewrite andb_true_iff, !eqb_eq. split.
  - intros [-> ->]; reflexivity.
  - intros [= -> ->]; auto.
Qed.

#[export] Instance EqB_pair {A B} `{EqB A} `{EqB B} : EqB (A * B) :=
  {| eqb := fun x y => eqb (fst x) (fst y) && eqb (snd x) (snd y);
     eqb_eq := pair_eqb_eq |}.

Section Eq.
  Context {K : Type} `{EqB K}.

  Lemma eqb_refl (a : K) : eqb a a = true.
  Proof. now apply eqb_eq. Qed.

  Lemma eqb_neq (a b : K) : eqb a b = false <-> a <> b.
  Proof.
    split.
    - intros E ->. rewrite eqb_refl in E. discriminate.
    - intros N. destruct (eqb a b) eqn:E; auto. apply eqb_eq in E. contradiction.
  Qed.

  Lemma eqb_reflect (a b : K) : reflect (a = b) (eqb a b).
  Proof.
    destruct (eqb a b) eqn:E; constructor.
    - now apply eqb_eq.
    - now apply eqb_neq.
  Qed.

  Lemma eqb_sym (a b : K) : eqb a b = eqb b a.
  Proof.
    destruct (eqb_reflect a b) as [->|N].
    - now rewrite eqb_refl.
    - symmetry. apply eqb_neq. congruence.
  Qed.

  Definition eq_dec_of (a b : K) : {a = b} + {a <> b} :=
    match eqb_reflect a b with ReflectT _ p => left p | ReflectF _ p => right p end.

  (* ---- lists as sets ------------------------------------------------- *)
  Definition mem (x : K) (l : list K) : bool := existsb (eqb x) l.

  (* set.add: nothing happens when present *)
  Definition sadd (x : K) (l : list K) : list K := if mem x l then l else l ++ [x].
  (* set.discard *)
  Definition sdiscard (x : K) (l : list K) : list K := filter (fun y => negb (eqb x y)) l.

  Lemma mem_In x l : mem x l = true <-> In x l.
  Proof.
    unfold mem. rewrite existsb_exists. split.
    - intros (y & Hy & E). apply eqb_eq in E. now subst.
    - intros Hx. exists x. split; auto. apply eqb_refl.
  Qed.

  Lemma mem_false x l : mem x l = false <-> ~ In x l.
  Proof.
    rewrite <- mem_In. destruct (mem x l); split; intros; try discriminate; auto.
    exfalso; auto.
  Qed.

  Lemma In_sadd y x l : In y (sadd x l) <-> y = x \/ In y l.
  Proof.
    unfold sadd. destruct (mem x l) eqn:E.
    - apply mem_In in E. split; [auto|]. intros [->|Hy]; auto.
    - rewrite in_app_iff. cbn [In]. split.
      + intros [Hy|[<-|[]]]; auto.
      + intros [->|Hy]; auto.
  Qed.

  Lemma In_sdiscard y x l : In y (sdiscard x l) <-> In y l /\ y <> x.
  Proof.
    unfold sdiscard. rewrite filter_In, negb_true_iff, eqb_neq.
    split; intros [H1 H2]; split; auto.
  Qed.

  Lemma NoDup_sadd x l : NoDup l -> NoDup (sadd x l).
  Proof.
    intros ND. unfold sadd. destruct (mem x l) eqn:E; auto.
    apply mem_false in E.
    induction l as [|y l IH]; cbn [app].
    - constructor; [intros []|constructor].
    - inversion ND as [|? ? Hn ND']; subst. constructor.
      + rewrite in_app_iff. cbn [In]. intros [Hy|[<-|[]]]; auto.
        apply E. now left.
      + apply IH; auto. intros Hx. apply E. now right.
  Qed.

  Lemma NoDup_sdiscard x l : NoDup l -> NoDup (sdiscard x l).
  Proof. apply NoDup_filter. Qed.

  Lemma sdiscard_notin x l : ~ In x l -> sdiscard x l = l.
  Proof.
    intros N. unfold sdiscard. induction l as [|y l IH]; cbn [filter]; auto.
    destruct (eqb_reflect x y) as [->|Nq]; cbn [negb].
    - exfalso. apply N. now left.
    - rewrite IH; auto. intros Hx. apply N. now right.
  Qed.

  (* ---- multiset comparison ------------------------------------------- *)
  Fixpoint count (x : K) (l : list K) : nat :=
    match l with
    | [] => 0
    | y :: l => (if eqb x y then 1 else 0) + count x l
    end.

  Definition perm_b (l1 l2 : list K) : bool :=
    forallb (fun x => Nat.eqb (count x l1) (count x l2)) (l1 ++ l2).

  Lemma count_count_occ x l : count x l = count_occ eq_dec_of l x.
  Proof.
    induction l as [|y l IH]; cbn [count count_occ]; auto.
    destruct (eq_dec_of y x) as [->|N].
    - rewrite eqb_refl. now rewrite IH.
    - assert (E : eqb x y = false) by (apply eqb_neq; congruence).
      now rewrite E, IH.
  Qed.

  Lemma count_notin x l : ~ In x l -> count x l = 0.
  Proof. rewrite count_count_occ. apply count_occ_not_In. Qed.

  Lemma perm_b_spec l1 l2 : perm_b l1 l2 = true <-> Permutation l1 l2.
  Proof.
    rewrite (Permutation_count_occ eq_dec_of). unfold perm_b.
    rewrite forallb_forall. split.
    - intros Hf x. rewrite <- !count_count_occ.
      destruct (in_dec eq_dec_of x (l1 ++ l2)) as [Hi|Hn].
      + now apply Nat.eqb_eq, Hf.
      + rewrite !count_notin; auto; intros Hx; apply Hn, in_app_iff; auto.
    - intros Hc x _. apply Nat.eqb_eq. rewrite !count_count_occ. apply Hc.
  Qed.

  Lemma perm_b_trans l1 l2 l3 :
    perm_b l1 l2 = true -> Permutation l2 l3 -> perm_b l1 l3 = true.
  Proof.
    rewrite !perm_b_spec. intros. now apply Permutation_trans with l2.
  Qed.
End Eq.

(* ---- association lists ------------------------------------------------ *)
Section Alist.
  Context {K V : Type} `{EqB K}.

  Definition alist := list (K * V).

  Fixpoint alookup (k : K) (l : list (K * V)) : option V :=
    match l with
    | [] => None
    | (k', v) :: l => if eqb k k' then Some v else alookup k l
    end.

  (* d[k] = v : overwrite in place, else append (insertion order) *)
  Fixpoint aset (k : K) (v : V) (l : list (K * V)) : list (K * V) :=
    match l with
    | [] => [(k, v)]
    | (k', v') :: l => if eqb k k' then (k, v) :: l else (k', v') :: aset k v l
    end.

  (* del d[k] *)
  Fixpoint adel (k : K) (l : list (K * V)) : list (K * V) :=
    match l with
    | [] => []
    | (k', v') :: l => if eqb k k' then adel k l else (k', v') :: adel k l
    end.

  Definition amem (k : K) (l : list (K * V)) : bool :=
    match alookup k l with Some _ => true | None => false end.

  Definition akeys (l : list (K * V)) : list K := map fst l.
  Definition avals (l : list (K * V)) : list V := map snd l.

  Lemma alookup_aset k k' v l :
    alookup k (aset k' v l) = if eqb k k' then Some v else alookup k l.
  Proof.
    induction l as [|[k2 v2] l IH]; cbn [aset alookup].
    - reflexivity.
    - destruct (eqb_reflect k' k2) as [->|N]; cbn [alookup].
      + destruct (eqb k k2); reflexivity.
      + rewrite IH. destruct (eqb_reflect k k') as [->|N2].
        * apply eqb_neq in N. now rewrite N.
        * reflexivity.
  Qed.

  Lemma alookup_adel k k' l :
    alookup k (adel k' l) = if eqb k k' then None else alookup k l.
  Proof.
    induction l as [|[k2 v2] l IH]; cbn [adel alookup].
    - now destruct (eqb k k').
    - destruct (eqb_reflect k' k2) as [->|N]; cbn [alookup].
      + rewrite IH. destruct (eqb k k2); reflexivity.
      + rewrite IH. destruct (eqb_reflect k k') as [->|N2].
        * apply eqb_neq in N. now rewrite N.
        * reflexivity.
  Qed.

  Lemma amem_aset k k' v l : amem k (aset k' v l) = eqb k k' || amem k l.
  Proof. unfold amem. rewrite alookup_aset. now destruct (eqb k k'). Qed.

  Lemma amem_adel k k' l : amem k (adel k' l) = negb (eqb k k') && amem k l.
  Proof. unfold amem. rewrite alookup_adel. now destruct (eqb k k'). Qed.

  Lemma alookup_In k v l : alookup k l = Some v -> In (k, v) l.
  Proof.
    induction l as [|[k' v'] l IH]; cbn [alookup]; [discriminate|].
    destruct (eqb_reflect k k') as [->|N].
    - intros [= ->]. now left.
    - intros Hl. right. auto.
  Qed.

  Lemma alookup_None k l : alookup k l = None <-> ~ In k (akeys l).
  Proof.
    unfold akeys. induction l as [|[k' v'] l IH]; cbn [alookup map fst In].
    - tauto.
    - destruct (eqb_reflect k k') as [->|N].
      + split; [discriminate|]. intros Hn. exfalso. apply Hn. now left.
      + rewrite IH. split; intros Hn.
        * intros [E|Hi]; [congruence|contradiction].
        * intros Hi. apply Hn. now right.
  Qed.

  Lemma amem_In k l : amem k l = true <-> In k (akeys l).
  Proof.
    unfold amem. destruct (alookup k l) eqn:E.
    - split; auto. intros _. destruct (in_dec eq_dec_of k (akeys l)) as [Hi|Hn]; auto.
      apply alookup_None in Hn. congruence.
    - apply alookup_None in E. split; [discriminate|contradiction].
  Qed.

  Lemma In_alookup k v l : NoDup (akeys l) -> In (k, v) l -> alookup k l = Some v.
  Proof.
    unfold akeys. induction l as [|[k' v'] l IH]; cbn [alookup map fst In]; [tauto|].
    intros ND [E|Hi].
    - injection E as -> ->. now rewrite eqb_refl.
    - inversion ND as [|? ? Hn ND']; subst.
      destruct (eqb_reflect k k') as [->|N].
      + exfalso. apply Hn. change k' with (fst (k', v)). now apply in_map.
      + auto.
  Qed.

  Lemma akeys_aset_in k v l : amem k l = true -> akeys (aset k v l) = akeys l.
  Proof.
    unfold amem, akeys.
    induction l as [|[k' v'] l IH]; cbn [alookup aset map fst]; [discriminate|].
    destruct (eqb_reflect k k') as [->|N]; cbn [map fst]; auto.
    intros Hm. now rewrite IH.
  Qed.

  Lemma akeys_aset_notin k v l : amem k l = false -> akeys (aset k v l) = akeys l ++ [k].
  Proof.
    unfold amem, akeys.
    induction l as [|[k' v'] l IH]; cbn [alookup aset map fst app]; auto.
    destruct (eqb_reflect k k') as [->|N]; [discriminate|].
    cbn [map fst]. intros Hm. now rewrite IH.
  Qed.

  Lemma akeys_adel k l : akeys (adel k l) = filter (fun x => negb (eqb k x)) (akeys l).
  Proof.
    unfold akeys. induction l as [|[k' v'] l IH]; cbn [adel map fst filter]; auto.
    destruct (eqb k k'); cbn [negb map fst]; now rewrite IH.
  Qed.

  Lemma NoDup_snoc {A} (x : A) (l : list A) : NoDup l -> ~ In x l -> NoDup (l ++ [x]).
  Proof.
    induction l as [|y l IH]; cbn [app]; intros ND NI.
    - constructor; [tauto|constructor].
    - inversion ND as [|? ? Hn ND']; subst. constructor.
      + rewrite in_app_iff. cbn [In]. intros [Hi|[E|[]]]; [contradiction|].
        subst. apply NI. now left.
      + apply IH; auto. intros Hi; apply NI; now right.
  Qed.

  Lemma NoDup_akeys_aset k v l : NoDup (akeys l) -> NoDup (akeys (aset k v l)).
  Proof.
    intros ND. destruct (amem k l) eqn:M.
    - now rewrite akeys_aset_in.
    - rewrite akeys_aset_notin by assumption.
      apply NoDup_snoc; auto. rewrite <- amem_In. congruence.
  Qed.

  Lemma NoDup_akeys_adel k l : NoDup (akeys l) -> NoDup (akeys (adel k l)).
  Proof. intros ND. rewrite akeys_adel. now apply NoDup_filter. Qed.

  Lemma aset_not_nil k v l : aset k v l <> [].
  Proof. destruct l as [|[k' v'] l]; cbn [aset]; [discriminate|]. destruct (eqb k k'); discriminate. Qed.

  Lemma In_avals v l : NoDup (akeys l) -> (In v (avals l) <-> exists k, alookup k l = Some v).
  Proof.
    intros ND. unfold avals. rewrite in_map_iff. split.
    - intros ([k v'] & E & Hi). cbn [snd] in E. subst v'. exists k. now apply In_alookup.
    - intros (k & Hl). exists (k, v). split; auto. now apply alookup_In.
  Qed.
End Alist.

Arguments alist K V : clear implicits.

(* ---- generic list lemmas ------------------------------------------------ *)
Lemma NoDup_flat_map {A B} (f : A -> list B) (l : list A) :
  NoDup l -> (forall x, In x l -> NoDup (f x)) ->
  (forall x y b, In x l -> In y l -> In b (f x) -> In b (f y) -> x = y) ->
  NoDup (flat_map f l).
Proof.
  induction l as [|a l IH]; cbn [flat_map]; intros ND Hf Hd.
  - constructor.
  - inversion ND as [|? ? Hn ND']; subst.
    assert (IHl : NoDup (flat_map f l)).
    { apply IH; auto.
      - intros x Hx. apply Hf. now right.
      - intros x y b Hx Hy. apply Hd; now right. }
    assert (Hfa : NoDup (f a)) by (apply Hf; now left).
    revert Hfa.
    assert (Hdis : forall b, In b (f a) -> ~ In b (flat_map f l)).
    { intros b Hb Hi. apply in_flat_map in Hi as (y & Hy & Hby).
      assert (a = y) by (apply (Hd a y b); auto; [now left|now right]).
      subst. contradiction. }
    induction (f a) as [|b fa IHfa]; cbn [app]; intros NDfa; auto.
    inversion NDfa as [|? ? Hnb NDfa']; subst. constructor.
    + rewrite in_app_iff. intros [Hi|Hi]; [contradiction|].
      apply (Hdis b); auto. now left.
    + apply IHfa; auto. intros b' Hb'. apply Hdis. now right.
Qed.

Lemma NoDup_map_inj_in {A B} (f : A -> B) (l : list A) :
  NoDup l -> (forall x y, In x l -> In y l -> f x = f y -> x = y) -> NoDup (map f l).
Proof.
  induction l as [|a l IH]; cbn [map]; intros ND Hinj.
  - constructor.
  - inversion ND as [|? ? Hn ND']; subst. constructor.
    + rewrite in_map_iff. intros (y & E & Hy).
      assert (y = a) by (apply Hinj; auto; [now right|now left]).
      subst. contradiction.
    + apply IH; auto. intros x y Hx Hy. apply Hinj; now right.
Qed.
