(* C02 - component lifecycle callbacks fire exactly once per attach/detach.
   The PROPERTY, as a machine over operations and observations only.

   It runs on top of the ownership machine of LC05.v (who sits in which slot,
   which entities carry a deletion mark - needed to know what a process()
   detaches).  From it each operation's ATTACH / DETACH EVENTS are read off;
   the property then says
     - dispatching enabled: the on_add/on_remove calls logged inside the
       operation are exactly (as a multiset) the calls those events owe:
       right instance, right callback, the real owner, this world, once;
     - dispatching disabled: no such call inside the operation; the calls are
       owed, one group per operation, and the next SetEnabled true delivers
       every group, in operation order, nothing else;  clear() may not drop them;
       if a delivered callback raises, the enabling assignment raises, what was
       not delivered stays owed in order and is delivered by the next one;
     - is_handler(i) holds exactly while i sits in a slot, and a probe event
       dispatched while enabled reaches exactly the attached listeners, once.
   Models only: no proofs in this file. *)
From Coq Require Import ZArith List Bool.
From Desper Require Import Lib.Alist World.LLib.
From Desper Require Export World.LModel.
From Desper Require Import World.LC05.
Import ListNotations.
Open Scope Z_scope.

(* ---- attach / detach events of one operation --------------------------------- *)
Inductive ev := EvAtt (i e : Z) | EvDet (i e : Z).

(* the call an event owes (none if the class does not declare the callback) *)
Definition ncall (p : params) (x : ev) : list cb :=
  match x with
  | EvAtt i e => if k_add (kind_of p i) then [call CAdd i e] else []
  | EvDet i e => if k_rem (kind_of p i) then [call CRem i e] else []
  end.

(* entity after entity, everything it owns is detached *)
Fixpoint del_events (t : table) (es : list Z) : list ev :=
  match es with
  | [] => []
  | e :: es => map (fun ti => EvDet (snd ti) e) (trow t e) ++ del_events (adel e t) es
  end.

Definition events (p : params) (s : s5) (o : op) (ob : obs) : list ev :=
  match o with
  | Create eid comps =>
      match (match eid with Some e => Some e | None => o_ret ob end) with
      | Some e => map (fun i => EvAtt i e) comps
      | None => []
      end
  | Add e i =>
      (match tget (att s) e (ty_of p i) with Some old => [EvDet old e] | None => [] end)
      ++ [EvAtt i e]
  | Remove e ty => match tget (att s) e ty with Some old => [EvDet old e] | None => [] end
  | Delete e true => del_events (att s) [e]
  | Process => del_events (att s) (if o_exc ob =? 0 then pend s else o_done ob)
  | Clear => del_events (att s) (akeys (att s))
  | _ => []
  end.

Definition notifs (p : params) (s : s5) (o : op) (ob : obs) : list cb :=
  flat_map (ncall p) (events p s o ob).

(* ---- observations -------------------------------------------------------------- *)
Definition is_lc (c : cb) : bool := match c_k c with CAdd | CRem => true | _ => false end.
Definition is_pr (c : cb) : bool := match c_k c with CProbe => true | _ => false end.

(* instance i sits in a slot (of its own class) of some entity *)
Definition attached_b (p : params) (t : table) (i : Z) : bool :=
  existsb (fun e => oz_eqb (tget t e (ty_of p i)) (Some i)) (akeys t).

Fixpoint znodup_b (l : list Z) : bool :=
  match l with [] => true | x :: l => negb (zmem x l) && znodup_b l end.

Definition qcheck2 (p : params) (s' : s5) (q : qobs) : bool :=
  match q with
  | QIsH i r => Bool.eqb r (k_h (kind_of p i) && attached_b p (att s') i)
  | _ => true
  end.

(* a probe dispatched while enabled: only attached listeners, each exactly once *)
Definition probe_check (p : params) (s : s5) (tok : Z) (log : list cb) : bool :=
  let pl := filter is_pr log in
  forallb (fun c => (c_a c =? tok) && c_w c && k_probe (kind_of p (c_i c))
                    && attached_b p (att s) (c_i c)) pl
  && znodup_b (map c_i pl)
  && forallb (fun i => negb (k_probe (kind_of p i) && attached_b p (att s) i)
                       || zmem i (map c_i pl)) (akeys (p_cls p)).

(* a release interrupted by a raising callback: the calls made, one after the
   other, each taken from the oldest group that still owes something; the
   raising (or disabling) call is the last; what was not called stays owed, in order *)
Fixpoint otake (c : cb) (gs : list (list cb)) : option (list (list cb)) :=
  match gs with
  | [] => None
  | [] :: gs => otake c gs
  | g :: gs => match remove1 cb_eqb c g with Some g' => Some (g' :: gs) | None => None end
  end.
Fixpoint owed_raise (h : Z -> bool) (gs : list (list cb)) (lc : list cb) : option (list (list cb)) :=
  match lc with
  | [] => None
  | c :: lc' =>
      match otake c gs with
      | None => None
      | Some gs' => if h (c_i c) then (if nil_b lc' then Some gs' else None)
                    else owed_raise h gs' lc'
      end
  end.

(* lifecycle calls of the operation against what is owed; returns the new debt *)
Definition lc_check (p : params) (s : s5) (owed : list (list cb)) (o : op) (ob : obs)
  : option (list (list cb)) :=
  let n := notifs p s o ob in
  let lc := filter is_lc (o_log ob) in
  match o with
  | SetEnabled true =>
      let ow := if en s then owed else owed ++ [n] in
      if o_exc ob =? 3 then owed_raise raises ow lc   (* a callback raised: the rest stays owed *)
      else if o_exc ob =? 4 then owed_raise disables ow lc   (* ... or disabled dispatching again *)
      else if match_groups lc ow then Some [] else None
  | Clear =>
      (* clear() leaves dispatching enabled with an empty queue: whatever is owed is due now *)
      if match_groups lc (owed ++ [n]) then Some [] else None
  | _ =>
      if en s then (if cperm_b lc n then Some owed else None)
      else (if nil_b lc then Some (owed ++ [n]) else None)
  end.

Definition step2 (p : params) (sw : s5 * list (list cb)) (o : op) (ob : obs)
  : option (s5 * list (list cb)) :=
  let '(s, owed) := sw in
  match step5 p s o ob with
  | None => None          (* ownership itself is not coherent: no events to speak of *)
  | Some s' =>
      match lc_check p s owed o ob with
      | None => None
      | Some owed' =>
          if forallb (qcheck2 p s') (o_qs ob)
             && match o with
                | Probe tok => negb (en s) || probe_check p s tok (o_log ob)
                | _ => true
                end
          then Some (s', owed') else None
      end
  end.

Fixpoint run2 (p : params) (sw : s5 * list (list cb)) (tr : trace) : option (s5 * list (list cb)) :=
  match tr with
  | [] => Some sw
  | (o, ob) :: tr => match step2 p sw o ob with Some sw' => run2 p sw' tr | None => None end
  end.

Definition holds_b (c : L_case) : bool :=
  match run2 (c_p c) (s5_init, []) (c_tr c) with Some _ => true | None => false end.
Definition holds (c : L_case) : Prop := holds_b c = true.

(* ---- known findings (exactly these call patterns) --------------------------------- *)
Definition is_some {A} (x : option A) : bool := match x with Some _ => true | None => false end.

(* [partial]: the last release was interrupted by a raising callback, so that
   postponed notifications are still waiting although dispatching is enabled *)
Definition known_step (p : params) (s : s5) (partial : bool) (o : op) : bool :=
  match o with
  | Clear => negb (en s) || partial                                  (* K1: clear() while postponed *)
  | Create eid comps =>
      negb (znodup_b (map (ty_of p) comps))                          (* K2: one type twice *)
      || match eid with
         | Some e => existsb (fun i => is_some (tget (att s) e (ty_of p i))) comps   (* K2: occupied slot *)
         | None => false
         end
      || existsb (fun i => attached_b p (att s) i) comps             (* K3: already attached *)
  | Add e i =>                                                       (* K3: attached elsewhere *)
      attached_b p (att s) i && negb (oz_eqb (tget (att s) e (ty_of p i)) (Some i))
  | _ => false
  end.

Definition partial_next (partial : bool) (o : op) (ob : obs) : bool :=
  match o with
  | SetEnabled true => negb (o_exc ob =? 0)
  | Clear => false
  | _ => partial
  end.
Fixpoint known_from (p : params) (s : s5) (partial : bool) (tr : trace) : bool :=
  match tr with
  | [] => false
  | (o, ob) :: tr =>
      known_step p s partial o
      || match step5 p s o ob with
         | Some s' => known_from p s' (partial_next partial o ob) tr
         | None => false
         end
  end.
Definition known_b (c : L_case) : bool := known_from (c_p c) s5_init false (c_tr c).

(* input domain: every instance an operation mentions has a declared class *)
Definition op_insts (o : op) : list Z :=
  match o with Create _ comps => comps | Add _ i => [i] | _ => [] end.
Definition wf_b (c : L_case) : bool :=
  forallb (fun oo => forallb (fun i => amem i (p_cls (c_p c))) (op_insts (fst oo))) (c_tr c).

Definition C02_case := L_case.
Definition C02_verdict (c : C02_case) : nat :=
  (bit (wf_b c) 1 + bit (known_b c) 2 + bit (accepts c) 4 + bit (holds_b c) 8)%nat.
