(* World lifecycle with RE-ENTRANT lifecycle callbacks: the MODEL.

   on_add / on_remove of a class run a script of World operations (data, part
   of the case).  The harness instantiates the scripts as real callbacks that
   log every action before performing it (LAct), its outcome (LRet; an
   exception of a scripted action is caught there), callback entry / exit
   (LCall / LEnd) and processor calls (LProc).

   The acceptor is a log-driven machine with an explicit stack and NO fuel:
   one step per log entry.  A suspended method activation is the list of
   micro-instructions it still has to run (its continuation); a callback in
   progress is the rest of its script.  Between two log entries the machine
   runs the silent micro-instructions of the top continuation (structural
   recursion on that list).

   While dispatching is disabled no callback runs, so an operation is atomic
   and the step of LModel.v is used unchanged; the machine is used while
   enabled and for the release at SetEnabled true.

   Scope: scripts contain create_entity(explicit id) / add_component /
   remove_component / delete_entity; traces contain no Clear / Probe; every
   class declares on_remove (so that the set order of the drain is visible in
   the log); a script runs only below callback depth 3 (harness and model
   apply the same rule, it bounds mutual recursion of scripts).
   Models only: no proofs in this file. *)
From Coq Require Import ZArith List Bool.
From Desper Require Import Lib.Alist World.LLib.
From Desper Require Export World.LModel.
Import ListNotations.
Open Scope Z_scope.

Inductive lent :=
| LAct (a : op)                       (* a script is about to perform a *)
| LRet (r : option Z) (x : Z)         (* it returned r / raised x (1 KeyError, 2 other) *)
| LCall (k : ck) (i e : Z) (w : bool) (* callback k of instance i entered with (e, world-is-this-world) *)
| LEnd                                (* the callback returned *)
| LQ (q : qobs)                       (* inside a callback: a read-only query and its answer *)
| LProc.                              (* the processor ran *)

Record robs := mkrobs {
  ro_ret : option Z; ro_exc : Z; ro_done : list Z; ro_log : list lent; ro_qs : list qobs }.

Definition scripts := list (Z * (list op * list op)).   (* class -> (on_add script, on_remove script) *)
Record LR_case := { r_p : params; r_scr : scripts; r_tr : list (op * robs) }.

Definition script_of (p : params) (sc : scripts) (k : ck) (i : Z) : list op :=
  match alookup (ty_of p i) sc with
  | Some (sa, sr) => match k with CAdd => sa | CRem => sr | _ => [] end
  | None => []
  end.

(* ---- continuations ----------------------------------------------------------- *)
Inductive micro :=
| MAddH (i : Z)                 (* self.add_handler(i) *)
| MRemH (i : Z)                 (* self.remove_handler(i) *)
| MNotify (k : ck) (i e : Z)    (* the replicated block: direct call when enabled, relay when disabled *)
| MSet (e ty i : Z) (d : bool)  (* add_component: if dead: self._dead_entities.add(e);
                                   self._entities.setdefault(e, {})[ty] = i   (nothing runs in between) *)
| MRet (r : option Z) (x : Z)   (* the operation returns r / raises x *)
| MDrain                        (* _clear_dead_entities: while self._dead_entities: pop, delete *)
| MProcs                        (* for processor in self._sorted_processors: processor.process(dt) *)
| MRelease (gs : list (list qent)).  (* the setter's loop over the queued events *)

Inductive frame :=
| FK (ms : list micro)          (* a suspended operation *)
| FCb (rest : list op).         (* a callback running its script *)

Definition has_cb (p : params) (k : ck) (i : Z) : bool :=
  match k with CAdd => k_add (kind_of p i) | CRem => k_rem (kind_of p i) | _ => false end.

(* run the silent micro-instructions; stops in front of the first one that
   needs a log entry *)
Fixpoint run_micro (p : params) (s : st) (ms : list micro) : st * list micro :=
  match ms with
  | [] => (s, [])
  | m :: ms' =>
      match m with
      | MAddH i => run_micro p (add_handler p s i) ms'
      | MRemH i => run_micro p (remove_handler s i) ms'
      | MNotify k i e =>
          if has_cb p k i then
            if enabled s then (s, ms) else run_micro p (relay s k i e) ms'
          else run_micro p s ms'
      | MSet e ty i d =>
          let s := if d then set_dead s (zadd e (dead s)) else s in
          run_micro p (set_ents s (tset (ents s) e ty i)) ms'
      | MRet _ _ => (s, ms)
      | MDrain => if nil_b (dead s) then run_micro p s ms' else (s, ms)
      | MProcs => if procs s then (s, ms) else run_micro p s ms'
      | MRelease _ => (s, ms)       (* whether the queue is exhausted is checked when the setter returns *)
      end
  end.

(* event handling of one detached / attached component *)
Definition rm_micros (p : params) (old e : Z) : list micro :=
  if k_h (kind_of p old) then [MNotify CRem old e; MRemH old] else [].
Definition att_micros (p : params) (i e : Z) : list micro :=
  if k_h (kind_of p i) then [MAddH i; MNotify CAdd i e] else [].
Definition row_micros (p : params) (e : Z) (r : row) : list micro :=
  flat_map (fun ti => rm_micros p (snd ti) e) r.

(* the part of a World method that runs before its first callback, and the
   continuation.  [oret]: the id returned by an automatic create_entity. *)
Definition compile (p : params) (s : st) (a : op) (oret : option Z) : option (st * list micro) :=
  match a with
  | Create eid comps =>
      let oe := match eid with
                | Some e => Some e
                | None => match oret with
                          | Some e => if amem e (ents s) then None else Some e
                          | None => None
                          end
                end in
      match oe with
      | None => None
      | Some e =>
          Some (set_ents s (fold_left (fun t i => tset t e (ty_of p i) i) comps (ents s)),
                flat_map (fun i => att_micros p i e) comps ++ [MRet (Some e) 0])
      end
  | Add e i =>
      let ty := ty_of p i in
      match tget (ents s) e ty with
      | Some old =>
          let d := zmem e (dead s) in
          let t := tdel (ents s) e ty in
          let s := set_ents s t in
          let s := if towns t e then s else set_dead s (zrem e (dead s)) in
          Some (s, rm_micros p old e ++ [MSet e ty i d] ++ att_micros p i e ++ [MRet None 0])
      | None => Some (s, [MSet e ty i false] ++ att_micros p i e ++ [MRet None 0])
      end
  | Remove e ty =>
      match tget (ents s) e ty with
      | Some old =>
          let t := tdel (ents s) e ty in
          let s := set_ents s t in
          let s := if towns t e then s else set_dead s (zrem e (dead s)) in
          Some (s, rm_micros p old e ++ [MRet (Some old) 0])
      | None => Some (s, [MRet None 0])
      end
  | Delete e true =>
      match alookup e (ents s) with
      | None => Some (s, [MRet None 1])                 (* KeyError from pop *)
      | Some r =>
          let s := set_dead (set_ents s (adel e (ents s))) (zrem e (dead s)) in
          Some (s, row_micros p e r ++ [MRet None 0])
      end
  | Delete e false => Some (set_dead s (zadd e (dead s)), [MRet None 0])
  | Process => Some (s, [MDrain; MProcs; MRet None 0])
  | SetEnabled true =>
      Some (set_queue (set_enabled s true) [], [MRelease (queue s); MRet None 0])
  | SetEnabled false => Some (set_enabled s false, [MRet None 0])
  | AddProc => Some (set_procs s true, [MRet None 0])
  | Clear | Probe _ => None
  end.

(* ---- one log entry --------------------------------------------------------------- *)
Fixpoint zl_eqb (a b : list Z) : bool :=
  match a, b with
  | [], [] => true
  | x :: a, y :: b => (x =? y) && zl_eqb a b
  | _, _ => false
  end.
Definition op_eqb (a b : op) : bool :=
  match a, b with
  | Create ea ca, Create eb cb => oz_eqb ea eb && zl_eqb ca cb
  | Add e i, Add e' i' => (e =? e') && (i =? i')
  | Remove e t, Remove e' t' => (e =? e') && (t =? t')
  | Delete e m, Delete e' m' => (e =? e') && Bool.eqb m m'
  | _, _ => false
  end.
(* what a script may do *)
Definition script_ok (a : op) : bool :=
  match a with
  | Create (Some _) _ | Add _ _ | Remove _ _ | Delete _ _ => true
  | _ => false
  end.

Definition qmatch (k : ck) (i e : Z) (x : qent) : bool :=
  match x with QRelay k' i' e' => ck_eqb k k' && (i =? i') && (e =? e') | QProbeE _ => false end.
Fixpoint take1 (k : ck) (i e : Z) (g : list qent) : option (list qent) :=
  match g with
  | [] => None
  | x :: g => if qmatch k i e x then Some g
              else match take1 k i e g with Some g' => Some (x :: g') | None => None end
  end.
(* the next delivered relay belongs to the oldest operation that still has one *)
Fixpoint take_relay (k : ck) (i e : Z) (gs : list (list qent)) : option (list (list qent)) :=
  match gs with
  | [] => None
  | [] :: gs => take_relay k i e gs
  | g :: gs => match take1 k i e g with Some g' => Some (g' :: gs) | None => None end
  end.

Definition depth (stk : list frame) : nat :=
  length (filter (fun f => match f with FCb _ => true | _ => false end) stk).
(* a script runs only below callback depth 3 and among the first 40 callbacks
   of an operation (the doubles apply the same rule; it bounds scripts that
   keep re-creating and re-marking what is being deleted) *)
Definition enter (p : params) (sc : scripts) (n : nat) (stk : list frame) (k : ck) (i : Z) : frame :=
  FCb (if Nat.ltb (depth stk) 3 && Nat.ltb n 40 then script_of p sc k i else []).

Definition config := (st * list frame)%type.

Definition lstep (p : params) (sc : scripts) (n : nat) (c : config) (x : lent) : option config :=
  let '(s, stk) := c in
  match x, stk with
  | LCall k i e w, FK (MNotify k' i' e' :: ms) :: stk' =>
      if ck_eqb k k' && (i =? i') && (e =? e') && w
      then Some (s, enter p sc n stk k i :: FK ms :: stk') else None
  | LCall k i e w, FK (MDrain :: ms) :: stk' =>
      (* self._dead_entities.pop() gave e: delete_entity(e, immediate=True) *)
      match alookup e (ents s) with
      | None => None
      | Some r =>
          if ck_eqb k CRem && w && zmem e (dead s) then
            let s1 := set_dead (set_ents s (adel e (ents s))) (zrem e (dead s)) in
            match run_micro p s1 (row_micros p e r ++ MDrain :: ms) with
            | (s2, MNotify CRem i' e' :: ms2) =>
                if (i =? i') && (e =? e')
                then Some (s2, enter p sc n stk k i :: FK ms2 :: stk') else None
            | _ => None
            end
          else None
      end
  | LCall k i e w, FK (MRelease gs :: ms) :: stk' =>
      match take_relay k i e gs with
      | Some gs' => if w then Some (s, enter p sc n stk k i :: FK (MRelease gs' :: ms) :: stk') else None
      | None => None
      end
  | LEnd, FCb [] :: FK ms :: stk' =>
      let '(s', ms') := run_micro p s ms in Some (s', FK ms' :: stk')
  | LAct a, FCb (a' :: rest) :: stk' =>
      if op_eqb a a' && script_ok a then
        match compile p s a None with
        | Some (s1, ms) => let '(s2, ms2) := run_micro p s1 ms in Some (s2, FK ms2 :: FCb rest :: stk')
        | None => None
        end
      else None
  | LRet r x, FK [MRet r' x'] :: stk' =>
      if oz_eqb r r' && (x =? x') then Some (s, stk') else None
  | LProc, FK (MProcs :: ms) :: stk' =>
      let '(s', ms') := run_micro p s ms in Some (s', FK ms' :: stk')
  | LQ q, FCb rest :: stk' =>
      (* queries never raise and change nothing; the answer is that of the state reached so far *)
      if qcheck s q then Some (s, stk) else None
  | _, _ => None
  end.

(* n = callbacks entered so far in this operation *)
Fixpoint lrun (p : params) (sc : scripts) (n : nat) (c : config) (log : list lent) : option config :=
  match log with
  | [] => Some c
  | x :: log =>
      match lstep p sc n c x with
      | Some c' => lrun p sc (match x with LCall _ _ _ _ => S n | _ => n end) c' log
      | None => None
      end
  end.

(* a top-level operation through the machine *)
Definition mstep (p : params) (sc : scripts) (s : st) (o : op) (ob : robs) : option st :=
  match compile p s o (ro_ret ob) with
  | None => None
  | Some (s1, ms) =>
      let '(s2, ms2) := run_micro p s1 ms in
      match lrun p sc 0%nat (s2, [FK ms2]) (ro_log ob) with
      | Some (s3, [FK [MRet r x]]) =>
          if oz_eqb (ro_ret ob) r && (ro_exc ob =? x) then Some s3 else None
      | Some (s3, [FK [MRelease gs; MRet r x]]) =>
          (* the setter's loop ends when the queue is empty *)
          if forallb nil_b gs && oz_eqb (ro_ret ob) r && (ro_exc ob =? x) then Some s3 else None
      | Some (s3, [FK (MDrain :: _)]) =>
          (* the next pop has no row: KeyError leaves process() *)
          match ro_ret ob with
          | Some f => if zmem f (dead s3) && negb (amem f (ents s3)) && (ro_exc ob =? 1)
                      then Some (set_dead s3 (zrem f (dead s3))) else None
          | None => None
          end
      | _ => None
      end
  end.

(* while disabled nothing calls back: the atomic step of LModel *)
Definition to_cb (x : lent) : cb :=
  match x with LProc => call CProc 0 0 | _ => mkcb CProbe 0 0 false end.
Definition to_obs (ob : robs) : obs :=
  mkobs (ro_ret ob) (ro_exc ob) (ro_done ob) (map to_cb (ro_log ob)) (ro_qs ob).

Definition use_machine (s : st) (o : op) : bool :=
  enabled s || match o with SetEnabled true => true | _ => false end.

Definition rstep (p : params) (sc : scripts) (s : st) (o : op) (ob : robs) : option st :=
  if use_machine s o then
    match mstep p sc s o ob with
    | Some s' => if forallb (qcheck s') (ro_qs ob) then Some s' else None
    | None => None
    end
  else step p s o (to_obs ob).

Fixpoint rrun (p : params) (sc : scripts) (s : st) (tr : list (op * robs)) : option st :=
  match tr with
  | [] => Some s
  | (o, ob) :: tr => match rstep p sc s o ob with Some s' => rrun p sc s' tr | None => None end
  end.

Definition raccepts (c : LR_case) : bool :=
  match rrun (r_p c) (r_scr c) init (r_tr c) with Some _ => true | None => false end.
