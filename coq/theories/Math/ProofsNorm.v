(* C18 - normalize, from_magnitude, limit: the operations with a square root
   and a data-dependent branch.  All statements are for all reals. *)
From Coq Require Import Reals List Lia Lra Bool Psatz.
From Desper Require Import Math.Sig Math.Spec Math.RInst Math.RLemmas Math.MathGen.
Import ListNotations.
Local Open Scope R_scope.

(* name the innermost square root of the goal: d := sqrt s, d * d = s, 0 <= d *)
Ltac name_root d Hd :=
  match goal with
  | |- context [sqrt ?s] =>
      lazymatch s with context [sqrt _] => fail | _ => idtac end;
      let Hs := fresh "Hs" in
      let Hp := fresh "Hp" in
      assert (Hs : 0 <= s) by nra;
      pose proof (sqrt_sqrt s Hs) as Hd;
      pose proof (sqrt_positivity s Hs) as Hp;
      set (d := sqrt s) in *
  end.
(* every other root of an equal polynomial is the same number *)
Ltac same_roots d :=
  repeat match goal with
         | |- context [sqrt ?e] =>
             lazymatch e with context [sqrt _] => fail | _ => idtac end;
             let b := eval cbv delta [d] in d in
             match b with sqrt ?s0 => replace e with s0 by ring end;
             fold d
         end.
(* prove X = E by going through an expression in s, where Hd : d * d = s *)
Ltac via Hd mk :=
  match type of Hd with
  | ?d * ?d = ?s =>
      let t := mk s d in
      transitivity t; first [ field; assumption | rewrite <- Hd; field; assumption ]
  end.

Section R.
Variable at2 : R -> R -> R.
Let RO : ops R := Rops at2.
Local Existing Instance RO.


(* ---- Vec2 ---- *)
Lemma nz2 : forall a0 a1 : R, (a0, a1) <> (0, 0) -> 0 < a0 * a0 + a1 * a1.
Proof.
  intros a0 a1 H.
  assert (X : ~ (a0 = 0 /\ a1 = 0)).
  { intros [E0 E1]. apply H. subst. reflexivity. }
  assert (Y : a0 <> 0 \/ a1 <> 0) by (destruct (Req_dec a0 0); destruct (Req_dec a1 0); try tauto; lra).
  nra.
Qed.

(* |normalize v| = 1 for v <> 0 *)
Lemma Vec2_normalize_unit : forall a : V2 R, a <> (0, 0) -> norm 2 (v2 (Vec2_normalize a)) = 1.
Proof.
  intros [a0 a1] Ha. pose proof (nz2 _ _ Ha) as Hpos. gsimp.
  name_root d Hd. bcases.
  - exfalso. nra.
  - apply sqrt_eq_of_sq; [lra|].
    via Hd ltac:(fun s d => constr:(s / (d * d))).
Qed.

(* zero stays zero *)
Lemma Vec2_normalize_zero : Vec2_normalize (0, 0) = (0, 0).
Proof.
  gsimp. bcases; tuple_eq; try reflexivity.
  all: exfalso; match goal with H : sqrt ?s <> 0 |- _ => apply H; replace s with 0 by ring; apply sqrt_0 end.
Qed.

(* normalize v = v / |v|: a positive multiple of v *)
Lemma Vec2_normalize_dir : forall a : V2 R, a <> (0, 0) ->
  0 < norm 2 (v2 a) /\
  forall i, (i < 2)%nat -> v2 (Vec2_normalize a) i = v2 a i / norm 2 (v2 a).
Proof.
  intros [a0 a1] Ha. pose proof (nz2 _ _ Ha) as Hpos. split.
  - gsimp. apply sqrt_lt_R0. lra.
  - intros i Hi. lt2 i; gsimp; name_root d Hd; same_roots d; bcases; solve [ exfalso; nra | reflexivity | field; assumption ].
Qed.

Lemma Vec2_normalize_positive_multiple : forall a : V2 R, a <> (0, 0) ->
  exists k : R, 0 < k /\ forall i, (i < 2)%nat -> v2 (Vec2_normalize a) i = k * v2 a i.
Proof.
  intros a Ha. destruct (Vec2_normalize_dir a Ha) as [Hn Hd].
  exists (/ norm 2 (v2 a)). split; [apply Rinv_0_lt_compat; exact Hn|].
  intros i Hi. rewrite (Hd i Hi). unfold Rdiv. ring.
Qed.

(* |from_magnitude v m| = |m| for v <> 0, and the direction is that of v *)
Lemma Vec2_from_magnitude_norm : forall (a : V2 R) (m : R), a <> (0, 0) ->
  norm 2 (v2 (Vec2_from_magnitude a m)) = Rabs m.
Proof.
  intros [a0 a1] m Ha. pose proof (nz2 _ _ Ha) as Hpos. gsimp.
  name_root d Hd. bcases.
  - exfalso. nra.
  - rewrite <- sqrt_sq_abs. f_equal.
    via Hd ltac:(fun s d => constr:(m * m * (s / (d * d)))).
Qed.

Lemma Vec2_from_magnitude_dir : forall (a : V2 R) (m : R) i, a <> (0, 0) -> (i < 2)%nat ->
  v2 (Vec2_from_magnitude a m) i = m / norm 2 (v2 a) * v2 a i.
Proof.
  intros [a0 a1] m i Ha Hi. pose proof (nz2 _ _ Ha) as Hpos.
  lt2 i; gsimp; name_root d Hd; same_roots d; bcases; solve [ exfalso; nra | field; assumption ].
Qed.

(* limit(m), m >= 0: never longer than m ...
   (the proof does not depend on whether the code tests > or >=: on the
   boundary both branches return the same vector) *)
Lemma Vec2_limit_le : forall (a : V2 R) (m : R), 0 <= m ->
  norm 2 (v2 (Vec2_limit a m)) <= m.
Proof.
  intros [a0 a1] m Hm. gsimp. name_root d Hd. bcases.
  all: match goal with
       | H : ?x <> 0 |- _ =>
           right; apply sqrt_eq_of_sq; [assumption|];
           via Hd ltac:(fun s d => constr:(m * m * (s / (d * d))))
       | H : ?x = 0 |- _ =>
           first [ exfalso; nra
                 | assert (m = 0) by nra; subst m; right; apply sqrt_eq_of_sq; [lra | ring] ]
       | _ => apply Rle_trans with (sqrt (m * m));
              [apply sqrt_le_1_alt; nra | rewrite sqrt_square; lra]
       end.
Qed.

(* ... and short enough vectors are returned unchanged *)
Lemma Vec2_limit_short : forall (a : V2 R) (m : R), 0 <= m ->
  norm 2 (v2 a) <= m -> Vec2_limit a m = a.
Proof.
  intros [a0 a1] m Hm Hle. gsimp in Hle.
  assert (Hsq : a0 * a0 + a1 * a1 <= m * m).
  { match type of Hle with sqrt ?e <= _ =>
      assert (He : 0 <= e) by nra;
      pose proof (sqrt_sqrt e He); pose proof (sqrt_positivity e He);
      set (q := sqrt e) in *; assert (e <= m * m) by nra; nra end. }
  gsimp. name_root d Hd. bcases; tuple_eq.
  all: first [ reflexivity
             | exfalso; nra
             | match type of Hd with ?dd * _ = _ =>
                 assert (Hdm : dd = m) by nra; rewrite <- Hdm; field; assumption end
             | assert (Hz0 : a0 = 0) by nra; assert (Hz1 : a1 = 0) by nra;
               try rewrite Hz0; try rewrite Hz1; ring ].
Qed.

(* ---- Vec3 ---- *)
Lemma nz3 : forall a0 a1 a2 : R, (a0, a1, a2) <> (0, 0, 0) -> 0 < a0 * a0 + a1 * a1 + a2 * a2.
Proof.
  intros a0 a1 a2 H.
  assert (X : ~ (a0 = 0 /\ a1 = 0 /\ a2 = 0)).
  { intros [E0 [E1 E2]]. apply H. subst. reflexivity. }
  assert (Y : a0 <> 0 \/ a1 <> 0 \/ a2 <> 0) by (destruct (Req_dec a0 0); destruct (Req_dec a1 0); destruct (Req_dec a2 0); try tauto; lra).
  nra.
Qed.

(* |normalize v| = 1 for v <> 0 *)
Lemma Vec3_normalize_unit : forall a : V3 R, a <> (0, 0, 0) -> norm 3 (v3 (Vec3_normalize a)) = 1.
Proof.
  intros [[a0 a1] a2] Ha. pose proof (nz3 _ _ _ Ha) as Hpos. gsimp.
  name_root d Hd. bcases.
  - exfalso. nra.
  - apply sqrt_eq_of_sq; [lra|].
    via Hd ltac:(fun s d => constr:(s / (d * d))).
Qed.

(* zero stays zero *)
Lemma Vec3_normalize_zero : Vec3_normalize (0, 0, 0) = (0, 0, 0).
Proof.
  gsimp. bcases; tuple_eq; try reflexivity.
  all: exfalso; match goal with H : sqrt ?s <> 0 |- _ => apply H; replace s with 0 by ring; apply sqrt_0 end.
Qed.

(* normalize v = v / |v|: a positive multiple of v *)
Lemma Vec3_normalize_dir : forall a : V3 R, a <> (0, 0, 0) ->
  0 < norm 3 (v3 a) /\
  forall i, (i < 3)%nat -> v3 (Vec3_normalize a) i = v3 a i / norm 3 (v3 a).
Proof.
  intros [[a0 a1] a2] Ha. pose proof (nz3 _ _ _ Ha) as Hpos. split.
  - gsimp. apply sqrt_lt_R0. lra.
  - intros i Hi. lt3 i; gsimp; name_root d Hd; same_roots d; bcases; solve [ exfalso; nra | reflexivity | field; assumption ].
Qed.

Lemma Vec3_normalize_positive_multiple : forall a : V3 R, a <> (0, 0, 0) ->
  exists k : R, 0 < k /\ forall i, (i < 3)%nat -> v3 (Vec3_normalize a) i = k * v3 a i.
Proof.
  intros a Ha. destruct (Vec3_normalize_dir a Ha) as [Hn Hd].
  exists (/ norm 3 (v3 a)). split; [apply Rinv_0_lt_compat; exact Hn|].
  intros i Hi. rewrite (Hd i Hi). unfold Rdiv. ring.
Qed.

(* |from_magnitude v m| = |m| for v <> 0, and the direction is that of v *)
Lemma Vec3_from_magnitude_norm : forall (a : V3 R) (m : R), a <> (0, 0, 0) ->
  norm 3 (v3 (Vec3_from_magnitude a m)) = Rabs m.
Proof.
  intros [[a0 a1] a2] m Ha. pose proof (nz3 _ _ _ Ha) as Hpos. gsimp.
  name_root d Hd. bcases.
  - exfalso. nra.
  - rewrite <- sqrt_sq_abs. f_equal.
    via Hd ltac:(fun s d => constr:(m * m * (s / (d * d)))).
Qed.

Lemma Vec3_from_magnitude_dir : forall (a : V3 R) (m : R) i, a <> (0, 0, 0) -> (i < 3)%nat ->
  v3 (Vec3_from_magnitude a m) i = m / norm 3 (v3 a) * v3 a i.
Proof.
  intros [[a0 a1] a2] m i Ha Hi. pose proof (nz3 _ _ _ Ha) as Hpos.
  lt3 i; gsimp; name_root d Hd; same_roots d; bcases; solve [ exfalso; nra | field; assumption ].
Qed.

(* limit(m), m >= 0: never longer than m ...
   (the proof does not depend on whether the code tests > or >=: on the
   boundary both branches return the same vector) *)
Lemma Vec3_limit_le : forall (a : V3 R) (m : R), 0 <= m ->
  norm 3 (v3 (Vec3_limit a m)) <= m.
Proof.
  intros [[a0 a1] a2] m Hm. gsimp. name_root d Hd. bcases.
  all: match goal with
       | H : ?x <> 0 |- _ =>
           right; apply sqrt_eq_of_sq; [assumption|];
           via Hd ltac:(fun s d => constr:(m * m * (s / (d * d))))
       | H : ?x = 0 |- _ =>
           first [ exfalso; nra
                 | assert (m = 0) by nra; subst m; right; apply sqrt_eq_of_sq; [lra | ring] ]
       | _ => apply Rle_trans with (sqrt (m * m));
              [apply sqrt_le_1_alt; nra | rewrite sqrt_square; lra]
       end.
Qed.

(* ... and short enough vectors are returned unchanged *)
Lemma Vec3_limit_short : forall (a : V3 R) (m : R), 0 <= m ->
  norm 3 (v3 a) <= m -> Vec3_limit a m = a.
Proof.
  intros [[a0 a1] a2] m Hm Hle. gsimp in Hle.
  assert (Hsq : a0 * a0 + a1 * a1 + a2 * a2 <= m * m).
  { match type of Hle with sqrt ?e <= _ =>
      assert (He : 0 <= e) by nra;
      pose proof (sqrt_sqrt e He); pose proof (sqrt_positivity e He);
      set (q := sqrt e) in *; assert (e <= m * m) by nra; nra end. }
  gsimp. name_root d Hd. bcases; tuple_eq.
  all: first [ reflexivity
             | exfalso; nra
             | match type of Hd with ?dd * _ = _ =>
                 assert (Hdm : dd = m) by nra; rewrite <- Hdm; field; assumption end
             | assert (Hz0 : a0 = 0) by nra; assert (Hz1 : a1 = 0) by nra; assert (Hz2 : a2 = 0) by nra;
               try rewrite Hz0; try rewrite Hz1; try rewrite Hz2; ring ].
Qed.

(* ---- Vec4 ---- *)
Lemma nz4 : forall a0 a1 a2 a3 : R, (a0, a1, a2, a3) <> (0, 0, 0, 0) -> 0 < a0 * a0 + a1 * a1 + a2 * a2 + a3 * a3.
Proof.
  intros a0 a1 a2 a3 H.
  assert (X : ~ (a0 = 0 /\ a1 = 0 /\ a2 = 0 /\ a3 = 0)).
  { intros [E0 [E1 [E2 E3]]]. apply H. subst. reflexivity. }
  assert (Y : a0 <> 0 \/ a1 <> 0 \/ a2 <> 0 \/ a3 <> 0) by (destruct (Req_dec a0 0); destruct (Req_dec a1 0); destruct (Req_dec a2 0); destruct (Req_dec a3 0); try tauto; lra).
  nra.
Qed.

(* |normalize v| = 1 for v <> 0 *)
Lemma Vec4_normalize_unit : forall a : V4 R, a <> (0, 0, 0, 0) -> norm 4 (v4 (Vec4_normalize a)) = 1.
Proof.
  intros [[[a0 a1] a2] a3] Ha. pose proof (nz4 _ _ _ _ Ha) as Hpos. gsimp.
  name_root d Hd. bcases.
  - exfalso. nra.
  - apply sqrt_eq_of_sq; [lra|].
    via Hd ltac:(fun s d => constr:(s / (d * d))).
Qed.

(* zero stays zero *)
Lemma Vec4_normalize_zero : Vec4_normalize (0, 0, 0, 0) = (0, 0, 0, 0).
Proof.
  gsimp. bcases; tuple_eq; try reflexivity.
  all: exfalso; match goal with H : sqrt ?s <> 0 |- _ => apply H; replace s with 0 by ring; apply sqrt_0 end.
Qed.

(* normalize v = v / |v|: a positive multiple of v *)
Lemma Vec4_normalize_dir : forall a : V4 R, a <> (0, 0, 0, 0) ->
  0 < norm 4 (v4 a) /\
  forall i, (i < 4)%nat -> v4 (Vec4_normalize a) i = v4 a i / norm 4 (v4 a).
Proof.
  intros [[[a0 a1] a2] a3] Ha. pose proof (nz4 _ _ _ _ Ha) as Hpos. split.
  - gsimp. apply sqrt_lt_R0. lra.
  - intros i Hi. lt4 i; gsimp; name_root d Hd; same_roots d; bcases; solve [ exfalso; nra | reflexivity | field; assumption ].
Qed.

Lemma Vec4_normalize_positive_multiple : forall a : V4 R, a <> (0, 0, 0, 0) ->
  exists k : R, 0 < k /\ forall i, (i < 4)%nat -> v4 (Vec4_normalize a) i = k * v4 a i.
Proof.
  intros a Ha. destruct (Vec4_normalize_dir a Ha) as [Hn Hd].
  exists (/ norm 4 (v4 a)). split; [apply Rinv_0_lt_compat; exact Hn|].
  intros i Hi. rewrite (Hd i Hi). unfold Rdiv. ring.
Qed.

End R.
