(* C18 - swizzling: v.yx, v.xyz, ...  Hand-written model of
   Vec2/Vec3/Vec4.__getattr__ (desper/math.py) and of the x/y/z/w properties
   that take precedence over it, with the theorem that says what it computes.

   The model is tied to the real classes by an EXHAUSTIVE comparison, done
   inside Coq ([swizzle_check], evaluated by vm_compute on what the classes
   returned): every string of length <= 5 over the component letters of the
   class plus one foreign character. *)
From Coq Require Import List String Ascii Bool Arith Lia NArith.
Import ListNotations.

Section Model.
Variable A : Type.

Fixpoint index_of (c : ascii) (letters : list ascii) : option nat :=
  match letters with
  | [] => None
  | l :: r => if Ascii.eqb c l then Some 0
              else match index_of c r with Some k => Some (S k) | None => None end
  end.

Fixpoint mapM {X Y : Type} (f : X -> option Y) (l : list X) : option (list Y) :=
  match l with
  | [] => Some []
  | x :: r => match f x, mapM f r with
              | Some y, Some ys => Some (y :: ys)
              | _, _ => None
              end
  end.

(* self['xyz'.index(c)] *)
Definition component (letters : list ascii) (v : list A) (c : ascii) : option A :=
  match index_of c letters with
  | Some k => nth_error v k
  | None => None                      (* ValueError *)
  end.

(* __getattr__: the class {2: Vec2, 3: Vec3, 4: Vec4}.get(len(attrs)) applied
   to the components named by the letters of attrs; any exception becomes
   AttributeError (None).  The class of the result is Vec<length>. *)
Definition swizzle (letters : list ascii) (s : list ascii) (v : list A) : option (list A) :=
  if (2 <=? List.length s) && (List.length s <=? 4) then mapM (component letters v) s else None.

(* attribute access with the properties in front *)
Inductive result := Number (a : A) | Vector (l : list A).
Definition getattr (letters : list ascii) (s : list ascii) (v : list A) : option result :=
  match s with
  | [c] => match component letters v c with
           | Some a => Some (Number a)           (* property x / y / z / w *)
           | None => None
           end
  | _ => match swizzle letters s v with
         | Some l => Some (Vector l)
         | None => None
         end
  end.
End Model.

Arguments swizzle {A}. Arguments component {A}. Arguments getattr {A}.
Arguments Number {A}. Arguments Vector {A}.

(* ---- what it computes -------------------------------------------------- *)
Lemma index_of_Some : forall c letters k,
  index_of c letters = Some k -> nth_error letters k = Some c.
Proof.
  intros c letters. induction letters as [|l r IH]; intros k H; [discriminate|].
  cbn in H. destruct (Ascii.eqb c l) eqn:E.
  - injection H as <-. apply Ascii.eqb_eq in E. subst. reflexivity.
  - destruct (index_of c r) as [k'|] eqn:E'; [|discriminate].
    injection H as <-. cbn. apply IH. reflexivity.
Qed.

Lemma index_of_None : forall c letters, index_of c letters = None <-> ~ In c letters.
Proof.
  intros c letters. induction letters as [|l r IH]; cbn.
  - split; [intros _ []|reflexivity].
  - destruct (Ascii.eqb c l) eqn:E.
    + apply Ascii.eqb_eq in E. subst. split; [discriminate|]. intros H. exfalso. apply H. left. reflexivity.
    + apply Ascii.eqb_neq in E. destruct (index_of c r) as [k|].
      * split; [discriminate|]. intros H. exfalso. apply H. right.
        destruct (in_dec ascii_dec c r) as [i|n]; [exact i|]. exfalso.
        destruct IH as [_ IH2]. specialize (IH2 n). discriminate.
      * split; [|reflexivity]. intros _ [H|H]; [congruence|]. destruct IH as [IH1 _]. exact (IH1 eq_refl H).
Qed.

Lemma index_of_lt : forall c letters k, index_of c letters = Some k -> k < List.length letters.
Proof.
  intros c letters k H. apply index_of_Some in H. apply nth_error_Some. congruence.
Qed.

Lemma mapM_Some : forall (X Y : Type) (f : X -> option Y) l out,
  mapM f l = Some out ->
  List.length out = List.length l /\ forall i x, nth_error l i = Some x -> f x = nth_error out i.
Proof.
  intros X Y f l. induction l as [|x r IH]; intros out H.
  - injection H as <-. split; [reflexivity|]. intros [|i] y Hy; discriminate.
  - cbn in H. destruct (f x) as [y|] eqn:Ey; [|discriminate].
    destruct (mapM f r) as [ys|] eqn:Er; [|discriminate]. injection H as <-.
    destruct (IH ys eq_refl) as [IH1 IH2]. split; [cbn; congruence|].
    intros [|i] z Hz; cbn in *.
    + injection Hz as <-. exact Ey.
    + apply IH2. exact Hz.
Qed.

Lemma mapM_None : forall (X Y : Type) (f : X -> option Y) l,
  mapM f l = None <-> exists x, In x l /\ f x = None.
Proof.
  intros X Y f l. induction l as [|x r IH]; cbn.
  - split; [discriminate|]. intros [x [[] _]].
  - destruct (f x) as [y|] eqn:Ey.
    + destruct (mapM f r) as [ys|].
      * split; [discriminate|]. intros [z [[Hz|Hz] Hf]]; [congruence|].
        destruct IH as [_ IH2]. specialize (IH2 (ex_intro _ z (conj Hz Hf))). discriminate.
      * split; [|reflexivity]. intros _. destruct IH as [IH1 _].
        destruct (IH1 eq_refl) as [z [Hz Hf]]. exists z. split; [right; exact Hz|exact Hf].
    + split; [|reflexivity]. intros _. exists x. split; [left; reflexivity|exact Ey].
Qed.

(* entry i of v.s is the component of v named s[i]; the result has as many
   entries as s has letters (and is a Vec<List.length s>) *)
Theorem swizzle_spec : forall (A : Type) (letters s : list ascii) (v out : list A),
  swizzle letters s v = Some out ->
  List.length out = List.length s /\ 2 <= List.length s <= 4 /\
  forall i c, nth_error s i = Some c ->
    exists k, nth_error letters k = Some c /\ nth_error out i = nth_error v k
              /\ nth_error out i <> None.
Proof.
  intros A letters s v out H. unfold swizzle in H.
  destruct ((2 <=? List.length s) && (List.length s <=? 4)) eqn:E; [|discriminate].
  apply andb_true_iff in E. destruct E as [E1 E2].
  apply Nat.leb_le in E1. apply Nat.leb_le in E2.
  destruct (mapM_Some _ _ _ _ _ H) as [Hlen Hent].
  split; [exact Hlen|]. split; [lia|].
  intros i c Hc. specialize (Hent i c Hc). unfold component in Hent.
  destruct (index_of c letters) as [k|] eqn:Ek.
  - exists k. split; [apply index_of_Some; exact Ek|]. split; [congruence|].
    assert (i < List.length out) as Hi by (rewrite Hlen; apply nth_error_Some; congruence).
    apply nth_error_Some. exact Hi.
  - exfalso. assert (i < List.length out) as Hi by (rewrite Hlen; apply nth_error_Some; congruence).
    apply nth_error_Some in Hi. congruence.
Qed.

(* AttributeError iff the length is not 2, 3 or 4, or a letter is foreign
   (for a vector that has a component for every letter of its class) *)
Theorem swizzle_error : forall (A : Type) (letters s : list ascii) (v : list A),
  List.length letters <= List.length v ->
  (swizzle letters s v = None <->
   (~ (2 <= List.length s <= 4) \/ exists c, In c s /\ ~ In c letters)).
Proof.
  intros A letters s v Hv. unfold swizzle.
  destruct ((2 <=? List.length s) && (List.length s <=? 4)) eqn:E.
  - apply andb_true_iff in E. destruct E as [E1 E2].
    apply Nat.leb_le in E1. apply Nat.leb_le in E2.
    rewrite mapM_None. split.
    + intros [c [Hc Hf]]. right. exists c. split; [exact Hc|].
      unfold component in Hf. destruct (index_of c letters) as [k|] eqn:Ek.
      * exfalso. apply index_of_lt in Ek. apply nth_error_None in Hf. lia.
      * apply index_of_None. exact Ek.
    + intros [Hl|[c [Hc Hn]]]; [exfalso; apply Hl; lia|].
      exists c. split; [exact Hc|]. unfold component.
      apply index_of_None in Hn. rewrite Hn. reflexivity.
  - split; [|reflexivity]. intros _. left. intros [H1 H2].
    apply andb_false_iff in E. destruct E as [E|E]; apply Nat.leb_gt in E; lia.
Qed.

(* the properties: v.x, v.y, ... are the components *)
Theorem getattr_single : forall (A : Type) (letters : list ascii) (c : ascii) (v : list A) k,
  index_of c letters = Some k -> k < List.length v ->
  exists a, nth_error v k = Some a /\ getattr letters [c] v = Some (Number a).
Proof.
  intros A letters c v k Hk Hlt. destruct (nth_error v k) as [a|] eqn:E.
  - exists a. split; [reflexivity|]. unfold getattr, component. rewrite Hk, E. reflexivity.
  - apply nth_error_None in E. lia.
Qed.

(* ---- exhaustive comparison with the classes ----------------------------- *)
Fixpoint strings_of_len (alpha : list ascii) (n : nat) : list (list ascii) :=
  match n with
  | 0 => [[]]
  | S m => flat_map (fun c => map (cons c) (strings_of_len alpha m)) alpha
  end.
(* all strings of length <= n, shortest first, first letter slowest
   (itertools.product order) *)
Definition all_strings (alpha : list ascii) (n : nat) : list (list ascii) :=
  flat_map (strings_of_len alpha) (seq 0 (S n)).

(* an observation as a number, read in decimal: 0 = AttributeError; "2d" =
   a number, namely component d - 1; "1d..d" = a vector of the class
   Vec<number of d's> whose entries are the components d - 1 *)
Fixpoint digits (l : list nat) (acc : N) : N :=
  match l with
  | [] => acc
  | k :: r => digits r (acc * 10 + N.of_nat (S k))%N
  end.
Definition code (r : option (result nat)) : N :=
  match r with
  | None => 0%N
  | Some (Number k) => digits [k] 2%N
  | Some (Vector l) => digits l 1%N
  end.

Definition list_of_string (s : string) : list ascii := list_ascii_of_string s.

(* the vector whose k-th component is the number k *)
Definition probe (n : nat) : list nat := seq 0 n.

Definition model_codes (letters : string) (foreign : ascii) : list N :=
  let ls := list_of_string letters in
  map (fun s => code (getattr ls s (probe (List.length ls)))) (all_strings (ls ++ [foreign]) 5).

Fixpoint eqN (a b : list N) : bool :=
  match a, b with
  | [], [] => true
  | x :: a', y :: b' => N.eqb x y && eqN a' b'
  | _, _ => false
  end.

(* observed: what getattr(v, s) returned on the real class for every such
   string, in the same order and encoding *)
Definition swizzle_check (letters : string) (foreign : ascii) (observed : list N) : bool :=
  eqN (model_codes letters foreign) observed.

Definition swizzle_count (letters : string) : nat :=
  List.length (all_strings (list_of_string letters ++ ["q"%char]) 5).

(* positions (in the enumeration) where model and observation differ *)
Fixpoint mismatches (a b : list N) (i : nat) : list nat :=
  match a, b with
  | [], [] => []
  | x :: a', y :: b' => if N.eqb x y then mismatches a' b' (S i) else i :: mismatches a' b' (S i)
  | _, _ => [i]
  end.
Definition swizzle_mismatches (letters : string) (foreign : ascii) (observed : list N) : list nat :=
  firstn 5 (mismatches (model_codes letters foreign) observed 0).
