(* C18 - the rational instance of the signature, used only to evaluate the
   generated definitions and the textbook specification on observed values
   (vm_compute).  Square roots are exact on squares of rationals and 0
   elsewhere; cos, sin and atan2 are dummies: the harness never evaluates
   them here (methods that need them are tested over floats instead).
   No proofs in this file. *)
From Coq Require Import ZArith QArith.
From Desper Require Import Math.Sig.

Definition Zsqrt_exact (z : Z) : option Z :=
  let r := Z.sqrt z in if (r * r =? z)%Z then Some r else None.

Definition Qsqrt (q : Q) : Q :=
  let r := Qred q in
  match Zsqrt_exact (Qnum r), Zsqrt_exact (Zpos (Qden r)) with
  | Some a, Some (Zpos b) => Qmake a b
  | _, _ => 0
  end.

Definition Qltb (x y : Q) : bool := negb (Qle_bool y x).

#[export] Instance Qops : ops Q := {|
  gofZ := inject_Z;
  gadd := Qplus; gmul := Qmult; gsub := Qminus; gdiv := Qdiv; gopp := Qopp;
  gsqrt := Qsqrt;
  gcos := fun _ => 0; gsin := fun _ => 0; gatan2 := fun _ _ => 0;
  gltb := Qltb; geqb := Qeq_bool |}.
