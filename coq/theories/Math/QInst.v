(* C18 - the exact instance of the signature, used only to evaluate the
   generated definitions and the textbook specification on observed values
   (vm_compute).

   Numbers are rationals.  Square roots are exact on squares of rationals
   (the harness only evaluates them there).  Angles are TOKENS: the harness
   runs the real code with a scripted double of the `math` module
   (harness/math_oracle.py, class Shim) in which an angle is represented by
   t = tan(angle / 2), so that cos, sin, atan2 and the addition of angles are
   exact rational operations:
       cos = (1 - t^2) / (1 + t^2),  sin = 2 t / (1 + t^2),
       atan2 y x = the angle with t = y / (|(x,y)| + x),
       angle + angle: t = (t1 + t2) / (1 - t1 t2)  (similarly - and negation).
   [Deg t] is the same angle given in degrees (radians (Deg t) = Ang t);
   fov * pi / 360 for fov = Deg t is the half angle, whose tangent is t.
   Anything else is [Bad], which is equal to nothing.
   No proofs in this file. *)
From Coq Require Import ZArith QArith Qround.
From Desper Require Import Math.Sig.

Definition Zsqrt_exact (z : Z) : option Z :=
  let r := Z.sqrt z in if (r * r =? z)%Z then Some r else None.

Definition Qsqrt (q : Q) : Q :=
  let r := Qred q in
  match Zsqrt_exact (Qnum r), Zsqrt_exact (Zpos (Qden r)) with
  | Some a, Some (Zpos b) => Qmake a b
  | _, _ => 0
  end.

Definition Qltb (x y : Q) : bool := negb (Qle_bool y x).

(* round half to even to n decimal digits (Fraction.__round__) *)
Definition Qround_int (y : Q) : Z :=
  let f := Qfloor y in
  let r := y - inject_Z f in
  if Qltb r (1 # 2) then f
  else if Qltb (1 # 2) r then (f + 1)%Z
  else if Z.even f then f else (f + 1)%Z.
Definition Qround (q : Q) (n : Z) : Q :=
  Qred (inject_Z (Qround_int (q * Qpower (10 # 1) n)) / Qpower (10 # 1) n).

Inductive qa :=
| Num (x : Q)
| Ang (t : Q)        (* an angle, t = tan (angle / 2) *)
| Deg (t : Q)        (* the same angle, given in degrees *)
| PiC                (* math.pi *)
| DegPi (t : Q)      (* Deg t * pi *)
| Half (t : Q)       (* Deg t * pi / 360: half the angle, in radians *)
| Bad.

Definition num2 (f : Q -> Q -> Q) (a b : qa) : qa :=
  match a, b with Num x, Num y => Num (f x y) | _, _ => Bad end.

Definition qa_add (a b : qa) : qa :=
  match a, b with
  | Num x, Num y => Num (x + y)
  | Ang s, Ang t => if Qeq_bool (1 - s * t) 0 then Bad else Ang (Qred ((s + t) / (1 - s * t)))
  | _, _ => Bad
  end.
Definition qa_sub (a b : qa) : qa :=
  match a, b with
  | Num x, Num y => Num (x - y)
  | Ang s, Ang t => if Qeq_bool (1 + s * t) 0 then Bad else Ang (Qred ((s - t) / (1 + s * t)))
  | _, _ => Bad
  end.
Definition qa_mul (a b : qa) : qa :=
  match a, b with
  | Num x, Num y => Num (x * y)
  | Deg t, PiC => DegPi t
  | _, _ => Bad
  end.
Definition qa_div (a b : qa) : qa :=
  match a, b with
  | Num x, Num y => Num (x / y)
  | DegPi t, Num y => if Qeq_bool y (360 # 1) then Half t else Bad
  | _, _ => Bad
  end.
Definition qa_atan2 (a b : qa) : qa :=
  match a, b with
  | Num y, Num x =>
      let r := Qsqrt (x * x + y * y) in
      if Qeq_bool (r + x) 0 then Bad else Ang (Qred (y / (r + x)))
  | _, _ => Bad
  end.

#[export] Instance QAops : ops qa := {|
  gofZ := fun z => Num (inject_Z z);
  gadd := qa_add; gmul := qa_mul; gsub := qa_sub; gdiv := qa_div;
  gopp := fun a => match a with Num x => Num (- x) | Ang t => Ang (- t) | _ => Bad end;
  gsqrt := fun a => match a with Num x => Num (Qsqrt x) | _ => Bad end;
  gcos := fun a => match a with Ang t => Num ((1 - t * t) / (1 + t * t)) | _ => Bad end;
  gsin := fun a => match a with Ang t => Num ((2 * t) / (1 + t * t)) | _ => Bad end;
  gatan2 := qa_atan2;
  gtan := fun a => match a with Half t => Num t | _ => Bad end;
  gpi := PiC;
  gradians := fun a => match a with Deg t => Ang t | _ => Bad end;
  ground := fun a n => match a with Num x => Num (Qround x n) | _ => Bad end;
  gltb := fun a b => match a, b with Num x, Num y => Qltb x y | _, _ => false end;
  geqb := fun a b => match a, b with
                     | Num x, Num y => Qeq_bool x y
                     | Ang s, Ang t => Qeq_bool s t
                     | _, _ => false
                     end |}.
