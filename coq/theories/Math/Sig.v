(* C18 - signature over which the model of desper/math.py is generated.

   harness/pymath2coq.py translates every anchored method of desper/math.py
   into definitions over an abstract number type [T] with the operations of
   this class.  The same generated text (Math/MathGen.v) is instantiated
     - over R (Math/Inst.v, [Rops]) for the proofs, and
     - over Q (Math/Inst.v, [Qops]) for evaluation by vm_compute.
   No proofs in this file. *)
From Coq Require Import ZArith List String.
Import ListNotations.

Class ops (T : Type) := {
  gofZ   : Z -> T;                 (* integer literals; p/q is gofZ p / gofZ q *)
  gadd   : T -> T -> T;
  gmul   : T -> T -> T;
  gsub   : T -> T -> T;
  gdiv   : T -> T -> T;
  gopp   : T -> T;
  gsqrt  : T -> T;                 (* math.sqrt *)
  gcos   : T -> T;                 (* math.cos  *)
  gsin   : T -> T;                 (* math.sin  *)
  gatan2 : T -> T -> T;            (* math.atan2 y x *)
  gtan   : T -> T;                 (* math.tan *)
  gpi    : T;                      (* math.pi *)
  gradians : T -> T;               (* math.radians: degrees to radians *)
  ground : T -> Z -> T;            (* round(x, n): n decimal digits, ties to even *)
  gltb   : T -> T -> bool;         (* x < y  *)
  geqb   : T -> T -> bool          (* x == y *)
}.
Arguments gofZ {T _} _%Z.
Arguments ground {T _} _ _%Z.

Declare Scope G_scope.
Delimit Scope G_scope with G.
Infix "+" := gadd : G_scope.
Infix "*" := gmul : G_scope.
Infix "-" := gsub : G_scope.
Infix "/" := gdiv : G_scope.
Notation "- x" := (gopp x) : G_scope.

(* tuples of fixed size: the entries of Vec2/3/4, Mat3 (9, row after row as
   written) and Mat4 (16) *)
Definition V2 (T : Type) := (T * T)%type.
Definition V3 (T : Type) := (T * T * T)%type.
Definition V4 (T : Type) := (T * T * T * T)%type.
Definition V9 (T : Type) := (T * T * T * T * T * T * T * T * T)%type.
Definition V16 (T : Type) :=
  (T * T * T * T * T * T * T * T * T * T * T * T * T * T * T * T)%type.

Definition l2 {T} (a : V2 T) : list T := let '(a0, a1) := a in [a0; a1].
Definition l3 {T} (a : V3 T) : list T := let '(a0, a1, a2) := a in [a0; a1; a2].
Definition l4 {T} (a : V4 T) : list T :=
  let '(a0, a1, a2, a3) := a in [a0; a1; a2; a3].
Definition l9 {T} (a : V9 T) : list T :=
  let '(a0, a1, a2, a3, a4, a5, a6, a7, a8) := a in
  [a0; a1; a2; a3; a4; a5; a6; a7; a8].
Definition l16 {T} (a : V16 T) : list T :=
  let '(a0, a1, a2, a3, a4, a5, a6, a7, a8, a9, a10, a11, a12, a13, a14, a15) := a in
  [a0; a1; a2; a3; a4; a5; a6; a7; a8; a9; a10; a11; a12; a13; a14; a15].

(* one row of the table the generator emits for evaluation: the entries of
   all arguments in order -> (entries of the result, "a warning was issued") *)
Definition gen_fun (T : Type) := list T -> option (list T * bool).
