(* C18 - the textbook definitions, written independently of desper/math.py.

   Vectors are functions of an index, matrices functions of (row, column);
   sums are indexed sums.  Everything is over the abstract signature of
   Math/Sig.v so that the same text is read over R (theorems, Math/Proofs*.v)
   and over Q (evaluation of [holds_b] on observed outputs, Math/C18Model.v).

   How the values of the Python objects are read as vectors / grids:
     a VecN (a0, .., a(N-1))           is the vector   i |-> a_i
     a MatN written (m0, m1, ...)      is the grid     (i, j) |-> m_(N*i + j)
   i.e. exactly "the grid the values are written in" (row after row).

   No proofs in this file. *)
From Coq Require Import ZArith List String Bool Arith.
From Desper Require Import Math.Sig.
Import ListNotations.
Local Open Scope G_scope.

Section Spec.
Context {T : Type} {Ops : ops T}.

Definition g0 : T := gofZ 0.
Definition g1 : T := gofZ 1.
Definition g2 : T := gofZ 2.

Definition vec := nat -> T.
Definition mat := nat -> nat -> T.

Definition vecof (l : list T) : vec := fun i => nth i l g0.
Definition gridof (n : nat) (l : list T) : mat := fun i j => nth (i * n + j)%nat l g0.

(* sum_(k < n) f k *)
Fixpoint sum_n (n : nat) (f : nat -> T) : T :=
  match n with
  | 0%nat => g0
  | S m => sum_n m f + f m
  end.

(* ---- vectors ---------------------------------------------------------- *)
Definition vzero : vec := fun _ => g0.
Definition vadd (u v : vec) : vec := fun i => u i + v i.
Definition vsub (u v : vec) : vec := fun i => u i - v i.
Definition vmul (u v : vec) : vec := fun i => u i * v i.     (* entry by entry *)
Definition vdiv (u v : vec) : vec := fun i => u i / v i.
Definition vneg (u : vec) : vec := fun i => - u i.
Definition vscale (s : T) (u : vec) : vec := fun i => s * u i.
(* linear interpolation: (1 - t) u + t v *)
Definition vlerp (u v : vec) (t : T) : vec := fun i => (g1 - t) * u i + t * v i.
Definition dot (n : nat) (u v : vec) : T := sum_n n (fun i => u i * v i).
Definition norm (n : nat) (u : vec) : T := gsqrt (dot n u u).
Definition dist (n : nat) (u v : vec) : T := norm n (vsub u v).
(* (u x v)_i = u_(i+1) v_(i+2) - u_(i+2) v_(i+1), indices mod 3 *)
Definition cross (u v : vec) : vec :=
  fun i => u ((i + 1) mod 3)%nat * v ((i + 2) mod 3)%nat
           - u ((i + 2) mod 3)%nat * v ((i + 1) mod 3)%nat.
Definition gmin (a b : T) : T := if gltb b a then b else a.
Definition gmax (a b : T) : T := if gltb a b then b else a.
Definition gabs (a : T) : T := if gltb a g0 then - a else a.
Definition clamp_spec (x lo hi : T) : T := gmax (gmin x hi) lo.
Definition vclamp (u : vec) (lo hi : T) : vec := fun i => clamp_spec (u i) lo hi.

(* ---- matrices --------------------------------------------------------- *)
Definition madd (A B : mat) : mat := fun i j => A i j + B i j.
Definition msub (A B : mat) : mat := fun i j => A i j - B i j.
Definition mneg (A : mat) : mat := fun i j => - A i j.
(* row by column product *)
Definition mmul (n : nat) (A B : mat) : mat :=
  fun i j => sum_n n (fun k => A i k * B k j).
Definition mident : mat := fun i j => if Nat.eqb i j then g1 else g0.
Definition mtrans (A : mat) : mat := fun i j => A j i.
(* the row vector v times the matrix M: this is what `M @ v` computes *)
Definition vecmat (n : nat) (v : vec) (M : mat) : vec :=
  fun j => sum_n n (fun k => v k * M k j).

(* determinant: Laplace expansion along the first row *)
Definition skip (k i : nat) : nat := if Nat.ltb i k then i else S i.
Definition minor (A : mat) (r c : nat) : mat := fun i j => A (skip r i) (skip c j).
Definition sign (j : nat) : T := if Nat.even j then g1 else - g1.
Fixpoint det (n : nat) (A : mat) : T :=
  match n with
  | 0%nat => g1
  | S m => sum_n (S m) (fun j => sign j * A 0%nat j * det m (minor A 0%nat j))
  end.

(* the stated transforms, as grids; points are row vectors (x, y, z, 1) *)
(* identity with last row (t0, t1, t2, 1): p |-> p + t *)
Definition translation_grid (t : vec) : mat :=
  fun i j => if Nat.eqb i j then g1
             else if Nat.eqb i 3 then t j else g0.
(* diag (s0, s1, s2, 1): p |-> s * p *)
Definition scale_grid (s : vec) : mat :=
  fun i j => if Nat.eqb i j then (if Nat.ltb i 3 then s i else g1) else g0.
(* corner of the viewing box: x in {l, r}, y in {b, t}, z in {-n, -f} *)
Definition pick (s : bool) (lo hi : T) : T := if s then hi else lo.
Definition pm (s : bool) : T := if s then g1 else - g1.
Definition corner (sx sy sz : bool) (l r b t n f : T) : vec :=
  vecof [pick sx l r; pick sy b t; - pick sz n f; g1].
Definition corner_image (sx sy sz : bool) : vec := vecof [pm sx; pm sy; pm sz; g1].

(* ---- boolean readings, for evaluation on observed outputs -------------- *)
Definition idx (n : nat) : list nat := seq 0 n.
Definition eqv (n : nat) (u v : vec) : bool := forallb (fun i => geqb (u i) (v i)) (idx n).
Definition eqm (n : nat) (A B : mat) : bool :=
  forallb (fun i => forallb (fun j => geqb (A i j) (B i j)) (idx n)) (idx n).
Definition gleb (a b : T) : bool := negb (gltb b a).
Definition is_zero (n : nat) (u : vec) : bool := eqv n u vzero.
(* u and v are parallel: u_i v_j = u_j v_i *)
Definition parallel (n : nat) (u v : vec) : bool :=
  forallb (fun i => forallb (fun j => geqb (u i * v j) (u j * v i)) (idx n)) (idx n).
Definition lenb (n : nat) (l : list T) : bool := Nat.eqb (List.length l) n.

(* r is the length of u, without a square root: r >= 0 and r^2 = u.u *)
Definition is_norm (n : nat) (r : T) (u : vec) : bool :=
  gleb g0 r && geqb (r * r) (dot n u u).

Definition part (l : list T) (from len : nat) : vec := vecof (firstn len (skipn from l)).
Definition at_ (l : list T) (k : nat) : T := nth k l g0.

Definition spec_fun := list T -> list T -> bool -> bool.   (* inputs, outputs, warned *)

Definition out_vec (n : nat) (f : list T -> vec) : spec_fun :=
  fun xs out w => lenb n out && negb w && eqv n (vecof out) (f xs).
Definition out_num (f : list T -> T) : spec_fun :=
  fun xs out w => lenb 1 out && negb w && geqb (at_ out 0) (f xs).
Definition out_mat (n : nat) (f : list T -> mat) : spec_fun :=
  fun xs out w => lenb (n * n)%nat out && negb w && eqm n (gridof n out) (f xs).

(* the operations every VecN has *)
Definition vec_specs (c : string) (n : nat) : list (string * spec_fun) :=
  let a := fun xs => part xs 0 n in
  let b := fun xs => part xs n n in
  [ ((c ++ ".__new__")%string, out_vec n (fun _ => vzero));
    ((c ++ ".__add__")%string, out_vec n (fun xs => vadd (a xs) (b xs)));
    ((c ++ ".__sub__")%string, out_vec n (fun xs => vsub (a xs) (b xs)));
    ((c ++ ".__mul__")%string, out_vec n (fun xs => vmul (a xs) (b xs)));
    ((c ++ ".__truediv__")%string, out_vec n (fun xs => vdiv (a xs) (b xs)));
    ((c ++ ".__neg__")%string, out_vec n (fun xs => vneg (a xs)));
    ((c ++ ".__radd__/0")%string, out_vec n (fun xs => a xs));
    ((c ++ ".__radd__/v")%string, out_vec n (fun xs => vadd (a xs) (b xs)));
    ((c ++ ".__abs__")%string,
       fun xs out w => lenb 1 out && negb w && is_norm n (at_ out 0) (a xs));
    ((c ++ ".lerp")%string, out_vec n (fun xs => vlerp (a xs) (b xs) (at_ xs (2 * n)%nat)));
    ((c ++ ".scale")%string, out_vec n (fun xs => vscale (at_ xs n) (a xs)));
    ((c ++ ".distance")%string,
       fun xs out w => lenb 1 out && negb w && is_norm n (at_ out 0) (vsub (a xs) (b xs)));
    (* unit vector of the same direction; zero stays zero *)
    ((c ++ ".normalize")%string,
       fun xs out w =>
         lenb n out && negb w &&
         (if is_zero n (a xs) then is_zero n (vecof out)
          else geqb (dot n (vecof out) (vecof out)) g1
               && parallel n (vecof out) (a xs)
               && gltb g0 (dot n (vecof out) (a xs))));
    ((c ++ ".clamp")%string,
       out_vec n (fun xs => vclamp (a xs) (at_ xs n) (at_ xs (S n))));
    ((c ++ ".dot")%string, out_num (fun xs => dot n (a xs) (b xs))) ].

(* |out| = |m|, same direction as v (opposite if m < 0); nothing is said
   about the zero vector, which has no direction *)
Definition from_magnitude_spec (n : nat) : spec_fun :=
  fun xs out w =>
    let v := part xs 0 n in let m := at_ xs n in let o := vecof out in
    lenb n out && negb w &&
    (is_zero n v ||
     (geqb (dot n o o) (m * m) && parallel n o v && gleb g0 (m * dot n o v))).

(* never longer than m; short enough vectors are returned unchanged *)
Definition limit_spec (n : nat) : spec_fun :=
  fun xs out w =>
    let v := part xs 0 n in let m := at_ xs n in let o := vecof out in
    lenb n out && negb w &&
    gleb (dot n o o) (m * m) &&
    (if gleb (dot n v v) (m * m) then eqv n o v else true).

Definition mat_specs (c : string) (n : nat) : list (string * spec_fun) :=
  let a := fun xs => gridof n (firstn (n * n)%nat xs) in
  let b := fun xs => gridof n (skipn (n * n)%nat xs) in
  [ ((c ++ ".__new__")%string, out_mat n (fun _ => mident));
    ((c ++ ".__add__")%string, out_mat n (fun xs => madd (a xs) (b xs)));
    ((c ++ ".__sub__")%string, out_mat n (fun xs => msub (a xs) (b xs)));
    ((c ++ ".__pos__")%string, out_mat n (fun xs => a xs));
    ((c ++ ".__neg__")%string, out_mat n (fun xs => mneg (a xs)));
    ((c ++ ".__matmul__/m")%string, out_mat n (fun xs => mmul n (a xs) (b xs)));
    ((c ++ ".__matmul__/v")%string,
       out_vec n (fun xs => vecmat n (part xs (n * n)%nat n) (a xs))) ].

Definition all_corners (p : bool -> bool -> bool -> bool) : bool :=
  forallb (fun sx => forallb (fun sy => forallb (fun sz => p sx sy sz) [false; true])
                             [false; true]) [false; true].

Definition spec_table : list (string * spec_fun) :=
  [ ("clamp"%string, out_num (fun xs => clamp_spec (at_ xs 0) (at_ xs 1) (at_ xs 2)));
    ("Vec2.x"%string, out_num (fun xs => at_ xs 0));
    ("Vec2.y"%string, out_num (fun xs => at_ xs 1));
    ("Vec3.x"%string, out_num (fun xs => at_ xs 0));
    ("Vec3.y"%string, out_num (fun xs => at_ xs 1));
    ("Vec3.z"%string, out_num (fun xs => at_ xs 2));
    ("Vec4.x"%string, out_num (fun xs => at_ xs 0));
    ("Vec4.y"%string, out_num (fun xs => at_ xs 1));
    ("Vec4.z"%string, out_num (fun xs => at_ xs 2));
    ("Vec4.w"%string, out_num (fun xs => at_ xs 3)) ]
  ++ vec_specs "Vec2" 2 ++ vec_specs "Vec3" 3 ++ vec_specs "Vec4" 4
  ++ [ ("Vec2.mag"%string,
          fun xs out w => lenb 1 out && negb w && is_norm 2 (at_ out 0) (part xs 0 2));
       ("Vec3.mag"%string,
          fun xs out w => lenb 1 out && negb w && is_norm 3 (at_ out 0) (part xs 0 3));
       ("Vec2.from_magnitude"%string, from_magnitude_spec 2);
       ("Vec3.from_magnitude"%string, from_magnitude_spec 3);
       ("Vec2.limit"%string, limit_spec 2);
       ("Vec3.limit"%string, limit_spec 3);
       ("Vec3.cross"%string, out_vec 3 (fun xs => cross (part xs 0 3) (part xs 3 3))) ]
  ++ mat_specs "Mat3" 3 ++ mat_specs "Mat4" 4
  ++ [ ("Mat4.transpose"%string, out_mat 4 (fun xs => mtrans (gridof 4 xs)));
       (* two-sided inverse of a non-singular matrix; a singular one comes
          back unchanged, with a warning *)
       ("Mat4.__invert__"%string,
          fun xs out w =>
            let M := gridof 4 xs in let N := gridof 4 out in
            lenb 16 out &&
            (if geqb (det 4 M) g0 then w && eqm 4 N M
             else negb w && eqm 4 (mmul 4 M N) mident && eqm 4 (mmul 4 N M) mident));
       (* every corner of the box goes to the corresponding corner of [-1,1]^3 *)
       ("Mat4.orthogonal_projection"%string,
          fun xs out w =>
            lenb 16 out && negb w &&
            all_corners (fun sx sy sz =>
              eqv 4 (vecmat 4 (corner sx sy sz (at_ xs 0) (at_ xs 1) (at_ xs 2) (at_ xs 3)
                                      (at_ xs 4) (at_ xs 5)) (gridof 4 out))
                    (corner_image sx sy sz)));
       ("Mat4.from_translation"%string, out_mat 4 (fun xs => translation_grid (vecof xs)));
       ("Mat4.from_scale"%string, out_mat 4 (fun xs => scale_grid (vecof xs)));
       ("Mat4.translate"%string,
          out_mat 4 (fun xs => mmul 4 (gridof 4 (firstn 16 xs))
                                    (translation_grid (part xs 16 3)))) ].

(* input domain: what the property quantifies over *)
Definition all_nonzero (n : nat) (u : vec) : bool :=
  forallb (fun i => negb (geqb (u i) g0)) (idx n).
Definition wf_table : list (string * (list T -> bool)) :=
  [ ("Vec2.__truediv__"%string, fun xs => all_nonzero 2 (part xs 2 2));
    ("Vec3.__truediv__"%string, fun xs => all_nonzero 3 (part xs 3 3));
    ("Vec4.__truediv__"%string, fun xs => all_nonzero 4 (part xs 4 4));
    ("Vec2.limit"%string, fun xs => gleb g0 (at_ xs 2));
    ("Vec3.limit"%string, fun xs => gleb g0 (at_ xs 3));
    ("Mat4.orthogonal_projection"%string,
       fun xs => negb (geqb (at_ xs 0) (at_ xs 1)) && negb (geqb (at_ xs 2) (at_ xs 3))
                 && negb (geqb (at_ xs 4) (at_ xs 5))) ].

Fixpoint lookup {A : Type} (k : string) (l : list (string * A)) : option A :=
  match l with
  | [] => None
  | (k', v) :: r => if String.eqb k k' then Some v else lookup k r
  end.

End Spec.

(* how tuples are read as vectors and grids *)
Definition v2 {T} {Ops : ops T} (a : V2 T) : vec := vecof (l2 a).
Definition v3 {T} {Ops : ops T} (a : V3 T) : vec := vecof (l3 a).
Definition v4 {T} {Ops : ops T} (a : V4 T) : vec := vecof (l4 a).
Definition m3 {T} {Ops : ops T} (a : V9 T) : mat := gridof 3 (l9 a).
Definition m4 {T} {Ops : ops T} (a : V16 T) : mat := gridof 4 (l16 a).
