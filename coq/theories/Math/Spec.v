(* C18 - the textbook definitions, written independently of desper/math.py.

   Vectors are functions of an index, matrices functions of (row, column);
   sums are indexed sums.  Everything is over the abstract signature of
   Math/Sig.v so that the same text is read over R (theorems, Math/Proofs*.v)
   and over Q (evaluation of [holds_b] on observed outputs, Math/C18Model.v).

   How the values of the Python objects are read as vectors / grids:
     a VecN (a0, .., a(N-1))           is the vector   i |-> a_i
     a MatN written (m0, m1, ...)      is the grid     (i, j) |-> m_(N*i + j)
   i.e. exactly "the grid the values are written in" (row after row).

   No proofs in this file. *)
From Coq Require Import ZArith List String Bool Arith.
From Desper Require Import Math.Sig.
Import ListNotations.
Local Open Scope G_scope.

Section Spec.
Context {T : Type} {Ops : ops T}.

Definition g0 : T := gofZ 0.
Definition g1 : T := gofZ 1.
Definition g2 : T := gofZ 2.

Definition vec := nat -> T.
Definition mat := nat -> nat -> T.

Definition vecof (l : list T) : vec := fun i => nth i l g0.
Definition gridof (n : nat) (l : list T) : mat := fun i j => nth (i * n + j)%nat l g0.

(* sum_(k < n) f k *)
Fixpoint sum_n (n : nat) (f : nat -> T) : T :=
  match n with
  | 0%nat => g0
  | S m => sum_n m f + f m
  end.

(* ---- vectors ---------------------------------------------------------- *)
Definition vzero : vec := fun _ => g0.
Definition vadd (u v : vec) : vec := fun i => u i + v i.
Definition vsub (u v : vec) : vec := fun i => u i - v i.
Definition vmul (u v : vec) : vec := fun i => u i * v i.     (* entry by entry *)
Definition vdiv (u v : vec) : vec := fun i => u i / v i.
Definition vneg (u : vec) : vec := fun i => - u i.
Definition vscale (s : T) (u : vec) : vec := fun i => s * u i.
(* linear interpolation: (1 - t) u + t v *)
Definition vlerp (u v : vec) (t : T) : vec := fun i => (g1 - t) * u i + t * v i.
Definition dot (n : nat) (u v : vec) : T := sum_n n (fun i => u i * v i).
Definition norm (n : nat) (u : vec) : T := gsqrt (dot n u u).
Definition dist (n : nat) (u v : vec) : T := norm n (vsub u v).
(* (u x v)_i = u_(i+1) v_(i+2) - u_(i+2) v_(i+1), indices mod 3 *)
Definition cross (u v : vec) : vec :=
  fun i => u ((i + 1) mod 3)%nat * v ((i + 2) mod 3)%nat
           - u ((i + 2) mod 3)%nat * v ((i + 1) mod 3)%nat.
Definition gmin (a b : T) : T := if gltb b a then b else a.
Definition gmax (a b : T) : T := if gltb a b then b else a.
Definition gabs (a : T) : T := if gltb a g0 then - a else a.
Definition clamp_spec (x lo hi : T) : T := gmax (gmin x hi) lo.
Definition vclamp (u : vec) (lo hi : T) : vec := fun i => clamp_spec (u i) lo hi.

(* ---- matrices --------------------------------------------------------- *)
Definition madd (A B : mat) : mat := fun i j => A i j + B i j.
Definition msub (A B : mat) : mat := fun i j => A i j - B i j.
Definition mneg (A : mat) : mat := fun i j => - A i j.
(* row by column product *)
Definition mmul (n : nat) (A B : mat) : mat :=
  fun i j => sum_n n (fun k => A i k * B k j).
Definition mident : mat := fun i j => if Nat.eqb i j then g1 else g0.
Definition mtrans (A : mat) : mat := fun i j => A j i.
(* the row vector v times the matrix M: this is what `M @ v` computes *)
Definition vecmat (n : nat) (v : vec) (M : mat) : vec :=
  fun j => sum_n n (fun k => v k * M k j).

(* determinant: Laplace expansion along the first row *)
Definition skip (k i : nat) : nat := if Nat.ltb i k then i else S i.
Definition minor (A : mat) (r c : nat) : mat := fun i j => A (skip r i) (skip c j).
Definition sign (j : nat) : T := if Nat.even j then g1 else - g1.
Fixpoint det (n : nat) (A : mat) : T :=
  match n with
  | 0%nat => g1
  | S m => sum_n (S m) (fun j => sign j * A 0%nat j * det m (minor A 0%nat j))
  end.

(* the stated transforms, as grids; points are row vectors (x, y, z, 1) *)
(* identity with last row (t0, t1, t2, 1): p |-> p + t *)
Definition translation_grid (t : vec) : mat :=
  fun i j => if Nat.eqb i j then g1
             else if Nat.eqb i 3 then t j else g0.
(* diag (s0, s1, s2, 1): p |-> s * p *)
Definition scale_grid (s : vec) : mat :=
  fun i j => if Nat.eqb i j then (if Nat.ltb i 3 then s i else g1) else g0.
(* corner of the viewing box: x in {l, r}, y in {b, t}, z in {-n, -f} *)
Definition pick (s : bool) (lo hi : T) : T := if s then hi else lo.
Definition pm (s : bool) : T := if s then g1 else - g1.
Definition corner (sx sy sz : bool) (l r b t n f : T) : vec :=
  vecof [pick sx l r; pick sy b t; - pick sz n f; g1].
Definition corner_image (sx sy sz : bool) : vec := vecof [pm sx; pm sy; pm sz; g1].

(* ---- second round: rotations, perspective, view matrix, ... ------------- *)
Definition mrow (A : mat) (i : nat) : vec := fun j => A i j.
Definition mcol (A : mat) (j : nat) : vec := fun i => A i j.
Definition evec (k : nat) : vec := fun i => if Nat.eqb i k then g1 else g0.

(* Rodrigues: the rotation about the axis u by the angle with cosine c and
   sine s moves the point p to  c p + s (u x p) + (1 - c) (u . p) u *)
Definition rodrigues (c s : T) (u p : vec) : vec :=
  fun i => c * p i + s * cross u p i + (g1 - c) * dot 3 u p * u i.
(* ... as a grid acting on ROW vectors (p, 1):
   entry (i, j) = c [i = j] + (1 - c) u_i u_j + s (u x e_i)_j *)
Definition rodrigues_grid (c s : T) (u : vec) : mat :=
  fun i j => if Nat.ltb i 3 && Nat.ltb j 3
             then (if Nat.eqb i j then c else g0) + (g1 - c) * u i * u j
                  + s * cross u (evec i) j
             else if Nat.eqb i j then g1 else g0.

(* Mat4.scale multiplies the three diagonal entries (this is A @ diag(s,1)
   exactly when the other entries of the first three columns are zero) *)
Definition scale_diag (A : mat) (s : vec) : mat :=
  fun i j => if Nat.eqb i j && Nat.ltb i 3 then A i j * s i else A i j.

(* the standard perspective matrix (gluPerspective), for row vectors:
   f = 1 / tan (fovy / 2), fovy in degrees *)
Definition half_fov (fov : T) : T := (fov * gpi) / gofZ 360.
Definition perspective_grid (f aspect n fr : T) : mat :=
  gridof 4 [ f / aspect; g0; g0; g0;
             g0; f; g0; g0;
             g0; g0; - (fr + n) / (fr - n); - g1;
             g0; g0; - (g2 * fr * n) / (fr - n); g0 ].

(* the view matrix of the frame (s, u, -f) placed at p, for row vectors:
   q |-> ((q - p).s, (q - p).u, -(q - p).f, 1) *)
Definition view_grid (s u f p : vec) : mat :=
  fun i j =>
    if Nat.ltb j 3
    then (if Nat.ltb i 3 then nth j [s i; u i; - f i] g0
          else nth j [- dot 3 s p; - dot 3 u p; dot 3 f p] g0)
    else if Nat.eqb i 3 then g1 else g0.
Definition vnormalize (n : nat) (u : vec) : vec := fun i => u i / norm n u.
(* look_at: f = direction to the target, s = f x up^, u = s x f *)
Definition lookat_f (p t : vec) : vec := vnormalize 3 (vsub t p).
Definition lookat_s (p t up : vec) : vec := cross (lookat_f p t) (vnormalize 3 up).
Definition lookat_u (p t up : vec) : vec := cross (lookat_s p t up) (lookat_f p t).
Definition lookat_grid (p t up : vec) : mat :=
  view_grid (lookat_s p t up) (lookat_u p t up) (lookat_f p t) p.

(* the 3 x 3 matrices that Mat3.scale / translate / rotate / shear multiply
   with (as written in the code: scale divides, translate negates x) *)
Definition grid3 (l : list T) : mat := gridof 3 l.
Definition m3_scale (sx sy : T) : mat :=
  grid3 [g1 / sx; g0; g0; g0; g1 / sy; g0; g0; g0; g1].
Definition m3_translate (tx ty : T) : mat :=
  grid3 [g1; g0; g0; g0; g1; g0; - tx; ty; g1].
Definition m3_rotate (c s : T) : mat :=
  grid3 [c; s; g0; - s; c; g0; g0; g0; g1].
Definition m3_shear (sx sy : T) : mat :=
  grid3 [g1; sy; g0; sx; g1; g0; g0; g0; g1].

(* ---- boolean readings, for evaluation on observed outputs -------------- *)
Definition idx (n : nat) : list nat := seq 0 n.
Definition eqv (n : nat) (u v : vec) : bool := forallb (fun i => geqb (u i) (v i)) (idx n).
Definition eqm (n : nat) (A B : mat) : bool :=
  forallb (fun i => forallb (fun j => geqb (A i j) (B i j)) (idx n)) (idx n).
Definition gleb (a b : T) : bool := negb (gltb b a).
Definition is_zero (n : nat) (u : vec) : bool := eqv n u vzero.
(* u and v are parallel: u_i v_j = u_j v_i *)
Definition parallel (n : nat) (u v : vec) : bool :=
  forallb (fun i => forallb (fun j => geqb (u i * v j) (u j * v i)) (idx n)) (idx n).
Definition lenb (n : nat) (l : list T) : bool := Nat.eqb (List.length l) n.

(* r is the length of u, without a square root: r >= 0 and r^2 = u.u *)
Definition is_norm (n : nat) (r : T) (u : vec) : bool :=
  gleb g0 r && geqb (r * r) (dot n u u).

Definition part (l : list T) (from len : nat) : vec := vecof (firstn len (skipn from l)).
Definition at_ (l : list T) (k : nat) : T := nth k l g0.

Definition spec_fun := list T -> list T -> bool -> bool.   (* inputs, outputs, warned *)

Definition out_vec (n : nat) (f : list T -> vec) : spec_fun :=
  fun xs out w => lenb n out && negb w && eqv n (vecof out) (f xs).
Definition out_num (f : list T -> T) : spec_fun :=
  fun xs out w => lenb 1 out && negb w && geqb (at_ out 0) (f xs).
Definition out_mat (n : nat) (f : list T -> mat) : spec_fun :=
  fun xs out w => lenb (n * n)%nat out && negb w && eqm n (gridof n out) (f xs).

(* the operations every VecN has *)
Definition vec_specs (c : string) (n : nat) : list (string * spec_fun) :=
  let a := fun xs => part xs 0 n in
  let b := fun xs => part xs n n in
  [ ((c ++ ".__new__")%string, out_vec n (fun _ => vzero));
    ((c ++ ".__add__")%string, out_vec n (fun xs => vadd (a xs) (b xs)));
    ((c ++ ".__sub__")%string, out_vec n (fun xs => vsub (a xs) (b xs)));
    ((c ++ ".__mul__")%string, out_vec n (fun xs => vmul (a xs) (b xs)));
    ((c ++ ".__truediv__")%string, out_vec n (fun xs => vdiv (a xs) (b xs)));
    ((c ++ ".__neg__")%string, out_vec n (fun xs => vneg (a xs)));
    ((c ++ ".__radd__/0")%string, out_vec n (fun xs => a xs));
    ((c ++ ".__radd__/v")%string, out_vec n (fun xs => vadd (a xs) (b xs)));
    ((c ++ ".__abs__")%string,
       fun xs out w => lenb 1 out && negb w && is_norm n (at_ out 0) (a xs));
    ((c ++ ".lerp")%string, out_vec n (fun xs => vlerp (a xs) (b xs) (at_ xs (2 * n)%nat)));
    ((c ++ ".scale")%string, out_vec n (fun xs => vscale (at_ xs n) (a xs)));
    ((c ++ ".distance")%string,
       fun xs out w => lenb 1 out && negb w && is_norm n (at_ out 0) (vsub (a xs) (b xs)));
    (* unit vector of the same direction; zero stays zero *)
    ((c ++ ".normalize")%string,
       fun xs out w =>
         lenb n out && negb w &&
         (if is_zero n (a xs) then is_zero n (vecof out)
          else geqb (dot n (vecof out) (vecof out)) g1
               && parallel n (vecof out) (a xs)
               && gltb g0 (dot n (vecof out) (a xs))));
    ((c ++ ".clamp")%string,
       out_vec n (fun xs => vclamp (a xs) (at_ xs n) (at_ xs (S n))));
    ((c ++ ".dot")%string, out_num (fun xs => dot n (a xs) (b xs))) ].

(* |out| = |m|, same direction as v (opposite if m < 0); nothing is said
   about the zero vector, which has no direction *)
Definition from_magnitude_spec (n : nat) : spec_fun :=
  fun xs out w =>
    let v := part xs 0 n in let m := at_ xs n in let o := vecof out in
    lenb n out && negb w &&
    (is_zero n v ||
     (geqb (dot n o o) (m * m) && parallel n o v && gleb g0 (m * dot n o v))).

(* never longer than m; short enough vectors are returned unchanged *)
Definition limit_spec (n : nat) : spec_fun :=
  fun xs out w =>
    let v := part xs 0 n in let m := at_ xs n in let o := vecof out in
    lenb n out && negb w &&
    gleb (dot n o o) (m * m) &&
    (if gleb (dot n v v) (m * m) then eqv n o v else true).

Definition mat_specs (c : string) (n : nat) : list (string * spec_fun) :=
  let a := fun xs => gridof n (firstn (n * n)%nat xs) in
  let b := fun xs => gridof n (skipn (n * n)%nat xs) in
  [ ((c ++ ".__new__")%string, out_mat n (fun _ => mident));
    ((c ++ ".__add__")%string, out_mat n (fun xs => madd (a xs) (b xs)));
    ((c ++ ".__sub__")%string, out_mat n (fun xs => msub (a xs) (b xs)));
    ((c ++ ".__pos__")%string, out_mat n (fun xs => a xs));
    ((c ++ ".__neg__")%string, out_mat n (fun xs => mneg (a xs)));
    ((c ++ ".__matmul__/m")%string, out_mat n (fun xs => mmul n (a xs) (b xs)));
    ((c ++ ".__matmul__/v")%string,
       out_vec n (fun xs => vecmat n (part xs (n * n)%nat n) (a xs))) ].

Definition all_corners (p : bool -> bool -> bool -> bool) : bool :=
  forallb (fun sx => forallb (fun sy => forallb (fun sz => p sx sy sz) [false; true])
                             [false; true]) [false; true].

Definition col3 (A : mat) (j : nat) : vec := fun i => if Nat.ltb i 3 then A i j else g0.
(* the view matrix, without square roots: third column = minus the unit
   vector towards the target; first column = f^ x up^ (orthogonal to both,
   oriented like f x up, of the right length); second = first x f^; last
   row = minus the position in that frame *)
Definition lookat_spec : list T -> list T -> bool -> bool :=
  fun xs out w =>
    let p := part xs 0 3 in let t := part xs 3 3 in let up := part xs 6 3 in
    let V := gridof 4 out in
    let d := vsub t p in
    let c0 := col3 V 0 in let c1 := col3 V 1 in let c2 := col3 V 2 in
    let n := cross d up in
    lenb 16 out && negb w &&
    parallel 3 c2 d && gltb (dot 3 c2 d) g0 && geqb (dot 3 c2 c2) g1 &&
    parallel 3 c0 n && gltb g0 (dot 3 c0 n) &&
    geqb (dot 3 c0 c0 * (dot 3 d d * dot 3 up up)) (dot 3 n n) &&
    eqv 3 c1 (cross c0 (vneg c2)) &&
    eqv 3 (fun j => V 3 j) (fun j => - dot 3 (col3 V j) p) &&
    eqv 4 (fun i => V i 3) (evec 3).

Definition second_round : list (string * spec_fun) :=
  let A4 := fun xs => gridof 4 (firstn 16 xs) in
  let A3 := fun xs => gridof 3 (firstn 9 xs) in
  [ ("Mat4.scale"%string, out_mat 4 (fun xs => scale_diag (A4 xs) (part xs 16 3)));
    ("Mat4.rotate"%string,
       out_mat 4 (fun xs => mmul 4 (A4 xs)
                    (rodrigues_grid (gcos (at_ xs 16)) (gsin (at_ xs 16)) (part xs 17 3))));
    ("Mat4.from_rotation"%string,
       out_mat 4 (fun xs => rodrigues_grid (gcos (at_ xs 0)) (gsin (at_ xs 0)) (part xs 1 3)));
    ("Mat4.perspective_projection"%string,
       out_mat 4 (fun xs => perspective_grid (g1 / gtan (half_fov (at_ xs 6)))
                              ((at_ xs 1 - at_ xs 0) / (at_ xs 3 - at_ xs 2))
                              (at_ xs 4) (at_ xs 5)));
    ("Mat4.look_at"%string, lookat_spec);
    ("Mat3.scale"%string, out_mat 3 (fun xs => mmul 3 (A3 xs) (m3_scale (at_ xs 9) (at_ xs 10))));
    ("Mat3.translate"%string,
       out_mat 3 (fun xs => mmul 3 (A3 xs) (m3_translate (at_ xs 9) (at_ xs 10))));
    ("Mat3.rotate"%string,
       out_mat 3 (fun xs => mmul 3 (A3 xs) (m3_rotate (gcos (gradians (at_ xs 9)))
                                                      (gsin (gradians (at_ xs 9))))));
    ("Mat3.shear"%string, out_mat 3 (fun xs => mmul 3 (A3 xs) (m3_shear (at_ xs 9) (at_ xs 10))));
    ("Mat4.row/0"%string, out_vec 4 (fun xs => mrow (gridof 4 xs) 0));
    ("Mat4.row/1"%string, out_vec 4 (fun xs => mrow (gridof 4 xs) 1));
    ("Mat4.row/2"%string, out_vec 4 (fun xs => mrow (gridof 4 xs) 2));
    ("Mat4.row/3"%string, out_vec 4 (fun xs => mrow (gridof 4 xs) 3));
    ("Mat4.column/0"%string, out_vec 4 (fun xs => mcol (gridof 4 xs) 0));
    ("Mat4.column/1"%string, out_vec 4 (fun xs => mcol (gridof 4 xs) 1));
    ("Mat4.column/2"%string, out_vec 4 (fun xs => mcol (gridof 4 xs) 2));
    ("Mat4.column/3"%string, out_vec 4 (fun xs => mcol (gridof 4 xs) 3));
    (* angles (evaluated on angle tokens, Math/QInst.v) *)
    ("Vec2.from_polar"%string,
       out_vec 2 (fun xs => vscale (at_ xs 0) (vecof [gcos (at_ xs 1); gsin (at_ xs 1)])));
    ("Vec2.heading"%string,
       fun xs out w =>
         let a := part xs 0 2 in let h := at_ out 0 in
         lenb 1 out && negb w &&
         eqv 2 a (vscale (norm 2 a) (vecof [gcos h; gsin h])));
    ("Vec2.from_heading"%string,
       out_vec 2 (fun xs => vscale (norm 2 (part xs 0 2))
                                   (vecof [gcos (at_ xs 2); gsin (at_ xs 2)])));
    ("Vec2.rotate"%string,
       out_vec 2 (fun xs => let c := gcos (at_ xs 2) in let s := gsin (at_ xs 2) in
                            vecof [c * at_ xs 0 - s * at_ xs 1; s * at_ xs 0 + c * at_ xs 1])) ]
  ++ flat_map (fun cn : string * nat =>
       let (c, n) := cn in
       [ ((c ++ ".__round__/n")%string, out_vec n (fun xs => fun i => ground (vecof xs i) 0));
         ((c ++ ".__round__/2")%string, out_vec n (fun xs => fun i => ground (vecof xs i) 2)) ])
     [ ("Vec2"%string, 2%nat); ("Vec3"%string, 3%nat); ("Vec4"%string, 4%nat);
       ("Mat3"%string, 9%nat); ("Mat4"%string, 16%nat) ].

Definition spec_table : list (string * spec_fun) :=
  [ ("clamp"%string, out_num (fun xs => clamp_spec (at_ xs 0) (at_ xs 1) (at_ xs 2)));
    ("Vec2.x"%string, out_num (fun xs => at_ xs 0));
    ("Vec2.y"%string, out_num (fun xs => at_ xs 1));
    ("Vec3.x"%string, out_num (fun xs => at_ xs 0));
    ("Vec3.y"%string, out_num (fun xs => at_ xs 1));
    ("Vec3.z"%string, out_num (fun xs => at_ xs 2));
    ("Vec4.x"%string, out_num (fun xs => at_ xs 0));
    ("Vec4.y"%string, out_num (fun xs => at_ xs 1));
    ("Vec4.z"%string, out_num (fun xs => at_ xs 2));
    ("Vec4.w"%string, out_num (fun xs => at_ xs 3)) ]
  ++ vec_specs "Vec2" 2 ++ vec_specs "Vec3" 3 ++ vec_specs "Vec4" 4
  ++ [ ("Vec2.mag"%string,
          fun xs out w => lenb 1 out && negb w && is_norm 2 (at_ out 0) (part xs 0 2));
       ("Vec3.mag"%string,
          fun xs out w => lenb 1 out && negb w && is_norm 3 (at_ out 0) (part xs 0 3));
       ("Vec2.from_magnitude"%string, from_magnitude_spec 2);
       ("Vec3.from_magnitude"%string, from_magnitude_spec 3);
       ("Vec2.limit"%string, limit_spec 2);
       ("Vec3.limit"%string, limit_spec 3);
       ("Vec3.cross"%string, out_vec 3 (fun xs => cross (part xs 0 3) (part xs 3 3))) ]
  ++ mat_specs "Mat3" 3 ++ mat_specs "Mat4" 4
  ++ [ ("Mat4.transpose"%string, out_mat 4 (fun xs => mtrans (gridof 4 xs)));
       (* two-sided inverse of a non-singular matrix; a singular one comes
          back unchanged, with a warning *)
       ("Mat4.__invert__"%string,
          fun xs out w =>
            let M := gridof 4 xs in let N := gridof 4 out in
            lenb 16 out &&
            (if geqb (det 4 M) g0 then w && eqm 4 N M
             else negb w && eqm 4 (mmul 4 M N) mident && eqm 4 (mmul 4 N M) mident));
       (* every corner of the box goes to the corresponding corner of [-1,1]^3 *)
       ("Mat4.orthogonal_projection"%string,
          fun xs out w =>
            lenb 16 out && negb w &&
            all_corners (fun sx sy sz =>
              eqv 4 (vecmat 4 (corner sx sy sz (at_ xs 0) (at_ xs 1) (at_ xs 2) (at_ xs 3)
                                      (at_ xs 4) (at_ xs 5)) (gridof 4 out))
                    (corner_image sx sy sz)));
       ("Mat4.from_translation"%string, out_mat 4 (fun xs => translation_grid (vecof xs)));
       ("Mat4.from_scale"%string, out_mat 4 (fun xs => scale_grid (vecof xs)));
       ("Mat4.translate"%string,
          out_mat 4 (fun xs => mmul 4 (gridof 4 (firstn 16 xs))
                                    (translation_grid (part xs 16 3)))) ]
  ++ second_round.

(* input domain: what the property quantifies over *)
Definition in_unit_box (u : vec) : bool :=
  forallb (fun i => gleb (gabs (u i)) g1) (idx 3).
Definition all_nonzero (n : nat) (u : vec) : bool :=
  forallb (fun i => negb (geqb (u i) g0)) (idx n).
Definition wf_table : list (string * (list T -> bool)) :=
  [ ("Vec2.__truediv__"%string, fun xs => all_nonzero 2 (part xs 2 2));
    ("Vec3.__truediv__"%string, fun xs => all_nonzero 3 (part xs 3 3));
    ("Vec4.__truediv__"%string, fun xs => all_nonzero 4 (part xs 4 4));
    ("Vec2.limit"%string, fun xs => gleb g0 (at_ xs 2));
    ("Vec3.limit"%string, fun xs => gleb g0 (at_ xs 3));
    ("Mat4.orthogonal_projection"%string,
       fun xs => negb (geqb (at_ xs 0) (at_ xs 1)) && negb (geqb (at_ xs 2) (at_ xs 3))
                 && negb (geqb (at_ xs 4) (at_ xs 5)));
    (* the axis has entries in [-1, 1] (the assert of Mat4.rotate) *)
    ("Mat4.rotate"%string, fun xs => in_unit_box (part xs 17 3));
    ("Mat4.from_rotation"%string, fun xs => in_unit_box (part xs 1 3));
    ("Mat4.perspective_projection"%string,
       fun xs => negb (geqb (at_ xs 0) (at_ xs 1)) && negb (geqb (at_ xs 2) (at_ xs 3))
                 && negb (geqb (at_ xs 4) (at_ xs 5)) && negb (geqb (at_ xs 4) g0)
                 && negb (geqb (gtan (half_fov (at_ xs 6))) g0));
    (* target <> position, up not parallel to the viewing direction *)
    ("Mat4.look_at"%string,
       fun xs => negb (is_zero 3 (cross (vsub (part xs 3 3) (part xs 0 3)) (part xs 6 3))));
    ("Mat3.scale"%string, fun xs => negb (geqb (at_ xs 9) g0) && negb (geqb (at_ xs 10) g0));
    (* the heading is defined (not the zero vector) and is not pi, which has
       no token *)
    ("Vec2.heading"%string, fun xs => negb (geqb (norm 2 (part xs 0 2) + at_ xs 0) g0));
    ("Vec2.rotate"%string, fun xs => negb (geqb (norm 2 (part xs 0 2) + at_ xs 0) g0)) ].

Fixpoint lookup {A : Type} (k : string) (l : list (string * A)) : option A :=
  match l with
  | [] => None
  | (k', v) :: r => if String.eqb k k' then Some v else lookup k r
  end.

End Spec.

(* how tuples are read as vectors and grids *)
Definition v2 {T} {Ops : ops T} (a : V2 T) : vec := vecof (l2 a).
Definition v3 {T} {Ops : ops T} (a : V3 T) : vec := vecof (l3 a).
Definition v4 {T} {Ops : ops T} (a : V4 T) : vec := vecof (l4 a).
Definition m3 {T} {Ops : ops T} (a : V9 T) : mat := gridof 3 (l9 a).
Definition m4 {T} {Ops : ops T} (a : V16 T) : mat := gridof 4 (l16 a).
