(* C18 - translate / from_translation / from_scale / orthogonal_projection
   build the stated transforms.  Points are row vectors (x, y, z, 1), as
   fixed by A @ v (Math/ProofsMat.v). *)
From Coq Require Import Reals List Lia Lra Bool.
From Desper Require Import Math.Sig Math.Spec Math.RInst Math.RLemmas Math.MathGen.
Import ListNotations.
Local Open Scope R_scope.

Section R.
Variable at2 : R -> R -> R.
Let RO : ops R := Rops at2.
Local Existing Instance RO.

(* what the two grids of Spec mean: they translate / scale points *)
Lemma translation_grid_acts : forall (t : vec) (x y z : R) j, (j < 4)%nat ->
  vecmat 4 (vecof [x; y; z; 1]) (translation_grid t) j
  = vecof [x + t 0%nat; y + t 1%nat; z + t 2%nat; 1] j.
Proof. intros t x y z j Hj. lt4 j; gsimp; ring. Qed.

Lemma scale_grid_acts : forall (s : vec) (x y z : R) j, (j < 4)%nat ->
  vecmat 4 (vecof [x; y; z; 1]) (scale_grid s) j
  = vecof [s 0%nat * x; s 1%nat * y; s 2%nat * z; 1] j.
Proof. intros s x y z j Hj. lt4 j; gsimp; ring. Qed.

Lemma Mat4_from_translation_ok : forall (t : V3 R) i j, (i < 4)%nat -> (j < 4)%nat ->
  m4 (Mat4_from_translation t) i j = translation_grid (v3 t) i j.
Proof. intros t i j Hi Hj. dv3 t. lt4 i; lt4 j; gsimp; first [reflexivity | ring]. Qed.

Lemma Mat4_from_scale_ok : forall (s : V3 R) i j, (i < 4)%nat -> (j < 4)%nat ->
  m4 (Mat4_from_scale s) i j = scale_grid (v3 s) i j.
Proof. intros s i j Hi Hj. dv3 s. lt4 i; lt4 j; gsimp; first [reflexivity | ring]. Qed.

(* M.translate(t) = M @ from_translation(t) *)
Lemma Mat4_translate_ok : forall (M : V16 R) (t : V3 R) i j, (i < 4)%nat -> (j < 4)%nat ->
  m4 (Mat4_translate M t) i j = mmul 4 (m4 M) (translation_grid (v3 t)) i j.
Proof. intros M t i j Hi Hj. dv16 M. dv3 t. lt4 i; lt4 j; gsimp; ring. Qed.

Lemma Mat4_translate_is_product : forall (M : V16 R) (t : V3 R),
  Mat4_translate M t = Mat4_matmul_m M (Mat4_from_translation t).
Proof. intros M t. dv16 M. dv3 t. gsimp. tuple_eq; ring. Qed.

(* points are moved by t: from_translation(t) @ (p, 1) = (p + t, 1) *)
Lemma Mat4_from_translation_acts : forall (t : V3 R) (x y z : R),
  Mat4_matmul_v (Mat4_from_translation t) (x, y, z, 1)
  = (x + v3 t 0%nat, y + v3 t 1%nat, z + v3 t 2%nat, 1).
Proof. intros t x y z. dv3 t. gsimp. tuple_eq; ring. Qed.

Lemma Mat4_from_scale_acts : forall (s : V3 R) (x y z : R),
  Mat4_matmul_v (Mat4_from_scale s) (x, y, z, 1)
  = (v3 s 0%nat * x, v3 s 1%nat * y, v3 s 2%nat * z, 1).
Proof. intros s x y z. dv3 s. gsimp. tuple_eq; ring. Qed.

(* orthogonal_projection: every corner (x in {l,r}, y in {b,t}, z in {-n,-f})
   of the viewing box goes to the corresponding corner of [-1,1]^3 *)
Lemma Mat4_orthogonal_projection_corners :
  forall l r b t n f : R, l <> r -> b <> t -> n <> f ->
  forall (sx sy sz : bool) j, (j < 4)%nat ->
    vecmat 4 (corner sx sy sz l r b t n f) (m4 (Mat4_orthogonal_projection l r b t n f)) j
    = corner_image sx sy sz j.
Proof.
  intros l r b t n f Hw Hh Hd sx sy sz j Hj.
  assert (r - l <> 0) by lra. assert (t - b <> 0) by lra. assert (f - n <> 0) by lra.
  destruct sx, sy, sz; lt4 j; gsimp; field; auto.
Qed.

(* ... and in between it is the affine map that does so *)
Lemma Mat4_orthogonal_projection_acts :
  forall l r b t n f x y z : R, l <> r -> b <> t -> n <> f ->
    Mat4_matmul_v (Mat4_orthogonal_projection l r b t n f) (x, y, z, 1)
    = (2 * (x - l) / (r - l) - 1, 2 * (y - b) / (t - b) - 1,
       2 * (- z - n) / (f - n) - 1, 1).
Proof.
  intros l r b t n f x y z Hw Hh Hd.
  assert (r - l <> 0) by lra. assert (t - b <> 0) by lra. assert (f - n <> 0) by lra.
  gsimp. tuple_eq; field; auto.
Qed.

End R.
