(* C18 - translate / from_translation / from_scale / orthogonal_projection
   build the stated transforms.  Points are row vectors (x, y, z, 1), as
   fixed by A @ v (Math/ProofsMat.v). *)
From Coq Require Import Reals List Lia Lra Bool Psatz Nsatz.
From Desper Require Import Math.Sig Math.Spec Math.RInst Math.RLemmas Math.MathGen
  Math.ProofsNorm.
Import ListNotations.
Local Open Scope R_scope.

(* name two different roots of the goal *)
Ltac unify_roots rta rtb :=
  repeat match goal with
         | |- context [sqrt ?e] =>
             lazymatch e with context [sqrt _] => fail | _ => idtac end;
             let b1 := eval cbv delta [rta] in rta in
             let b2 := eval cbv delta [rtb] in rtb in
             first [ match b1 with sqrt ?s0 => replace e with s0 by ring end; fold rta
                   | match b2 with sqrt ?s0 => replace e with s0 by ring end; fold rtb ]
         end.


Section R.
Variable at2 : R -> R -> R.
Let RO : ops R := Rops at2.
Local Existing Instance RO.

(* what the two grids of Spec mean: they translate / scale points *)
Lemma translation_grid_acts : forall (t : vec) (x y z : R) j, (j < 4)%nat ->
  vecmat 4 (vecof [x; y; z; 1]) (translation_grid t) j
  = vecof [x + t 0%nat; y + t 1%nat; z + t 2%nat; 1] j.
Proof. intros t x y z j Hj. lt4 j; gsimp; ring. Qed.

Lemma scale_grid_acts : forall (s : vec) (x y z : R) j, (j < 4)%nat ->
  vecmat 4 (vecof [x; y; z; 1]) (scale_grid s) j
  = vecof [s 0%nat * x; s 1%nat * y; s 2%nat * z; 1] j.
Proof. intros s x y z j Hj. lt4 j; gsimp; ring. Qed.

Lemma Mat4_from_translation_ok : forall (t : V3 R) i j, (i < 4)%nat -> (j < 4)%nat ->
  m4 (Mat4_from_translation t) i j = translation_grid (v3 t) i j.
Proof. intros t i j Hi Hj. dv3 t. lt4 i; lt4 j; gsimp; first [reflexivity | ring]. Qed.

Lemma Mat4_from_scale_ok : forall (s : V3 R) i j, (i < 4)%nat -> (j < 4)%nat ->
  m4 (Mat4_from_scale s) i j = scale_grid (v3 s) i j.
Proof. intros s i j Hi Hj. dv3 s. lt4 i; lt4 j; gsimp; first [reflexivity | ring]. Qed.

(* M.translate(t) = M @ from_translation(t) *)
Lemma Mat4_translate_ok : forall (M : V16 R) (t : V3 R) i j, (i < 4)%nat -> (j < 4)%nat ->
  m4 (Mat4_translate M t) i j = mmul 4 (m4 M) (translation_grid (v3 t)) i j.
Proof. intros M t i j Hi Hj. dv16 M. dv3 t. lt4 i; lt4 j; gsimp; ring. Qed.

Lemma Mat4_translate_is_product : forall (M : V16 R) (t : V3 R),
  Mat4_translate M t = Mat4_matmul_m M (Mat4_from_translation t).
Proof. intros M t. dv16 M. dv3 t. gsimp. tuple_eq; ring. Qed.

(* points are moved by t: from_translation(t) @ (p, 1) = (p + t, 1) *)
Lemma Mat4_from_translation_acts : forall (t : V3 R) (x y z : R),
  Mat4_matmul_v (Mat4_from_translation t) (x, y, z, 1)
  = (x + v3 t 0%nat, y + v3 t 1%nat, z + v3 t 2%nat, 1).
Proof. intros t x y z. dv3 t. gsimp. tuple_eq; ring. Qed.

Lemma Mat4_from_scale_acts : forall (s : V3 R) (x y z : R),
  Mat4_matmul_v (Mat4_from_scale s) (x, y, z, 1)
  = (v3 s 0%nat * x, v3 s 1%nat * y, v3 s 2%nat * z, 1).
Proof. intros s x y z. dv3 s. gsimp. tuple_eq; ring. Qed.

(* orthogonal_projection: every corner (x in {l,r}, y in {b,t}, z in {-n,-f})
   of the viewing box goes to the corresponding corner of [-1,1]^3 *)
Lemma Mat4_orthogonal_projection_corners :
  forall l r b t n f : R, l <> r -> b <> t -> n <> f ->
  forall (sx sy sz : bool) j, (j < 4)%nat ->
    vecmat 4 (corner sx sy sz l r b t n f) (m4 (Mat4_orthogonal_projection l r b t n f)) j
    = corner_image sx sy sz j.
Proof.
  intros l r b t n f Hw Hh Hd sx sy sz j Hj.
  assert (r - l <> 0) by lra. assert (t - b <> 0) by lra. assert (f - n <> 0) by lra.
  destruct sx, sy, sz; lt4 j; gsimp; field; auto.
Qed.

(* ... and in between it is the affine map that does so *)
Lemma Mat4_orthogonal_projection_acts :
  forall l r b t n f x y z : R, l <> r -> b <> t -> n <> f ->
    Mat4_matmul_v (Mat4_orthogonal_projection l r b t n f) (x, y, z, 1)
    = (2 * (x - l) / (r - l) - 1, 2 * (y - b) / (t - b) - 1,
       2 * (- z - n) / (f - n) - 1, 1).
Proof.
  intros l r b t n f x y z Hw Hh Hd.
  assert (r - l <> 0) by lra. assert (t - b <> 0) by lra. assert (f - n <> 0) by lra.
  gsimp. tuple_eq; field; auto.
Qed.

(* ---- rotation about an axis: Mat4.rotate / from_rotation ------------------ *)
(* the grid is the Rodrigues matrix (for row vectors) *)
Lemma Mat4_from_rotation_ok : forall (th : R) (u : V3 R) i j, (i < 4)%nat -> (j < 4)%nat ->
  m4 (Mat4_from_rotation th u) i j = rodrigues_grid (cos th) (sin th) (v3 u) i j.
Proof. intros th u i j Hi Hj. dv3 u. lt4 i; lt4 j; gsimp; ring. Qed.

Lemma Mat4_rotate_is_product : forall (A : V16 R) (th : R) (u : V3 R),
  Mat4_rotate A th u = Mat4_matmul_m A (Mat4_from_rotation th u).
Proof. intros A th u. dv16 A. dv3 u. gsimp. tuple_eq; ring. Qed.

(* a point p goes to  cos p + sin (u x p) + (1 - cos)(u . p) u *)
Lemma Mat4_from_rotation_acts : forall (th : R) (u : V3 R) (x y z : R),
  let p := vecof [x; y; z] in
  Mat4_matmul_v (Mat4_from_rotation th u) (x, y, z, 1)
  = (rodrigues (cos th) (sin th) (v3 u) p 0%nat, rodrigues (cos th) (sin th) (v3 u) p 1%nat,
     rodrigues (cos th) (sin th) (v3 u) p 2%nat, 1).
Proof. intros th u x y z. dv3 u. gsimp. tuple_eq; ring. Qed.

(* for a unit axis it is a rotation: orthogonal, determinant 1, the axis is fixed *)
Lemma Mat4_from_rotation_orthogonal : forall (th : R) (u : V3 R),
  dot 3 (v3 u) (v3 u) = 1 ->
  Mat4_matmul_m (Mat4_from_rotation th u) (Mat4_transpose (Mat4_from_rotation th u)) = Mat4_new.
Proof.
  intros th u Hu. dv3 u. gsimp in Hu. gsimp.
  pose proof (sin_cos_1 th) as Hcs. set (c := cos th) in *. set (s := sin th) in *.
  tuple_eq; nsatz.
Qed.

Lemma Mat4_from_rotation_axis : forall (th : R) (x y z : R),
  x * x + y * y + z * z = 1 ->
  Mat4_matmul_v (Mat4_from_rotation th (x, y, z)) (x, y, z, 1) = (x, y, z, 1).
Proof.
  intros th x y z Hu. gsimp.
  set (c := cos th) in *. set (s := sin th) in *.
  tuple_eq; nsatz.
Qed.

Lemma Mat4_from_rotation_det : forall (th : R) (u : V3 R),
  dot 3 (v3 u) (v3 u) = 1 -> det 4 (m4 (Mat4_from_rotation th u)) = 1.
Proof.
  intros th u Hu. dv3 u. gsimp in Hu. gsimp.
  pose proof (sin_cos_1 th) as Hcs. set (c := cos th) in *. set (s := sin th) in *.
  nsatz.
Qed.

(* angle 0 is the identity *)
Lemma Mat4_from_rotation_zero : forall u : V3 R, Mat4_from_rotation 0 u = Mat4_new.
Proof. intros u. dv3 u. gsimp. rewrite cos_0, sin_0. tuple_eq; ring. Qed.

(* the assert of the code: every entry of the axis lies in [-1, 1] *)
Lemma Mat4_rotate_pre : forall (A : V16 R) (th : R) (u : V3 R),
  Mat4_rotate_p A th u = true <-> (forall i, (i < 3)%nat -> Rabs (v3 u i) <= 1).
Proof.
  intros A th u. dv16 A. dv3 u. gsimp. split.
  - intros H i Hi. revert H. bcases; intro H; try discriminate;
      lt3 i; gsimp; unfold Rabs; destruct (Rcase_abs _); lra.
  - intros H.
    pose proof (H 0%nat ltac:(lia)) as H0. pose proof (H 1%nat ltac:(lia)) as H1.
    pose proof (H 2%nat ltac:(lia)) as H2. gsimp in H0. gsimp in H1. gsimp in H2.
    revert H0 H1 H2. unfold Rabs. repeat destruct (Rcase_abs _); intros; bcases;
      first [reflexivity | exfalso; lra].
Qed.

Lemma unit_axis_in_box : forall (u : V3 R) i,
  dot 3 (v3 u) (v3 u) = 1 -> (i < 3)%nat -> Rabs (v3 u i) <= 1.
Proof.
  intros u i Hu Hi. dv3 u. gsimp in Hu.
  lt3 i; gsimp; unfold Rabs; destruct (Rcase_abs _); nra.
Qed.

(* ---- perspective_projection: the standard frustum matrix ------------------ *)
Lemma Mat4_perspective_projection_ok :
  forall l r b t n f fov : R, l <> r -> b <> t -> n <> f -> n <> 0 ->
    tan (fov * PI / 360) <> 0 ->
  forall i j, (i < 4)%nat -> (j < 4)%nat ->
    m4 (Mat4_perspective_projection l r b t n f fov) i j
    = perspective_grid (1 / tan (fov * PI / 360)) ((r - l) / (t - b)) n f i j.
Proof.
  intros l r b t n f fov Hw Hh Hd Hn Ht i j Hi Hj.
  assert (r - l <> 0) by lra. assert (t - b <> 0) by lra. assert (f - n <> 0) by lra.
  assert (Hnt : n * tan (fov * PI / 360) <> 0) by (apply Rmult_integral_contrapositive; auto).
  lt4 i; lt4 j; gsimp; first [ reflexivity | ring | field; repeat split; auto; intro E; apply Hnt; lra ].
Qed.

(* the corners of the frustum go to the corners of the clip cube: with
   h = n tan(fov/2) and a = (r-l)/(t-b), the near corner (a h, h, -n) has clip
   coordinates (n, n, -n, n) (that is (1, 1, -1) after division by w) and the
   far corner (a h f/n, h f/n, -f) has (f, f, f, f) *)
Lemma Mat4_perspective_projection_corners :
  forall l r b t n f fov : R, l <> r -> b <> t -> n <> f -> n <> 0 ->
    tan (fov * PI / 360) <> 0 ->
  let h := n * tan (fov * PI / 360) in
  let a := (r - l) / (t - b) in
  Mat4_matmul_v (Mat4_perspective_projection l r b t n f fov) (a * h, h, - n, 1) = (n, n, - n, n)
  /\ Mat4_matmul_v (Mat4_perspective_projection l r b t n f fov)
                   (a * h * f / n, h * f / n, - f, 1) = (f, f, f, f).
Proof.
  intros l r b t n f fov Hw Hh Hd Hn Ht h a. subst h a.
  assert (r - l <> 0) by lra. assert (t - b <> 0) by lra. assert (f - n <> 0) by lra.
  assert (Hnt : n * tan (fov * PI / 360) <> 0) by (apply Rmult_integral_contrapositive; auto).
  gsimp. split; tuple_eq; field; repeat split; auto; intro E; apply Hnt; lra.
Qed.

Lemma Mat4_perspective_projection_default : forall l r b t n f : R,
  Mat4_perspective_projection_fov60 l r b t n f = Mat4_perspective_projection l r b t n f 60.
Proof. intros. reflexivity. Qed.

(* ---- look_at: the view matrix ---------------------------------------------- *)
(* look_at(position, target, up) is the view matrix of the frame
   f = (target - position)^, s = f x up^, u = s x f placed at position
   (Spec.lookat_grid), whenever target <> position and up <> 0 *)
Lemma Mat4_look_at_ok : forall (p t up : V3 R), t <> p -> up <> (0, 0, 0) ->
  forall i j, (i < 4)%nat -> (j < 4)%nat ->
  m4 (Mat4_look_at p t up) i j = lookat_grid (v3 p) (v3 t) (v3 up) i j.
Proof.
  intros [[p0 p1] p2] [[t0 t1] t2] [[u0 u1] u2] Htp Hup i j Hi Hj.
  assert (Hd : 0 < (t0 - p0) * (t0 - p0) + (t1 - p1) * (t1 - p1) + (t2 - p2) * (t2 - p2)).
  { apply nz3. intro E. apply Htp. injection E as E0 E1 E2. f_equal; [f_equal|]; lra. }
  pose proof (nz3 _ _ _ Hup) as Hu.
  lt4 i; lt4 j; gsimp; try reflexivity;
    (name_root rta Hrta; same_roots rta; try (name_root rtb Hrtb; unify_roots rta rtb);
     bcases; try (exfalso; nra); try (field; auto)).
Qed.

Lemma Mat4_look_at_position : forall (p t up : V3 R), t <> p -> up <> (0, 0, 0) ->
  Mat4_matmul_v (Mat4_look_at p t up) (v3 p 0%nat, v3 p 1%nat, v3 p 2%nat, 1) = (0, 0, 0, 1).
Proof.
  intros [[p0 p1] p2] [[t0 t1] t2] [[u0 u1] u2] Htp Hup.
  assert (Hd : 0 < (t0 - p0) * (t0 - p0) + (t1 - p1) * (t1 - p1) + (t2 - p2) * (t2 - p2)).
  { apply nz3. intro E. apply Htp. injection E as E0 E1 E2. f_equal; [f_equal|]; lra. }
  pose proof (nz3 _ _ _ Hup) as Hu.
  gsimp. name_root rta Hrta. name_root rtb Hrtb.
  bcases; try (exfalso; nra); tuple_eq; field; auto.
Qed.

Lemma Mat4_look_at_target : forall (p t up : V3 R), t <> p -> up <> (0, 0, 0) ->
  Mat4_matmul_v (Mat4_look_at p t up) (v3 t 0%nat, v3 t 1%nat, v3 t 2%nat, 1)
  = (0, 0, - norm 3 (vsub (v3 t) (v3 p)), 1).
Proof.
  intros [[p0 p1] p2] [[t0 t1] t2] [[u0 u1] u2] Htp Hup.
  assert (Hd : 0 < (t0 - p0) * (t0 - p0) + (t1 - p1) * (t1 - p1) + (t2 - p2) * (t2 - p2)).
  { apply nz3. intro E. apply Htp. injection E as E0 E1 E2. f_equal; [f_equal|]; lra. }
  pose proof (nz3 _ _ _ Hup) as Hu.
  gsimp. name_root rta Hrta. same_roots rta. name_root rtb Hrtb.
  bcases; try (exfalso; nra); tuple_eq; try (field; auto).
  match type of Hrta with _ = ?s =>
    transitivity (- (s / rta)); [field; auto | rewrite <- Hrta; field; auto] end.
Qed.

(* properties of that frame (textbook level, no code involved) *)
Lemma dot3_sym : forall a b : vec, dot 3 a b = dot 3 b a.
Proof. intros. gsimp. ring. Qed.
Lemma cross_orth_l : forall a b : vec, dot 3 (cross a b) a = 0.
Proof. intros. gsimp. ring. Qed.
Lemma cross_orth_r : forall a b : vec, dot 3 (cross a b) b = 0.
Proof. intros. gsimp. ring. Qed.
Lemma lagrange : forall a b : vec,
  dot 3 (cross a b) (cross a b) = dot 3 a a * dot 3 b b - dot 3 a b * dot 3 a b.
Proof. intros. gsimp. ring. Qed.
Lemma vnormalize_dot : forall u v : vec, 0 < dot 3 u u ->
  dot 3 (vnormalize 3 u) v = dot 3 u v / norm 3 u.
Proof.
  intros u v H. gsimp in H. gsimp.
  match goal with |- context [sqrt ?s] =>
    assert (Hs : 0 < sqrt s) by (apply sqrt_lt_R0; lra); set (k := sqrt s) in * end.
  field. lra.
Qed.
Lemma vnormalize_unit : forall u : vec, 0 < dot 3 u u ->
  dot 3 (vnormalize 3 u) (vnormalize 3 u) = 1.
Proof.
  intros u H. gsimp in H. gsimp.
  match goal with |- context [sqrt ?s] =>
    assert (Hs : 0 < sqrt s) by (apply sqrt_lt_R0; lra);
    assert (E : sqrt s * sqrt s = s) by (apply sqrt_sqrt; lra);
    set (k := sqrt s) in *;
    transitivity (s / (k * k)); [field; lra | rewrite <- E; field; lra]
  end.
Qed.

(* the frame of look_at: f is a unit vector, s and u are orthogonal to it and
   to each other - always; s and u are unit vectors when up is perpendicular
   to the viewing direction (in general |s| = |u| = the sine of the angle
   between them: the code does not renormalise s) *)
Lemma lookat_frame : forall p t up : vec,
  0 < dot 3 (vsub t p) (vsub t p) -> 0 < dot 3 up up ->
  let f := lookat_f p t in let s := lookat_s p t up in let u := lookat_u p t up in
  dot 3 f f = 1 /\ dot 3 s f = 0 /\ dot 3 u f = 0 /\ dot 3 s u = 0 /\
  dot 3 u u = dot 3 s s /\
  (dot 3 (vsub t p) up = 0 -> dot 3 s s = 1).
Proof.
  intros p t up Hd Hu f s u.
  assert (Hf : dot 3 f f = 1) by (apply vnormalize_unit; exact Hd).
  assert (Hsf : dot 3 s f = 0) by (apply cross_orth_l).
  split; [exact Hf|]. split; [exact Hsf|].
  split; [apply cross_orth_r|].
  split; [rewrite dot3_sym; apply cross_orth_l|].
  split.
  - unfold u, lookat_u. fold s f. rewrite lagrange. rewrite Hf, Hsf. ring.
  - intros Hperp. unfold s, lookat_s. fold f. rewrite lagrange. rewrite Hf.
    rewrite (vnormalize_unit up Hu).
    assert (E : dot 3 f (vnormalize 3 up) = 0).
    { unfold f, lookat_f. rewrite vnormalize_dot by exact Hd.
      rewrite dot3_sym, vnormalize_dot by exact Hu. rewrite dot3_sym, Hperp.
      unfold Rdiv. ring. }
    rewrite E. ring.
Qed.

(* what a view matrix does: q |-> ((q - p).s, (q - p).u, -(q - p).f, 1) *)
Lemma view_grid_acts : forall (s u f p q : vec) j, (j < 4)%nat ->
  vecmat 4 (vecof [q 0%nat; q 1%nat; q 2%nat; 1]) (view_grid s u f p) j
  = vecof [dot 3 (vsub q p) s; dot 3 (vsub q p) u; - dot 3 (vsub q p) f; 1] j.
Proof. intros s u f p q j Hj. lt4 j; gsimp; ring. Qed.

End R.
