(* C18 - evaluation of the generated model and of the textbook specification
   on what the real classes returned for exact rational inputs.

   A case is (method, entries of the arguments, entries of the result,
   "a warning was issued"), all observed on the classes of /repo.
     accepts = the definition generated from desper/math.py (Math/MathGen.v),
               read over Q (Math/QInst.v), computes exactly the observed result;
     holds_b = the observed result is what the textbook says (Math/Spec.v
               read over Q).
   The theorems (Props/C18.v) are about the same generated definitions and
   the same Spec, read over R.  No proofs in this file. *)
From Coq Require Import ZArith QArith List String Bool.
From Desper Require Import Math.Sig Math.Spec Math.QInst Math.MathGen.
Import ListNotations.

(* n/d as the harness writes it: a number, an angle token, an angle in degrees *)
Definition q (n : Z) (d : positive) : qa := Num (Qmake n d).
Definition ang (n : Z) (d : positive) : qa := Ang (Qmake n d).
Definition deg (n : Z) (d : positive) : qa := Deg (Qmake n d).

Record C18_case := {
  c_meth : string;
  c_in   : list qa;
  c_out  : list qa;
  c_warn : bool
}.

Fixpoint eql (a b : list qa) : bool :=
  match a, b with
  | [], [] => true
  | x :: a', y :: b' => geqb x y && eql a' b'
  | _, _ => false
  end.

Definition gen_run (c : C18_case) : option (list qa * bool) :=
  match lookup (c_meth c) (@gen_table qa QAops) with
  | Some f => f (c_in c)
  | None => None
  end.

(* input domain: a translated method with a textbook reading, the right
   number of entries, and the side conditions of Spec.wf_table (non-zero
   divisors, non-degenerate box, limit >= 0) *)
Definition wf_b (c : C18_case) : bool :=
  match gen_run c, lookup (c_meth c) (@spec_table qa QAops) with
  | Some _, Some _ =>
      match lookup (c_meth c) (@wf_table qa QAops) with
      | Some f => f (c_in c)
      | None => true
      end
  | _, _ => false
  end.

Definition known_b (c : C18_case) : bool := false.

Definition accepts (c : C18_case) : bool :=
  match gen_run c with
  | Some (o, w) => eql o (c_out c) && Bool.eqb w (c_warn c)
  | None => false
  end.

Definition holds_b (c : C18_case) : bool :=
  match lookup (c_meth c) (@spec_table qa QAops) with
  | Some s => s (c_in c) (c_out c) (c_warn c)
  | None => false
  end.

Definition bit (b : bool) (n : nat) : nat := if b then n else 0.
Definition C18_verdict (c : C18_case) : nat :=
  bit (wf_b c) 1 + bit (known_b c) 2 + bit (accepts c) 4 + bit (holds_b c) 8.
