(* C18 - Mat3 / Mat4 arithmetic and products.  [mN A] reads the tuple A as
   the grid (i, j) |-> A_(N*i+j): the grid the values are written in.

   Convention found in the code (stated by the theorems below):
     (A @ B)(i, j) = sum_k A(i, k) * B(k, j)        row by column;
     (A @ v)(j)    = sum_k v(k) * A(k, j)           v is a ROW vector,
   hence (A @ B) @ v = B @ (A @ v). *)
From Coq Require Import Reals List Lia Lra Bool.
From Desper Require Import Math.Sig Math.Spec Math.RInst Math.RLemmas Math.MathGen.
Import ListNotations.
Local Open Scope R_scope.

Ltac msolve := gsimp; first [ reflexivity | ring ].

Section R.
Variable at2 : R -> R -> R.
Let RO : ops R := Rops at2.
Local Existing Instance RO.


(* ---- Mat3 ---- *)
Lemma Mat3_new_ok : forall i j, (i < 3)%nat -> (j < 3)%nat -> m3 Mat3_new i j = mident i j.
Proof. intros i j Hi Hj. lt3 i; lt3 j; msolve. Qed.
Lemma Mat3_add_ok : forall (A B : V9 R) i j, (i < 3)%nat -> (j < 3)%nat -> m3 (Mat3_add A B) i j = madd (m3 A) (m3 B) i j.
Proof. intros A B i j Hi Hj. dv9 A. dv9 B. lt3 i; lt3 j; msolve. Qed.
Lemma Mat3_sub_ok : forall (A B : V9 R) i j, (i < 3)%nat -> (j < 3)%nat -> m3 (Mat3_sub A B) i j = msub (m3 A) (m3 B) i j.
Proof. intros A B i j Hi Hj. dv9 A. dv9 B. lt3 i; lt3 j; msolve. Qed.
Lemma Mat3_neg_ok : forall (A : V9 R) i j, (i < 3)%nat -> (j < 3)%nat -> m3 (Mat3_neg A) i j = mneg (m3 A) i j.
Proof. intros A i j Hi Hj. dv9 A. lt3 i; lt3 j; msolve. Qed.
Lemma Mat3_pos_ok : forall A : V9 R, Mat3_pos A = A.
Proof. intros A. dv9 A. reflexivity. Qed.
(* A @ B is the row-by-column product of the written grids *)
Lemma Mat3_matmul_m_ok : forall (A B : V9 R) i j, (i < 3)%nat -> (j < 3)%nat -> m3 (Mat3_matmul_m A B) i j = mmul 3 (m3 A) (m3 B) i j.
Proof. intros A B i j Hi Hj. dv9 A. dv9 B. lt3 i; lt3 j; msolve. Qed.
(* A @ v is the row vector v times A *)
Lemma Mat3_matmul_v_ok : forall (A : V9 R) (x : V3 R) j, (j < 3)%nat -> v3 (Mat3_matmul_v A x) j = vecmat 3 (v3 x) (m3 A) j.
Proof. intros A x j Hj. dv9 A. dv3 x. lt3 j; msolve. Qed.
Lemma Mat3_matmul_assoc : forall A B C : V9 R, Mat3_matmul_m (Mat3_matmul_m A B) C = Mat3_matmul_m A (Mat3_matmul_m B C).
Proof. intros A B C. dv9 A. dv9 B. dv9 C. gsimp. tuple_eq; ring. Qed.
(* the default matrix is a two-sided identity *)
Lemma Mat3_matmul_id_l : forall A : V9 R, Mat3_matmul_m Mat3_new A = A.
Proof. intros A. dv9 A. gsimp. tuple_eq; ring. Qed.
Lemma Mat3_matmul_id_r : forall A : V9 R, Mat3_matmul_m A Mat3_new = A.
Proof. intros A. dv9 A. gsimp. tuple_eq; ring. Qed.
Lemma Mat3_matmul_id_v : forall x : V3 R, Mat3_matmul_v Mat3_new x = x.
Proof. intros x. dv3 x. gsimp. tuple_eq; ring. Qed.
Lemma Mat3_matmul_vec_compose : forall (A B : V9 R) (x : V3 R), Mat3_matmul_v (Mat3_matmul_m A B) x = Mat3_matmul_v B (Mat3_matmul_v A x).
Proof. intros A B x. dv9 A. dv9 B. dv3 x. gsimp. tuple_eq; ring. Qed.

(* ---- Mat4 ---- *)
Lemma Mat4_new_ok : forall i j, (i < 4)%nat -> (j < 4)%nat -> m4 Mat4_new i j = mident i j.
Proof. intros i j Hi Hj. lt4 i; lt4 j; msolve. Qed.
Lemma Mat4_add_ok : forall (A B : V16 R) i j, (i < 4)%nat -> (j < 4)%nat -> m4 (Mat4_add A B) i j = madd (m4 A) (m4 B) i j.
Proof. intros A B i j Hi Hj. dv16 A. dv16 B. lt4 i; lt4 j; msolve. Qed.
Lemma Mat4_sub_ok : forall (A B : V16 R) i j, (i < 4)%nat -> (j < 4)%nat -> m4 (Mat4_sub A B) i j = msub (m4 A) (m4 B) i j.
Proof. intros A B i j Hi Hj. dv16 A. dv16 B. lt4 i; lt4 j; msolve. Qed.
Lemma Mat4_neg_ok : forall (A : V16 R) i j, (i < 4)%nat -> (j < 4)%nat -> m4 (Mat4_neg A) i j = mneg (m4 A) i j.
Proof. intros A i j Hi Hj. dv16 A. lt4 i; lt4 j; msolve. Qed.
Lemma Mat4_pos_ok : forall A : V16 R, Mat4_pos A = A.
Proof. intros A. dv16 A. reflexivity. Qed.
(* A @ B is the row-by-column product of the written grids *)
Lemma Mat4_matmul_m_ok : forall (A B : V16 R) i j, (i < 4)%nat -> (j < 4)%nat -> m4 (Mat4_matmul_m A B) i j = mmul 4 (m4 A) (m4 B) i j.
Proof. intros A B i j Hi Hj. dv16 A. dv16 B. lt4 i; lt4 j; msolve. Qed.
(* A @ v is the row vector v times A *)
Lemma Mat4_matmul_v_ok : forall (A : V16 R) (x : V4 R) j, (j < 4)%nat -> v4 (Mat4_matmul_v A x) j = vecmat 4 (v4 x) (m4 A) j.
Proof. intros A x j Hj. dv16 A. dv4 x. lt4 j; msolve. Qed.
Lemma Mat4_matmul_assoc : forall A B C : V16 R, Mat4_matmul_m (Mat4_matmul_m A B) C = Mat4_matmul_m A (Mat4_matmul_m B C).
Proof. intros A B C. dv16 A. dv16 B. dv16 C. gsimp. tuple_eq; ring. Qed.
(* the default matrix is a two-sided identity *)
Lemma Mat4_matmul_id_l : forall A : V16 R, Mat4_matmul_m Mat4_new A = A.
Proof. intros A. dv16 A. gsimp. tuple_eq; ring. Qed.
Lemma Mat4_matmul_id_r : forall A : V16 R, Mat4_matmul_m A Mat4_new = A.
Proof. intros A. dv16 A. gsimp. tuple_eq; ring. Qed.
Lemma Mat4_matmul_id_v : forall x : V4 R, Mat4_matmul_v Mat4_new x = x.
Proof. intros x. dv4 x. gsimp. tuple_eq; ring. Qed.
Lemma Mat4_matmul_vec_compose : forall (A B : V16 R) (x : V4 R), Mat4_matmul_v (Mat4_matmul_m A B) x = Mat4_matmul_v B (Mat4_matmul_v A x).
Proof. intros A B x. dv16 A. dv16 B. dv4 x. gsimp. tuple_eq; ring. Qed.

(* ---- transpose ---- *)
Lemma Mat4_transpose_ok : forall (A : V16 R) i j, (i < 4)%nat -> (j < 4)%nat -> m4 (Mat4_transpose A) i j = m4 A j i.
Proof. intros A i j Hi Hj. dv16 A. lt4 i; lt4 j; msolve. Qed.
Lemma Mat4_transpose_spec : forall (A : V16 R) i j, (i < 4)%nat -> (j < 4)%nat -> m4 (Mat4_transpose A) i j = mtrans (m4 A) i j.
Proof. intros A i j Hi Hj. unfold mtrans. apply Mat4_transpose_ok; assumption. Qed.
Lemma Mat4_transpose_involutive : forall A : V16 R, Mat4_transpose (Mat4_transpose A) = A.
Proof. intros A. dv16 A. reflexivity. Qed.
Lemma Mat4_transpose_matmul : forall A B : V16 R,
  Mat4_transpose (Mat4_matmul_m A B) = Mat4_matmul_m (Mat4_transpose B) (Mat4_transpose A).
Proof. intros A B. dv16 A. dv16 B. gsimp. tuple_eq; ring. Qed.

(* the indexed sum written out *)
Lemma mmul4_unfolded : forall (A B : mat) i j,
  mmul 4 A B i j = A i 0%nat * B 0%nat j + A i 1%nat * B 1%nat j + A i 2%nat * B 2%nat j + A i 3%nat * B 3%nat j.
Proof. intros. gsimp. ring. Qed.
Lemma m4_entry : forall a0 a1 a2 a3 a4 a5 a6 a7 a8 a9 a10 a11 a12 a13 a14 a15 : R,
  let A := m4 (a0, a1, a2, a3, a4, a5, a6, a7, a8, a9, a10, a11, a12, a13, a14, a15) in
  A 0%nat 1%nat = a1 /\ A 1%nat 0%nat = a4 /\ A 2%nat 3%nat = a11 /\ A 3%nat 2%nat = a14.
Proof. intros. gsimp. auto. Qed.

(* ---- second round: rows, columns, Mat4.scale, the Mat3 transforms, rounding ---- *)
Lemma Mat4_row_0_ok : forall (A : V16 R) j, (j < 4)%nat -> v4 (Mat4_row_0 A) j = m4 A 0%nat j.
Proof. intros A j Hj. dv16 A. lt4 j; reflexivity. Qed.
Lemma Mat4_column_0_ok : forall (A : V16 R) i, (i < 4)%nat -> v4 (Mat4_column_0 A) i = m4 A i 0%nat.
Proof. intros A i Hi. dv16 A. lt4 i; reflexivity. Qed.
Lemma Mat4_row_1_ok : forall (A : V16 R) j, (j < 4)%nat -> v4 (Mat4_row_1 A) j = m4 A 1%nat j.
Proof. intros A j Hj. dv16 A. lt4 j; reflexivity. Qed.
Lemma Mat4_column_1_ok : forall (A : V16 R) i, (i < 4)%nat -> v4 (Mat4_column_1 A) i = m4 A i 1%nat.
Proof. intros A i Hi. dv16 A. lt4 i; reflexivity. Qed.
Lemma Mat4_row_2_ok : forall (A : V16 R) j, (j < 4)%nat -> v4 (Mat4_row_2 A) j = m4 A 2%nat j.
Proof. intros A j Hj. dv16 A. lt4 j; reflexivity. Qed.
Lemma Mat4_column_2_ok : forall (A : V16 R) i, (i < 4)%nat -> v4 (Mat4_column_2 A) i = m4 A i 2%nat.
Proof. intros A i Hi. dv16 A. lt4 i; reflexivity. Qed.
Lemma Mat4_row_3_ok : forall (A : V16 R) j, (j < 4)%nat -> v4 (Mat4_row_3 A) j = m4 A 3%nat j.
Proof. intros A j Hj. dv16 A. lt4 j; reflexivity. Qed.
Lemma Mat4_column_3_ok : forall (A : V16 R) i, (i < 4)%nat -> v4 (Mat4_column_3 A) i = m4 A i 3%nat.
Proof. intros A i Hi. dv16 A. lt4 i; reflexivity. Qed.

(* Mat4.scale multiplies the diagonal entries 0, 5, 10 ... *)
Lemma Mat4_scale_ok : forall (A : V16 R) (s : V3 R) i j, (i < 4)%nat -> (j < 4)%nat ->
  m4 (Mat4_scale A s) i j = scale_diag (m4 A) (v3 s) i j.
Proof. intros A s i j Hi Hj. dv16 A. dv3 s. lt4 i; lt4 j; msolve. Qed.
(* ... which is A @ from_scale(s) when the rest of the first three columns is
   zero (the identity, scale matrices; NOT a matrix with a translation row) *)
Lemma Mat4_scale_is_product : forall (A : V16 R) (s : V3 R),
  (forall i j, (i < 4)%nat -> (j < 3)%nat -> i <> j -> m4 A i j = 0) ->
  Mat4_scale A s = Mat4_matmul_m A (Mat4_from_scale s).
Proof.
  intros A s H. dv16 A. dv3 s.
  pose proof (H 0%nat 1%nat ltac:(lia) ltac:(lia) ltac:(lia)) as H01.
  pose proof (H 0%nat 2%nat ltac:(lia) ltac:(lia) ltac:(lia)) as H02.
  pose proof (H 1%nat 0%nat ltac:(lia) ltac:(lia) ltac:(lia)) as H10.
  pose proof (H 1%nat 2%nat ltac:(lia) ltac:(lia) ltac:(lia)) as H12.
  pose proof (H 2%nat 0%nat ltac:(lia) ltac:(lia) ltac:(lia)) as H20.
  pose proof (H 2%nat 1%nat ltac:(lia) ltac:(lia) ltac:(lia)) as H21.
  pose proof (H 3%nat 0%nat ltac:(lia) ltac:(lia) ltac:(lia)) as H30.
  pose proof (H 3%nat 1%nat ltac:(lia) ltac:(lia) ltac:(lia)) as H31.
  pose proof (H 3%nat 2%nat ltac:(lia) ltac:(lia) ltac:(lia)) as H32.
  gsimp in H01. gsimp in H02. gsimp in H10. gsimp in H12. gsimp in H20. gsimp in H21.
  gsimp in H30. gsimp in H31. gsimp in H32. clear H. subst.
  gsimp. tuple_eq; ring.
Qed.

(* the Mat3 transforms: M @ the stated matrix (as the code writes them:
   scale divides by its arguments, translate moves by (-tx, +ty)) *)
Lemma Mat3_scale_ok : forall (A : V9 R) (sx sy : R) i j, (i < 3)%nat -> (j < 3)%nat ->
  m3 (Mat3_scale A sx sy) i j = mmul 3 (m3 A) (m3_scale sx sy) i j.
Proof. intros A sx sy i j Hi Hj. dv9 A. lt3 i; lt3 j; msolve. Qed.
Lemma Mat3_translate_ok : forall (A : V9 R) (tx ty : R) i j, (i < 3)%nat -> (j < 3)%nat ->
  m3 (Mat3_translate A tx ty) i j = mmul 3 (m3 A) (m3_translate tx ty) i j.
Proof. intros A tx ty i j Hi Hj. dv9 A. lt3 i; lt3 j; msolve. Qed.
Lemma Mat3_rotate_ok : forall (A : V9 R) (phi : R) i j, (i < 3)%nat -> (j < 3)%nat ->
  m3 (Mat3_rotate A phi) i j
  = mmul 3 (m3 A) (m3_rotate (cos (phi * PI / 180)) (sin (phi * PI / 180))) i j.
Proof. intros A phi i j Hi Hj. dv9 A. lt3 i; lt3 j; gsimp; unfold Rradians; ring. Qed.
Lemma Mat3_shear_ok : forall (A : V9 R) (sx sy : R) i j, (i < 3)%nat -> (j < 3)%nat ->
  m3 (Mat3_shear A sx sy) i j = mmul 3 (m3 A) (m3_shear sx sy) i j.
Proof. intros A sx sy i j Hi Hj. dv9 A. lt3 i; lt3 j; msolve. Qed.
(* what they do to a point (x, y, 1), starting from the identity *)
Lemma Mat3_transforms_act : forall x y a b phi : R, a <> 0 -> b <> 0 ->
  Mat3_matmul_v (Mat3_scale Mat3_new a b) (x, y, 1) = (x / a, y / b, 1) /\
  Mat3_matmul_v (Mat3_translate Mat3_new a b) (x, y, 1) = (x - a, y + b, 1) /\
  Mat3_matmul_v (Mat3_rotate Mat3_new phi) (x, y, 1)
  = (x * cos (phi * PI / 180) - y * sin (phi * PI / 180),
     x * sin (phi * PI / 180) + y * cos (phi * PI / 180), 1) /\
  Mat3_matmul_v (Mat3_shear Mat3_new a b) (x, y, 1) = (x + a * y, b * x + y, 1).
Proof.
  intros x y a b phi Ha Hb. gsimp. unfold Rradians.
  repeat split; tuple_eq; first [ring | field; assumption].
Qed.

(* __round__ rounds every entry (Rround: half to even, Math/RInst.v) *)
Lemma Vec2_round_n_ok : forall (a : V2 R) i, (i < 2)%nat -> v2 (Vec2_round_n a) i = Rround (v2 a i) 0.
Proof. intros a i Hi. dv2 a. lt2 i; reflexivity. Qed.
Lemma Vec2_round_2_ok : forall (a : V2 R) i, (i < 2)%nat -> v2 (Vec2_round_2 a) i = Rround (v2 a i) 2.
Proof. intros a i Hi. dv2 a. lt2 i; reflexivity. Qed.
Lemma Vec3_round_n_ok : forall (a : V3 R) i, (i < 3)%nat -> v3 (Vec3_round_n a) i = Rround (v3 a i) 0.
Proof. intros a i Hi. dv3 a. lt3 i; reflexivity. Qed.
Lemma Vec3_round_2_ok : forall (a : V3 R) i, (i < 3)%nat -> v3 (Vec3_round_2 a) i = Rround (v3 a i) 2.
Proof. intros a i Hi. dv3 a. lt3 i; reflexivity. Qed.
Lemma Vec4_round_n_ok : forall (a : V4 R) i, (i < 4)%nat -> v4 (Vec4_round_n a) i = Rround (v4 a i) 0.
Proof. intros a i Hi. dv4 a. lt4 i; reflexivity. Qed.
Lemma Vec4_round_2_ok : forall (a : V4 R) i, (i < 4)%nat -> v4 (Vec4_round_2 a) i = Rround (v4 a i) 2.
Proof. intros a i Hi. dv4 a. lt4 i; reflexivity. Qed.
Lemma Mat3_round_n_ok : forall (A : V9 R) i j, (i < 3)%nat -> (j < 3)%nat -> m3 (Mat3_round_n A) i j = Rround (m3 A i j) 0.
Proof. intros A i j Hi Hj. dv9 A. lt3 i; lt3 j; reflexivity. Qed.
Lemma Mat3_round_2_ok : forall (A : V9 R) i j, (i < 3)%nat -> (j < 3)%nat -> m3 (Mat3_round_2 A) i j = Rround (m3 A i j) 2.
Proof. intros A i j Hi Hj. dv9 A. lt3 i; lt3 j; reflexivity. Qed.
Lemma Mat4_round_n_ok : forall (A : V16 R) i j, (i < 4)%nat -> (j < 4)%nat -> m4 (Mat4_round_n A) i j = Rround (m4 A i j) 0.
Proof. intros A i j Hi Hj. dv16 A. lt4 i; lt4 j; reflexivity. Qed.
Lemma Mat4_round_2_ok : forall (A : V16 R) i j, (i < 4)%nat -> (j < 4)%nat -> m4 (Mat4_round_2 A) i j = Rround (m4 A i j) 2.
Proof. intros A i j Hi Hj. dv16 A. lt4 i; lt4 j; reflexivity. Qed.
(* what Rround is: a multiple of 10^-n within half a unit of x *)
Lemma Rround_int_close : forall x : R, Rabs (IZR (Rround_int x) - x) <= 1 / 2.
Proof.
  intros x. unfold Rround_int, Rfloor.
  destruct (archimed x) as [H1 H2]. rewrite minus_IZR.
  set (u := IZR (up x)) in *.
  destruct (Rltb_spec (x - (u - 1)) (1 / 2)); [|destruct (Rltb_spec (1 / 2) (x - (u - 1)))];
    [ | | destruct (Z.even (up x - 1))];
    rewrite ?plus_IZR, ?minus_IZR; fold u; apply Rabs_le; split; lra.
Qed.

End R.
