(* C18 - lemmas and tactics shared by the proofs over R. *)
From Coq Require Import Reals List Lia Lra Bool.
From Desper Require Import Math.Sig Math.Spec Math.RInst.
Import ListNotations.
Local Open Scope R_scope.

Lemma Reqb_spec : forall x y : R, reflect (x = y) (Reqb x y).
Proof. intros x y. unfold Reqb. destruct (Req_EM_T x y); constructor; assumption. Qed.

Lemma Rltb_spec : forall x y : R, reflect (x < y) (Rltb x y).
Proof. intros x y. unfold Rltb. destruct (Rlt_dec x y); constructor; assumption. Qed.

Lemma Reqb_refl : forall x : R, Reqb x x = true.
Proof. intro x. destruct (Reqb_spec x x); [reflexivity | congruence]. Qed.

(* unfold everything down to the operations of R *)
Ltac gsimp :=
  cbv -[IZR Rplus Rmult Rminus Ropp Rdiv Rinv sqrt cos sin tan Reqb Rltb Rmin Rmax Rabs PI
        Rlt Rle Rgt Rge Rround Rradians].
Tactic Notation "gsimp" "in" hyp(H) :=
  cbv -[IZR Rplus Rmult Rminus Ropp Rdiv Rinv sqrt cos sin tan Reqb Rltb Rmin Rmax Rabs PI
        Rlt Rle Rgt Rge Rround Rradians] in H.

(* tuples *)
Ltac dv2 a := destruct a as [? ?].
Ltac dv3 a := destruct a as [[? ?] ?].
Ltac dv4 a := destruct a as [[[? ?] ?] ?].
Ltac dv9 a := destruct a as [[[[[[[[? ?] ?] ?] ?] ?] ?] ?] ?].
Ltac dv16 a := destruct a as [[[[[[[[[[[[[[[? ?] ?] ?] ?] ?] ?] ?] ?] ?] ?] ?] ?] ?] ?] ?].
Ltac tuple_eq := repeat match goal with |- (_, _) = (_, _) => apply f_equal2 end.

(* index below a bound *)
Ltac lt2 i := destruct i as [|[|i]]; [ | | exfalso; lia].
Ltac lt3 i := destruct i as [|[|[|i]]]; [ | | | exfalso; lia].
Ltac lt4 i := destruct i as [|[|[|[|i]]]]; [ | | | | exfalso; lia].

(* case analysis on every comparison of the generated code, innermost first *)
Ltac no_cmp t :=
  lazymatch t with
  | context [Rltb _ _] => fail
  | context [Reqb _ _] => fail
  | _ => idtac
  end.
Ltac bcases :=
  repeat (match goal with
          | |- context [Rltb ?a ?b] => no_cmp a; no_cmp b; destruct (Rltb_spec a b)
          | |- context [Reqb ?a ?b] => no_cmp a; no_cmp b; destruct (Reqb_spec a b)
          end; cbv beta iota);
  cbn [negb andb orb].

Lemma gmin_Rmin : forall at2 a b, @gmin R (Rops at2) a b = Rmin a b.
Proof.
  intros at2 a b. gsimp. destruct (Rltb_spec b a).
  - rewrite Rmin_right; [reflexivity | lra].
  - rewrite Rmin_left; [reflexivity | lra].
Qed.

Lemma gmax_Rmax : forall at2 a b, @gmax R (Rops at2) a b = Rmax a b.
Proof.
  intros at2 a b. gsimp. destruct (Rltb_spec a b).
  - rewrite Rmax_right; [reflexivity | lra].
  - rewrite Rmax_left; [reflexivity | lra].
Qed.

Lemma gabs_Rabs : forall at2 a, @gabs R (Rops at2) a = Rabs a.
Proof.
  intros at2 a. gsimp. destruct (Rltb_spec a 0).
  - rewrite Rabs_left; [reflexivity | lra].
  - rewrite Rabs_right; [reflexivity | lra].
Qed.

(* name the square root in the goal: d * d = s, 0 <= d *)
Ltac name_sqrt d Hd :=
  match goal with
  | |- context [sqrt ?s] =>
      let Hs := fresh "Hs" in
      let Hp := fresh "Hp" in
      assert (Hs : 0 <= s) by nra;
      pose proof (sqrt_sqrt s Hs) as Hd;
      pose proof (sqrt_positivity s Hs) as Hp;
      set (d := sqrt s) in *
  end.

Lemma sqrt_sq_abs : forall x, sqrt (x * x) = Rabs x.
Proof. intro x. apply sqrt_Rsqr_abs. Qed.

Lemma sqrt_eq_of_sq : forall x y, 0 <= y -> y * y = x -> sqrt x = y.
Proof. intros x y Hy E. apply sqrt_lem_1; [rewrite <- E; nra | assumption | assumption]. Qed.

Lemma sin_cos_1 : forall x, sin x * sin x + cos x * cos x = 1.
Proof. intro x. exact (sin2_cos2 x). Qed.
