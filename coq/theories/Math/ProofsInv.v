(* C18 - ~M is the two-sided inverse of every non-singular Mat4; a singular
   one is returned unchanged, and the warning is issued exactly then.
   [det] is the textbook determinant (Laplace expansion, Math/Spec.v). *)
From Coq Require Import Reals List Lia Lra Bool.
From Desper Require Import Math.Sig Math.Spec Math.RInst Math.RLemmas Math.MathGen.
Import ListNotations.
Local Open Scope R_scope.

Section R.
Variable at2 : R -> R -> R.
Let RO : ops R := Rops at2.
Local Existing Instance RO.

(* the test the code makes, whatever expression it uses for the determinant *)
Ltac split_on_det Hdet :=
  match goal with
  | |- context [Reqb ?d 0] =>
      destruct (Reqb_spec d 0) as [E | NE]; cbv beta iota;
      [ try (exfalso; apply Hdet; etransitivity; [ | exact E]; ring)
      | try (exfalso; apply NE; etransitivity; [ | exact Hdet]; ring) ]
  end.

Lemma Mat4_invert_right : forall A : V16 R,
  det 4 (m4 A) <> 0 -> Mat4_matmul_m A (Mat4_invert A) = Mat4_new.
Proof.
  intros A Hdet. dv16 A. gsimp in Hdet. gsimp. split_on_det Hdet.
  tuple_eq; field; exact NE.
Qed.

Lemma Mat4_invert_left : forall A : V16 R,
  det 4 (m4 A) <> 0 -> Mat4_matmul_m (Mat4_invert A) A = Mat4_new.
Proof.
  intros A Hdet. dv16 A. gsimp in Hdet. gsimp. split_on_det Hdet.
  tuple_eq; field; exact NE.
Qed.

Lemma Mat4_invert_singular : forall A : V16 R,
  det 4 (m4 A) = 0 -> Mat4_invert A = A.
Proof.
  intros A Hdet. dv16 A. gsimp in Hdet. gsimp. split_on_det Hdet.
  reflexivity.
Qed.

Lemma Mat4_invert_warns : forall A : V16 R,
  Mat4_invert_w A = true <-> det 4 (m4 A) = 0.
Proof.
  intros A. dv16 A. gsimp.
  match goal with |- context [Reqb ?d 0] => destruct (Reqb_spec d 0) as [E | NE] end.
  - split; [intros _; etransitivity; [ | exact E]; ring | reflexivity].
  - split; [discriminate | intro H; exfalso; apply NE; etransitivity; [ | exact H]; ring].
Qed.

(* the determinant of Spec written out for 2 x 2, to read the definition *)
Lemma det2_unfolded : forall A : mat,
  det 2 A = A 0%nat 0%nat * A 1%nat 1%nat - A 0%nat 1%nat * A 1%nat 0%nat.
Proof. intros. gsimp. ring. Qed.
(* multiplicativity on the generated product: det (A @ B) = det A * det B *)
Lemma det_matmul : forall A B : V16 R,
  det 4 (m4 (Mat4_matmul_m A B)) = det 4 (m4 A) * det 4 (m4 B).
Proof. intros A B. dv16 A. dv16 B. gsimp. ring. Qed.

End R.
