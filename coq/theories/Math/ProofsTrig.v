(* C18 - from_polar, from_heading, rotate: the operations with angles.

   The code computes a heading with math.atan2.  Nothing is assumed about
   [at2] except, for the last theorem only, the hypothesis [polar]: atan2 y x
   is a polar angle of (x, y).  It is a hypothesis of that theorem (a
   parameter), not an axiom; [polar_satisfiable] shows that it is not vacuous. *)
From Coq Require Import Reals List Lia Lra Bool Psatz.
From Desper Require Import Math.Sig Math.Spec Math.RInst Math.RLemmas Math.MathGen
  Math.ProofsNorm.
Import ListNotations.
Local Open Scope R_scope.

(* (cos h, sin h): the unit vector of heading h *)
Definition unit_of (h : R) : nat -> R := fun i => nth i [cos h; sin h] 0.

Definition polar (at2 : R -> R -> R) : Prop :=
  forall x y : R, x = sqrt (x * x + y * y) * cos (at2 y x) /\
                  y = sqrt (x * x + y * y) * sin (at2 y x).

(* the hypothesis is satisfiable: the usual definition of atan2 from atan *)
Definition atan2_ref (y x : R) : R :=
  if Rlt_dec 0 x then atan (y / x)
  else if Rlt_dec x 0 then atan (y / x) + PI
  else if Rlt_dec 0 y then PI / 2
  else if Rlt_dec y 0 then - (PI / 2) else 0.

Lemma root_factor : forall x y, x <> 0 ->
  sqrt (x * x + y * y) = Rabs x * sqrt (1 + (y / x)²).
Proof.
  intros x y Hx.
  assert (H1 : 0 <= 1 + (y / x)²) by (unfold Rsqr; nra).
  apply sqrt_eq_of_sq.
  - apply Rmult_le_pos; [apply Rabs_pos | apply sqrt_positivity; exact H1].
  - transitivity (Rabs x * Rabs x * (sqrt (1 + (y / x)²) * sqrt (1 + (y / x)²))); [ring|].
    rewrite sqrt_sqrt by exact H1.
    replace (Rabs x * Rabs x) with (x * x).
    + unfold Rsqr. field. exact Hx.
    + unfold Rabs. destruct (Rcase_abs x); ring.
Qed.

Lemma polar_satisfiable : polar atan2_ref.
Proof.
  intros x y. unfold atan2_ref.
  destruct (Rlt_dec 0 x) as [Hx|Hx]; [|destruct (Rlt_dec x 0) as [Hx'|Hx']].
  - assert (H1 : 0 < 1 + (y / x)²) by (unfold Rsqr; nra).
    pose proof (sqrt_lt_R0 _ H1) as Hs.
    rewrite cos_atan, sin_atan, root_factor by lra. rewrite Rabs_right by lra.
    split; field; lra.
  - assert (H1 : 0 < 1 + (y / x)²) by (unfold Rsqr; nra).
    pose proof (sqrt_lt_R0 _ H1) as Hs.
    rewrite neg_cos, neg_sin, cos_atan, sin_atan, root_factor by lra. rewrite Rabs_left by lra.
    split; field; lra.
  - assert (x = 0) by lra. subst x.
    replace (0 * 0 + y * y) with (y * y) by ring.
    destruct (Rlt_dec 0 y) as [Hy|Hy]; [|destruct (Rlt_dec y 0) as [Hy'|Hy']].
    + rewrite cos_PI2, sin_PI2, (sqrt_eq_of_sq (y * y) y) by lra. split; ring.
    + rewrite cos_neg, sin_neg, cos_PI2, sin_PI2, (sqrt_eq_of_sq (y * y) (- y)) by lra.
      split; ring.
    + assert (y = 0) by lra. subst y. rewrite Rmult_0_l, sqrt_0. split; ring.
Qed.

Lemma sq_cos_sin : forall d h, 0 <= d ->
  sqrt (d * cos h * (d * cos h) + d * sin h * (d * sin h)) = d.
Proof.
  intros d h Hd. apply sqrt_eq_of_sq; [assumption|].
  pose proof (sin_cos_1 h). nra.
Qed.

Section R.
Variable at2 : R -> R -> R.
Let RO : ops R := Rops at2.
Local Existing Instance RO.

(* from_polar m h = m * (cos h, sin h), of length |m| *)
Lemma Vec2_from_polar_ok : forall (m h : R) i, (i < 2)%nat ->
  v2 (Vec2_from_polar m h) i = m * unit_of h i.
Proof. intros m h i Hi. lt2 i; gsimp; ring. Qed.

Lemma Vec2_from_polar_norm : forall m h : R, norm 2 (v2 (Vec2_from_polar m h)) = Rabs m.
Proof.
  intros m h. gsimp. rewrite <- sqrt_sq_abs. f_equal.
  pose proof (sin_cos_1 h). nra.
Qed.

(* from_heading v h = |v| * (cos h, sin h): the magnitude of v, the heading h *)
Lemma Vec2_from_heading_ok : forall (a : V2 R) (h : R) i, (i < 2)%nat ->
  v2 (Vec2_from_heading a h) i = norm 2 (v2 a) * unit_of h i.
Proof.
  intros [a0 a1] h i Hi. lt2 i; gsimp; name_root d Hd; same_roots d; ring.
Qed.

Lemma Vec2_from_heading_pair : forall (a : V2 R) (h : R),
  Vec2_from_heading a h = (norm 2 (v2 a) * cos h, norm 2 (v2 a) * sin h).
Proof.
  intros [a0 a1] h. gsimp. name_root d Hd. same_roots d. tuple_eq; ring.
Qed.

Lemma Vec2_from_polar_pair : forall m h : R, Vec2_from_polar m h = (m * cos h, m * sin h).
Proof. intros m h. gsimp. tuple_eq; ring. Qed.

Lemma Vec2_from_heading_norm : forall (a : V2 R) (h : R),
  norm 2 (v2 (Vec2_from_heading a h)) = norm 2 (v2 a).
Proof.
  intros [a0 a1] h. gsimp. name_root d Hd. same_roots d.
  match goal with |- sqrt ?e = _ =>
    replace e with (d * cos h * (d * cos h) + d * sin h * (d * sin h)) by ring end.
  apply sq_cos_sin. assumption.
Qed.

(* rotate keeps the magnitude, whatever atan2 is *)
Lemma Vec2_rotate_norm : forall (a : V2 R) (phi : R),
  norm 2 (v2 (Vec2_rotate a phi)) = norm 2 (v2 a).
Proof.
  intros [a0 a1] phi. gsimp.
  first
    [ (* via magnitude and heading, as the code does *)
      name_root d Hd; same_roots d;
      match goal with |- sqrt ?e = _ =>
        match e with context [cos ?h] =>
          replace e with (d * cos h * (d * cos h) + d * sin h * (d * sin h)) by ring end end;
      apply sq_cos_sin; assumption
    | (* or any polynomial in cos phi, sin phi *)
      f_equal; pose proof (sin_cos_1 phi); nra ].
Qed.

(* if atan2 returns a polar angle, rotate is the rotation matrix applied to v *)
Lemma Vec2_rotate_ok : polar at2 -> forall (a : V2 R) (phi : R),
  Vec2_rotate a phi = (cos phi * v2 a 0%nat - sin phi * v2 a 1%nat,
                       sin phi * v2 a 0%nat + cos phi * v2 a 1%nat).
Proof.
  intros Hpolar [a0 a1] phi. destruct (Hpolar a0 a1) as [Hx Hy].
  gsimp.
  first
    [ name_root d Hd; same_roots d;
      match type of Hd with _ = ?s =>
        replace (a0 * a0 + a1 * a1) with s in Hx, Hy by ring end;
      fold d in Hx, Hy;
      set (h := at2 a1 a0) in *; rewrite cos_plus, sin_plus;
      tuple_eq;
      [ transitivity (cos phi * (d * cos h) - sin phi * (d * sin h)); [ring|];
        rewrite <- Hx, <- Hy; reflexivity
      | transitivity (sin phi * (d * cos h) + cos phi * (d * sin h)); [ring|];
        rewrite <- Hx, <- Hy; reflexivity ]
    | tuple_eq; ring ].
Qed.

(* the heading of from_heading v h is h (as a direction), for v <> 0 *)
Lemma Vec2_from_heading_dir : forall (a : V2 R) (h : R), a <> (0, 0) ->
  0 < norm 2 (v2 a) /\
  forall i, (i < 2)%nat -> v2 (Vec2_from_heading a h) i / norm 2 (v2 a) = unit_of h i.
Proof.
  intros a h Ha. destruct (Vec2_normalize_dir at2 a Ha) as [Hn _]. split; [exact Hn|].
  intros i Hi. rewrite (Vec2_from_heading_ok a h i Hi). field. apply Rgt_not_eq. exact Hn.
Qed.

End R.
