(* C18 - the real instance of the signature, over which the theorems are
   stated.  [atan2] is a parameter: the theorems that involve it assume what
   they need about it as a hypothesis (Math/ProofsTrig.v).
   No proofs in this file. *)
From Coq Require Import Reals ZArith.
From Desper Require Import Math.Sig.
Local Open Scope R_scope.

Definition Reqb (x y : R) : bool := if Req_EM_T x y then true else false.
Definition Rltb (x y : R) : bool := if Rlt_dec x y then true else false.

(* round half to even, as Python's round *)
Definition Rfloor (x : R) : Z := (up x - 1)%Z.
Definition Rround_int (x : R) : Z :=
  let z := Rfloor x in
  let r := x - IZR z in
  if Rltb r (1 / 2) then z
  else if Rltb (1 / 2) r then (z + 1)%Z
  else if Z.even z then z else (z + 1)%Z.
Definition Rround (x : R) (n : Z) : R :=
  IZR (Rround_int (x * powerRZ 10 n)) / powerRZ 10 n.

Definition Rradians (x : R) : R := x * PI / 180.

Definition Rops (at2 : R -> R -> R) : ops R := {|
  gofZ := IZR;
  gadd := Rplus; gmul := Rmult; gsub := Rminus; gdiv := Rdiv; gopp := Ropp;
  gsqrt := sqrt; gcos := cos; gsin := sin; gatan2 := at2;
  gtan := tan; gpi := PI; gradians := Rradians; ground := Rround;
  gltb := Rltb; geqb := Reqb |}.
