(* C18 - the real instance of the signature, over which the theorems are
   stated.  [atan2] is a parameter: the theorems that involve it assume what
   they need about it as a hypothesis (Math/ProofsTrig.v).
   No proofs in this file. *)
From Coq Require Import Reals.
From Desper Require Import Math.Sig.

Definition Reqb (x y : R) : bool := if Req_EM_T x y then true else false.
Definition Rltb (x y : R) : bool := if Rlt_dec x y then true else false.

Definition Rops (at2 : R -> R -> R) : ops R := {|
  gofZ := IZR;
  gadd := Rplus; gmul := Rmult; gsub := Rminus; gdiv := Rdiv; gopp := Ropp;
  gsqrt := sqrt; gcos := cos; gsin := sin; gatan2 := at2;
  gltb := Rltb; geqb := Reqb |}.
