(* C18 - entry-by-entry theorems about the generated Vec2/Vec3/Vec4
   operations and clamp: each equals its textbook definition (Math/Spec.v)
   for all reals.  [vN a] reads the tuple a as the vector i |-> a_i. *)
From Coq Require Import Reals List Lia Lra Bool.
From Desper Require Import Math.Sig Math.Spec Math.RInst Math.RLemmas Math.MathGen.
Import ListNotations.
Local Open Scope R_scope.

Ltac minmax :=
  unfold Rmin, Rmax;
  repeat match goal with
         | |- context [Rle_dec ?a ?b] =>
             lazymatch a with context [Rle_dec _ _] => fail | _ => idtac end;
             lazymatch b with context [Rle_dec _ _] => fail | _ => idtac end;
             destruct (Rle_dec a b)
         end; lra.
Ltac vsolve :=
  gsimp; first [ reflexivity | ring | (f_equal; ring) | (bcases; minmax) ].

Section R.
Variable at2 : R -> R -> R.
Let RO : ops R := Rops at2.
Local Existing Instance RO.

Lemma clamp_ok : forall x lo hi : R, clamp x lo hi = Rmax (Rmin x hi) lo.
Proof. intros. vsolve. Qed.

Lemma clamp_spec_ok : forall x lo hi : R, clamp x lo hi = clamp_spec x lo hi.
Proof. intros. gsimp. bcases; lra. Qed.


(* ---- Vec2 ---- *)
Lemma Vec2_x_ok : forall a : V2 R, Vec2_x a = v2 a 0%nat.
Proof. intros a. dv2 a. vsolve. Qed.
Lemma Vec2_y_ok : forall a : V2 R, Vec2_y a = v2 a 1%nat.
Proof. intros a. dv2 a. vsolve. Qed.
Lemma Vec2_new_ok : forall i, (i < 2)%nat -> v2 Vec2_new i = vzero i.
Proof. intros i Hi. lt2 i; vsolve. Qed.
Lemma Vec2_add_ok : forall (a b : V2 R) i, (i < 2)%nat -> v2 (Vec2_add a b) i = vadd (v2 a) (v2 b) i.
Proof. intros a b i Hi. dv2 a. dv2 b. lt2 i; vsolve. Qed.
Lemma Vec2_sub_ok : forall (a b : V2 R) i, (i < 2)%nat -> v2 (Vec2_sub a b) i = vsub (v2 a) (v2 b) i.
Proof. intros a b i Hi. dv2 a. dv2 b. lt2 i; vsolve. Qed.
Lemma Vec2_mul_ok : forall (a b : V2 R) i, (i < 2)%nat -> v2 (Vec2_mul a b) i = vmul (v2 a) (v2 b) i.
Proof. intros a b i Hi. dv2 a. dv2 b. lt2 i; vsolve. Qed.
Lemma Vec2_truediv_ok : forall (a b : V2 R) i, (i < 2)%nat -> v2 (Vec2_truediv a b) i = vdiv (v2 a) (v2 b) i.
Proof. intros a b i Hi. dv2 a. dv2 b. lt2 i; vsolve. Qed.
Lemma Vec2_radd_v_ok : forall (a b : V2 R) i, (i < 2)%nat -> v2 (Vec2_radd_v a b) i = vadd (v2 a) (v2 b) i.
Proof. intros a b i Hi. dv2 a. dv2 b. lt2 i; vsolve. Qed.
Lemma Vec2_neg_ok : forall (a : V2 R) i, (i < 2)%nat -> v2 (Vec2_neg a) i = vneg (v2 a) i.
Proof. intros a i Hi. dv2 a. lt2 i; vsolve. Qed.
Lemma Vec2_radd_0_ok : forall a : V2 R, Vec2_radd_0 a = a.
Proof. intros a. dv2 a. vsolve. Qed.
Lemma Vec2_radd_is_add : forall a b : V2 R, Vec2_radd_v a b = Vec2_add a b.
Proof. intros a b. dv2 a. dv2 b. reflexivity. Qed.
Lemma Vec2_abs_ok : forall a : V2 R, Vec2_abs a = norm 2 (v2 a).
Proof. intros a. dv2 a. vsolve. Qed.
Lemma Vec2_lerp_ok : forall (a b : V2 R) (t : R) i, (i < 2)%nat -> v2 (Vec2_lerp a b t) i = vlerp (v2 a) (v2 b) t i.
Proof. intros a b t i Hi. dv2 a. dv2 b. lt2 i; vsolve. Qed.
Lemma Vec2_scale_ok : forall (a : V2 R) (s : R) i, (i < 2)%nat -> v2 (Vec2_scale a s) i = vscale s (v2 a) i.
Proof. intros a s i Hi. dv2 a. lt2 i; vsolve. Qed.
Lemma Vec2_distance_ok : forall a b : V2 R, Vec2_distance a b = dist 2 (v2 a) (v2 b).
Proof. intros a b. dv2 a. dv2 b. vsolve. Qed.
Lemma Vec2_clamp_ok : forall (a : V2 R) (lo hi : R) i, (i < 2)%nat -> v2 (Vec2_clamp a lo hi) i = Rmax (Rmin (v2 a i) hi) lo.
Proof. intros a lo hi i Hi. dv2 a. lt2 i; vsolve. Qed.
Lemma Vec2_dot_ok : forall a b : V2 R, Vec2_dot a b = dot 2 (v2 a) (v2 b).
Proof. intros a b. dv2 a. dv2 b. vsolve. Qed.

(* ---- Vec3 ---- *)
Lemma Vec3_x_ok : forall a : V3 R, Vec3_x a = v3 a 0%nat.
Proof. intros a. dv3 a. vsolve. Qed.
Lemma Vec3_y_ok : forall a : V3 R, Vec3_y a = v3 a 1%nat.
Proof. intros a. dv3 a. vsolve. Qed.
Lemma Vec3_z_ok : forall a : V3 R, Vec3_z a = v3 a 2%nat.
Proof. intros a. dv3 a. vsolve. Qed.
Lemma Vec3_new_ok : forall i, (i < 3)%nat -> v3 Vec3_new i = vzero i.
Proof. intros i Hi. lt3 i; vsolve. Qed.
Lemma Vec3_add_ok : forall (a b : V3 R) i, (i < 3)%nat -> v3 (Vec3_add a b) i = vadd (v3 a) (v3 b) i.
Proof. intros a b i Hi. dv3 a. dv3 b. lt3 i; vsolve. Qed.
Lemma Vec3_sub_ok : forall (a b : V3 R) i, (i < 3)%nat -> v3 (Vec3_sub a b) i = vsub (v3 a) (v3 b) i.
Proof. intros a b i Hi. dv3 a. dv3 b. lt3 i; vsolve. Qed.
Lemma Vec3_mul_ok : forall (a b : V3 R) i, (i < 3)%nat -> v3 (Vec3_mul a b) i = vmul (v3 a) (v3 b) i.
Proof. intros a b i Hi. dv3 a. dv3 b. lt3 i; vsolve. Qed.
Lemma Vec3_truediv_ok : forall (a b : V3 R) i, (i < 3)%nat -> v3 (Vec3_truediv a b) i = vdiv (v3 a) (v3 b) i.
Proof. intros a b i Hi. dv3 a. dv3 b. lt3 i; vsolve. Qed.
Lemma Vec3_radd_v_ok : forall (a b : V3 R) i, (i < 3)%nat -> v3 (Vec3_radd_v a b) i = vadd (v3 a) (v3 b) i.
Proof. intros a b i Hi. dv3 a. dv3 b. lt3 i; vsolve. Qed.
Lemma Vec3_neg_ok : forall (a : V3 R) i, (i < 3)%nat -> v3 (Vec3_neg a) i = vneg (v3 a) i.
Proof. intros a i Hi. dv3 a. lt3 i; vsolve. Qed.
Lemma Vec3_radd_0_ok : forall a : V3 R, Vec3_radd_0 a = a.
Proof. intros a. dv3 a. vsolve. Qed.
Lemma Vec3_radd_is_add : forall a b : V3 R, Vec3_radd_v a b = Vec3_add a b.
Proof. intros a b. dv3 a. dv3 b. reflexivity. Qed.
Lemma Vec3_abs_ok : forall a : V3 R, Vec3_abs a = norm 3 (v3 a).
Proof. intros a. dv3 a. vsolve. Qed.
Lemma Vec3_lerp_ok : forall (a b : V3 R) (t : R) i, (i < 3)%nat -> v3 (Vec3_lerp a b t) i = vlerp (v3 a) (v3 b) t i.
Proof. intros a b t i Hi. dv3 a. dv3 b. lt3 i; vsolve. Qed.
Lemma Vec3_scale_ok : forall (a : V3 R) (s : R) i, (i < 3)%nat -> v3 (Vec3_scale a s) i = vscale s (v3 a) i.
Proof. intros a s i Hi. dv3 a. lt3 i; vsolve. Qed.
Lemma Vec3_distance_ok : forall a b : V3 R, Vec3_distance a b = dist 3 (v3 a) (v3 b).
Proof. intros a b. dv3 a. dv3 b. vsolve. Qed.
Lemma Vec3_clamp_ok : forall (a : V3 R) (lo hi : R) i, (i < 3)%nat -> v3 (Vec3_clamp a lo hi) i = Rmax (Rmin (v3 a i) hi) lo.
Proof. intros a lo hi i Hi. dv3 a. lt3 i; vsolve. Qed.
Lemma Vec3_dot_ok : forall a b : V3 R, Vec3_dot a b = dot 3 (v3 a) (v3 b).
Proof. intros a b. dv3 a. dv3 b. vsolve. Qed.

(* ---- Vec4 ---- *)
Lemma Vec4_x_ok : forall a : V4 R, Vec4_x a = v4 a 0%nat.
Proof. intros a. dv4 a. vsolve. Qed.
Lemma Vec4_y_ok : forall a : V4 R, Vec4_y a = v4 a 1%nat.
Proof. intros a. dv4 a. vsolve. Qed.
Lemma Vec4_z_ok : forall a : V4 R, Vec4_z a = v4 a 2%nat.
Proof. intros a. dv4 a. vsolve. Qed.
Lemma Vec4_w_ok : forall a : V4 R, Vec4_w a = v4 a 3%nat.
Proof. intros a. dv4 a. vsolve. Qed.
Lemma Vec4_new_ok : forall i, (i < 4)%nat -> v4 Vec4_new i = vzero i.
Proof. intros i Hi. lt4 i; vsolve. Qed.
Lemma Vec4_add_ok : forall (a b : V4 R) i, (i < 4)%nat -> v4 (Vec4_add a b) i = vadd (v4 a) (v4 b) i.
Proof. intros a b i Hi. dv4 a. dv4 b. lt4 i; vsolve. Qed.
Lemma Vec4_sub_ok : forall (a b : V4 R) i, (i < 4)%nat -> v4 (Vec4_sub a b) i = vsub (v4 a) (v4 b) i.
Proof. intros a b i Hi. dv4 a. dv4 b. lt4 i; vsolve. Qed.
Lemma Vec4_mul_ok : forall (a b : V4 R) i, (i < 4)%nat -> v4 (Vec4_mul a b) i = vmul (v4 a) (v4 b) i.
Proof. intros a b i Hi. dv4 a. dv4 b. lt4 i; vsolve. Qed.
Lemma Vec4_truediv_ok : forall (a b : V4 R) i, (i < 4)%nat -> v4 (Vec4_truediv a b) i = vdiv (v4 a) (v4 b) i.
Proof. intros a b i Hi. dv4 a. dv4 b. lt4 i; vsolve. Qed.
Lemma Vec4_radd_v_ok : forall (a b : V4 R) i, (i < 4)%nat -> v4 (Vec4_radd_v a b) i = vadd (v4 a) (v4 b) i.
Proof. intros a b i Hi. dv4 a. dv4 b. lt4 i; vsolve. Qed.
Lemma Vec4_neg_ok : forall (a : V4 R) i, (i < 4)%nat -> v4 (Vec4_neg a) i = vneg (v4 a) i.
Proof. intros a i Hi. dv4 a. lt4 i; vsolve. Qed.
Lemma Vec4_radd_0_ok : forall a : V4 R, Vec4_radd_0 a = a.
Proof. intros a. dv4 a. vsolve. Qed.
Lemma Vec4_radd_is_add : forall a b : V4 R, Vec4_radd_v a b = Vec4_add a b.
Proof. intros a b. dv4 a. dv4 b. reflexivity. Qed.
Lemma Vec4_abs_ok : forall a : V4 R, Vec4_abs a = norm 4 (v4 a).
Proof. intros a. dv4 a. vsolve. Qed.
Lemma Vec4_lerp_ok : forall (a b : V4 R) (t : R) i, (i < 4)%nat -> v4 (Vec4_lerp a b t) i = vlerp (v4 a) (v4 b) t i.
Proof. intros a b t i Hi. dv4 a. dv4 b. lt4 i; vsolve. Qed.
Lemma Vec4_scale_ok : forall (a : V4 R) (s : R) i, (i < 4)%nat -> v4 (Vec4_scale a s) i = vscale s (v4 a) i.
Proof. intros a s i Hi. dv4 a. lt4 i; vsolve. Qed.
Lemma Vec4_distance_ok : forall a b : V4 R, Vec4_distance a b = dist 4 (v4 a) (v4 b).
Proof. intros a b. dv4 a. dv4 b. vsolve. Qed.
Lemma Vec4_clamp_ok : forall (a : V4 R) (lo hi : R) i, (i < 4)%nat -> v4 (Vec4_clamp a lo hi) i = Rmax (Rmin (v4 a i) hi) lo.
Proof. intros a lo hi i Hi. dv4 a. lt4 i; vsolve. Qed.
Lemma Vec4_dot_ok : forall a b : V4 R, Vec4_dot a b = dot 4 (v4 a) (v4 b).
Proof. intros a b. dv4 a. dv4 b. vsolve. Qed.

(* ---- the rest ---- *)
Lemma Vec2_mag_ok : forall a : V2 R, Vec2_mag a = norm 2 (v2 a).
Proof. intros a. dv2 a. vsolve. Qed.
Lemma Vec3_mag_ok : forall a : V3 R, Vec3_mag a = norm 3 (v3 a).
Proof. intros a. dv3 a. vsolve. Qed.
Lemma Vec2_mag_is_abs : forall a : V2 R, Vec2_mag a = Vec2_abs a.
Proof. intros a. dv2 a. reflexivity. Qed.
Lemma Vec3_mag_is_abs : forall a : V3 R, Vec3_mag a = Vec3_abs a.
Proof. intros a. dv3 a. reflexivity. Qed.
Lemma Vec2_heading_ok : forall a : V2 R, Vec2_heading a = at2 (v2 a 1%nat) (v2 a 0%nat).
Proof. intros a. dv2 a. vsolve. Qed.
Lemma Vec3_cross_ok : forall (a b : V3 R) i, (i < 3)%nat -> v3 (Vec3_cross a b) i = cross (v3 a) (v3 b) i.
Proof. intros a b i Hi. dv3 a. dv3 b. lt3 i; vsolve. Qed.

(* the textbook definitions written out, to read the indexed sums *)
Lemma dot3_unfolded : forall u v : vec, dot 3 u v = u 0%nat * v 0%nat + u 1%nat * v 1%nat + u 2%nat * v 2%nat.
Proof. intros. gsimp. ring. Qed.
Lemma cross_unfolded : forall u v : vec,
  cross u v 0%nat = u 1%nat * v 2%nat - u 2%nat * v 1%nat /\
  cross u v 1%nat = u 2%nat * v 0%nat - u 0%nat * v 2%nat /\
  cross u v 2%nat = u 0%nat * v 1%nat - u 1%nat * v 0%nat.
Proof. intros. gsimp. repeat split; ring. Qed.
Lemma lerp_ends : forall (u v : vec) i, vlerp u v 0 i = u i /\ vlerp u v 1 i = v i.
Proof. intros. gsimp. split; ring. Qed.
Lemma dist_sym : forall n (u v : vec), dist n u v = dist n v u.
Proof.
  intros n u v. unfold dist, norm. f_equal. unfold dot.
  induction n as [|n IH]; [reflexivity|]. cbn [sum_n]. rewrite IH. gsimp. ring.
Qed.

End R.
