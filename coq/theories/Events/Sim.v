(* Events - every step of the machine is a step of the C04/C10
   specification (simulation), hence every accepted log satisfies it. *)
From Coq Require Import ZArith List Bool Lia.
From Desper Require Import Lib.Alist Events.Model Events.Spec Events.Tables Events.SimDefs.
Import ListNotations.
Open Scope Z_scope.

Ltac rsimpl := cbn [tabs enabled queue gone next exc stack s_next s_reg s_gone s_en s_pend s_owed s_rel
                    s_recv s_exc frames_owed frames_rel frames_recv dtoks otoks upd_stack upd_reg upd_owed
                    option_map fst snd] in *.

Lemma toks_ok_script n o r o' r' stk q :
  toks_ok n (FScript o r :: stk) q -> toks_ok n (FScript o' r' :: stk) q.
Proof. intros [A B C D E]. constructor; rsimpl; auto. Qed.

Lemma toks_ok_pop_script n o r stk q : toks_ok n (FScript o r :: stk) q -> toks_ok n stk q.
Proof. intros [A B C D E]. constructor; rsimpl; auto. Qed.

Lemma toks_ok_push_script n o r stk q : toks_ok n stk q -> toks_ok n (FScript o r :: stk) q.
Proof. intros [A B C D E]. constructor; rsimpl; auto. Qed.

Lemma bottom_frames stk f : bottom stk = [f] ->
  match f with FScript None _ => True | _ => False end ->
  frames_owed [] [f] = [] /\ frames_rel [] [f] = [] /\ frames_recv [f] = [] /\ dtoks [f] = [] /\ otoks [f] = [].
Proof. intros _ H. destruct f as [[h|] r|d|t c]; try contradiction. repeat split. Qed.

Lemma toks_ok_relay p n o r o' r' stk q h :
  toks_ok n (FScript o r :: stk) q -> toks_ok (n + 1) (FScript o' r' :: stk) (q ++ relay p n h).
Proof.
  intros [A B C D E]. constructor; rsimpl.
  - intros t Ht. specialize (A t Ht). lia.
  - intros t Ht. specialize (B t Ht). lia.
  - intros t Ht. rewrite map_app in Ht. apply in_app_or in Ht. destruct Ht as [Ht|Ht]; [specialize (C t Ht); lia|].
    apply in_map_iff in Ht. destruct Ht as [x [<- Hx]]. destruct (relay_dir _ _ _ _ Hx) as [-> _]. lia.
  - auto.
  - intros t Ht I. rewrite map_app in I. apply in_app_or in I. destruct I as [I|I]; [exact (E t Ht I)|].
    apply in_map_iff in I. destruct I as [x [<- Hx]]. destruct (relay_dir _ _ _ _ Hx) as [Et _].
    specialize (A _ Ht). lia.
Qed.

Lemma dir_relay p n h q g :
  (forall x h0 mm, In x q -> q_dir x = Some (h0, mm) -> inb h0 g = false) -> inb h g = false ->
  forall x h0 mm, In x (q ++ relay p n h) -> q_dir x = Some (h0, mm) -> inb h0 g = false.
Proof.
  intros Hq Hh x h0 mm Hx Hd. apply in_app_or in Hx. destruct Hx as [Hx|Hx]; [exact (Hq _ _ _ Hx Hd)|].
  destruct (relay_dir _ _ _ _ Hx) as [_ [m' Hd']]. rewrite Hd' in Hd. injection Hd as <- _. exact Hh.
Qed.

Section Sim.
Variable p : params.
Hypothesis Hk : keyf p = idk.
Hypothesis HK : keys_nodup p.

Lemma sim_action m s a o rest stk m' :
  Rel p m s -> exc m = false -> stack m = FScript o (a :: rest) :: stk ->
  do_action p m a o rest stk = Some m' ->
  exists s', sstep p s (EAct a) = Some s' /\ Rel p m' s'.
Proof.
  intros [Rtab Ralive Rgone Ren Rpend Rnext Rexc Rowed Rrel Rrecv Rtok Rdir] Hexc Hstk Hdo.
  destruct s as [sn sr sg se sp so srl srv sx]. destruct m as [T en q g n ex stk0].
  rsimpl. subst. unfold sstep. rsimpl.
  unfold do_action in Hdo. rewrite Hk in Hdo. rsimpl.
  destruct a as [h|h|h|e x|b| | |h|h|h|h h2].
  - (* AAdd *)
    destruct (inb h g) eqn:Eg; injection Hdo as <-; (eexists; split; [reflexivity|]).
    + constructor; rsimpl; auto. eapply toks_ok_script; eauto.
    + constructor; rsimpl; auto.
      * apply add_handler_ok; auto.
      * intros h' Hh'. rewrite inb_hadd in Hh'. apply orb_true_iff in Hh'. destruct Hh' as [Hh'|Hh']; auto.
        apply Z.eqb_eq in Hh'. subst. exact Eg.
      * eapply toks_ok_script; eauto.
  - (* ARemove *)
    destruct (inb h g) eqn:Eg; injection Hdo as <-; (eexists; split; [reflexivity|]).
    + constructor; rsimpl; auto. eapply toks_ok_script; eauto.
    + constructor; rsimpl; auto.
      * apply remove_handler_ok; auto.
      * intros h' Hh'. rewrite inb_hdel in Hh'. apply andb_true_iff in Hh'. destruct Hh' as [Hh' _]; auto.
      * eapply toks_ok_script; eauto.
  - discriminate.
  - (* ADispatch *)
    destruct en; injection Hdo as <-; (eexists; split; [reflexivity|]).
    + constructor; rsimpl; auto.
      * unfold fa_d. rsimpl. destruct Rtab as [Rev _]. rewrite Rev. rewrite fa_listeners by exact Ralive. reflexivity.
      * destruct Rtok as [A B C D E]. constructor; rsimpl; unfold d_tok; rsimpl.
        -- intros t [Ht|Ht]; [lia|]. specialize (A t Ht). lia.
        -- intros t Ht. specialize (B t Ht). lia.
        -- intros t Ht. specialize (C t Ht). lia.
        -- intros t [Ht|Ht]; [|auto]. subst t. intro I. specialize (B n I). lia.
        -- intros t [Ht|Ht]; [|auto]. subst t. intro I. specialize (C n I). lia.
    + constructor; rsimpl; auto.
      * destruct Rtab as [Rev _]. rewrite Rev. reflexivity.
      * destruct Rtok as [A B C D E]. constructor; rsimpl.
        -- intros t Ht. specialize (A t Ht). lia.
        -- intros t Ht. specialize (B t Ht). lia.
        -- intros t Ht. rewrite map_app in Ht. apply in_app_or in Ht. destruct Ht as [Ht|[Ht|[]]]; [specialize (C t Ht); lia|]. cbn in Ht. lia.
        -- auto.
        -- intros t Ht I. rewrite map_app in I. apply in_app_or in I. destruct I as [I|[I|[]]]; [exact (E t Ht I)|].
           cbn in I. specialize (A t Ht). lia.
      * intros x0 h0 mm Hx Hd. apply in_app_or in Hx. destruct Hx as [Hx|[<-|[]]]; [exact (Rdir _ _ _ Hx Hd)|discriminate].
  - (* ASetEnabled *)
    destruct b; injection Hdo as <-; (eexists; split; [reflexivity|]).
    + constructor; rsimpl; auto.
      destruct Rtok as [A B C D E]. constructor; rsimpl.
      * intros t Ht. specialize (A t Ht). lia.
      * intros t [Ht|Ht]; [lia|]. specialize (B t Ht). lia.
      * intros t Ht. specialize (C t Ht). lia.
      * intros t Ht [I|I]; [specialize (A t Ht); lia | exact (D t Ht I)].
      * auto.
    + constructor; rsimpl; auto. eapply toks_ok_script; eauto.
  - (* AClear *)
    injection Hdo as <-. eexists; split; [reflexivity|].
    constructor; rsimpl; auto.
    + apply tables_ok_empty.
    + intros h Hh. discriminate.
    + destruct Rtok as [A B C D E]. constructor; rsimpl; auto. intros t [].
  - (* ARaise *)
    destruct (bottom (FScript o rest :: stk)) as [|[[h|] r0|d|t c] [|f2 l2]] eqn:Eb; try discriminate. cbv beta iota in Hdo.
    injection Hdo as <-. eexists; split; [reflexivity|].
    constructor; rsimpl; auto.
    destruct Rtok as [A B C D E]. constructor; rsimpl; auto; intros t [].
  - (* ADrop *)
    rewrite onstack_recv in Hdo.
    destruct o as [ho|]; rsimpl;
    match type of Hdo with (if ?c then _ else _) = _ => destruct c eqn:Eg end;
    injection Hdo as <-; (eexists; split; [reflexivity|]).
    1,3: constructor; rsimpl; auto; eapply toks_ok_script; eauto.
    all: apply orb_false_iff in Eg; destruct Eg as [_ Eh];
      constructor; rsimpl; auto;
      [ apply remove_handler_ok; auto
      | intros h' Hh'; rewrite inb_hdel in Hh'; apply andb_true_iff in Hh'; destruct Hh' as [H1 H2];
        rewrite inb_cons; apply negb_true_iff in H2; rewrite H2; cbn [orb]; auto
      | rewrite frames_owed_cons_gone; reflexivity
      | rewrite frames_rel_cons_gone; reflexivity
      | eapply toks_ok_script; eauto
      | intros x0 h0 mm Hx Hd; rewrite inb_cons;
        pose proof (relay_holds_false _ _ Eh _ _ _ Hx Hd) as Hne; apply Z.eqb_neq in Hne; rewrite Hne;
        cbn [orb]; exact (Rdir _ _ _ Hx Hd) ].
  - (* ACreate *)
    destruct (en || inb h g) eqn:Ec; [discriminate|]. apply orb_false_iff in Ec. destruct Ec as [-> Eg].
    injection Hdo as <-. eexists; split; [reflexivity|].
    constructor; rsimpl; auto.
    + apply add_handler_ok; auto.
    + intros h' Hh'. rewrite inb_hadd in Hh'. apply orb_true_iff in Hh'. destruct Hh' as [Hh'|Hh']; auto.
      apply Z.eqb_eq in Hh'. subst. exact Eg.
    + eapply toks_ok_relay; eauto.
    + apply dir_relay; auto.
  - (* ARemoveC *)
    unfold leave_blocked in Hdo. rewrite onstack_recv, in_callback_recv in Hdo. unfold sleave_blocked. rsimpl.
    set (rv := match o with Some h0 => h0 :: frames_recv stk | None => frames_recv stk end) in *.
    match type of Hdo with (if ?c then _ else _) = _ => destruct c eqn:Eb end; [discriminate|].
    injection Hdo as <-.
    destruct (relay_holds h q) eqn:Eh; (eexists; split; [reflexivity|]); constructor; rsimpl; auto.
    + apply remove_handler_ok; auto.
    + intros h' Hh'. rewrite inb_hdel in Hh'. apply andb_true_iff in Hh'. destruct Hh' as [Hh' _]; auto.
    + eapply toks_ok_script; eauto.
    + apply remove_handler_ok; auto.
    + intros h' Hh'. rewrite inb_hdel in Hh'. apply andb_true_iff in Hh'. destruct Hh' as [Hh' Hn].
      rewrite inb_cons. apply negb_true_iff in Hn. rewrite Hn. cbn [orb]. auto.
    + rewrite frames_owed_cons_gone. reflexivity.
    + rewrite frames_rel_cons_gone. reflexivity.
    + eapply toks_ok_script; eauto.
    + intros x0 h0 mm Hx Hd. rewrite inb_cons.
      pose proof (relay_holds_false _ _ Eh _ _ _ Hx Hd) as Hne. apply Z.eqb_neq in Hne. rewrite Hne.
      cbn [orb]. exact (Rdir _ _ _ Hx Hd).
  - (* AReplace *)
    unfold leave_blocked in Hdo. rewrite onstack_recv, in_callback_recv in Hdo. unfold sleave_blocked. rsimpl.
    set (rv := match o with Some h0 => h0 :: frames_recv stk | None => frames_recv stk end) in *.
    match type of Hdo with (if ?c then _ else _) = _ => destruct c eqn:Eb end; [discriminate|].
    injection Hdo as <-.
    apply orb_false_iff in Eb. destruct Eb as [Eb _]. apply orb_false_iff in Eb. destruct Eb as [Eb Ene].
    apply orb_false_iff in Eb. destruct Eb as [Een Eg2]. subst en. apply Z.eqb_neq in Ene.
    assert (Hx2 : (h2 =? h) = false) by (apply Z.eqb_neq; congruence).
    destruct (relay_holds h q) eqn:Eh; (eexists; split; [reflexivity|]); constructor; rsimpl; auto.
    + apply add_handler_ok; auto. apply remove_handler_ok; auto.
    + intros h' Hh'. rewrite inb_hadd in Hh'. apply orb_true_iff in Hh'. destruct Hh' as [Hh'|Hh'].
      * rewrite inb_hdel in Hh'. apply andb_true_iff in Hh'. destruct Hh' as [Hh' _]; auto.
      * apply Z.eqb_eq in Hh'. subst. exact Eg2.
    + eapply toks_ok_relay; eauto.
    + apply dir_relay; auto.
    + apply add_handler_ok; auto. apply remove_handler_ok; auto.
    + intros h' Hh'. rewrite inb_cons. rewrite inb_hadd in Hh'. apply orb_true_iff in Hh'. destruct Hh' as [Hh'|Hh'].
      * rewrite inb_hdel in Hh'. apply andb_true_iff in Hh'. destruct Hh' as [Hh' Hn].
        apply negb_true_iff in Hn. rewrite Hn. cbn [orb]. auto.
      * apply Z.eqb_eq in Hh'. subst. rewrite Hx2. cbn [orb]. exact Eg2.
    + rewrite frames_owed_cons_gone. reflexivity.
    + rewrite frames_rel_cons_gone. reflexivity.
    + eapply toks_ok_relay; eauto.
    + apply dir_relay.
      * intros x0 h0 mm Hx Hd. rewrite inb_cons.
        pose proof (relay_holds_false _ _ Eh _ _ _ Hx Hd) as Hne. apply Z.eqb_neq in Hne. rewrite Hne.
        cbn [orb]. exact (Rdir _ _ _ Hx Hd).
      * rewrite inb_cons, Hx2. cbn [orb]. exact Eg2.
Qed.

Lemma sim_is m s h b o h' rest stk :
  Rel p m s -> exc m = false -> stack m = FScript o (AIs h' :: rest) :: stk ->
  (h =? h') && Bool.eqb b (negb (inb h (gone m)) && is_handler (keyf p) h (tabs m)) = true ->
  exists s', sstep p s (EIs h b) = Some s' /\ Rel p (upd_stack m (FScript o rest :: stk)) s'.
Proof.
  intros [Rtab Ralive Rgone Ren Rpend Rnext Rexc Rowed Rrel Rrecv Rtok Rdir] Hexc Hstk Hc.
  destruct s as [sn sr sg se sp so srl srv sx]. destruct m as [T en q g n ex stk0].
  rsimpl. subst. unfold sstep. rsimpl.
  apply andb_true_iff in Hc. destruct Hc as [_ Hb]. apply Bool.eqb_prop in Hb.
  rewrite Hk in Hb. rewrite (is_handler_ok p T sr h Rtab) in Hb.
  assert (Hb' : b = inb h sr).
  { rewrite Hb. destruct (inb h sr) eqn:E; [rewrite (Ralive h E); reflexivity | apply andb_false_r]. }
  rewrite <- Hb'. rewrite Bool.eqb_reflx. eexists; split; [reflexivity|].
  constructor; rsimpl; auto.
  eapply toks_ok_script; eauto.
Qed.

Lemma sim_call_disp m s d h mm t x stk d' f :
  Rel p m s -> exc m = false -> stack m = FDisp d :: stk ->
  call p (gone m) d h mm t x = Some (d', f) ->
  exists s', sstep p s (ECall h mm t x) = Some s' /\ Rel p (upd_stack m (f :: FDisp d' :: stk)) s'.
Proof.
  intros [Rtab Ralive Rgone Ren Rpend Rnext Rexc Rowed Rrel Rrecv Rtok Rdir] Hexc Hstk Hc.
  destruct s as [sn sr sg se sp so srl srv sx]. destruct m as [T en q g n ex stk0].
  rsimpl. subst. unfold sstep. rsimpl.
  pose proof (call_scall p g d h mm t x Hk) as Hcs. rewrite Hc in Hcs. destruct Hcs as [Hs [Hf [Ht1 Ht2]]].
  rewrite owed_call_head by (unfold fa_d, d_tok in *; rsimpl; exact Ht2).
  rewrite Hs. subst f. eexists; split; [reflexivity|].
  constructor; rsimpl; auto.
  destruct Rtok as [A B C D E]. constructor; rsimpl; auto; rewrite Ht1; auto.
Qed.

Lemma sim_call_rel m s r cur h mm t x stk m' :
  Rel p m s -> exc m = false -> stack m = FRel r cur :: stk ->
  match match cur with Some d => call p (gone m) d h mm t x | None => None end with
  | Some (d', f) => Some (upd_stack m (f :: FRel r (Some d') :: stk))
  | None =>
      if enabled m && cur_done (gone m) cur then
        match seek (look (t_events (tabs m))) t (queue m) with
        | Some (q, qrest) =>
            match call p (gone m) (q_tok q, q_arg q, targets (look (t_events (tabs m))) q) h mm t x with
            | Some (d', f) =>
                Some {| tabs := tabs m; enabled := true; queue := qrest; gone := gone m;
                        next := next m; exc := false; stack := f :: FRel r (Some d') :: stk |}
            | None => None
            end
        | None => None
        end
      else None
  end = Some m' ->
  exists s', sstep p s (ECall h mm t x) = Some s' /\ Rel p m' s'.
Proof.
  intros [Rtab Ralive Rgone Ren Rpend Rnext Rexc Rowed Rrel Rrecv Rtok Rdir] Hexc Hstk Hc.
  destruct s as [sn sr sg se sp so srl srv sx]. destruct m as [T en q g n ex stk0].
  rsimpl. subst. unfold sstep. rsimpl.
  destruct Rtok as [A B C D E]. rsimpl.
  destruct (match cur with Some d => call p g d h mm t x | None => None end) as [[d' f]|] eqn:Ecur.
  - (* the delivery in progress goes on *)
    destruct cur as [d|]; [|discriminate].
    pose proof (call_scall p g d h mm t x Hk) as Hcs. rewrite Ecur in Hcs. destruct Hcs as [Hs [Hf [Ht1 Ht2]]].
    injection Hc as <-. rsimpl.
    rewrite owed_call_absent.
    2:{ rewrite dtoks_owed. intro I. apply (D t I). right. left. exact Ht2. }
    rewrite Hs. subst f. eexists; split; [reflexivity|].
    constructor; rsimpl; auto.
    constructor; rsimpl; auto; rewrite Ht1; auto.
  - (* the next pending event *)
    assert (Hsc : match option_map (fa_d g) cur with Some d => scall d h mm t x | None => None end = None).
    { destruct cur as [d|]; [|reflexivity]. cbn [option_map].
      pose proof (call_scall p g d h mm t x Hk) as Hcs. rewrite Ecur in Hcs. exact Hcs. }
    assert (Hdone : rel_done (option_map (fa_d g) cur) = cur_done g cur).
    { destruct cur as [[[t0 x0] rem0]|]; [|reflexivity]. cbn [option_map rel_done cur_done].
      unfold d_rem, fa_d. rsimpl. rewrite all_gone_fa. reflexivity. }
    destruct (en && cur_done g cur) eqn:Een; [|discriminate].
    destruct Rtab as [Rev Rhd].
    rewrite (seek_ext _ (fun e => listeners p e sr) t q Rev) in Hc.
    destruct (seek (fun e => listeners p e sr) t q) as [[qe qrest]|] eqn:Eseek; [|discriminate].
    destruct (seek_some _ _ _ _ _ Eseek) as [Hq1 [Hq2 Hq3]].
    destruct (seek_In _ _ _ _ _ Eseek) as [Hin Hsub].
    rewrite (targets_ext _ (fun e => listeners p e sr) qe Rev) in Hc.
    assert (Hfa : fa g (targets (fun e => listeners p e sr) qe) = targets (fun e => listeners p e sr) qe).
    { unfold targets. destruct (q_dir qe) as [[h0 m0]|] eqn:Ed.
      - apply fa_all. intros y [<-|[]]. cbn [fst]. exact (Rdir _ _ _ Hin Ed).
      - apply fa_listeners. exact Ralive. }
    destruct (call p g (q_tok qe, q_arg qe, targets (fun e => listeners p e sr) qe) h mm t x) as [[d' f]|] eqn:Ecall; [|discriminate].
    pose proof (call_scall p g (q_tok qe, q_arg qe, targets (fun e => listeners p e sr) qe) h mm t x Hk) as Hcs. rewrite Ecall in Hcs. destruct Hcs as [Hs [Hf [Ht1 Ht2]]].
    injection Hc as <-. rsimpl.
    rewrite owed_call_absent.
    2:{ rewrite dtoks_owed. intro I. exact (E t I Hq2). }
    rewrite Hsc, Hdone, Een.
    unfold fa_d in Hs. rsimpl. rewrite Hfa in Hs. rewrite Hs.
    subst f. apply andb_true_iff in Een. destruct Een as [Een _]. subst en.
    eexists; split; [reflexivity|].
    constructor; rsimpl; auto.
    + split; assumption.
    + assert (Ht3 : d_tok d' = t) by (rewrite Ht1; exact Hq1).
      constructor; rsimpl; auto.
      * intros t0 [H0|[H0|H0]]; [apply B; left; exact H0| |apply B; right; apply in_or_app; right; exact H0].
        rewrite Ht3 in H0. subst t0. apply C. exact Hq2.
      * intros t0 H0 [H1|[H1|H1]]; [apply (D t0 H0); left; exact H1| |apply (D t0 H0); right; apply in_or_app; right; exact H1].
        rewrite Ht3 in H1. subst t0. exact (E t H0 Hq2).
      * intros t0 H0 H1. exact (E t0 H0 (Hq3 t0 H1)).
    + intros x0 h0 m0 Hx Hd. exact (Rdir _ _ _ (Hsub _ Hx) Hd).
Qed.

Lemma sim_ret m s h stk :
  Rel p m s -> exc m = false -> stack m = FScript (Some h) [] :: stk ->
  exists s', sstep p s ERet = Some s' /\ Rel p (upd_stack m stk) s'.
Proof.
  intros [Rtab Ralive Rgone Ren Rpend Rnext Rexc Rowed Rrel Rrecv Rtok Rdir] Hexc Hstk.
  destruct s as [sn sr sg se sp so srl srv sx]. destruct m as [T en q g n ex stk0].
  rsimpl. subst. unfold sstep. rsimpl.
  eexists; split; [reflexivity|]. constructor; rsimpl; auto.
  eapply toks_ok_pop_script; eauto.
Qed.

Lemma sim_end_disp m s t t' x rem stk :
  Rel p m s -> exc m = false -> stack m = FDisp (t', x, rem) :: stk ->
  (t =? t') && all_gone (gone m) rem = true ->
  exists s', sstep p s (EEnd t) = Some s' /\ Rel p (upd_stack m stk) s'.
Proof.
  intros [Rtab Ralive Rgone Ren Rpend Rnext Rexc Rowed Rrel Rrecv Rtok Rdir] Hexc Hstk Hc.
  destruct s as [sn sr sg se sp so srl srv sx]. destruct m as [T en q g n ex stk0].
  rsimpl. subst. unfold sstep. rsimpl.
  apply andb_true_iff in Hc. destruct Hc as [Ht Hg]. apply Z.eqb_eq in Ht. subst t'.
  rewrite owed_end_head by reflexivity.
  unfold d_rem, fa_d. rsimpl. rewrite <- all_gone_fa, Hg.
  eexists; split; [reflexivity|]. constructor; rsimpl; auto.
  destruct Rtok as [A B C D E]. constructor; rsimpl; auto.
  - intros t0 H0. apply A. right. exact H0.
  - intros t0 H0. apply D. right. exact H0.
  - intros t0 H0. apply E. right. exact H0.
Qed.

Lemma sim_end_rel m s t t' cur stk m' :
  Rel p m s -> exc m = false -> stack m = FRel t' cur :: stk ->
  (if (t =? t') && cur_done (gone m) cur then
     if enabled m then
       if forallb (skippable (look (t_events (tabs m)))) (queue m) then
         Some {| tabs := tabs m; enabled := true; queue := []; gone := gone m;
                 next := next m; exc := false; stack := stk |}
       else None
     else Some (upd_stack m stk)
   else None) = Some m' ->
  exists s', sstep p s (EEnd t) = Some s' /\ Rel p m' s'.
Proof.
  intros [Rtab Ralive Rgone Ren Rpend Rnext Rexc Rowed Rrel Rrecv Rtok Rdir] Hexc Hstk Hc.
  destruct s as [sn sr sg se sp so srl srv sx]. destruct m as [T en q g n ex stk0].
  rsimpl. subst. unfold sstep. rsimpl.
  destruct Rtok as [A B C D E]. rsimpl.
  destruct ((t =? t') && cur_done g cur) eqn:Ec; [|discriminate].
  assert (Hdone : rel_done (option_map (fa_d g) cur) = cur_done g cur).
  { destruct cur as [[[t0 x0] rem0]|]; [|reflexivity]. cbn [option_map rel_done cur_done].
    unfold d_rem, fa_d. rsimpl. rewrite all_gone_fa. reflexivity. }
  rewrite owed_end_absent.
  2:{ rewrite dtoks_owed. intro I. apply (D t I). left. apply andb_true_iff in Ec. destruct Ec as [Ec _].
      apply Z.eqb_eq in Ec. symmetry. exact Ec. }
  rewrite Hdone, Ec.
  destruct Rtab as [Rev Rhd].
  rewrite (forallb_skippable_ext _ (fun e => listeners p e sr) q Rev) in Hc.
  assert (TK : forall q', (forall y, In y (map q_tok q') -> In y (map q_tok q)) -> toks_ok n stk q').
  { intros q' Hq'. constructor; rsimpl; auto.
    - intros t0 H0. apply B. right. apply in_or_app. right. exact H0.
    - intros t0 H0 H1. apply (D t0 H0). right. apply in_or_app. right. exact H1.
    - intros t0 H0 H1. exact (E t0 H0 (Hq' t0 H1)). }
  destruct en.
  - destruct (forallb (skippable (fun e => listeners p e sr)) q); [|discriminate].
    injection Hc as <-. eexists; split; [reflexivity|]. constructor; rsimpl; auto.
    + split; assumption.
    + apply TK. intros y [].
  - injection Hc as <-. eexists; split; [reflexivity|]. constructor; rsimpl; auto.
    split; assumption.
Qed.

Lemma action_eqb_eq a b : action_eqb a b = true -> a = b.
Proof.
  destruct a, b; cbn [action_eqb]; intro H; try discriminate; try reflexivity;
    try (apply Z.eqb_eq in H; subst; reflexivity).
  - apply andb_true_iff in H. destruct H as [H1 H2]. apply Z.eqb_eq in H1. apply Z.eqb_eq in H2. subst. reflexivity.
  - apply Bool.eqb_prop in H. subst. reflexivity.
  - apply andb_true_iff in H. destruct H as [H1 H2]. apply Z.eqb_eq in H1. apply Z.eqb_eq in H2. subst. reflexivity.
Qed.

Lemma step_sim m s e m' :
  Rel p m s -> step p m e = Some m' -> exists s', sstep p s e = Some s' /\ Rel p m' s'.
Proof.
  intros R Hstep. unfold step in Hstep. destruct (exc m) eqn:Ex.
  - destruct e; try discriminate. injection Hstep as <-.
    destruct R as [Rtab Ralive Rgone Ren Rpend Rnext Rexc Rowed Rrel Rrecv Rtok Rdir].
    destruct s as [sn sr sg se sp so srl srv sx]. destruct m as [T en q g n ex stk0].
    rsimpl. subst. unfold sstep. rsimpl. eexists; split; [reflexivity|]. constructor; rsimpl; auto.
  - destruct e as [a|h b|h mm t x| |t| |].
    + destruct (stack m) as [|[o [|a' rest]|d|r cur] stk] eqn:Es; try discriminate.
      destruct (action_eqb a a') eqn:Ea; [|discriminate]. apply action_eqb_eq in Ea. subst a'.
      eapply sim_action; eauto.
    + destruct (stack m) as [|[o [|[| |h'| | | | | | | |] rest]|d|r cur] stk] eqn:Es; try discriminate.
      match type of Hstep with (if ?c then _ else _) = _ => destruct c eqn:Ec end; [|discriminate].
      injection Hstep as <-. eapply sim_is; eauto.
    + destruct (stack m) as [|[o rest|d|r cur] stk] eqn:Es; try discriminate.
      * destruct (call p (gone m) d h mm t x) as [[d' f]|] eqn:Ec; [|discriminate].
        injection Hstep as <-. eapply sim_call_disp; eauto.
      * eapply sim_call_rel; eauto.
    + destruct (stack m) as [|[[h|] [|a' rest]|d|r cur] stk] eqn:Es; try discriminate.
      injection Hstep as <-. eapply sim_ret; eauto.
    + destruct (stack m) as [|[o rest|[[t' x] rem]|r cur] stk] eqn:Es; try discriminate.
      * match type of Hstep with (if ?c then _ else _) = _ => destruct c eqn:Ec end; [|discriminate].
        injection Hstep as <-. eapply sim_end_disp; eauto.
      * eapply sim_end_rel; eauto.
    + destruct (stack m) as [|[o [|a' rest]|d|r cur] stk]; discriminate.
    + destruct (stack m) as [|[o [|a' rest]|d|r cur] stk] eqn:Es; try discriminate.
      destruct (skippable_action a'); [|discriminate]. injection Hstep as <-.
      destruct R as [Rtab Ralive Rgone Ren Rpend Rnext Rexc Rowed Rrel Rrecv Rtok Rdir].
      destruct s as [sn sr sg se sp so srl srv sx]. destruct m as [T en q g n ex stk0].
      rsimpl. subst. unfold sstep. rsimpl. eexists; split; [reflexivity|].
      constructor; rsimpl; auto. eapply toks_ok_script; eauto.
Qed.

Lemma run_sim log : forall m s m',
  Rel p m s -> run p m log = Some m' -> exists s', srun p s log = Some s' /\ Rel p m' s'.
Proof.
  induction log as [|e log IH]; intros m s m' R Hrun; cbn [run srun] in *.
  - injection Hrun as <-. exists s. split; [reflexivity|exact R].
  - destruct (step p m e) as [m1|] eqn:Es; [|discriminate].
    destruct (step_sim _ _ _ _ R Es) as [s1 [Hs1 R1]]. rewrite Hs1. exact (IH _ _ _ R1 Hrun).
Qed.

Lemma Rel_init ops : Rel p (init ops) sinit.
Proof.
  constructor; cbn; auto.
  - apply tables_ok_empty.
  - constructor; cbn; auto; intros t [].
Qed.

Theorem maccepts_holdsq ops log : maccepts p ops log = true -> holdsq_b p log = true.
Proof.
  unfold maccepts, holdsq_b. intro H.
  destruct (run p (init ops) log) as [m'|] eqn:Er; [|discriminate].
  destruct (run_sim _ _ _ _ (Rel_init ops) Er) as [s' [Hs R]]. rewrite Hs.
  unfold final_ok in H. apply andb_true_iff in H. destruct H as [H1 H2].
  destruct R as [Rtab Ralive Rgone Ren Rpend Rnext Rexc Rowed Rrel Rrecv Rtok Rdir].
  destruct (stack m') as [|[[h|] [|a r]|d|t c] [|f2 l2]] eqn:Es; try discriminate.
  unfold sfinal_ok. rewrite Rowed, Rrel, Rrecv, Rexc. cbn. rewrite H1. reflexivity.
Qed.

End Sim.
