(* Events - the refinement relation between the machine (Model.v) and the
   specification state of C04/C10 (Spec.v), and the lemmas about the
   abstraction functions. *)
From Coq Require Import ZArith List Bool Lia.
From Desper Require Import Lib.Alist Events.Model Events.Spec Events.Tables.
Import ListNotations.
Open Scope Z_scope.

(* what the spec sees of a snapshot: the entries whose handler is alive *)
Definition alive (g : list hid) (x : hid * meth) : bool := negb (inb (fst x) g).
Definition fa (g : list hid) (rem : list (hid * meth)) := filter (alive g) rem.
Definition fa_d (g : list hid) (d : delivery) : delivery := (fst d, fa g (snd d)).

Fixpoint frames_owed (g : list hid) (stk : list frame) : list delivery :=
  match stk with
  | [] => []
  | FDisp d :: stk => fa_d g d :: frames_owed g stk
  | _ :: stk => frames_owed g stk
  end.
Fixpoint frames_rel (g : list hid) (stk : list frame) : list (tok * option delivery) :=
  match stk with
  | [] => []
  | FRel t cur :: stk => (t, option_map (fa_d g) cur) :: frames_rel g stk
  | _ :: stk => frames_rel g stk
  end.
Fixpoint frames_recv (stk : list frame) : list hid :=
  match stk with
  | [] => []
  | FScript (Some h) _ :: stk => h :: frames_recv stk
  | _ :: stk => frames_recv stk
  end.
Fixpoint dtoks (stk : list frame) : list tok :=
  match stk with
  | [] => []
  | FDisp d :: stk => d_tok d :: dtoks stk
  | _ :: stk => dtoks stk
  end.
Fixpoint otoks (stk : list frame) : list tok :=
  match stk with
  | [] => []
  | FRel t cur :: stk => t :: match cur with Some d => [d_tok d] | None => [] end ++ otoks stk
  | _ :: stk => otoks stk
  end.

Record toks_ok (n : tok) (stk : list frame) (q : list qent) : Prop := {
  tk_d : forall t, In t (dtoks stk) -> t < n;
  tk_o : forall t, In t (otoks stk) -> t < n;
  tk_q : forall t, In t (map q_tok q) -> t < n;
  tk_do : forall t, In t (dtoks stk) -> ~ In t (otoks stk);
  tk_dq : forall t, In t (dtoks stk) -> ~ In t (map q_tok q);
}.

Record Rel (p : params) (m : mstate) (s : sstate) : Prop := {
  r_tab : tables_ok p (tabs m) (s_reg s);
  r_alive : forall h, inb h (s_reg s) = true -> inb h (gone m) = false;
  r_gone : s_gone s = gone m;
  r_en : s_en s = enabled m;
  r_pend : s_pend s = queue m;
  r_next : s_next s = next m;
  r_exc : s_exc s = exc m;
  r_owed : s_owed s = frames_owed (gone m) (stack m);
  r_rel : s_rel s = frames_rel (gone m) (stack m);
  r_recv : s_recv s = frames_recv (stack m);
  r_tok : toks_ok (next m) (stack m) (queue m);
  r_dir : forall x h mm, In x (queue m) -> q_dir x = Some (h, mm) -> inb h (gone m) = false;
}.

(* ---------- filter lemmas ---------- *)
Lemma fa_all g l : (forall x, In x l -> inb (fst x) g = false) -> fa g l = l.
Proof.
  induction l as [|y l IH]; intro H; [reflexivity|]. unfold fa. cbn [filter].
  unfold alive at 1. rewrite (H y (or_introl eq_refl)). cbn [negb]. f_equal. apply IH.
  intros x Hx. apply H. right. exact Hx.
Qed.

Lemma fa_listeners p e regs g :
  (forall h, inb h regs = true -> inb h g = false) -> fa g (listeners p e regs) = listeners p e regs.
Proof.
  intro H. apply fa_all. intros x Hx. apply H. apply (mem_listeners_fst p e). apply mem_In. exact Hx.
Qed.

Lemma memi_fa g h m rem : memi (h, m) (fa g rem) = mem idk (h, m) rem && negb (inb h g).
Proof.
  unfold memi. induction rem as [|y rem IH]; [reflexivity|]. unfold fa. cbn [filter mem].
  destruct (pairb idk (h, m) y) eqn:E.
  - apply pairb_eq in E. subst y. unfold alive at 1. cbn [fst].
    destruct (inb h g); cbn [negb orb].
    + fold (fa g rem). rewrite IH. rewrite !andb_false_r. reflexivity.
    + cbn [mem]. rewrite pairb_refl. reflexivity.
  - cbn [orb]. destruct (alive g y); [cbn [mem]; rewrite E; cbn [orb]|]; exact IH.
Qed.

Lemma rem1_fa g x rem : rem1 x (fa g rem) = fa g (remove1 idk x rem).
Proof.
  unfold rem1. induction rem as [|y rem IH]; [reflexivity|]. unfold fa. cbn [filter remove1].
  destruct (alive g y) eqn:A.
  - cbn [remove1]. destruct (pairb idk x y); [exact IH|]. cbn [filter]. rewrite A. f_equal. exact IH.
  - destruct (pairb idk x y); [exact IH|]. cbn [filter]. rewrite A. exact IH.
Qed.

Lemma all_gone_fa g rem : all_gone g rem = isnil (fa g rem).
Proof.
  unfold all_gone. induction rem as [|y rem IH]; [reflexivity|]. unfold fa. cbn [forallb filter].
  unfold alive at 1. destruct (inb (fst y) g); cbn [negb andb]; [exact IH | reflexivity].
Qed.

Lemma alive_cons h g y : alive (h :: g) y = negb (fst y =? h) && alive g y.
Proof. unfold alive. rewrite inb_cons. rewrite negb_orb. reflexivity. Qed.

Lemma strip_fa h g rem : strip h (fa g rem) = fa (h :: g) rem.
Proof.
  unfold strip, fa. induction rem as [|y rem IH]; [reflexivity|]. cbn [filter].
  rewrite alive_cons. destruct (alive g y); cbn [filter].
  - rewrite andb_true_r. unfold hid in *. destruct (fst y =? h); cbn [negb]; [|f_equal]; exact IH.
  - rewrite andb_false_r. exact IH.
Qed.

Lemma strip_fa_d h g d : strip_d h (fa_d g d) = fa_d (h :: g) d.
Proof. unfold strip_d, fa_d. cbn [fst snd]. rewrite strip_fa. reflexivity. Qed.

Lemma frames_owed_cons_gone h g stk : frames_owed (h :: g) stk = map (strip_d h) (frames_owed g stk).
Proof.
  induction stk as [|[o r|d|t c] stk IH]; cbn [frames_owed map]; auto.
  rewrite strip_fa_d. f_equal. exact IH.
Qed.

Lemma frames_rel_cons_gone h g stk :
  frames_rel (h :: g) stk = map (fun r => (fst r, option_map (strip_d h) (snd r))) (frames_rel g stk).
Proof.
  induction stk as [|[o r|d|t c] stk IH]; cbn [frames_rel map]; auto.
  rewrite IH. f_equal. cbn [fst snd]. f_equal. destruct c as [d|]; cbn [option_map]; [|reflexivity].
  rewrite strip_fa_d. reflexivity.
Qed.

Lemma onstack_recv h stk : onstack h stk = inb h (frames_recv stk).
Proof.
  induction stk as [|[[o|] r|d|t c] stk IH]; cbn [onstack frames_recv]; auto.
  rewrite inb_cons. rewrite IH. reflexivity.
Qed.

Lemma dtoks_owed g stk : map d_tok (frames_owed g stk) = dtoks stk.
Proof. induction stk as [|[o r|d|t c] stk IH]; cbn [frames_owed dtoks map]; auto. f_equal. exact IH. Qed.

(* ---------- call / scall ---------- *)
Lemma call_scall p g d h m t x :
  keyf p = idk ->
  match call p g d h m t x with
  | Some (d', f) => scall (fa_d g d) h m t x = Some (fa_d g d') /\ f = FScript (Some h) (script p h m) /\ d_tok d' = d_tok d /\ d_tok d = t
  | None => scall (fa_d g d) h m t x = None
  end.
Proof.
  intro Hk. destruct d as [[t' x'] rem]. unfold call, scall, fa_d. cbn [fst snd]. rewrite Hk. rewrite memi_fa.
  destruct (t =? t') eqn:Et; cbn [andb]; [|reflexivity].
  destruct (x =? x'); cbn [andb]; [|reflexivity].
  destruct (mem idk (h, m) rem); cbn [andb]; [|reflexivity].
  destruct (inb h g); cbn [negb]; [reflexivity|].
  rewrite rem1_fa. apply Z.eqb_eq in Et. subst. repeat split; reflexivity.
Qed.

(* ---------- owed_call / owed_end on the head, or absent ---------- *)
Lemma owed_call_head h m t x d l : d_tok d = t ->
  owed_call h m t x (d :: l) = Some (match scall d h m t x with Some d' => Some (d' :: l) | None => None end).
Proof. intro H. cbn [owed_call]. rewrite H, Z.eqb_refl. reflexivity. Qed.

Lemma owed_call_absent h m t x l : ~ In t (map d_tok l) -> owed_call h m t x l = None.
Proof.
  induction l as [|d l IH]; intro H; [reflexivity|]. cbn [owed_call]. cbn [map In] in H.
  destruct (d_tok d =? t) eqn:E; [apply Z.eqb_eq in E; exfalso; apply H; left; exact E|].
  rewrite IH; [reflexivity|]. intro I. apply H. right. exact I.
Qed.

Lemma owed_end_head t d l : d_tok d = t ->
  owed_end t (d :: l) = Some (if isnil (d_rem d) then Some l else None).
Proof. intro H. cbn [owed_end]. rewrite H, Z.eqb_refl. reflexivity. Qed.

Lemma owed_end_absent t l : ~ In t (map d_tok l) -> owed_end t l = None.
Proof.
  induction l as [|d l IH]; intro H; [reflexivity|]. cbn [owed_end]. cbn [map In] in H.
  destruct (d_tok d =? t) eqn:E; [apply Z.eqb_eq in E; exfalso; apply H; left; exact E|].
  rewrite IH; [reflexivity|]. intro I. apply H. right. exact I.
Qed.

(* ---------- seek ---------- *)
Lemma targets_ext f g x : (forall e, f e = g e) -> targets f x = targets g x.
Proof. intro H. unfold targets. destruct (q_dir x); [reflexivity|apply H]. Qed.

Lemma skippable_ext f g x : (forall e, f e = g e) -> skippable f x = skippable g x.
Proof. intro H. unfold skippable. rewrite (targets_ext f g x H). reflexivity. Qed.

Lemma seek_ext f g t q : (forall e, f e = g e) -> seek f t q = seek g t q.
Proof.
  intro H. induction q as [|x q IH]; [reflexivity|]. cbn [seek]. rewrite (skippable_ext f g x H), IH. reflexivity.
Qed.

Lemma forallb_skippable_ext f g q : (forall e, f e = g e) -> forallb (skippable f) q = forallb (skippable g) q.
Proof. intro H. induction q as [|x q IH]; [reflexivity|]. cbn [forallb]. rewrite (skippable_ext f g x H), IH. reflexivity. Qed.

Lemma seek_some f t q x rest : seek f t q = Some (x, rest) ->
  q_tok x = t /\ In t (map q_tok q) /\ (forall y, In y (map q_tok rest) -> In y (map q_tok q)).
Proof.
  revert x rest. induction q as [|y q IH]; intros x rest H; [discriminate|]. cbn [seek] in H.
  destruct (q_tok y =? t) eqn:E.
  - apply Z.eqb_eq in E. injection H as -> ->. cbn [map In]. repeat split; auto.
  - destruct (skippable f y); [|discriminate]. destruct (IH _ _ H) as [H1 [H2 H3]]. cbn [map In]. repeat split; auto.
Qed.

Lemma seek_In f t q x rest : seek f t q = Some (x, rest) -> In x q /\ (forall y, In y rest -> In y q).
Proof.
  revert x rest. induction q as [|y q IH]; intros x rest H; [discriminate|]. cbn [seek] in H.
  destruct (q_tok y =? t).
  - injection H as -> ->. split; [left; reflexivity|intros z Hz; right; exact Hz].
  - destruct (skippable f y); [|discriminate]. destruct (IH _ _ H) as [H1 H2].
    split; [right; exact H1|intros z Hz; right; exact (H2 z Hz)].
Qed.

Lemma relay_holds_false h q : relay_holds h q = false ->
  forall x h' mm, In x q -> q_dir x = Some (h', mm) -> h' <> h.
Proof.
  unfold relay_holds. intros H x h' mm Hx Hd E. subst h'.
  assert (existsb (fun x => match q_dir x with Some hm => fst hm =? h | None => false end) q = true).
  { apply existsb_exists. exists x. split; [exact Hx|]. rewrite Hd. cbn [fst]. apply Z.eqb_refl. }
  congruence.
Qed.

Lemma relay_dir p t h x : In x (relay p t h) -> q_tok x = t /\ exists mm, q_dir x = Some (h, mm).
Proof.
  unfold relay. destruct (alookup on_add_ev (events_of p h)) as [m|]; [|intros []].
  intros [<-|[]]. cbn. split; [reflexivity|eexists; reflexivity].
Qed.

Lemma in_callback_recv stk : in_callback stk = negb (isnil (frames_recv stk)).
Proof. induction stk as [|[[o|] r|d|t c] stk IH]; cbn [in_callback frames_recv isnil negb]; auto. Qed.
