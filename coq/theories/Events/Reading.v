(* Events - what the specification machines say on raw log entries. *)
From Coq Require Import ZArith List Bool Lia.
From Desper Require Import Lib.Alist Events.Model Events.Spec Events.SimDefs.
Import ListNotations.
Open Scope Z_scope.

Lemma seek_is_fifo lis t q x rest : seek lis t q = Some (x, rest) ->
  exists skipped, q = skipped ++ x :: rest /\ q_tok x = t /\ forallb (skippable lis) skipped = true.
Proof.
  revert x rest. induction q as [|y q IH]; intros x rest H; [discriminate|]. cbn [seek] in H.
  destruct (q_tok y =? t) eqn:E.
  - apply Z.eqb_eq in E. injection H as -> ->. exists []. auto.
  - destruct (skippable lis y) eqn:Es; [|discriminate]. destruct (IH _ _ H) as [sk [H1 [H2 H3]]].
    exists (y :: sk). cbn [app forallb]. rewrite Es, H3, H1. auto.
Qed.

Lemma pending_taken_up_only_when_enabled p s h m t x s' :
    sstep p s (ECall h m t x) = Some s' -> In t (map q_tok (s_pend s)) ->
    ~ In t (map d_tok (s_owed s)) -> ~ In (Some t) (map (fun r => option_map d_tok (snd r)) (s_rel s)) ->
    s_en s = true /\ exists q rest, seek (fun e => listeners p e (s_reg s)) t (s_pend s) = Some (q, rest)
                                     /\ s_pend s' = rest.
Proof.
  intros H _ No Nr. unfold sstep in H. destruct (s_exc s); [discriminate|].
  rewrite (owed_call_absent h m t x _ No) in H.
  destruct (s_rel s) as [|[r cur] rels]; [discriminate|].
  assert (Hc : match cur with Some d => scall d h m t x | None => None end = None).
  { destruct cur as [[[t' x'] rem]|]; [|reflexivity]. cbn [scall].
    destruct (t =? t') eqn:E; [|reflexivity]. apply Z.eqb_eq in E. subst t'.
    exfalso. apply Nr. left. reflexivity. }
  rewrite Hc in H.
  destruct (s_en s && rel_done cur) eqn:E; [|discriminate]. apply andb_true_iff in E. destruct E as [E _].
  split; [exact E|].
  destruct (seek (fun e => listeners p e (s_reg s)) t (s_pend s)) as [[q rest]|]; [|discriminate].
  exists q, rest. split; [reflexivity|].
  destruct (scall (q_tok q, q_arg q, targets (fun e => listeners p e (s_reg s)) q) h m t x); [|discriminate].
  injection H as <-. reflexivity.
Qed.

Lemma enable_returns_with_nothing_pending p s t s' :
    sstep p s (EEnd t) = Some s' -> ~ In t (map d_tok (s_owed s)) -> s_exc s = false -> s_en s = true ->
    forallb (skippable (fun e => listeners p e (s_reg s))) (s_pend s) = true /\ s_pend s' = [].
Proof.
  intros H No Hx He. unfold sstep in H. rewrite Hx in H. rewrite (owed_end_absent t _ No) in H.
  destruct (s_rel s) as [|[r cur] rels]; [discriminate|].
  destruct ((t =? r) && rel_done cur); [|discriminate]. rewrite He in H.
  destruct (forallb (skippable (fun e => listeners p e (s_reg s))) (s_pend s)); [|discriminate].
  injection H as <-. split; reflexivity.
Qed.

Lemma raise_keeps_pending p s s' : sstep p s (EAct ARaise) = Some s' ->
    s_pend s' = s_pend s /\ s_owed s' = [] /\ s_rel s' = [] /\ s_exc s' = true.
Proof.
  unfold sstep. destruct (s_exc s); [discriminate|]. intro H. injection H as <-. repeat split.
Qed.

(* ---------- C10: no call has a freed receiver ---------- *)
From Desper Require Import Events.Tables.

(* replays only Drop / call / return / raise and the World component actions:
   g = freed so far, rv = receivers executing, ctl = handlers that entered a World row
   (a postponed on_add may hold them, so the replay never counts them as freed) *)
Fixpoint no_dead_call (g rv ctl : list hid) (log : list entry) : bool :=
  match log with
  | [] => true
  | EAct (ADrop h) :: log =>
      if inb h g || inb h rv || inb h ctl then no_dead_call g rv ctl log else no_dead_call (h :: g) rv ctl log
  | EAct (ACreate h) :: log => no_dead_call g rv (h :: ctl) log
  | EAct (AReplace _ h2) :: log => no_dead_call g rv (h2 :: ctl) log
  | ECall h _ _ _ :: log => negb (inb h g) && no_dead_call g (h :: rv) ctl log
  | ERet :: log => no_dead_call g (tl rv) ctl log
  | EAct ARaise :: log => no_dead_call g [] ctl log
  | _ :: log => no_dead_call g rv ctl log
  end.

Definition live_list (g : list hid) (l : list (hid * meth)) := forall x, In x l -> inb (fst x) g = false.

Record Inv (s : sstate) : Prop := {
  i_reg : forall h, inb h (s_reg s) = true -> inb h (s_gone s) = false;
  i_owed : forall d, In d (s_owed s) -> live_list (s_gone s) (d_rem d);
  i_rel : forall r d, In (r, Some d) (s_rel s) -> live_list (s_gone s) (d_rem d);
  i_dir : forall x h m, In x (s_pend s) -> q_dir x = Some (h, m) -> inb h (s_gone s) = false;
}.

Lemma In_rem1 x y l : In y (rem1 x l) -> In y l.
Proof.
  unfold rem1. induction l as [|z l IH]; cbn [remove1]; [tauto|].
  destruct (pairb idk x z); cbn [In]; intro H; [right; exact (IH H)|]. destruct H as [H|H]; [left; exact H|right; exact (IH H)].
Qed.

Lemma In_strip h x l : In x (strip h l) -> In x l /\ (fst x =? h) = false.
Proof. unfold strip. rewrite filter_In. intros [H1 H2]. split; [exact H1|]. apply negb_true_iff in H2. exact H2. Qed.

Lemma live_listeners p e regs g :
  (forall h, inb h regs = true -> inb h g = false) -> live_list g (listeners p e regs).
Proof. intros H x Hx. apply H. apply (mem_listeners_fst p e). apply mem_In. exact Hx. Qed.

Lemma scall_live g d h m t x d' :
  scall d h m t x = Some d' -> live_list g (d_rem d) -> inb h g = false /\ live_list g (d_rem d').
Proof.
  destruct d as [[t' x'] rem]. unfold scall, d_rem. cbn [snd].
  destruct ((t =? t') && (x =? x') && memi (h, m) rem) eqn:E; [|discriminate].
  intro H. injection H as <-. cbn [snd]. intro L.
  apply andb_true_iff in E. destruct E as [_ E]. apply mem_In in E. split.
  - exact (L (h, m) E).
  - intros y Hy. apply L. exact (In_rem1 _ _ _ Hy).
Qed.

Lemma owed_call_live g h m t x l l' :
  owed_call h m t x l = Some (Some l') -> (forall d, In d l -> live_list g (d_rem d)) ->
  inb h g = false /\ (forall d, In d l' -> live_list g (d_rem d)).
Proof.
  revert l'. induction l as [|d l IH]; intros l' H L; [discriminate|]. cbn [owed_call] in H.
  destruct (d_tok d =? t).
  - destruct (scall d h m t x) as [d'|] eqn:Es; [|discriminate]. injection H as <-.
    destruct (scall_live g _ _ _ _ _ _ Es (L d (or_introl eq_refl))) as [H1 H2]. split; [exact H1|].
    intros d0 [<-|H0]; [exact H2|]. apply L. right. exact H0.
  - destruct (owed_call h m t x l) as [[l''|]|] eqn:Eo; try discriminate. injection H as <-.
    destruct (IH l'' eq_refl (fun d0 H0 => L d0 (or_intror H0))) as [H1 H2]. split; [exact H1|].
    intros d0 [<-|H0]; [apply L; left; reflexivity|exact (H2 d0 H0)].
Qed.

Lemma owed_end_sub t l l' : owed_end t l = Some (Some l') -> forall d, In d l' -> In d l.
Proof.
  revert l'. induction l as [|d l IH]; intros l' H; [discriminate|]. cbn [owed_end] in H.
  destruct (d_tok d =? t).
  - destruct (isnil (d_rem d)); [|discriminate]. injection H as <-. intros d0 H0. right. exact H0.
  - destruct (owed_end t l) as [[l''|]|] eqn:Eo; try discriminate. injection H as <-.
    intros d0 [<-|H0]; [left; reflexivity|right; exact (IH l'' eq_refl d0 H0)].
Qed.

Lemma live_strip h g l : live_list g l -> live_list (h :: g) (strip h l).
Proof.
  intros L x Hx. apply In_strip in Hx. destruct Hx as [H1 H2]. rewrite inb_cons. unfold hid in *. rewrite H2. cbn [orb]. exact (L x H1).
Qed.

Ltac ssimpl := cbn [s_next s_reg s_gone s_en s_pend s_owed s_rel s_recv s_exc upd_reg upd_owed].

Lemma dir_app_relay p n h q g :
  (forall x h0 m, In x q -> q_dir x = Some (h0, m) -> inb h0 g = false) -> inb h g = false ->
  forall x h0 m, In x (q ++ relay p n h) -> q_dir x = Some (h0, m) -> inb h0 g = false.
Proof.
  intros Hq Hh x h0 m Hx Hd. apply in_app_or in Hx. destruct Hx as [Hx|Hx]; [exact (Hq _ _ _ Hx Hd)|].
  destruct (relay_dir _ _ _ _ Hx) as [_ [m' Hd']]. rewrite Hd' in Hd. injection Hd as <- _. exact Hh.
Qed.

Lemma live_targets p s q : Inv s -> In q (s_pend s) ->
  live_list (s_gone s) (targets (fun e => listeners p e (s_reg s)) q).
Proof.
  intros [Ireg _ _ Idir] Hq. unfold targets. destruct (q_dir q) as [[h0 m0]|] eqn:Ed.
  - intros y [<-|[]]. cbn [fst]. exact (Idir _ _ _ Hq Ed).
  - apply live_listeners. exact Ireg.
Qed.

Definition call_live (s : sstate) (e : entry) : Prop :=
  match e with ECall h _ _ _ => inb h (s_gone s) = false | _ => True end.

Lemma sstep_Inv p s e s' : Inv s -> sstep p s e = Some s' -> Inv s' /\ call_live s e.
Proof.
  intros I H. pose proof I as [Ireg Iowed Irel Idir]. unfold sstep in H. destruct (s_exc s) eqn:Ex.
  { destruct e; try discriminate. injection H as <-. split; [constructor; auto|exact Logic.I]. }
  destruct e as [a|h b|h m t x| |t| |].
  - destruct a as [h|h|h|e x|b| | |h|h|h|h h2].
    + destruct (inb h (s_gone s)) eqn:Eg; injection H as <-; (split; [|exact Logic.I]).
      * constructor; auto.
      * constructor; ssimpl; auto. intros h' Hh'. rewrite inb_hadd in Hh'. apply orb_true_iff in Hh'.
        destruct Hh' as [Hh'|Hh']; [auto|]. apply Z.eqb_eq in Hh'. subst. exact Eg.
    + destruct (inb h (s_gone s)) eqn:Eg; injection H as <-; (split; [|exact Logic.I]).
      * constructor; auto.
      * constructor; ssimpl; auto. intros h' Hh'. rewrite inb_hdel in Hh'. apply andb_true_iff in Hh'.
        destruct Hh' as [Hh' _]. auto.
    + discriminate.
    + destruct (s_en s); injection H as <-; (split; [|exact Logic.I]).
      * constructor; ssimpl; auto. intros d [<-|Hd]; [|auto]. unfold d_rem. cbn [snd]. apply live_listeners. exact Ireg.
      * constructor; ssimpl; auto. intros x0 h0 m0 Hx Hd. apply in_app_or in Hx.
        destruct Hx as [Hx|[<-|[]]]; [exact (Idir _ _ _ Hx Hd)|discriminate].
    + destruct b; injection H as <-; (split; [|exact Logic.I]).
      * constructor; ssimpl; auto. intros r d [Hd|Hd]; [discriminate|]. eauto.
      * constructor; ssimpl; auto.
    + injection H as <-. split; [|exact Logic.I].
      constructor; ssimpl; auto; try (intros h Hh; discriminate); try (intros x0 h0 m0 []).
    + injection H as <-. split; [|exact Logic.I].
      constructor; ssimpl; auto; intros; contradiction.
    + destruct (inb h (s_gone s) || inb h (s_recv s)) eqn:Eg.
      * cbn [orb] in H. injection H as <-. split; [exact I|exact Logic.I].
      * destruct (relay_holds h (s_pend s)) eqn:Eh; cbn [orb] in H; injection H as <-.
        { split; [exact I|exact Logic.I]. }
        split; [|exact Logic.I].
        constructor; ssimpl.
        -- intros h' Hh'. rewrite inb_hdel in Hh'. apply andb_true_iff in Hh'. destruct Hh' as [H1 H2].
           rewrite inb_cons. apply negb_true_iff in H2. rewrite H2. cbn [orb]. auto.
        -- intros d Hd. apply in_map_iff in Hd. destruct Hd as [d0 [<- Hd0]]. unfold strip_d, d_rem. cbn [snd].
           apply live_strip. exact (Iowed d0 Hd0).
        -- intros r d Hd. apply in_map_iff in Hd. destruct Hd as [[r0 c0] [E Hd0]]. cbn [fst snd] in E.
           injection E as -> E. destruct c0 as [d0|]; [|discriminate]. cbn [option_map] in E. injection E as <-.
           unfold strip_d, d_rem. cbn [snd]. apply live_strip. exact (Irel r d0 Hd0).
        -- intros x0 h0 m0 Hx Hd. rewrite inb_cons.
           pose proof (relay_holds_false _ _ Eh _ _ _ Hx Hd) as Hne. apply Z.eqb_neq in Hne. rewrite Hne.
           cbn [orb]. exact (Idir _ _ _ Hx Hd).
    + destruct (s_en s || inb h (s_gone s)) eqn:Ec; [discriminate|]. apply orb_false_iff in Ec. destruct Ec as [_ Eg].
      injection H as <-. split; [|exact Logic.I]. constructor; ssimpl; auto.
      * intros h' Hh'. rewrite inb_hadd in Hh'. apply orb_true_iff in Hh'.
        destruct Hh' as [Hh'|Hh']; [auto|]. apply Z.eqb_eq in Hh'. subst. exact Eg.
      * apply dir_app_relay; auto.
    + destruct (sleave_blocked h s); [discriminate|].
      destruct (relay_holds h (s_pend s)) eqn:Eh; injection H as <-; (split; [|exact Logic.I]); constructor; ssimpl; auto.
      * intros h' Hh'. rewrite inb_hdel in Hh'. apply andb_true_iff in Hh'. destruct Hh' as [Hh' _]. auto.
      * intros h' Hh'. rewrite inb_hdel in Hh'. apply andb_true_iff in Hh'. destruct Hh' as [H1 H2].
        rewrite inb_cons. apply negb_true_iff in H2. rewrite H2. cbn [orb]. auto.
      * intros d Hd. apply in_map_iff in Hd. destruct Hd as [d0 [<- Hd0]]. unfold strip_d, d_rem. cbn [snd].
        apply live_strip. exact (Iowed d0 Hd0).
      * intros r d Hd. apply in_map_iff in Hd. destruct Hd as [[r0 c0] [E Hd0]]. cbn [fst snd] in E.
        injection E as -> E. destruct c0 as [d0|]; [|discriminate]. cbn [option_map] in E. injection E as <-.
        unfold strip_d, d_rem. cbn [snd]. apply live_strip. exact (Irel r d0 Hd0).
      * intros x0 h0 m0 Hx Hd. rewrite inb_cons.
        pose proof (relay_holds_false _ _ Eh _ _ _ Hx Hd) as Hne. apply Z.eqb_neq in Hne. rewrite Hne.
        cbn [orb]. exact (Idir _ _ _ Hx Hd).
    + destruct (s_en s || inb h2 (s_gone s) || (h =? h2) || sleave_blocked h s) eqn:Ec; [discriminate|].
      apply orb_false_iff in Ec. destruct Ec as [Ec _]. apply orb_false_iff in Ec. destruct Ec as [Ec Ene].
      apply orb_false_iff in Ec. destruct Ec as [_ Eg]. apply Z.eqb_neq in Ene.
      assert (Hx2 : (h2 =? h) = false) by (apply Z.eqb_neq; congruence).
      destruct (relay_holds h (s_pend s)) eqn:Eh; injection H as <-; (split; [|exact Logic.I]); constructor; ssimpl; auto.
      * intros h' Hh'. rewrite inb_hadd in Hh'. apply orb_true_iff in Hh'. destruct Hh' as [Hh'|Hh'].
        -- rewrite inb_hdel in Hh'. apply andb_true_iff in Hh'. destruct Hh' as [Hh' _]. auto.
        -- apply Z.eqb_eq in Hh'. subst. exact Eg.
      * apply dir_app_relay; auto.
      * intros h' Hh'. rewrite inb_cons. rewrite inb_hadd in Hh'. apply orb_true_iff in Hh'. destruct Hh' as [Hh'|Hh'].
        -- rewrite inb_hdel in Hh'. apply andb_true_iff in Hh'. destruct Hh' as [Hh' Hn].
           apply negb_true_iff in Hn. rewrite Hn. cbn [orb]. auto.
        -- apply Z.eqb_eq in Hh'. subst. rewrite Hx2. cbn [orb]. exact Eg.
      * intros d Hd. apply in_map_iff in Hd. destruct Hd as [d0 [<- Hd0]]. unfold strip_d, d_rem. cbn [snd].
        apply live_strip. exact (Iowed d0 Hd0).
      * intros r d Hd. apply in_map_iff in Hd. destruct Hd as [[r0 c0] [E Hd0]]. cbn [fst snd] in E.
        injection E as -> E. destruct c0 as [d0|]; [|discriminate]. cbn [option_map] in E. injection E as <-.
        unfold strip_d, d_rem. cbn [snd]. apply live_strip. exact (Irel r d0 Hd0).
      * apply dir_app_relay.
        -- intros x0 h0 m0 Hx Hd. rewrite inb_cons.
           pose proof (relay_holds_false _ _ Eh _ _ _ Hx Hd) as Hne. apply Z.eqb_neq in Hne. rewrite Hne.
           cbn [orb]. exact (Idir _ _ _ Hx Hd).
        -- rewrite inb_cons, Hx2. cbn [orb]. exact Eg.
  - destruct (Bool.eqb b (inb h (s_reg s))); [|discriminate]. injection H as <-.
    split; [exact I|exact Logic.I].
  - (* ECall *)
    cbn [call_live].
    destruct (owed_call h m t x (s_owed s)) as [[l|]|] eqn:Eo; try discriminate.
    + injection H as <-. destruct (owed_call_live (s_gone s) _ _ _ _ _ _ Eo Iowed) as [H1 H2].
      split; [constructor; ssimpl; auto|exact H1].
    + destruct (s_rel s) as [|[r cur] rels] eqn:Er; [discriminate|].
      destruct (match cur with Some d => scall d h m t x | None => None end) as [d'|] eqn:Ec.
      * destruct cur as [d|]; [|discriminate]. injection H as <-.
        destruct (scall_live (s_gone s) _ _ _ _ _ _ Ec (Irel r d (or_introl eq_refl))) as [H1 H2].
        split; [|exact H1]. constructor; ssimpl; auto.
        intros r0 d0 [E|H0]; [injection E as <- <-; exact H2|]. apply (Irel r0 d0). right. exact H0.
      * destruct (s_en s && rel_done cur); [|discriminate].
        destruct (seek (fun e => listeners p e (s_reg s)) t (s_pend s)) as [[q rest]|] eqn:Ek; [|discriminate].
        destruct (seek_In _ _ _ _ _ Ek) as [Hin Hsub].
        destruct (scall (q_tok q, q_arg q, targets (fun e => listeners p e (s_reg s)) q) h m t x) as [d'|] eqn:Es; [|discriminate].
        injection H as <-.
        destruct (scall_live (s_gone s) _ _ _ _ _ _ Es (live_targets p s q I Hin)) as [H1 H2].
        split; [|exact H1]. constructor; ssimpl; auto.
        -- intros r0 d0 [E|H0]; [injection E as <- <-; exact H2|]. apply (Irel r0 d0). right. exact H0.
        -- intros x0 h0 m0 Hx Hd. exact (Idir _ _ _ (Hsub _ Hx) Hd).
  - destruct (s_recv s) as [|h0 rv]; [discriminate|]. injection H as <-.
    split; [constructor; auto|exact Logic.I].
  - destruct (owed_end t (s_owed s)) as [[l|]|] eqn:Eo; try discriminate.
    + injection H as <-. split; [|exact Logic.I]. constructor; ssimpl; auto.
      intros d Hd. apply Iowed. exact (owed_end_sub _ _ _ Eo d Hd).
    + destruct (s_rel s) as [|[r cur] rels] eqn:Er; [discriminate|].
      destruct ((t =? r) && rel_done cur); [|discriminate].
      assert (Irel' : forall r0 d0, In (r0, Some d0) rels -> live_list (s_gone s) (d_rem d0)).
      { intros r0 d0 H0. apply (Irel r0 d0). right. exact H0. }
      destruct (s_en s).
      * destruct (forallb (skippable (fun e => listeners p e (s_reg s))) (s_pend s)); [|discriminate].
        injection H as <-. split; [constructor; ssimpl; auto; intros x0 h0 m0 []|exact Logic.I].
      * injection H as <-. split; [constructor; ssimpl; auto|exact Logic.I].
  - discriminate.
  - injection H as <-. split; [exact I|exact Logic.I].
Qed.

Definition sub (g g' : list hid) := forall h, inb h g = true -> inb h g' = true.
Definition dirs_in (q : list qent) (ctl : list hid) :=
  forall x h m, In x q -> q_dir x = Some (h, m) -> inb h ctl = true.
Definition recv_next (rv : list hid) (e : entry) : list hid :=
  match e with ECall h _ _ _ => h :: rv | ERet => tl rv | EAct ARaise => [] | _ => rv end.
Definition ctl_next (ctl : list hid) (e : entry) : list hid :=
  match e with EAct (ACreate h) => h :: ctl | EAct (AReplace _ h2) => h2 :: ctl | _ => ctl end.

Lemma dirs_in_relay p n h q ctl : dirs_in q ctl -> dirs_in (q ++ relay p n h) (h :: ctl).
Proof.
  intros D x h0 m Hx Hd. rewrite inb_cons. apply in_app_or in Hx. destruct Hx as [Hx|Hx].
  - rewrite (D _ _ _ Hx Hd). apply orb_true_r.
  - destruct (relay_dir _ _ _ _ Hx) as [_ [m' Hd']]. rewrite Hd' in Hd. injection Hd as <- _.
    rewrite Z.eqb_refl. reflexivity.
Qed.

(* how the observable part of the specification state moves *)
Lemma sstep_evol p s e s' ctl : sstep p s e = Some s' -> dirs_in (s_pend s) ctl ->
  s_recv s' = recv_next (s_recv s) e /\ sub (s_gone s) (s_gone s') /\
  dirs_in (s_pend s') (ctl_next ctl e) /\
  (forall h, e = EAct (ADrop h) ->
     inb h (s_gone s') = true \/ inb h (s_recv s) = true \/ relay_holds h (s_pend s) = true).
Proof.
  intros H D. unfold sstep in H. destruct (s_exc s).
  { destruct e; try discriminate. injection H as <-. cbn. repeat split; auto; try (intros h0 E; discriminate).
    intros h0 E; exact E. }
  assert (S0 : sub (s_gone s) (s_gone s)) by (intros h0 E; exact E).
  destruct e as [a|h b|h m t x| |t| |].
  - destruct a as [h|h|h|e x|b| | |h|h|h|h h2]; cbn [recv_next ctl_next].
    + destruct (inb h (s_gone s)); injection H as <-; repeat split; auto; intros h0 E; discriminate.
    + destruct (inb h (s_gone s)); injection H as <-; repeat split; auto; intros h0 E; discriminate.
    + discriminate.
    + destruct (s_en s); injection H as <-; ssimpl; repeat split; auto; try (intros h0 E; discriminate).
      intros x0 h0 m0 Hx Hd. apply in_app_or in Hx. destruct Hx as [Hx|[<-|[]]]; [exact (D _ _ _ Hx Hd)|discriminate].
    + destruct b; injection H as <-; ssimpl; repeat split; auto; intros h0 E; discriminate.
    + injection H as <-; ssimpl; repeat split; auto; try (intros h0 E; discriminate). intros x0 h0 m0 [].
    + injection H as <-; ssimpl; repeat split; auto; intros h0 E; discriminate.
    + destruct (inb h (s_gone s)) eqn:Eg; cbn [orb] in H.
      { injection H as <-. repeat split; auto. intros h0 E. injection E as E. subst h0. left. exact Eg. }
      destruct (inb h (s_recv s)) eqn:Er; cbn [orb] in H.
      { injection H as <-. repeat split; auto. intros h0 E. injection E as E. subst h0. right. left. exact Er. }
      destruct (relay_holds h (s_pend s)) eqn:Eh.
      { injection H as <-. repeat split; auto. intros h0 E. injection E as E. subst h0. right. right. exact Eh. }
      injection H as <-. ssimpl. repeat split; auto.
      * intros h0 E. rewrite inb_cons, E. apply orb_true_r.
      * intros h0 E. injection E as E. subst h0. left. rewrite inb_cons, Z.eqb_refl. reflexivity.
    + destruct (s_en s || inb h (s_gone s)); [discriminate|]. injection H as <-. ssimpl.
      repeat split; auto; try (intros h0 E; discriminate). apply dirs_in_relay. exact D.
    + destruct (sleave_blocked h s); [discriminate|].
      destruct (relay_holds h (s_pend s)); injection H as <-; ssimpl; repeat split; auto;
        try (intros h0 E; discriminate).
      intros h0 E. rewrite inb_cons, E. apply orb_true_r.
    + destruct (s_en s || inb h2 (s_gone s) || (h =? h2) || sleave_blocked h s); [discriminate|].
      destruct (relay_holds h (s_pend s)); injection H as <-; ssimpl; repeat split; auto;
        try (intros h0 E; discriminate); try (apply dirs_in_relay; exact D).
      intros h0 E. rewrite inb_cons, E. apply orb_true_r.
  - destruct (Bool.eqb b (inb h (s_reg s))); [|discriminate]. injection H as <-.
    repeat split; auto; intros h0 E; discriminate.
  - cbn [recv_next ctl_next].
    destruct (owed_call h m t x (s_owed s)) as [[l|]|]; try discriminate.
    + injection H as <-. ssimpl. repeat split; auto; intros h0 E; discriminate.
    + destruct (s_rel s) as [|[r cur] rels]; [discriminate|].
      destruct (match cur with Some d => scall d h m t x | None => None end) as [d'|].
      * injection H as <-. ssimpl. repeat split; auto; intros h0 E; discriminate.
      * destruct (s_en s && rel_done cur); [|discriminate].
        destruct (seek (fun e => listeners p e (s_reg s)) t (s_pend s)) as [[q rest]|] eqn:Ek; [|discriminate].
        destruct (seek_In _ _ _ _ _ Ek) as [_ Hsub].
        destruct (scall (q_tok q, q_arg q, targets (fun e => listeners p e (s_reg s)) q) h m t x); [|discriminate].
        injection H as <-. ssimpl. repeat split; auto; try (intros h0 E; discriminate).
        intros x0 h0 m0 Hx Hd. exact (D _ _ _ (Hsub _ Hx) Hd).
  - destruct (s_recv s) as [|h0 rv]; [discriminate|]. injection H as <-. ssimpl.
    repeat split; auto; intros h1 E; discriminate.
  - destruct (owed_end t (s_owed s)) as [[l|]|]; try discriminate.
    + injection H as <-. ssimpl. repeat split; auto; intros h0 E; discriminate.
    + destruct (s_rel s) as [|[r cur] rels]; [discriminate|].
      destruct ((t =? r) && rel_done cur); [|discriminate].
      destruct (s_en s).
      * destruct (forallb (skippable (fun e => listeners p e (s_reg s))) (s_pend s)); [|discriminate].
        injection H as <-. ssimpl. repeat split; auto; try (intros h0 E; discriminate). intros x0 h0 m0 [].
      * injection H as <-. ssimpl. repeat split; auto; intros h0 E; discriminate.
  - discriminate.
  - injection H as <-. repeat split; auto; intros h0 E; discriminate.
Qed.

Lemma relay_holds_true h q : relay_holds h q = true -> exists x m, In x q /\ q_dir x = Some (h, m).
Proof.
  unfold relay_holds. rewrite existsb_exists. intros [x [Hx E]]. destruct (q_dir x) as [[h0 m0]|] eqn:Ed; [|discriminate].
  cbn [fst] in E. apply Z.eqb_eq in E. subst. exists x, m0. split; [exact Hx|exact Ed].
Qed.

Lemma srun_no_dead_call p log : forall s s' g ctl, Inv s -> srun p s log = Some s' ->
  sub g (s_gone s) -> dirs_in (s_pend s) ctl -> no_dead_call g (s_recv s) ctl log = true.
Proof.
  induction log as [|e log IH]; intros s s' g ctl I H G D; [reflexivity|]. cbn [srun] in H.
  destruct (sstep p s e) as [s1|] eqn:Es; [|discriminate].
  destruct (sstep_Inv p s e s1 I Es) as [I1 CL].
  destruct (sstep_evol p s e s1 ctl Es D) as [Er [Gm [D1 Dr]]].
  assert (G1 : sub g (s_gone s1)) by (intros h0 E; exact (Gm _ (G _ E))).
  assert (Gen : no_dead_call g (recv_next (s_recv s) e) (ctl_next ctl e) log = true).
  { rewrite <- Er. exact (IH s1 s' g _ I1 H G1 D1). }
  destruct e as [a|h b|h m t x| |t| |]; try exact Gen.
  - destruct a as [h|h|h|e x|b| | |h|h|h|h h2]; try exact Gen.
    cbn [no_dead_call]. cbn [recv_next ctl_next] in *.
    destruct (inb h g || inb h (s_recv s) || inb h ctl) eqn:Ec; [exact Gen|].
    apply orb_false_iff in Ec. destruct Ec as [Ec Ec3]. apply orb_false_iff in Ec. destruct Ec as [Ec1 Ec2].
    rewrite <- Er. apply (IH s1 s' (h :: g) ctl I1 H); [|exact D1].
    intros h0 E. rewrite inb_cons in E. apply orb_true_iff in E. destruct E as [E|E]; [|exact (G1 _ E)].
    apply Z.eqb_eq in E. subst h0.
    destruct (Dr h eq_refl) as [X|[X|X]]; [exact X|congruence|].
    destruct (relay_holds_true _ _ X) as [x0 [m0 [Hx Hd]]]. rewrite (D _ _ _ Hx Hd) in Ec3. discriminate.
  - cbn [no_dead_call]. cbn [recv_next ctl_next] in Gen. rewrite Gen, andb_true_r.
    cbn [call_live] in CL. destruct (inb h g) eqn:E; [|reflexivity]. rewrite (G _ E) in CL. discriminate.
Qed.

Theorem holdsq_no_dead_call p log : holdsq_b p log = true -> no_dead_call [] [] [] log = true.
Proof.
  unfold holdsq_b. intro H. destruct (srun p sinit log) as [s'|] eqn:E; [|discriminate].
  apply (srun_no_dead_call p log sinit s' [] []); [|exact E| |].
  - constructor; cbn; intros; try contradiction. discriminate.
  - intros h0 E0. discriminate.
  - intros x0 h0 m0 [].
Qed.

Theorem dropped_is_unregistered p s h s' : sstep p s (EAct (ADrop h)) = Some s' ->
    inb h (s_gone s) = false -> inb h (s_recv s) = false -> relay_holds h (s_pend s) = false ->
    inb h (s_reg s') = false /\ inb h (s_gone s') = true /\
    forall e, ~ exists m, In (h, m) (listeners p e (s_reg s')).
Proof.
  unfold sstep. destruct (s_exc s); [discriminate|]. intros H G R Q. rewrite G, R, Q in H. cbn [orb] in H.
  injection H as <-. cbn [s_reg s_gone].
  assert (E : inb h (hdel h (s_reg s)) = false).
  { rewrite inb_hdel. rewrite Z.eqb_refl. apply andb_false_r. }
  split; [exact E|]. split; [rewrite inb_cons, Z.eqb_refl; reflexivity|].
  intros e [m Hm]. apply mem_In in Hm. apply mem_listeners_fst in Hm. cbn [fst] in Hm. rewrite E in Hm. discriminate.
Qed.
