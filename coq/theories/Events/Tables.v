(* Events - the dict/set reasoning: after any sequence of add_handler /
   remove_handler the two tables of the dispatcher are exactly "the
   listeners of the registered set".  (Handlers compare by identity here:
   key function [idk].) *)
From Coq Require Import ZArith List Bool Lia.
From Desper Require Import Lib.Alist Events.Model Events.Spec.
Import ListNotations.
Open Scope Z_scope.

Definition keys_nodup (p : params) := forall h, NoDup (map fst (events_of p h)).

Lemma look_aset k v acc e : look (aset k v acc) e = if e =? k then v else look acc e.
Proof. unfold look. rewrite alookup_aset. destruct (e =? k); reflexivity. Qed.

Lemma fold_add_look h evs : forall acc e,
  look (fold_left (fun acc em => aset (fst em) (set_add idk (h, snd em) (look acc (fst em))) acc) evs acc) e
  = fold_left (fun cur em => set_add idk (h, snd em) cur) (pick e evs) (look acc e).
Proof.
  induction evs as [|[k m] evs IH]; intros acc e; simpl; [reflexivity|].
  rewrite IH. rewrite look_aset. rewrite (Z.eqb_sym e k).
  destruct (k =? e) eqn:E; simpl; [apply Z.eqb_eq in E; subst; reflexivity | reflexivity].
Qed.

Lemma pick_absent e l : ~ In e (map fst l) -> pick e l = [].
Proof.
  induction l as [|[k2 m2] l IHl]; simpl; intro Hn; [reflexivity|].
  destruct (k2 =? e) eqn:E2; [apply Z.eqb_eq in E2; subst; exfalso; apply Hn; left; reflexivity|].
  apply IHl. intro I. apply Hn. right. exact I.
Qed.

Lemma pick_small e evs : NoDup (map fst evs) -> pick e evs = [] \/ exists m, pick e evs = [(e, m)].
Proof.
  induction evs as [|[k m] evs IH]; simpl; intro N; [left; reflexivity|].
  inversion N as [|? ? Hni N']; subst. destruct (k =? e) eqn:E.
  - apply Z.eqb_eq in E. subst k. right. exists m. f_equal. apply pick_absent. exact Hni.
  - apply IH. exact N'.
Qed.

Lemma mem_app x l1 l2 : mem idk x (l1 ++ l2) = mem idk x l1 || mem idk x l2.
Proof. induction l1 as [|y l1 IH]; simpl; [reflexivity|]. rewrite IH. apply orb_assoc. Qed.

Lemma pairb_refl x : pairb idk x x = true.
Proof. unfold pairb. rewrite !Z.eqb_refl. reflexivity. Qed.

Lemma pairb_eq x y : pairb idk x y = true -> x = y.
Proof. destruct x, y. unfold pairb, idk. simpl. intro H. apply andb_true_iff in H. destruct H as [H1 H2].
  apply Z.eqb_eq in H1. apply Z.eqb_eq in H2. subst. reflexivity. Qed.

Lemma mem_In x l : mem idk x l = true <-> In x l.
Proof. induction l as [|y l IH]; simpl; [split; [discriminate|tauto]|]. rewrite orb_true_iff, IH. split.
  - intros [H|H]; [left; symmetry; apply pairb_eq; exact H | right; exact H].
  - intros [H|H]; [left; subst; apply pairb_refl | right; exact H]. Qed.

Lemma mem_contrib p e h x : mem idk x (contrib p e h) = true -> fst x = h.
Proof. unfold contrib. induction (pick e (events_of p h)) as [|em l IH]; simpl; [discriminate|].
  intro H. apply orb_true_iff in H. destruct H as [H|H]; [|exact (IH H)].
  unfold pairb, idk in H. apply andb_true_iff in H. destruct H as [H _]. apply Z.eqb_eq in H. exact H. Qed.

Arguments pick : simpl never.
Arguments contrib : simpl never.

Lemma inb_cons h x l : inb h (x :: l) = (h =? x) || inb h l.
Proof. reflexivity. Qed.

Lemma mem_listeners_fst p e regs x : mem idk x (listeners p e regs) = true -> inb (fst x) regs = true.
Proof. unfold listeners. induction regs as [|h regs IH]; cbn [flat_map]; [discriminate|]. rewrite mem_app. intro H.
  rewrite inb_cons. apply orb_true_iff in H. destruct H as [H|H].
  - apply mem_contrib in H. rewrite H. rewrite Z.eqb_refl. reflexivity.
  - rewrite (IH H). apply orb_true_r. Qed.

Lemma mem_listeners_in p e regs h m :
  inb h regs = true -> pick e (events_of p h) = [(e, m)] -> mem idk (h, m) (listeners p e regs) = true.
Proof. unfold listeners. induction regs as [|h' regs IH]; cbn [flat_map]; [discriminate|]. rewrite inb_cons. intros Hin Hp. rewrite mem_app.
  destruct (h =? h') eqn:E.
  - apply Z.eqb_eq in E. subst h'. unfold contrib. rewrite Hp. simpl. rewrite pairb_refl. reflexivity.
  - simpl in Hin. rewrite (IH Hin Hp). apply orb_true_r. Qed.

Lemma inb_hadd h' h regs : inb h' (hadd h regs) = inb h' regs || (h' =? h).
Proof. unfold hadd. destruct (inb h regs) eqn:E.
  - destruct (h' =? h) eqn:E2; [apply Z.eqb_eq in E2; subst; rewrite E; reflexivity | rewrite orb_false_r; reflexivity].
  - unfold inb. rewrite existsb_app. simpl. rewrite orb_false_r. reflexivity. Qed.

Definition tables_ok (p : params) (T : tables) (regs : list hid) : Prop :=
  (forall e, look (t_events T) e = listeners p e regs) /\
  (forall h, alookup h (t_handlers T) = if inb h regs then Some (events_of p h) else None).

Lemma add_handler_ok p : keys_nodup p -> forall T regs h,
  tables_ok p T regs -> tables_ok p (add_handler idk (events_of p h) h T) (hadd h regs).
Proof.
  intros K T regs h [Rev Rhd]. split.
  - intro e. unfold add_handler. cbn [t_events].
    rewrite fold_add_look. rewrite Rev.
    unfold hadd. destruct (inb h regs) eqn:Ein.
    + destruct (pick_small e _ (K h)) as [Hp|[m Hp]]; rewrite Hp; simpl; [reflexivity|].
      unfold set_add. rewrite (mem_listeners_in p e regs h m Ein Hp). reflexivity.
    + unfold listeners. rewrite flat_map_app. simpl. rewrite app_nil_r. fold (listeners p e regs). unfold contrib.
      destruct (pick_small e _ (K h)) as [Hp|[m Hp]]; rewrite Hp; simpl; [rewrite app_nil_r; reflexivity|].
      unfold set_add. destruct (mem idk (h, m) (listeners p e regs)) eqn:Em; [|reflexivity].
      apply mem_listeners_fst in Em. simpl in Em. rewrite Em in Ein. discriminate.
  - intro h'. unfold add_handler. cbn [t_handlers]. unfold idk at 1. rewrite inb_hadd. rewrite alookup_aset.
    destruct (h' =? h) eqn:E.
    + apply Z.eqb_eq in E. subst h'. rewrite orb_true_r. reflexivity.
    + rewrite orb_false_r. apply Rhd.
Qed.

Lemma fold_rem_look h evs : forall acc e,
  look (fold_left (fun acc em => match alookup (fst em) acc with
                                  | Some l => aset (fst em) (remove1 idk (h, snd em) l) acc
                                  | None => acc end) evs acc) e
  = fold_left (fun cur em => remove1 idk (h, snd em) cur) (pick e evs) (look acc e).
Proof.
  induction evs as [|[k m] evs IH]; intros acc e; [reflexivity|].
  cbn [fold_left fst snd]. rewrite IH. unfold pick. cbn [filter fst]. fold (pick e evs).
  destruct (alookup k acc) as [l|] eqn:El.
  - rewrite look_aset. rewrite (Z.eqb_sym e k). destruct (k =? e) eqn:E; cbn [fold_left snd]; [|reflexivity].
    apply Z.eqb_eq in E. subst k. unfold look. rewrite El. reflexivity.
  - destruct (k =? e) eqn:E; cbn [fold_left snd]; [|reflexivity].
    apply Z.eqb_eq in E. subst k. unfold look. rewrite El. reflexivity.
Qed.

Lemma remove1_app x l1 l2 : remove1 idk x (l1 ++ l2) = remove1 idk x l1 ++ remove1 idk x l2.
Proof. induction l1 as [|y l1 IH]; simpl; [reflexivity|]. destruct (pairb idk x y); [exact IH | simpl; f_equal; exact IH]. Qed.

Lemma remove1_other p e h h' m : h <> h' -> remove1 idk (h, m) (contrib p e h') = contrib p e h'.
Proof. intro N. unfold contrib. induction (pick e (events_of p h')) as [|em l IH]; simpl; [reflexivity|].
  unfold pairb at 1. unfold idk at 1 2. simpl. destruct (h =? h') eqn:E; [apply Z.eqb_eq in E; contradiction|]. simpl. f_equal. exact IH. Qed.

Lemma hdel_cons h h' regs : hdel h (h' :: regs) = if h' =? h then hdel h regs else h' :: hdel h regs.
Proof. unfold hdel. simpl. destruct (h' =? h); reflexivity. Qed.

Lemma listeners_hdel_single p e h m regs :
  pick e (events_of p h) = [(e, m)] -> remove1 idk (h, m) (listeners p e regs) = listeners p e (hdel h regs).
Proof. intro Hp. unfold listeners. induction regs as [|h' regs IH]; [reflexivity|].
  rewrite hdel_cons. cbn [flat_map]. rewrite remove1_app, IH. destruct (h' =? h) eqn:E.
  - apply Z.eqb_eq in E. subst h'. unfold contrib at 1. rewrite Hp. simpl. rewrite pairb_refl. reflexivity.
  - apply Z.eqb_neq in E. rewrite remove1_other by (intro X; apply E; symmetry; exact X). reflexivity. Qed.

Lemma listeners_hdel_none p e h regs :
  pick e (events_of p h) = [] -> listeners p e regs = listeners p e (hdel h regs).
Proof. intro Hp. unfold listeners. induction regs as [|h' regs IH]; [reflexivity|].
  rewrite hdel_cons. cbn [flat_map]. rewrite IH. destruct (h' =? h) eqn:E; [|reflexivity].
  apply Z.eqb_eq in E. subst h'. unfold contrib at 1. rewrite Hp. reflexivity. Qed.

Arguments hdel : simpl never.
Lemma hdel_absent h regs : inb h regs = false -> hdel h regs = regs.
Proof. induction regs as [|h' regs IH]; [reflexivity|]. intro H. unfold inb in H. simpl in H. apply orb_false_iff in H. destruct H as [H1 H2].
  rewrite hdel_cons. rewrite (Z.eqb_sym h' h), H1. f_equal. exact (IH H2). Qed.

Lemma inb_hdel h' h regs : inb h' (hdel h regs) = inb h' regs && negb (h' =? h).
Proof. induction regs as [|x regs IH]; [reflexivity|]. rewrite hdel_cons. destruct (x =? h) eqn:E.
  - apply Z.eqb_eq in E. subst x. rewrite IH. rewrite inb_cons.
    destruct (h' =? h); simpl; [rewrite andb_false_r; reflexivity | reflexivity].
  - rewrite !inb_cons. rewrite IH.
    destruct (h' =? x) eqn:E2; simpl; [|reflexivity].
    apply Z.eqb_eq in E2. subst x. rewrite E. reflexivity. Qed.

Lemma remove_handler_ok p : keys_nodup p -> forall T regs h,
  tables_ok p T regs -> tables_ok p (remove_handler idk h T) (hdel h regs).
Proof.
  intros K T regs h [Rev Rhd]. unfold remove_handler. unfold idk at 1. pose proof (Rhd h) as Rh.
  destruct (inb h regs) eqn:Ein; rewrite Rh.
  - split.
    + intro e. cbn [t_events].
      rewrite fold_rem_look. rewrite Rev.
      destruct (pick_small e _ (K h)) as [Hp|[m Hp]]; rewrite Hp; cbn [fold_left snd].
      * apply listeners_hdel_none. exact Hp.
      * apply listeners_hdel_single. exact Hp.
    + intro h'. cbn [t_handlers]. unfold idk at 1. rewrite inb_hdel. rewrite alookup_adel. destruct (h' =? h) eqn:E.
      * rewrite andb_false_r. reflexivity.
      * rewrite andb_true_r. apply Rhd.
  - rewrite (hdel_absent h regs Ein). split; assumption.
Qed.

Lemma tables_ok_empty p : tables_ok p no_tables [].
Proof. split; reflexivity. Qed.

Lemma is_handler_ok p T regs h : tables_ok p T regs -> is_handler idk h T = inb h regs.
Proof. intros [_ Rhd]. unfold is_handler, amem, idk. rewrite Rhd. destruct (inb h regs); reflexivity. Qed.
