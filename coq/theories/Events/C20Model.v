(* C20 - Transform2D / Transform3D setters notify listeners with the value
   that was stored.  Model of desper/logic/spatial.py (the dispatch of
   desper/events.py reduced to what listeners that only log can observe: one
   call per registered listener of the event, in some order).

   Numbers are in eighths (the harness feeds dyadic values, for which binary64
   arithmetic including % 360. is exact).  Models only, no proofs. *)
From Coq Require Import ZArith List Bool.
From Desper Require Import Lib.Alist.
Import ListNotations.
Open Scope Z_scope.

Inductive prop := PPos | PRot | PScale.
Definition value := list Z.                 (* components of a vector, or [r] for the 2D rotation *)

Definition prop_eqb (a b : prop) : bool :=
  match a, b with PPos, PPos | PRot, PRot | PScale, PScale => true | _, _ => false end.

Inductive op :=
| ONew (t : Z) (three_d : bool) (pos rot scale : option value)   (* None: the default argument *)
| OListen (t l : Z)                    (* t.add_handler(listener l) *)
| OUnlisten (t l : Z)                  (* t.remove_handler(listener l) *)
| OSet (t : Z) (p : prop) (v : value). (* t.<p> = v *)

(* one callback of a listener: which listener, which of the three events, the
   components of the argument, and "the argument equals (value and type) what
   a read of the property returns, both when read from inside the callback and
   right after the assignment" (the setter stores, then dispatches the stored
   value, so both reads see it) *)
Record call := { k_l : Z; k_p : prop; k_v : value; k_same : bool }.

Definition triple := (value * value * value)%type.
Definition snapshot := list (Z * triple).       (* every transform: position, rotation, scale as read *)
(* o_id: what the harness saw of object identity.
   after ONew: every vector-valued property of the new transform is a NEW object - not the
   argument object it was built from, not an object that another (or the same) transform holds
   (the constructor builds Vec2 / Vec3 instances from its arguments; defaults are not shared);
   otherwise true: whether a setter stores the assigned object itself or a fresh equal
   vector is left open (what the property fixes is that the notification carries the
   object a read returns, see k_same). *)
Record obs := { o_calls : list call; o_snap : snapshot; o_id : bool }.

Record c20_case := {
  c_masks : list (Z * (bool * bool * bool));   (* which events the class of listener l handles *)
  c_trace : list (op * obs);
}.

Definition mask_of (ms : list (Z * (bool * bool * bool))) (l : Z) (p : prop) : bool :=
  match alookup l ms with
  | Some (a, b, c) => match p with PPos => a | PRot => b | PScale => c end
  | None => false
  end.

(* ---------- values ---------- *)
Fixpoint value_eqb (a b : value) : bool :=
  match a, b with
  | [], [] => true
  | x :: a, y :: b => (x =? y) && value_eqb a b
  | _, _ => false
  end.

Definition get3 (x : triple) (p : prop) : value :=
  match p with PPos => fst (fst x) | PRot => snd (fst x) | PScale => snd x end.
Definition set3 (x : triple) (p : prop) (v : value) : triple :=
  match p with
  | PPos => (v, snd (fst x), snd x)
  | PRot => (fst (fst x), v, snd x)
  | PScale => (fst (fst x), snd (fst x), v)
  end.

(* what is stored: the 2D rotation is reduced modulo 360 (2880 eighths), everything else as given *)
Definition norm (three_d : bool) (p : prop) (v : value) : value :=
  match three_d, p, v with
  | false, PRot, [r] => [r mod 2880]
  | _, _, _ => v
  end.

Definition default (three_d : bool) (p : prop) : value :=
  match three_d, p with
  | false, PPos => [0; 0] | false, PRot => [0] | false, PScale => [8; 8]
  | true, PScale => [8; 8; 8] | true, _ => [0; 0; 0]
  end.

(* ---------- model state: the fields of each transform ---------- *)
Record tstate := {
  t_3d : bool;
  t_val : triple;               (* _position, _rotation, _scale *)
  t_lis : list Z;               (* registered listeners (a set) *)
}.
Definition state := list (Z * tstate).

Definition inz (x : Z) (l : list Z) : bool := existsb (Z.eqb x) l.
Definition zadd (x : Z) (l : list Z) := if inz x l then l else l ++ [x].
Definition zdel (x : Z) (l : list Z) := filter (fun y => negb (y =? x)) l.

Definition snap_of (s : state) : snapshot := map (fun tx => (fst tx, t_val (snd tx))) s.

Definition call_eqb (a b : call) : bool :=
  (k_l a =? k_l b) && prop_eqb (k_p a) (k_p b) && value_eqb (k_v a) (k_v b) && Bool.eqb (k_same a) (k_same b).
Fixpoint take_call (c : call) (l : list call) : option (list call) :=
  match l with
  | [] => None
  | x :: l => if call_eqb c x then Some l
              else match take_call c l with Some l' => Some (x :: l') | None => None end
  end.
(* the observed calls are the expected ones in some order *)
Fixpoint perm_b (expected observed : list call) : bool :=
  match observed with
  | [] => match expected with [] => true | _ => false end
  | c :: observed => match take_call c expected with Some e' => perm_b e' observed | None => false end
  end.

Definition triple_eqb (a b : triple) : bool :=
  value_eqb (fst (fst a)) (fst (fst b)) && value_eqb (snd (fst a)) (snd (fst b)) && value_eqb (snd a) (snd b).
Fixpoint snap_eqb (a b : snapshot) : bool :=
  match a, b with
  | [], [] => true
  | (t, x) :: a, (u, y) :: b => (t =? u) && triple_eqb x y && snap_eqb a b
  | _, _ => false
  end.

(* the dispatch of the setter: one call per registered listener whose class handles the event *)
Definition expected_calls (ms : list (Z * (bool * bool * bool))) (lis : list Z) (p : prop) (v : value) : list call :=
  map (fun l => {| k_l := l; k_p := p; k_v := v; k_same := true |}) (filter (fun l => mask_of ms l p) lis).

Definition arg (three_d : bool) (p : prop) (o : option value) : value :=
  match o with Some v => norm three_d p v | None => default three_d p end.

Definition no_calls (l : list call) : bool := match l with [] => true | _ => false end.

Definition step0 (ms : list (Z * (bool * bool * bool))) (s : state) (o : op) (ob : obs) : option state :=
  match o with
  | ONew t d pos rot sc =>
      (* __init__: Vec(position...), rotation % 360. (2D) / Vec3(rotation...), Vec(scale...); no event *)
      let s' := s ++ [(t, {| t_3d := d; t_val := (arg d PPos pos, arg d PRot rot, arg d PScale sc); t_lis := [] |})] in
      if no_calls (o_calls ob) && snap_eqb (snap_of s') (o_snap ob) then Some s' else None
  | OListen t l =>
      match alookup t s with
      | Some x => let s' := aset t {| t_3d := t_3d x; t_val := t_val x; t_lis := zadd l (t_lis x) |} s in
                  if no_calls (o_calls ob) && snap_eqb (snap_of s') (o_snap ob) then Some s' else None
      | None => None
      end
  | OUnlisten t l =>
      match alookup t s with
      | Some x => let s' := aset t {| t_3d := t_3d x; t_val := t_val x; t_lis := zdel l (t_lis x) |} s in
                  if no_calls (o_calls ob) && snap_eqb (snap_of s') (o_snap ob) then Some s' else None
      | None => None
      end
  | OSet t p v =>
      match alookup t s with
      | Some x =>
          (* the setter: store, then dispatch the stored value *)
          let w := norm (t_3d x) p v in
          let s' := aset t {| t_3d := t_3d x; t_val := set3 (t_val x) p w; t_lis := t_lis x |} s in
          if perm_b (expected_calls ms (t_lis x) p w) (o_calls ob) && snap_eqb (snap_of s') (o_snap ob)
          then Some s' else None
      | None => None
      end
  end.

(* identities: __init__ stores Vec(position...) etc., i.e. new objects *)
Definition step (ms : list (Z * (bool * bool * bool))) (s : state) (o : op) (ob : obs) : option state :=
  if o_id ob then step0 ms s o ob else None.

Fixpoint run (ms : list (Z * (bool * bool * bool))) (s : state) (tr : list (op * obs)) : option state :=
  match tr with
  | [] => Some s
  | (o, ob) :: tr => match step ms s o ob with Some s' => run ms s' tr | None => None end
  end.

Definition accepts (c : c20_case) : bool :=
  match run (c_masks c) [] (c_trace c) with Some _ => true | None => false end.

(* ---------- the property, over observations only ---------- *)
(* spec state: dimension and listener set of each transform (from the
   operations), and the snapshot observed after the previous operation *)
Record sstate := {
  sp_tab : list (Z * (bool * list Z));
  sp_prev : snapshot;
}.

Definition spec_step0 (ms : list (Z * (bool * bool * bool))) (s : sstate) (o : op) (ob : obs) : option sstate :=
  match o with
  | ONew t d pos rot sc =>
      (* reads return the arguments (2D rotation reduced), defaults otherwise;
         nobody is notified; the other transforms read as before *)
      if no_calls (o_calls ob) &&
         snap_eqb (sp_prev s ++ [(t, (arg d PPos pos, arg d PRot rot, arg d PScale sc))]) (o_snap ob)
      then Some {| sp_tab := sp_tab s ++ [(t, (d, []))]; sp_prev := o_snap ob |} else None
  | OListen t l =>
      match alookup t (sp_tab s) with
      | Some (d, lis) =>
          if no_calls (o_calls ob) && snap_eqb (sp_prev s) (o_snap ob)
          then Some {| sp_tab := aset t (d, zadd l lis) (sp_tab s); sp_prev := o_snap ob |} else None
      | None => None
      end
  | OUnlisten t l =>
      match alookup t (sp_tab s) with
      | Some (d, lis) =>
          if no_calls (o_calls ob) && snap_eqb (sp_prev s) (o_snap ob)
          then Some {| sp_tab := aset t (d, zdel l lis) (sp_tab s); sp_prev := o_snap ob |} else None
      | None => None
      end
  | OSet t p v =>
      match alookup t (sp_tab s), alookup t (sp_prev s), alookup t (o_snap ob) with
      | Some (d, lis), Some before, Some after =>
          (* the read right after the assignment *)
          let r := get3 after p in
          if (* it is the assigned value (2D rotation modulo 360) *)
             value_eqb r (norm d p v) &&
             (* nothing else changed, on this or any other transform *)
             snap_eqb (aset t (set3 before p r) (sp_prev s)) (o_snap ob) &&
             (* one call per listener of the matching event, carrying that very value; no other call *)
             perm_b (expected_calls ms lis p r) (o_calls ob)
          then Some {| sp_tab := sp_tab s; sp_prev := o_snap ob |} else None
      | _, _, _ => None
      end
  end.

(* ... and construction shares no object with the arguments or with another transform *)
Definition spec_step (ms : list (Z * (bool * bool * bool))) (s : sstate) (o : op) (ob : obs) : option sstate :=
  if o_id ob then spec_step0 ms s o ob else None.

Fixpoint spec_run (ms : list (Z * (bool * bool * bool))) (s : sstate) (tr : list (op * obs)) : option sstate :=
  match tr with
  | [] => Some s
  | (o, ob) :: tr => match spec_step ms s o ob with Some s' => spec_run ms s' tr | None => None end
  end.

Definition holds_b (c : c20_case) : bool :=
  match spec_run (c_masks c) {| sp_tab := []; sp_prev := [] |} (c_trace c) with Some _ => true | None => false end.
Definition holds (c : c20_case) : Prop := holds_b c = true.

(* domain: transforms are created once and used after their creation; vectors
   have the dimension of their transform, the 2D rotation is one number *)
Definition len_ok (d : bool) (p : prop) (v : value) : bool :=
  match d, p with
  | false, PRot => Nat.eqb (length v) 1
  | false, _ => Nat.eqb (length v) 2
  | true, _ => Nat.eqb (length v) 3
  end.
Definition olen_ok (d : bool) (p : prop) (o : option value) : bool :=
  match o with Some v => len_ok d p v | None => true end.

Fixpoint wf_run (dims : list (Z * bool)) (tr : list (op * obs)) : bool :=
  match tr with
  | [] => true
  | (o, _) :: tr =>
      match o with
      | ONew t d a b c =>
          negb (amem t dims) && olen_ok d PPos a && olen_ok d PRot b && olen_ok d PScale c
          && wf_run (dims ++ [(t, d)]) tr
      | OListen t _ | OUnlisten t _ => amem t dims && wf_run dims tr
      | OSet t p v => match alookup t dims with Some d => len_ok d p v && wf_run dims tr | None => false end
      end
  end.
Definition wf_b (c : c20_case) : bool := wf_run [] (c_trace c).
Definition known_b (c : c20_case) : bool := false.

Definition bit (b : bool) (n : nat) : nat := if b then n else 0%nat.
Definition C20_case := c20_case.
Definition C20_verdict (c : C20_case) : nat :=
  (bit (wf_b c) 1 + bit (known_b c) 2 + bit (accepts c) 4 + bit (holds_b c) 8)%nat.
