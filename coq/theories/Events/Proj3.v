(* Events - C03: with dispatching enabled throughout and nobody freed, the
   general specification collapses to the simple one of C03; the decorator. *)
From Coq Require Import ZArith List Bool Lia.
From Desper Require Import Lib.Alist Events.Model Events.Spec Events.Tables Events.SimDefs Events.Sim Events.CaseProofs.
Import ListNotations.
Open Scope Z_scope.

Record R3 (s : sstate) (s3 : sstate3) : Prop := {
  p_en : s_en s = true;
  p_pend : s_pend s = [];
  p_rel : s_rel s = [];
  p_gone : s_gone s = [];
  p_next : s3_next s3 = s_next s;
  p_reg : s3_reg s3 = s_reg s;
  p_owed : s3_owed s3 = s_owed s;
  p_exc : s3_exc s3 = s_exc s;
}.

Lemma sstep_proj p s e s' s3 :
  R3 s s3 -> entry_enabled_only e = true -> sstep p s e = Some s' ->
  exists s3', sstep3 p s3 e = Some s3' /\ R3 s' s3'.
Proof.
  intros [Pen Ppend Prel Pgone Pnext Preg Powed Pexc] W H.
  destruct s as [sn sr sg se sp so srl srv sx]. destruct s3 as [n3 r3 o3 x3].
  cbn [s_next s_reg s_gone s_en s_pend s_owed s_rel s_recv s_exc s3_next s3_reg s3_owed s3_exc] in *. subst.
  unfold sstep in H. unfold sstep3.
  cbn [s_next s_reg s_gone s_en s_pend s_owed s_rel s_recv s_exc s3_next s3_reg s3_owed s3_exc upd_reg upd_owed] in *.
  destruct sx.
  { destruct e; try discriminate. injection H as <-. eexists; split; [reflexivity|]. constructor; reflexivity. }
  destruct e as [a|h b|h m t x| |t| |].
  - destruct a as [h|h|h|e x|b| | |h|h|h|h h2]; try discriminate; cbn [inb existsb] in H; injection H as <-;
      (eexists; split; [reflexivity|]); constructor; reflexivity.
  - destruct (Bool.eqb b (inb h sr)); [|discriminate]. injection H as <-.
    eexists; split; [reflexivity|]. constructor; reflexivity.
  - destruct (owed_call h m t x so) as [[l|]|]; try discriminate. injection H as <-.
    eexists; split; [reflexivity|]. constructor; reflexivity.
  - destruct srv; [discriminate|]. injection H as <-. eexists; split; [reflexivity|]. constructor; reflexivity.
  - destruct (owed_end t so) as [[l|]|]; try discriminate. injection H as <-.
    eexists; split; [reflexivity|]. constructor; reflexivity.
  - discriminate.
  - discriminate.
Qed.

Lemma srun_proj p log : forall s s' s3,
  R3 s s3 -> forallb entry_enabled_only log = true -> srun p s log = Some s' ->
  exists s3', srun3 p s3 log = Some s3' /\ R3 s' s3'.
Proof.
  induction log as [|e log IH]; intros s s' s3 R W H; cbn [srun srun3 forallb] in *.
  - injection H as <-. exists s3. split; [reflexivity|exact R].
  - apply andb_true_iff in W. destruct W as [W1 W2].
    destruct (sstep p s e) as [s1|] eqn:Es; [|discriminate].
    destruct (sstep_proj p s e s1 s3 R W1 Es) as [s31 [H1 R1]]. rewrite H1. exact (IH _ _ _ R1 W2 H).
Qed.

Theorem holdsq_holds3 p log :
  forallb entry_enabled_only log = true -> holdsq_b p log = true -> holds3_b p log = true.
Proof.
  intros W H. unfold holdsq_b in H. unfold holds3_b.
  destruct (srun p sinit log) as [s'|] eqn:E; [|discriminate].
  assert (R0 : R3 sinit init3) by (constructor; reflexivity).
  destruct (srun_proj p log _ _ _ R0 W E) as [s3' [H3 [Pen Ppend Prel Pgone Pnext Preg Powed Pexc]]].
  rewrite H3, Powed, Pexc. unfold sfinal_ok in H.
  apply andb_true_iff in H. destruct H as [H Hx]. apply andb_true_iff in H. destruct H as [H _].
  apply andb_true_iff in H. destruct H as [H _]. rewrite H, Hx. reflexivity.
Qed.

(* ---------------- the decorator ---------------- *)
Lemma dict_or_cons d1 em d2 : dict_or d1 (em :: d2) = dict_or (aset (fst em) (snd em) d1) d2.
Proof. reflexivity. Qed.

Lemma alookup_dict_or_names e names : forall d1,
  alookup e (dict_or d1 (map (fun n => (n, n)) names)) = if inb e names then Some e else alookup e d1.
Proof.
  induction names as [|n names IH]; intro d1; [reflexivity|].
  cbn [map]. rewrite dict_or_cons. cbn [fst snd]. rewrite IH. rewrite inb_cons. rewrite alookup_aset.
  destruct (inb e names); [rewrite orb_true_r; reflexivity|]. rewrite orb_false_r.
  destruct (e =? n) eqn:E; [apply Z.eqb_eq in E; subst; reflexivity|reflexivity].
Qed.

Lemma alookup_dict_or_maps e maps : NoDup (map fst maps) -> forall d1,
  alookup e (dict_or d1 maps) = match alookup e maps with Some m => Some m | None => alookup e d1 end.
Proof.
  induction maps as [|[k v] maps IH]; intros N d1; [reflexivity|].
  rewrite dict_or_cons. cbn [fst snd map] in *. inversion N as [|? ? Hn N']; subst. rewrite (IH N').
  cbn [alookup]. rewrite alookup_aset. destruct (e =? k) eqn:E; [|reflexivity].
  apply Z.eqb_eq in E. subst. assert (Hk : alookup k maps = None) by (apply alookup_None_notin; exact Hn).
  rewrite Hk. reflexivity.
Qed.

(* inherited-then-own override for the new class (what it inherits is what
   Python's attribute lookup along its MRO finds), a class decorated with
   event_handler() reads exactly what it inherits, and every other class keeps
   its mapping *)
Theorem decorator_pure info tb d mro : NoDup (map fst (cd_maps d)) ->
  firstn (length tb) (decorate info tb d mro) = tb /\
  (empty_deco d = true -> decorated info tb d mro = inherited info tb mro) /\
  (empty_deco d = false -> exists m, decorated info tb d mro = Some m /\
     forall e, alookup e m = expect_lookup (or_empty (inherited info tb mro)) (cd_names d) (cd_maps d) e).
Proof.
  intro N. split; [|split].
  - unfold decorate. rewrite firstn_app, Nat.sub_diag, firstn_all. cbn [firstn]. apply app_nil_r.
  - intro E. unfold decorated. rewrite E. reflexivity.
  - intro E. unfold decorated. rewrite E. eexists. split; [reflexivity|]. intro e. unfold expect_lookup.
    rewrite (alookup_dict_or_maps e _ N). rewrite alookup_dict_or_names. reflexivity.
Qed.

Lemma sub_map_lookup m1 m2 e v : sub_map m1 m2 = true -> alookup e m1 = Some v -> alookup e m2 = Some v.
Proof.
  unfold sub_map. rewrite forallb_forall. intros H E. apply alookup_In in E. specialize (H _ E). cbn [fst snd] in H.
  destruct (alookup e m2) as [w|]; [|discriminate]. apply Z.eqb_eq in H. subst. reflexivity.
Qed.

Lemma mapping_eqb_lookup m1 m2 e : mapping_eqb m1 m2 = true -> alookup e m1 = alookup e m2.
Proof.
  unfold mapping_eqb. intro H. apply andb_true_iff in H. destruct H as [H1 H2].
  destruct (alookup e m1) as [v|] eqn:E1.
  - symmetry. exact (sub_map_lookup _ _ _ _ H1 E1).
  - destruct (alookup e m2) as [w|] eqn:E2; [|reflexivity].
    rewrite (sub_map_lookup _ _ _ _ H2 E2) in E1. discriminate.
Qed.

Lemma ctable_eqb_snoc tb c M ob : ctable_eqb (tb ++ [(c, M)]) ob = true ->
  exists front m, split_last ob = Some (front, (c, m)) /\ ctable_eqb tb front = true /\ omapping_eqb M m = true.
Proof.
  revert ob. induction tb as [|[c1 m1] tb IH]; intros ob H.
  - cbn [app ctable_eqb] in H. destruct ob as [|[c2 m2] [|x ob]]; try discriminate.
    + apply andb_true_iff in H. destruct H as [H _]. apply andb_true_iff in H. destruct H as [H1 H2].
      apply Z.eqb_eq in H1. subst. exists [], m2. repeat split; auto.
    + apply andb_true_iff in H. destruct H as [_ H]. destruct x. discriminate.
  - cbn [app ctable_eqb] in H. destruct ob as [|[c2 m2] ob]; [discriminate|].
    apply andb_true_iff in H. destruct H as [H H3]. destruct (IH ob H3) as [front [m [S [F Mq]]]].
    exists ((c2, m2) :: front), m. split; [|split; [|exact Mq]].
    + cbn [split_last]. rewrite S. destruct ob; [discriminate|reflexivity].
    + cbn [ctable_eqb]. rewrite H, F. reflexivity.
Qed.

Lemma optz_eqb_refl a : optz_eqb a a = true.
Proof. destruct a; cbn; [apply Z.eqb_refl|reflexivity]. Qed.

Lemma cls_run_spec ds : forall info tb,
  forallb (fun dob => nodupb (map fst (cd_maps (fst dob)))) ds = true ->
  cls_run info tb ds = true -> cls_spec info tb ds = true.
Proof.
  induction ds as [|[d ob] ds IH]; intros info tb W H; [reflexivity|].
  cbn [cls_run cls_spec forallb fst] in *. apply andb_true_iff in W. destruct W as [W1 W2].
  apply andb_true_iff in H. destruct H as [H H2]. apply andb_true_iff in H. destruct H as [_ H1].
  rewrite (IH _ _ W2 H2), andb_true_r.
  unfold decorate in H1. destruct (ctable_eqb_snoc _ _ _ _ H1) as [front [m [S [F Mq]]]].
  unfold cls_spec_step. rewrite S, F, Z.eqb_refl. cbn [andb].
  destruct (decorator_pure info tb d (co_mro ob) (nodupb_NoDup _ W1)) as [_ [De Dn]].
  destruct (empty_deco d) eqn:E.
  - rewrite (De eq_refl) in Mq. exact Mq.
  - destruct (Dn eq_refl) as [M [EM HM]]. rewrite EM in Mq. destruct m as [m|]; [|discriminate].
    cbn [omapping_eqb] in Mq. apply forallb_forall. intros e _.
    rewrite <- (mapping_eqb_lookup _ _ e Mq). rewrite HM. apply optz_eqb_refl.
Qed.

Lemma wf_classes_maps c : wf_classes c = true ->
  forallb (fun dob => nodupb (map fst (cd_maps (fst dob)))) (c_classes c) = true.
Proof.
  unfold wf_classes. intro H. apply forallb_forall. intros x Hx. rewrite forallb_forall in H.
  specialize (H x Hx). apply andb_true_iff in H. destruct H as [H _]. exact H.
Qed.

Theorem C03_accepts_holds c : wf3_b c = true -> known3_b c = false -> accepts c = true -> holds3_case_b c = true.
Proof.
  intros W K A. unfold wf3_b in W. apply andb_true_iff in W. destruct W as [W1 W2].
  unfold known3_b in K. apply negb_false_iff in K.
  unfold holds3_case_b. pose proof (accepts_holdsq c W1 K A) as Hq.
  unfold accepts in A. apply andb_true_iff in A. destruct A as [A _].
  rewrite (cls_run_spec _ [] [] (wf_classes_maps c W1) A). cbn [andb].
  exact (holdsq_holds3 _ _ W2 Hq).
Qed.
