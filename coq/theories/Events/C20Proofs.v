(* C20 - proofs: every trace the model accepts satisfies the property. *)
From Coq Require Import ZArith List Bool Lia.
From Desper Require Import Lib.Alist Events.C20Model.
Import ListNotations.
Open Scope Z_scope.

Lemma value_eqb_eq a : forall b, value_eqb a b = true -> a = b.
Proof.
  induction a as [|x a IH]; intros [|y b] H; cbn [value_eqb] in H; try discriminate; [reflexivity|].
  apply andb_true_iff in H. destruct H as [H1 H2]. apply Z.eqb_eq in H1. subst. f_equal. exact (IH b H2).
Qed.
Lemma value_eqb_refl a : value_eqb a a = true.
Proof. induction a as [|x a IH]; [reflexivity|]. cbn [value_eqb]. rewrite Z.eqb_refl, IH. reflexivity. Qed.

Lemma triple_eqb_eq a b : triple_eqb a b = true -> a = b.
Proof.
  destruct a as [[a1 a2] a3], b as [[b1 b2] b3]. unfold triple_eqb. cbn [fst snd]. intro H.
  apply andb_true_iff in H. destruct H as [H H3]. apply andb_true_iff in H. destruct H as [H1 H2].
  apply value_eqb_eq in H1. apply value_eqb_eq in H2. apply value_eqb_eq in H3. subst. reflexivity.
Qed.
Lemma triple_eqb_refl a : triple_eqb a a = true.
Proof. unfold triple_eqb. rewrite !value_eqb_refl. reflexivity. Qed.

Lemma snap_eqb_eq a : forall b, snap_eqb a b = true -> a = b.
Proof.
  induction a as [|[t x] a IH]; intros [|[u y] b] H; cbn [snap_eqb] in H; try discriminate; [reflexivity|].
  apply andb_true_iff in H. destruct H as [H H3]. apply andb_true_iff in H. destruct H as [H1 H2].
  apply Z.eqb_eq in H1. apply triple_eqb_eq in H2. subst. f_equal. exact (IH b H3).
Qed.
Lemma snap_eqb_refl a : snap_eqb a a = true.
Proof. induction a as [|[t x] a IH]; [reflexivity|]. cbn [snap_eqb]. rewrite Z.eqb_refl, triple_eqb_refl, IH. reflexivity. Qed.

Lemma get3_set3 x p v : get3 (set3 x p v) p = v.
Proof. destruct x as [[a b] c], p; reflexivity. Qed.

Section MapAlist.
  Context {A B : Type} (f : A -> B).
  Definition amap (s : list (Z * A)) : list (Z * B) := map (fun tx => (fst tx, f (snd tx))) s.
  Lemma alookup_amap t s : alookup t (amap s) = option_map f (alookup t s).
  Proof.
    induction s as [|[k v] s IH]; [reflexivity|]. cbn [amap map fst snd alookup].
    destruct (t =? k); [reflexivity|exact IH].
  Qed.
  Lemma amap_aset t x s : amap (aset t x s) = aset t (f x) (amap s).
  Proof.
    induction s as [|[k v] s IH]; [reflexivity|]. cbn [amap map fst snd aset].
    destruct (t =? k); cbn [map fst snd]; [reflexivity|]. f_equal. exact IH.
  Qed.
  Lemma amap_app s1 s2 : amap (s1 ++ s2) = amap s1 ++ amap s2.
  Proof. apply map_app. Qed.
End MapAlist.

Definition tab_of (s : state) : list (Z * (bool * list Z)) := amap (fun x => (t_3d x, t_lis x)) s.
Lemma snap_of_amap s : snap_of s = amap t_val s.
Proof. reflexivity. Qed.

Record Inv (s : state) (sp : sstate) : Prop := {
  i_prev : sp_prev sp = snap_of s;
  i_tab : sp_tab sp = tab_of s;
}.

Ltac use_snap E := match goal with |- context [snap_eqb ?a ?b] => replace (snap_eqb a b) with true by (symmetry; exact E) end.

Lemma step_spec0 ms s o ob s' sp :
  Inv s sp -> step0 ms s o ob = Some s' -> exists sp', spec_step0 ms sp o ob = Some sp' /\ Inv s' sp'.
Proof.
  intros [Ip It] H. destruct sp as [tab prev]. cbn [sp_prev sp_tab] in *. subst.
  destruct o as [t d a b c|t l|t l|t p v]; cbn [step0 spec_step0 sp_prev sp_tab] in *.
  - match type of H with (if ?c then _ else _) = _ => destruct c eqn:E end; [|discriminate]. injection H as <-.
    apply andb_true_iff in E. destruct E as [E1 E2]. pose proof (snap_eqb_eq _ _ E2) as E3.
    rewrite snap_of_amap, amap_app in E2. cbn [amap map fst snd t_val] in E2.
    rewrite snap_of_amap. rewrite E1. use_snap E2. cbn [andb]. eexists; split; [reflexivity|].
    constructor; cbn [sp_prev sp_tab]; [symmetry; exact E3|]. unfold tab_of. rewrite amap_app. reflexivity.
  - unfold tab_of. rewrite alookup_amap. destruct (alookup t s) as [x|] eqn:Ex; [|discriminate]. cbn [option_map].
    match type of H with (if ?c then _ else _) = _ => destruct c eqn:E end; [|discriminate]. injection H as <-.
    apply andb_true_iff in E. destruct E as [E1 E2]. pose proof (snap_eqb_eq _ _ E2) as E3.
    rewrite snap_of_amap, amap_aset in E2. cbn [t_val] in E2.
    assert (Hs : aset t (t_val x) (amap t_val s) = amap t_val s).
    { clear -Ex. induction s as [|[k v] s IH]; [discriminate|]. cbn [alookup amap map fst snd aset] in *.
      destruct (t =? k) eqn:Ek; [injection Ex as ->; apply Z.eqb_eq in Ek; subst; reflexivity|].
      f_equal. exact (IH Ex). }
    rewrite Hs in E2. rewrite snap_of_amap, E1. use_snap E2. cbn [andb]. eexists; split; [reflexivity|].
    constructor; cbn [sp_prev sp_tab]; [symmetry; exact E3|]. unfold tab_of. rewrite amap_aset. reflexivity.
  - unfold tab_of. rewrite alookup_amap. destruct (alookup t s) as [x|] eqn:Ex; [|discriminate]. cbn [option_map].
    match type of H with (if ?c then _ else _) = _ => destruct c eqn:E end; [|discriminate]. injection H as <-.
    apply andb_true_iff in E. destruct E as [E1 E2]. pose proof (snap_eqb_eq _ _ E2) as E3.
    rewrite snap_of_amap, amap_aset in E2. cbn [t_val] in E2.
    assert (Hs : aset t (t_val x) (amap t_val s) = amap t_val s).
    { clear -Ex. induction s as [|[k v] s IH]; [discriminate|]. cbn [alookup amap map fst snd aset] in *.
      destruct (t =? k) eqn:Ek; [injection Ex as ->; apply Z.eqb_eq in Ek; subst; reflexivity|].
      f_equal. exact (IH Ex). }
    rewrite Hs in E2. rewrite snap_of_amap, E1. use_snap E2. cbn [andb]. eexists; split; [reflexivity|].
    constructor; cbn [sp_prev sp_tab]; [symmetry; exact E3|]. unfold tab_of. rewrite amap_aset. reflexivity.
  - unfold tab_of. rewrite alookup_amap. rewrite snap_of_amap, alookup_amap.
    destruct (alookup t s) as [x|] eqn:Ex; [|discriminate]. cbn [option_map].
    match type of H with (if ?c then _ else _) = _ => destruct c eqn:E end; [|discriminate]. injection H as <-.
    apply andb_true_iff in E. destruct E as [E1 E2]. pose proof (snap_eqb_eq _ _ E2) as E3.
    rewrite snap_of_amap, amap_aset in E3. cbn [t_val] in E3. rewrite <- E3.
    rewrite alookup_aset_eq. rewrite get3_set3. rewrite value_eqb_refl, snap_eqb_refl, E1. cbn [andb].
    eexists; split; [reflexivity|]. constructor; cbn [sp_prev sp_tab].
    + symmetry. exact (amap_aset t_val t _ s).
    + unfold tab_of. rewrite amap_aset. cbn [t_3d t_lis].
      clear -Ex. induction s as [|[k v] s IH]; [discriminate|]. cbn [alookup amap map fst snd aset] in *.
      destruct (t =? k) eqn:Ek; [injection Ex as ->; apply Z.eqb_eq in Ek; subst; reflexivity|].
      f_equal. exact (IH Ex).
Qed.

Lemma step_spec ms s o ob s' sp :
  Inv s sp -> step ms s o ob = Some s' -> exists sp', spec_step ms sp o ob = Some sp' /\ Inv s' sp'.
Proof.
  unfold step, spec_step. destruct (o_id ob); [apply step_spec0|discriminate].
Qed.

Lemma run_spec ms tr : forall s s' sp,
  Inv s sp -> run ms s tr = Some s' -> exists sp', spec_run ms sp tr = Some sp' /\ Inv s' sp'.
Proof.
  induction tr as [|[o ob] tr IH]; intros s s' sp I H; cbn [run spec_run] in *.
  - injection H as <-. exists sp. split; [reflexivity|exact I].
  - destruct (step ms s o ob) as [s1|] eqn:E; [|discriminate].
    destruct (step_spec _ _ _ _ _ _ I E) as [sp1 [H1 I1]]. rewrite H1. exact (IH _ _ _ I1 H).
Qed.

Theorem accepts_holds c : accepts c = true -> holds c.
Proof.
  unfold accepts, holds, holds_b. intro H.
  destruct (run (c_masks c) [] (c_trace c)) as [s'|] eqn:E; [|discriminate].
  assert (I0 : Inv [] {| sp_tab := []; sp_prev := [] |}) by (constructor; reflexivity).
  destruct (run_spec _ _ _ _ _ I0 E) as [sp' [H1 _]]. rewrite H1. reflexivity.
Qed.

(* ---------- readings of the specification on raw observations ---------- *)
Lemma take_call_perm c l l' : take_call c l = Some l' -> exists l1 l2 c', l = l1 ++ c' :: l2 /\ l' = l1 ++ l2 /\ call_eqb c c' = true.
Proof.
  revert l'. induction l as [|x l IH]; intros l' H; [discriminate|]. cbn [take_call] in H.
  destruct (call_eqb c x) eqn:E.
  - injection H as <-. exists [], l, x. auto.
  - destruct (take_call c l) as [l0|] eqn:E0; [|discriminate]. injection H as <-.
    destruct (IH l0 eq_refl) as [l1 [l2 [c' [H1 [H2 H3]]]]]. exists (x :: l1), l2, c'. subst. auto.
Qed.

Lemma perm_b_length e o : perm_b e o = true -> length e = length o.
Proof.
  revert e. induction o as [|c o IH]; intros e H; cbn [perm_b] in H.
  - destruct e; [reflexivity|discriminate].
  - destruct (take_call c e) as [e'|] eqn:E; [|discriminate].
    destruct (take_call_perm _ _ _ E) as [l1 [l2 [c' [H1 [H2 _]]]]]. subst.
    pose proof (IH _ H) as L. rewrite app_length in L. rewrite app_length. cbn [length]. lia.
Qed.

Lemma call_eqb_eq a b : call_eqb a b = true -> a = b.
Proof.
  destruct a as [l1 p1 v1 s1], b as [l2 p2 v2 s2]. unfold call_eqb. cbn [k_l k_p k_v k_same]. intro H.
  apply andb_true_iff in H. destruct H as [H H4]. apply andb_true_iff in H. destruct H as [H H3].
  apply andb_true_iff in H. destruct H as [H1 H2]. apply Z.eqb_eq in H1. apply value_eqb_eq in H3.
  apply Bool.eqb_prop in H4. destruct p1, p2; try discriminate; subst; reflexivity.
Qed.

(* every observed call is one of the expected ones *)
Lemma perm_b_In e o c : perm_b e o = true -> In c o -> In c e.
Proof.
  revert e. induction o as [|x o IH]; intros e H I; [contradiction|]. cbn [perm_b] in H.
  destruct (take_call x e) as [e'|] eqn:E; [|discriminate].
  destruct (take_call_perm _ _ _ E) as [l1 [l2 [c' [H1 [H2 H3]]]]]. apply call_eqb_eq in H3. subst.
  destruct I as [<-|I]; [apply in_or_app; right; left; reflexivity|].
  specialize (IH _ H I). apply in_app_or in IH. apply in_or_app. destruct IH; [left|right; right]; assumption.
Qed.

(* what an accepted assignment looks like on the observation *)
Theorem set_reading ms sp t p v ob sp' :
  spec_step ms sp (OSet t p v) ob = Some sp' ->
  exists d lis before after,
    alookup t (sp_tab sp) = Some (d, lis) /\ alookup t (sp_prev sp) = Some before /\
    alookup t (o_snap ob) = Some after /\
    get3 after p = norm d p v /\
    o_snap ob = aset t (set3 before p (get3 after p)) (sp_prev sp) /\ o_id ob = true /\
    length (o_calls ob) = length (filter (fun l => mask_of ms l p) lis) /\
    forall c, In c (o_calls ob) ->
      k_p c = p /\ k_v c = get3 after p /\ k_same c = true /\ In (k_l c) lis /\ mask_of ms (k_l c) p = true.
Proof.
  unfold spec_step. destruct (o_id ob) eqn:Eid; [|discriminate]. cbn [spec_step0]. intro H.
  destruct (alookup t (sp_tab sp)) as [[d lis]|]; [|discriminate].
  destruct (alookup t (sp_prev sp)) as [before|]; [|discriminate].
  destruct (alookup t (o_snap ob)) as [after|]; [|discriminate].
  match type of H with (if ?c then _ else _) = _ => destruct c eqn:E end; [|discriminate].
  apply andb_true_iff in E. destruct E as [E E3]. apply andb_true_iff in E. destruct E as [E1 E2].
  exists d, lis, before, after. repeat split; auto.
  - apply value_eqb_eq. exact E1.
  - symmetry. apply snap_eqb_eq. exact E2.
  - rewrite <- (perm_b_length _ _ E3). unfold expected_calls. apply map_length.
  - pose proof (perm_b_In _ _ c E3 H0) as I. unfold expected_calls in I. apply in_map_iff in I.
    destruct I as [l [<- _]]. reflexivity.
  - pose proof (perm_b_In _ _ c E3 H0) as I. unfold expected_calls in I. apply in_map_iff in I.
    destruct I as [l [<- _]]. reflexivity.
  - pose proof (perm_b_In _ _ c E3 H0) as I. unfold expected_calls in I. apply in_map_iff in I.
    destruct I as [l [<- _]]. reflexivity.
  - pose proof (perm_b_In _ _ c E3 H0) as I. unfold expected_calls in I. apply in_map_iff in I.
    destruct I as [l [<- I]]. apply filter_In in I. cbn [k_l]. tauto.
  - pose proof (perm_b_In _ _ c E3 H0) as I. unfold expected_calls in I. apply in_map_iff in I.
    destruct I as [l [<- I]]. apply filter_In in I. cbn [k_l]. tauto.
Qed.

Lemma norm_rot2d r : norm false PRot [r] = [r mod 2880] /\ 0 <= r mod 2880 < 2880.
Proof. split; [reflexivity|]. apply Z.mod_pos_bound. lia. Qed.
