(* Events - from the machine to the case level: the domain conditions give
   the hypotheses of the simulation. *)
From Coq Require Import ZArith List Bool Lia.
From Desper Require Import Lib.Alist Events.Model Events.Spec Events.Tables Events.SimDefs Events.Sim.
Import ListNotations.
Open Scope Z_scope.

Lemma inb_In h l : inb h l = true <-> In h l.
Proof.
  unfold inb. rewrite existsb_exists. split.
  - intros [x [H1 H2]]. apply Z.eqb_eq in H2. subst. exact H1.
  - intro H. exists h. split; [exact H|apply Z.eqb_refl].
Qed.

Lemma nodupb_NoDup l : nodupb l = true -> NoDup l.
Proof.
  induction l as [|x l IH]; cbn [nodupb]; intro H; [constructor|].
  apply andb_true_iff in H. destruct H as [H1 H2]. constructor; [|exact (IH H2)].
  intro I. apply inb_In in I. rewrite I in H1. discriminate.
Qed.

Lemma last_table_in ds : ds <> [] -> exists d ob, In (d, ob) ds /\ last_table ds = co_tab ob.
Proof.
  induction ds as [|[d ob] ds IH]; intro N; [contradiction|].
  destruct ds as [|x ds'].
  - exists d, ob. split; [left; reflexivity|reflexivity].
  - destruct IH as [d' [ob' [Hd' E]]]; [discriminate|]. exists d', ob'. split; [right; exact Hd'|exact E].
Qed.

Lemma keys_nodup_params c : wf_classes c = true -> keys_nodup (params_of c).
Proof.
  intros W h. unfold params_of. cbn [events_of].
  destruct (alookup h (c_hcls c)) as [k|]; [|constructor].
  destruct (alookup k (last_table (c_classes c))) as [om|] eqn:E; [|constructor].
  destruct (c_classes c) as [|x ds] eqn:Ec; [discriminate|].
  destruct (last_table_in (x :: ds)) as [d [ob [Hd El]]]; [discriminate|].
  unfold wf_classes in W. rewrite Ec in W. rewrite forallb_forall in W.
  specialize (W _ Hd). apply andb_true_iff in W. destruct W as [_ W]. cbn [snd] in W.
  rewrite forallb_forall in W. rewrite El in E. apply alookup_In in E. specialize (W _ E). cbn [snd] in W.
  apply nodupb_NoDup. exact W.
Qed.

Lemma keyf_params c : isnil (c_eqs c) = true -> keyf (params_of c) = idk.
Proof. unfold params_of. cbn [keyf]. destruct (c_eqs c); [reflexivity|discriminate]. Qed.

Theorem accepts_holdsq c :
  wf_classes c = true -> isnil (c_eqs c) = true -> accepts c = true ->
  holdsq_b (params_of c) (c_log c) = true.
Proof.
  intros W K A. unfold accepts in A. apply andb_true_iff in A. destruct A as [_ A].
  exact (maccepts_holdsq (params_of c) (keyf_params c K) (keys_nodup_params c W) _ _ A).
Qed.

Theorem C04_accepts_holds c : wf4_b c = true -> known4_b c = false -> accepts c = true -> holds4_case_b c = true.
Proof.
  intros W _ A. unfold wf4_b in W. apply andb_true_iff in W. destruct W as [W _].
  apply andb_true_iff in W. destruct W as [W1 W2]. exact (accepts_holdsq c W1 W2 A).
Qed.

Theorem C10_accepts_holds c : wf10_b c = true -> known10_b c = false -> accepts c = true -> holds10_case_b c = true.
Proof.
  intros W _ A. unfold wf10_b in W. apply andb_true_iff in W. destruct W as [W1 W2].
  exact (accepts_holdsq c W1 W2 A).
Qed.
