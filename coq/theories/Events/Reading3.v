(* Events - readings of the C03 specification on raw data. *)
From Coq Require Import ZArith List Bool Lia.
From Desper Require Import Lib.Alist Events.Model Events.Spec Events.Tables Events.Reading.
Import ListNotations.
Open Scope Z_scope.

Lemma registered_set h' h regs :
  (inb h' (hadd h regs) = inb h' regs || (h' =? h)) /\ (inb h' (hdel h regs) = inb h' regs && negb (h' =? h)).
Proof. split; [apply inb_hadd|apply inb_hdel]. Qed.

Lemma In_pick e evs em : In em (pick e evs) <-> In em evs /\ fst em = e.
Proof. unfold pick. rewrite filter_In. rewrite Z.eqb_eq. reflexivity. Qed.

Lemma In_contrib p e h' h m : In (h, m) (contrib p e h') <-> h = h' /\ In (e, m) (events_of p h').
Proof.
  unfold contrib. rewrite in_map_iff. split.
  - intros [[e' m'] [E I]]. cbn [snd] in E. injection E as <- <-. apply In_pick in I. destruct I as [I E]. cbn [fst] in E.
    subst. split; [reflexivity|exact I].
  - intros [-> I]. exists (e, m). split; [reflexivity|]. apply In_pick. split; [exact I|reflexivity].
Qed.

Lemma In_listeners p e regs h m :
  In (h, m) (listeners p e regs) <-> In h regs /\ In (e, m) (events_of p h).
Proof.
  unfold listeners. rewrite in_flat_map. split.
  - intros [h' [I C]]. apply In_contrib in C. destruct C as [-> C]. split; assumption.
  - intros [I C]. exists h. split; [exact I|]. apply In_contrib. split; [reflexivity|exact C].
Qed.

Theorem owed_calls p e regs : keys_nodup p -> NoDup regs ->
    NoDup (listeners p e regs) /\
    forall h m, In (h, m) (listeners p e regs) <-> (In h regs /\ alookup e (events_of p h) = Some m).
Proof.
  intros K N. split.
  - induction regs as [|h regs IH]; [constructor|]. inversion N as [|? ? Hn N']; subst.
    change (listeners p e (h :: regs)) with (contrib p e h ++ listeners p e regs).
    unfold contrib at 1. destruct (pick_small e _ (K h)) as [Hp|[m Hp]]; rewrite Hp; cbn [map app snd]; [exact (IH N')|].
    constructor; [|exact (IH N')]. intro I. apply In_listeners in I. destruct I as [I _]. contradiction.
  - intros h m. rewrite In_listeners. split; intros [I C]; (split; [exact I|]).
    + apply In_alookup_nodup; [exact (K h)|exact C].
    + apply alookup_In. exact C.
Qed.

Lemma notin_rem1 x l : ~ In x (rem1 x l).
Proof.
  unfold rem1. induction l as [|y l IH]; cbn [remove1]; [tauto|].
  destruct (pairb idk x y) eqn:E; [exact IH|]. cbn [In]. intros [H|H]; [|exact (IH H)].
  subst. rewrite pairb_refl in E. discriminate.
Qed.

Lemma NoDup_rem1 x l : NoDup l -> NoDup (rem1 x l).
Proof.
  unfold rem1. induction l as [|y l IH]; cbn [remove1]; intro N; [constructor|].
  inversion N as [|? ? Hn N']; subst. destruct (pairb idk x y); [exact (IH N')|].
  constructor; [|exact (IH N')]. intro I. apply Hn. exact (In_rem1 _ _ _ I).
Qed.

Theorem call_is_owed_once d h m t x d' : scall d h m t x = Some d' -> NoDup (d_rem d) ->
    d_tok d = t /\ snd (fst d) = x /\ In (h, m) (d_rem d) /\ ~ In (h, m) (d_rem d') /\ NoDup (d_rem d').
Proof.
  destruct d as [[t' x'] rem]. unfold scall, d_rem, d_tok. cbn [fst snd].
  destruct ((t =? t') && (x =? x') && memi (h, m) rem) eqn:E; [|discriminate].
  intros H N. injection H as <-. cbn [fst snd].
  apply andb_true_iff in E. destruct E as [E E3]. apply andb_true_iff in E. destruct E as [E1 E2].
  apply Z.eqb_eq in E1. apply Z.eqb_eq in E2. apply mem_In in E3. subst.
  repeat split; auto; [apply notin_rem1|apply NoDup_rem1; exact N].
Qed.
