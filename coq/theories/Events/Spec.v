(* Events - the properties C03, C04, C10 as machines over the log alone.

   Nothing here knows about scripts, the two tables, the stack or the
   snapshot: a specification state is computed from the entries of the log
   in log order (who is registered, which calls each open dispatch still
   owes, which events are pending).  No proofs in this file. *)
From Coq Require Import ZArith List Bool.
From Desper Require Import Lib.Alist.
From Desper Require Export Events.Model.
Import ListNotations.
Open Scope Z_scope.

Definition idk : hid -> Z := fun h => h.
Definition memi := mem idk.
Definition rem1 := remove1 idk.

(* registered handlers: a set, kept in order of first registration *)
Definition hadd (h : hid) (l : list hid) := if inb h l then l else l ++ [h].
Definition hdel (h : hid) (l : list hid) := filter (fun x => negb (x =? h)) l.

(* the calls a dispatch of event e owes when the registered set is regs:
   for each registered handler the method its class maps e to *)
Definition pick (e : ev) (evs : list (ev * meth)) := filter (fun em => fst em =? e) evs.
Definition contrib (p : params) (e : ev) (h : hid) := map (fun em => (h, snd em)) (pick e (events_of p h)).
Definition listeners (p : params) (e : ev) (regs : list hid) : list (hid * meth) :=
  flat_map (contrib p e) regs.

(* a call (h, m) with token t and argument shape x is owed by delivery d *)
Definition scall (d : delivery) (h : hid) (m : meth) (t : tok) (x : argc) : option delivery :=
  let '(t', x', rem) := d in
  if (t =? t') && (x =? x') && memi (h, m) rem then Some (t', x', rem1 (h, m) rem) else None.

Definition d_tok (d : delivery) : tok := fst (fst d).
Definition d_rem (d : delivery) : list (hid * meth) := snd d.

(* look for the open dispatch with token t:
   None = no such dispatch; Some None = found but the call is not owed *)
Fixpoint owed_call (h : hid) (m : meth) (t : tok) (x : argc) (l : list delivery)
  : option (option (list delivery)) :=
  match l with
  | [] => None
  | d :: l' =>
      if d_tok d =? t then
        Some (match scall d h m t x with Some d' => Some (d' :: l') | None => None end)
      else match owed_call h m t x l' with
           | Some (Some l'') => Some (Some (d :: l''))
           | r => r
           end
  end.

(* the dispatch with token t returns: it must owe nothing *)
Fixpoint owed_end (t : tok) (l : list delivery) : option (option (list delivery)) :=
  match l with
  | [] => None
  | d :: l' =>
      if d_tok d =? t then Some (if isnil (d_rem d) then Some l' else None)
      else match owed_end t l' with
           | Some (Some l'') => Some (Some (d :: l''))
           | r => r
           end
  end.

(* a freed handler is owed nothing any more *)
Definition strip (h : hid) (l : list (hid * meth)) := filter (fun x => negb (fst x =? h)) l.
Definition strip_d (h : hid) (d : delivery) : delivery := (fst d, strip h (snd d)).

(* ------------------------------------------------------------------ *)
(* C03: dispatching enabled throughout.                                 *)
Record sstate3 := {
  s3_next : tok;
  s3_reg : list hid;               (* added and not removed since *)
  s3_owed : list delivery;         (* per open dispatch: the calls still owed *)
  s3_exc : bool;
}.

Definition sstep3 (p : params) (s : sstate3) (e : entry) : option sstate3 :=
  if s3_exc s then
    match e with
    | EExc => Some {| s3_next := s3_next s; s3_reg := s3_reg s; s3_owed := s3_owed s; s3_exc := false |}
    | _ => None
    end
  else
  match e with
  | EAct (AAdd h) =>
      Some {| s3_next := s3_next s; s3_reg := hadd h (s3_reg s); s3_owed := s3_owed s; s3_exc := false |}
  | EAct (ARemove h) =>
      Some {| s3_next := s3_next s; s3_reg := hdel h (s3_reg s); s3_owed := s3_owed s; s3_exc := false |}
  | EIs h b => if Bool.eqb b (inb h (s3_reg s)) then Some s else None
  | EAct (ADispatch e x) =>
      (* owes one call per registered listener of e, with the arguments given *)
      Some {| s3_next := s3_next s + 1; s3_reg := s3_reg s;
              s3_owed := (s3_next s, x, listeners p e (s3_reg s)) :: s3_owed s; s3_exc := false |}
  | EAct AClear =>
      Some {| s3_next := s3_next s; s3_reg := []; s3_owed := s3_owed s; s3_exc := false |}
  | EAct ARaise =>
      (* the dispatches that are open do not terminate normally *)
      Some {| s3_next := s3_next s; s3_reg := s3_reg s; s3_owed := []; s3_exc := true |}
  | EAct _ => None                     (* outside the domain of C03 *)
  | ECall h m t x =>
      match owed_call h m t x (s3_owed s) with
      | Some (Some l) => Some {| s3_next := s3_next s; s3_reg := s3_reg s; s3_owed := l; s3_exc := false |}
      | _ => None                      (* a call nobody owes: duplicate, unregistered, wrong arguments *)
      end
  | ERet => Some s
  | EEnd t =>
      match owed_end t (s3_owed s) with
      | Some (Some l) => Some {| s3_next := s3_next s; s3_reg := s3_reg s; s3_owed := l; s3_exc := false |}
      | _ => None                      (* a listener was missed *)
      end
  | EExc => None
  | ESkip => None                      (* outside the domain of C03 *)
  end.

Fixpoint srun3 (p : params) (s : sstate3) (log : list entry) : option sstate3 :=
  match log with
  | [] => Some s
  | e :: log => match sstep3 p s e with Some s' => srun3 p s' log | None => None end
  end.

Definition init3 := {| s3_next := 0; s3_reg := []; s3_owed := []; s3_exc := false |}.

Definition holds3_b (p : params) (log : list entry) : bool :=
  match srun3 p init3 log with
  | Some s => isnil (s3_owed s) && negb (s3_exc s)
  | None => false
  end.

(* the decorator: the mapping of a new class is its base's, overridden by
   names (n |-> n), overridden by the keyword mappings; the mappings of all
   other classes stay what they were *)
Definition expect_lookup (inh : mapping) (names : list ev) (maps : mapping) (e : ev) : option meth :=
  match alookup e maps with
  | Some m => Some m
  | None => if inb e names then Some e else alookup e inh
  end.

Definition optz_eqb (a b : option Z) : bool :=
  match a, b with
  | Some x, Some y => x =? y
  | None, None => true
  | _, _ => false
  end.

Fixpoint split_last {A} (l : list A) : option (list A * A) :=
  match l with
  | [] => None
  | [x] => Some ([], x)
  | x :: l => match split_last l with Some (f, y) => Some (x :: f, y) | None => None end
  end.

(* inh = what attribute lookup gives the new class before the decorator
   assigns: the mapping last observed on the first class of its MRO (after
   itself) to which a decorator assigned one *)
Definition cls_spec_step (info : list (cls * cinfo)) (prev : ctable) (d : cdef) (ob : cobs) : bool :=
  match split_last (co_tab ob) with
  | None => false
  | Some (front, (c, om)) =>
      let inh := inherited info prev (co_mro ob) in
      (* every other class reads as before *)
      ctable_eqb prev front && (c =? cd_cls d) &&
      (if empty_deco d then
         (* event_handler(): cls unchanged, it reads what it inherits (possibly nothing) *)
         omapping_eqb inh om
       else
         match om with
         | Some m =>
             forallb (fun e => optz_eqb (alookup e m) (expect_lookup (or_empty inh) (cd_names d) (cd_maps d) e))
                     (map fst m ++ map fst (or_empty inh) ++ cd_names d ++ map fst (cd_maps d))
         | None => false
         end)
  end.

Fixpoint cls_spec (info : list (cls * cinfo)) (prev : ctable) (ds : list (cdef * cobs)) : bool :=
  match ds with
  | [] => true
  | (d, ob) :: ds =>
      cls_spec_step info prev d ob &&
      cls_spec (info ++ [(cd_cls d, {| ci_mro := co_mro ob; ci_own := negb (empty_deco d) |})]) (co_tab ob) ds
  end.

(* ------------------------------------------------------------------ *)
(* C04 / C10: enabling, disabling, the pending events, freed handlers.  *)
Record sstate := {
  s_next : tok;
  s_reg : list hid;                        (* registered and alive *)
  s_gone : list hid;                       (* freed *)
  s_en : bool;                             (* what was assigned to dispatch_enabled last *)
  s_pend : list qent;                      (* dispatched while disabled, not delivered yet, oldest first *)
  s_owed : list delivery;                  (* open dispatches made while enabled *)
  s_rel : list (tok * option delivery);    (* open enabling assignments, innermost first, each with
                                              the pending event it is delivering *)
  s_recv : list hid;                       (* receivers of the callbacks that are executing *)
  s_exc : bool;
}.

Definition upd_owed (s : sstate) (l : list delivery) (recv : list hid) : sstate :=
  {| s_next := s_next s; s_reg := s_reg s; s_gone := s_gone s; s_en := s_en s; s_pend := s_pend s;
     s_owed := l; s_rel := s_rel s; s_recv := recv; s_exc := s_exc s |}.
Definition upd_reg (s : sstate) (r : list hid) : sstate :=
  {| s_next := s_next s; s_reg := r; s_gone := s_gone s; s_en := s_en s; s_pend := s_pend s;
     s_owed := s_owed s; s_rel := s_rel s; s_recv := s_recv s; s_exc := s_exc s |}.

Definition rel_done (cur : option delivery) : bool :=
  match cur with None => true | Some d => isnil (d_rem d) end.

(* situations in which the harness does not let a component leave its row *)
Definition sleave_blocked (h : hid) (s : sstate) : bool :=
  inb h (s_gone s) || inb h (s_recv s) || (relay_holds h (s_pend s) && negb (isnil (s_recv s))).

Definition sstep (p : params) (s : sstate) (e : entry) : option sstate :=
  if s_exc s then
    match e with
    | EExc => Some {| s_next := s_next s; s_reg := s_reg s; s_gone := s_gone s; s_en := s_en s;
                      s_pend := s_pend s; s_owed := s_owed s; s_rel := s_rel s; s_recv := s_recv s;
                      s_exc := false |}
    | _ => None
    end
  else
  match e with
  | EAct (AAdd h) => if inb h (s_gone s) then Some s else Some (upd_reg s (hadd h (s_reg s)))
  | EAct (ARemove h) => if inb h (s_gone s) then Some s else Some (upd_reg s (hdel h (s_reg s)))
  | EIs h b => if Bool.eqb b (inb h (s_reg s)) then Some s else None
  | EAct (AIs _) => None
  | EAct (ADispatch e x) =>
      if s_en s then
        Some {| s_next := s_next s + 1; s_reg := s_reg s; s_gone := s_gone s; s_en := true;
                s_pend := s_pend s; s_owed := (s_next s, x, listeners p e (s_reg s)) :: s_owed s;
                s_rel := s_rel s; s_recv := s_recv s; s_exc := false |}
      else
        (* deferred; guaranteed to be delivered iff the name has a listener now *)
        Some {| s_next := s_next s + 1; s_reg := s_reg s; s_gone := s_gone s; s_en := false;
                s_pend := s_pend s ++ [{| q_tok := s_next s; q_ev := e; q_arg := x;
                                          q_opt := isnil (listeners p e (s_reg s)); q_dir := None |}];
                s_owed := s_owed s; s_rel := s_rel s; s_recv := s_recv s; s_exc := false |}
  | EAct (ASetEnabled false) =>
      Some {| s_next := s_next s; s_reg := s_reg s; s_gone := s_gone s; s_en := false;
              s_pend := s_pend s; s_owed := s_owed s; s_rel := s_rel s; s_recv := s_recv s;
              s_exc := false |}
  | EAct (ASetEnabled true) =>
      Some {| s_next := s_next s + 1; s_reg := s_reg s; s_gone := s_gone s; s_en := true;
              s_pend := s_pend s; s_owed := s_owed s; s_rel := (s_next s, None) :: s_rel s;
              s_recv := s_recv s; s_exc := false |}
  | EAct AClear =>
      (* nobody is registered any more, so the pending events have no receiver *)
      Some {| s_next := s_next s; s_reg := []; s_gone := s_gone s; s_en := true;
              s_pend := []; s_owed := s_owed s; s_rel := s_rel s; s_recv := s_recv s; s_exc := false |}
  | EAct ARaise =>
      (* every open dispatch and every open enabling assignment is abandoned;
         what is still pending stays pending, in order *)
      Some {| s_next := s_next s; s_reg := s_reg s; s_gone := s_gone s; s_en := s_en s;
              s_pend := s_pend s; s_owed := []; s_rel := []; s_recv := []; s_exc := true |}
  | EAct (ADrop h) =>
      (* held by a callback in progress or by a postponed on_add: stays alive *)
      if inb h (s_gone s) || inb h (s_recv s) || relay_holds h (s_pend s) then Some s else
      (* freed: unregistered, and owed nothing by the dispatches in progress *)
      Some {| s_next := s_next s; s_reg := hdel h (s_reg s); s_gone := h :: s_gone s; s_en := s_en s;
              s_pend := s_pend s; s_owed := map (strip_d h) (s_owed s);
              s_rel := map (fun r => (fst r, option_map (strip_d h) (snd r))) (s_rel s);
              s_recv := s_recv s; s_exc := false |}
  | EAct (ACreate h) =>
      (* a component enters the World while dispatching is disabled: registered at once,
         its on_add (if its class handles it) pending, to be delivered to it directly *)
      if s_en s || inb h (s_gone s) then None else
      Some {| s_next := s_next s + 1; s_reg := hadd h (s_reg s); s_gone := s_gone s; s_en := false;
              s_pend := s_pend s ++ relay p (s_next s) h; s_owed := s_owed s; s_rel := s_rel s;
              s_recv := s_recv s; s_exc := false |}
  | EAct (ARemoveC h) =>
      (* the component leaves its World row: unregistered; freed, unless its postponed
         on_add still holds it (then it stays alive until that is delivered) *)
      if sleave_blocked h s then None else
      if relay_holds h (s_pend s) then Some (upd_reg s (hdel h (s_reg s))) else
      Some {| s_next := s_next s; s_reg := hdel h (s_reg s); s_gone := h :: s_gone s; s_en := s_en s;
              s_pend := s_pend s; s_owed := map (strip_d h) (s_owed s);
              s_rel := map (fun r => (fst r, option_map (strip_d h) (snd r))) (s_rel s);
              s_recv := s_recv s; s_exc := false |}
  | EAct (AReplace h h2) =>
      if s_en s || inb h2 (s_gone s) || (h =? h2) || sleave_blocked h s then None else
      if relay_holds h (s_pend s) then
        Some {| s_next := s_next s + 1; s_reg := hadd h2 (hdel h (s_reg s)); s_gone := s_gone s; s_en := false;
                s_pend := s_pend s ++ relay p (s_next s) h2; s_owed := s_owed s; s_rel := s_rel s;
                s_recv := s_recv s; s_exc := false |}
      else
        Some {| s_next := s_next s + 1; s_reg := hadd h2 (hdel h (s_reg s)); s_gone := h :: s_gone s; s_en := false;
                s_pend := s_pend s ++ relay p (s_next s) h2; s_owed := map (strip_d h) (s_owed s);
                s_rel := map (fun r => (fst r, option_map (strip_d h) (snd r))) (s_rel s);
                s_recv := s_recv s; s_exc := false |}
  | ESkip => Some s
  | ECall h m t x =>
      match owed_call h m t x (s_owed s) with
      | Some (Some l) => Some (upd_owed s l (h :: s_recv s))
      | Some None => None
      | None =>
          match s_rel s with
          | [] => None                                  (* no enabling assignment is running *)
          | (r, cur) :: rels =>
              match match cur with Some d => scall d h m t x | None => None end with
              | Some d' =>
                  Some {| s_next := s_next s; s_reg := s_reg s; s_gone := s_gone s; s_en := s_en s;
                          s_pend := s_pend s; s_owed := s_owed s; s_rel := (r, Some d') :: rels;
                          s_recv := h :: s_recv s; s_exc := false |}
              | None =>
                  (* first call of the next pending event: dispatching is enabled, the
                     previous delivery is complete, every event before it can be passed
                     over, and it goes to the handlers registered now (a postponed on_add:
                     to its component) *)
                  if s_en s && rel_done cur then
                    match seek (fun e => listeners p e (s_reg s)) t (s_pend s) with
                    | Some (q, rest) =>
                        match scall (q_tok q, q_arg q, targets (fun e => listeners p e (s_reg s)) q) h m t x with
                        | Some d' =>
                            Some {| s_next := s_next s; s_reg := s_reg s; s_gone := s_gone s; s_en := true;
                                    s_pend := rest; s_owed := s_owed s; s_rel := (r, Some d') :: rels;
                                    s_recv := h :: s_recv s; s_exc := false |}
                        | None => None
                        end
                    | None => None
                    end
                  else None
              end
          end
      end
  | ERet =>
      match s_recv s with
      | _ :: recv => Some (upd_owed s (s_owed s) recv)
      | [] => None
      end
  | EEnd t =>
      match owed_end t (s_owed s) with
      | Some (Some l) => Some (upd_owed s l (s_recv s))
      | Some None => None
      | None =>
          match s_rel s with
          | (r, cur) :: rels =>
              if (t =? r) && rel_done cur then
                if s_en s then
                  (* returned while enabled: nothing deliverable is left pending *)
                  if forallb (skippable (fun e => listeners p e (s_reg s))) (s_pend s) then
                    Some {| s_next := s_next s; s_reg := s_reg s; s_gone := s_gone s; s_en := true;
                            s_pend := []; s_owed := s_owed s; s_rel := rels; s_recv := s_recv s;
                            s_exc := false |}
                  else None
                else
                  (* a callback disabled dispatching: the rest stays pending *)
                  Some {| s_next := s_next s; s_reg := s_reg s; s_gone := s_gone s; s_en := false;
                          s_pend := s_pend s; s_owed := s_owed s; s_rel := rels; s_recv := s_recv s;
                          s_exc := false |}
              else None
          | [] => None
          end
      end
  | EExc => None
  end.

Fixpoint srun (p : params) (s : sstate) (log : list entry) : option sstate :=
  match log with
  | [] => Some s
  | e :: log => match sstep p s e with Some s' => srun p s' log | None => None end
  end.

Definition sinit : sstate :=
  {| s_next := 0; s_reg := []; s_gone := []; s_en := true; s_pend := []; s_owed := []; s_rel := [];
     s_recv := []; s_exc := false |}.

Definition sfinal_ok (s : sstate) : bool :=
  isnil (s_owed s) && isnil (s_rel s) && isnil (s_recv s) && negb (s_exc s).

Definition holdsq_b (p : params) (log : list entry) : bool :=
  match srun p sinit log with Some s => sfinal_ok s | None => false end.

(* ------------------------------------------------------------------ *)
(* domains, known finding, verdicts                                     *)
Fixpoint nodupb (l : list Z) : bool :=
  match l with [] => true | x :: l => negb (inb x l) && nodupb l end.

(* __events__ is a dict, the keyword arguments of the decorator are one *)
Definition wf_classes (c : ecase) : bool :=
  forallb (fun dob => nodupb (map fst (cd_maps (fst dob))) &&
                      forallb (fun cm => nodupb (map fst (or_empty (snd cm)))) (co_tab (snd dob))) (c_classes c).

Definition entry_enabled_only (e : entry) : bool :=
  match e with
  | EAct (ASetEnabled _) | EAct (ADrop _) | EAct (ACreate _) | EAct (ARemoveC _) | EAct (AReplace _ _)
  | ESkip => false
  | _ => true
  end.
Definition entry_no_drop (e : entry) : bool :=
  match e with EAct (ADrop _) => false | _ => true end.

(* C03: dispatching stays enabled, nobody is freed *)
Definition C03_case := ecase.
Definition wf3_b (c : ecase) : bool := wf_classes c && forallb entry_enabled_only (c_log c).
(* K4: two distinct handlers that are == and hash-equal *)
Definition known3_b (c : ecase) : bool := negb (isnil (c_eqs c)).
Definition holds3_case_b (c : ecase) : bool :=
  cls_spec [] [] (c_classes c) && holds3_b (params_of c) (c_log c).
Definition C03_verdict (c : C03_case) : nat :=
  (bit (wf3_b c) 1 + bit (known3_b c) 2 + bit (accepts c) 4 + bit (holds3_case_b c) 8)%nat.

(* C04: handlers compare by identity and nobody is freed *)
Definition C04_case := ecase.
Definition wf4_b (c : ecase) : bool :=
  wf_classes c && isnil (c_eqs c) && forallb entry_no_drop (c_log c).
Definition known4_b (c : ecase) : bool := false.
Definition holds4_case_b (c : ecase) : bool := holdsq_b (params_of c) (c_log c).
Definition C04_verdict (c : C04_case) : nat :=
  (bit (wf4_b c) 1 + bit (known4_b c) 2 + bit (accepts c) 4 + bit (holds4_case_b c) 8)%nat.

(* C10: handlers compare by identity *)
Definition C10_case := ecase.
Definition wf10_b (c : ecase) : bool := wf_classes c && isnil (c_eqs c).
Definition known10_b (c : ecase) : bool := false.
Definition holds10_case_b (c : ecase) : bool := holdsq_b (params_of c) (c_log c).
Definition C10_verdict (c : C10_case) : nat :=
  (bit (wf10_b c) 1 + bit (known10_b c) 2 + bit (accepts c) 4 + bit (holds10_case_b c) 8)%nat.
