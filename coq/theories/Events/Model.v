(* Events - model of desper/events.py (EventDispatcher, event_handler).

   Shared by C03 (enabled dispatch), C04 (deferral and release) and C10
   (weak handlers).  Callbacks are data: a handler's method is a script of
   actions.  The acceptor is a log-driven machine with an explicit stack:
   one [step] per entry of the implementation's log, no fuel.  The order in
   which the implementation iterates a listener set is read from the log
   (the ECall entries) and only checked to stay inside the snapshot.

   Models only: no proofs in this file. *)
From Coq Require Import ZArith List Bool.
From Desper Require Import Lib.Alist.
Import ListNotations.
Open Scope Z_scope.

Definition hid := Z.    (* handler instance *)
Definition ev := Z.     (* event name; method names live in the same name space *)
Definition meth := Z.   (* method name *)
Definition tok := Z.    (* serial number of a dispatch / enabling assignment *)
Definition argc := Z.   (* code of the (args, kwargs) shape passed after the token *)
Definition cls := Z.

(* ------------------------------------------------------------------ *)
(* Actions: what a script (top level program or callback body) does.    *)
Inductive action :=
| AAdd (h : hid)                 (* d.add_handler(h) *)
| ARemove (h : hid)              (* d.remove_handler(h) *)
| AIs (h : hid)                  (* d.is_handler(h), result logged *)
| ADispatch (e : ev) (a : argc)  (* d.dispatch(e, tok, args(a)..., kwargs(a)...), tok drawn when executed *)
| ASetEnabled (b : bool)         (* d.dispatch_enabled = b *)
| AClear                         (* d.clear() *)
| ARaise                         (* raise ScriptError *)
| ADrop (h : hid)                (* the program drops its only strong reference to h (no-op when h is gone,
                                    is a receiver on the call stack, or is held by a postponed on_add) *)
(* World only, handlers that are components ("controllers"); the harness skips them (ESkip)
   when their precondition does not hold *)
| ACreate (h : hid)              (* while disabled: world.create_entity(h); the World row becomes the holder *)
| ARemoveC (h : hid)             (* world.remove_component / delete_entity of h's row: unless a postponed
                                    on_add still holds it, h dies at once (skipped when h is on the call
                                    stack, or is held by a postponed on_add while any callback runs) *)
| AReplace (h h2 : hid).         (* while disabled: world.add_component(entity of h, h2): h2 replaces h *)

(* One entry of the implementation's log. *)
Inductive entry :=
| EAct (a : action)                             (* the action is about to run (never AIs) *)
| EIs (h : hid) (b : bool)                      (* action AIs h ran and returned b *)
| ECall (h : hid) (m : meth) (t : tok) (a : argc) (* method m entered, receiver h (-1: None), token and arg shape received *)
| ERet                                          (* the callback returned *)
| EEnd (t : tok)                                (* the dispatch made while enabled / the enabling assignment t returned normally *)
| EExc                                          (* the top level caught ScriptError *)
| ESkip.                                        (* the harness skipped the next (World component) action *)

Definition action_eqb (a b : action) : bool :=
  match a, b with
  | AAdd h, AAdd h' => h =? h'
  | ARemove h, ARemove h' => h =? h'
  | AIs h, AIs h' => h =? h'
  | ADispatch e x, ADispatch e' x' => (e =? e') && (x =? x')
  | ASetEnabled b, ASetEnabled b' => Bool.eqb b b'
  | AClear, AClear => true
  | ARaise, ARaise => true
  | ADrop h, ADrop h' => h =? h'
  | ACreate h, ACreate h' => h =? h'
  | ARemoveC h, ARemoveC h' => h =? h'
  | AReplace h g, AReplace h' g' => (h =? h') && (g =? g')
  | _, _ => false
  end.

(* ------------------------------------------------------------------ *)
(* Parameters of a run: classes (through events_of), scripts, equality. *)
Record params := {
  events_of : hid -> list (ev * meth);       (* type(h).__events__ *)
  script    : hid -> meth -> list action;    (* body of type(h).<m> for receiver h *)
  keyf      : hid -> Z;                      (* equality class of h under ==/hash; identity unless K4 *)
}.

(* ------------------------------------------------------------------ *)
(* The two tables.  A weak reference compares like its live referent,   *)
(* hence every comparison goes through the key function [k].            *)
Definition pairb (k : hid -> Z) (x y : hid * meth) : bool :=
  (k (fst x) =? k (fst y)) && (snd x =? snd y).
Fixpoint mem (k : hid -> Z) (x : hid * meth) (l : list (hid * meth)) : bool :=
  match l with [] => false | y :: l => pairb k x y || mem k x l end.
Fixpoint remove1 (k : hid -> Z) (x : hid * meth) (l : list (hid * meth)) :=
  match l with [] => [] | y :: l => if pairb k x y then remove1 k x l else y :: remove1 k x l end.
Definition set_add (k : hid -> Z) x l := if mem k x l then l else l ++ [x].

Record tables := {
  t_events   : list (ev * list (hid * meth));      (* _events: name -> set of (ref, method) *)
  t_handlers : list (Z * list (ev * meth));        (* _handlers: ref -> ((name, method), ...) *)
}.
Definition no_tables := {| t_events := []; t_handlers := [] |}.

Definition look (acc : list (ev * list (hid * meth))) (e : ev) : list (hid * meth) :=
  match alookup e acc with Some l => l | None => [] end.

(* add_handler: setdefault(name, set()).add((ref, method)); _handlers[ref] = ... *)
Definition add_handler (k : hid -> Z) (evs : list (ev * meth)) (h : hid) (s : tables) : tables :=
  {| t_events := fold_left (fun acc em =>
        aset (fst em) (set_add k (h, snd em) (look acc (fst em))) acc) evs (t_events s);
     t_handlers := aset (k h) evs (t_handlers s) |}.

(* _remove_weak_handler (also remove_handler and the weak reference callback) *)
Definition remove_handler (k : hid -> Z) (h : hid) (s : tables) : tables :=
  match alookup (k h) (t_handlers s) with
  | None => s
  | Some evs =>
    {| t_events := fold_left (fun acc em =>
          match alookup (fst em) acc with
          | Some l => aset (fst em) (remove1 k (h, snd em) l) acc
          | None => acc end) evs (t_events s);
       t_handlers := adel (k h) (t_handlers s) |}
  end.

Definition is_handler (k : hid -> Z) (h : hid) (s : tables) : bool := amem (k h) (t_handlers s).

Definition inb (h : hid) (l : list hid) : bool := existsb (Z.eqb h) l.

(* ------------------------------------------------------------------ *)
(* The queue of a disabled dispatcher.  An event whose name has no      *)
(* listener when it is dispatched is kept as *optional*: the property   *)
(* leaves open whether it is delivered later (the code queues it iff    *)
(* the name was ever registered since the last clear()).                *)
Record qent := { q_tok : tok; q_ev : ev; q_arg : argc; q_opt : bool;
                 q_dir : option (hid * meth) }.
(* q_dir = Some (h, m): a postponed on_add of a World component (the relay
   World queues for itself through on_single_dispatch): delivered to h's
   method m directly, whatever is registered then.  The entry holds h. *)
Definition on_add_ev : ev := 90.        (* the harness's number for the event name 'on_add' *)
Definition relay_arg : argc := 99.      (* code of the arguments (entity, world) *)

(* whom the entry is delivered to, given the listeners of each name *)
Definition targets (lis : ev -> list (hid * meth)) (x : qent) : list (hid * meth) :=
  match q_dir x with Some hm => [hm] | None => lis (q_ev x) end.

Definition isnil {A} (l : list A) : bool := match l with [] => true | _ => false end.

(* can the release pass over this entry without any call? *)
Definition skippable (lis : ev -> list (hid * meth)) (x : qent) : bool :=
  q_opt x || isnil (targets lis x).

(* next queue entry to deliver is the one with token t: everything before it
   must be skippable.  Structural recursion on the queue: the release loop
   needs no fuel. *)
Fixpoint seek (lis : ev -> list (hid * meth)) (t : tok) (q : list qent) : option (qent * list qent) :=
  match q with
  | [] => None
  | x :: q' => if q_tok x =? t then Some (x, q')
               else if skippable lis x then seek lis t q' else None
  end.

(* ------------------------------------------------------------------ *)
(* The machine.                                                         *)
Definition delivery := (tok * argc * list (hid * meth))%type.   (* a dispatch in progress: snapshot entries not yet visited *)

Inductive frame :=
| FScript (owner : option hid) (rest : list action)   (* a callback body of receiver owner / the top level program *)
| FDisp (d : delivery)                                (* dispatch() called while enabled *)
| FRel (t : tok) (cur : option delivery).             (* the dispatch_enabled setter's while loop *)

Record mstate := {
  tabs : tables;
  enabled : bool;                (* _dispatch_enabled *)
  queue : list qent;             (* _event_queue *)
  gone : list hid;               (* handlers that were freed *)
  next : tok;                    (* token counter shared with the harness *)
  exc : bool;                    (* an exception is travelling to the top level *)
  stack : list frame;
}.

Definition upd_stack (s : mstate) (stk : list frame) : mstate :=
  {| tabs := tabs s; enabled := enabled s; queue := queue s; gone := gone s;
     next := next s; exc := exc s; stack := stk |}.

Fixpoint onstack (h : hid) (stk : list frame) : bool :=
  match stk with
  | [] => false
  | FScript (Some h') _ :: stk => (h =? h') || onstack h stk
  | _ :: stk => onstack h stk
  end.

Fixpoint bottom (stk : list frame) : list frame :=
  match stk with
  | [] => []
  | [f] => [f]
  | _ :: stk => bottom stk
  end.

(* all snapshot entries that are left belong to freed handlers: the for
   loop of dispatch() skips them *)
Definition all_gone (g : list hid) (rem : list (hid * meth)) : bool :=
  forallb (fun x => inb (fst x) g) rem.
Definition cur_done (g : list hid) (cur : option delivery) : bool :=
  match cur with None => true | Some (_, _, rem) => all_gone g rem end.

(* a postponed on_add keeps its component alive *)
Definition relay_holds (h : hid) (q : list qent) : bool :=
  existsb (fun x => match q_dir x with Some hm => fst hm =? h | None => false end) q.

(* World queues the relay only for a component whose class handles 'on_add' *)
Definition relay (p : params) (t : tok) (h : hid) : list qent :=
  match alookup on_add_ev (events_of p h) with
  | Some m => [{| q_tok := t; q_ev := on_add_ev; q_arg := relay_arg; q_opt := false; q_dir := Some (h, m) |}]
  | None => []
  end.

Fixpoint in_callback (stk : list frame) : bool :=
  match stk with
  | [] => false
  | FScript (Some _) _ :: _ => true
  | _ :: stk => in_callback stk
  end.

(* the harness never lets a component leave its row in these situations (ESkip) *)
Definition leave_blocked (h : hid) (s : mstate) (stk : list frame) : bool :=
  inb h (gone s) || onstack h stk || (relay_holds h (queue s) && in_callback stk).

Definition skippable_action (a : action) : bool :=
  match a with ACreate _ | ARemoveC _ | AReplace _ _ => true | _ => false end.

Definition do_action (p : params) (s : mstate) (a : action) (o : option hid) (rest : list action)
                     (stk : list frame) : option mstate :=
  let k := keyf p in
  let here := FScript o rest :: stk in
  match a with
  | AAdd h =>
      if inb h (gone s) then Some (upd_stack s here) else
      Some {| tabs := add_handler k (events_of p h) h (tabs s); enabled := enabled s; queue := queue s;
              gone := gone s; next := next s; exc := false; stack := here |}
  | ARemove h =>
      if inb h (gone s) then Some (upd_stack s here) else
      Some {| tabs := remove_handler k h (tabs s); enabled := enabled s; queue := queue s;
              gone := gone s; next := next s; exc := false; stack := here |}
  | AIs _ => None
  | ADispatch e x =>
      let t := next s in
      if enabled s then
        (* snapshot of the listener set (empty when the name is unknown) *)
        Some {| tabs := tabs s; enabled := true; queue := queue s; gone := gone s; next := t + 1;
                exc := false; stack := FDisp (t, x, look (t_events (tabs s)) e) :: here |}
      else
        Some {| tabs := tabs s; enabled := false;
                queue := queue s ++ [{| q_tok := t; q_ev := e; q_arg := x;
                                        q_opt := isnil (look (t_events (tabs s)) e); q_dir := None |}];
                gone := gone s; next := t + 1; exc := false; stack := here |}
  | ASetEnabled false =>
      Some {| tabs := tabs s; enabled := false; queue := queue s; gone := gone s; next := next s;
              exc := false; stack := here |}
  | ASetEnabled true =>
      let t := next s in
      Some {| tabs := tabs s; enabled := true; queue := queue s; gone := gone s; next := t + 1;
              exc := false; stack := FRel t None :: here |}
  | AClear =>
      Some {| tabs := no_tables; enabled := true; queue := []; gone := gone s; next := next s;
              exc := false; stack := here |}
  | ARaise =>
      (* nothing catches below the top level: every open frame is abandoned
         with the state reached so far *)
      match bottom here with
      | [FScript None rest0] =>
          Some {| tabs := tabs s; enabled := enabled s; queue := queue s; gone := gone s; next := next s;
                  exc := true; stack := [FScript None rest0] |}
      | _ => None
      end
  | ADrop h =>
      if inb h (gone s) || onstack h here || relay_holds h (queue s) then Some (upd_stack s here) else
      (* the object dies at once; its weak reference callback unregisters it *)
      Some {| tabs := remove_handler k h (tabs s); enabled := enabled s; queue := queue s;
              gone := h :: gone s; next := next s; exc := false; stack := here |}
  | ACreate h =>
      (* create_entity: add_handler, and - dispatching being disabled - the on_add is postponed *)
      if enabled s || inb h (gone s) then None else
      Some {| tabs := add_handler k (events_of p h) h (tabs s); enabled := false;
              queue := queue s ++ relay p (next s) h; gone := gone s; next := next s + 1;
              exc := false; stack := here |}
  | ARemoveC h =>
      (* remove_component / delete_entity: remove_handler; the row lets go of h, which
         dies unless its postponed on_add holds it *)
      if leave_blocked h s here then None else
      Some {| tabs := remove_handler k h (tabs s); enabled := enabled s; queue := queue s;
              gone := if relay_holds h (queue s) then gone s else h :: gone s;
              next := next s; exc := false; stack := here |}
  | AReplace h h2 =>
      (* add_component over an occupied slot: remove_component of h, then as create *)
      if enabled s || inb h2 (gone s) || (h =? h2) || leave_blocked h s here then None else
      Some {| tabs := add_handler k (events_of p h2) h2 (remove_handler k h (tabs s)); enabled := false;
              queue := queue s ++ relay p (next s) h2;
              gone := if relay_holds h (queue s) then gone s else h :: gone s; next := next s + 1;
              exc := false; stack := here |}
  end.

(* a callback of delivery (t, x, rem) is entered *)
Definition call (p : params) (g : list hid) (d : delivery) (h : hid) (m : meth) (t : tok) (x : argc)
  : option (delivery * frame) :=
  let '(t', x', rem) := d in
  if (t =? t') && (x =? x') && mem (keyf p) (h, m) rem && negb (inb h g)
  then Some ((t', x', remove1 (keyf p) (h, m) rem), FScript (Some h) (script p h m))
  else None.

Definition step (p : params) (s : mstate) (e : entry) : option mstate :=
  if exc s then
    match e with
    | EExc => Some {| tabs := tabs s; enabled := enabled s; queue := queue s; gone := gone s;
                      next := next s; exc := false; stack := stack s |}
    | _ => None
    end
  else
  match e, stack s with
  | EAct a, FScript o (a' :: rest) :: stk =>
      if action_eqb a a' then do_action p s a o rest stk else None
  | EIs h b, FScript o (AIs h' :: rest) :: stk =>
      if (h =? h') && Bool.eqb b (negb (inb h (gone s)) && is_handler (keyf p) h (tabs s))
      then Some (upd_stack s (FScript o rest :: stk)) else None
  | ECall h m t x, FDisp d :: stk =>
      match call p (gone s) d h m t x with
      | Some (d', f) => Some (upd_stack s (f :: FDisp d' :: stk))
      | None => None
      end
  | ECall h m t x, FRel r cur :: stk =>
      match match cur with Some d => call p (gone s) d h m t x | None => None end with
      | Some (d', f) => Some (upd_stack s (f :: FRel r (Some d') :: stk))
      | None =>
          (* the while loop pops the next event: the delivery in progress is
             over, dispatching is enabled, and the event is the first of the
             queue that cannot be passed over *)
          if enabled s && cur_done (gone s) cur then
            match seek (look (t_events (tabs s))) t (queue s) with
            | Some (q, qrest) =>
                match call p (gone s) (q_tok q, q_arg q, targets (look (t_events (tabs s))) q) h m t x with
                | Some (d', f) =>
                    Some {| tabs := tabs s; enabled := true; queue := qrest; gone := gone s;
                            next := next s; exc := false; stack := f :: FRel r (Some d') :: stk |}
                | None => None
                end
            | None => None
            end
          else None
      end
  | ESkip, FScript o (a' :: rest) :: stk =>
      if skippable_action a' then Some (upd_stack s (FScript o rest :: stk)) else None
  | ERet, FScript (Some _) [] :: stk => Some (upd_stack s stk)
  | EEnd t, FDisp (t', _, rem) :: stk =>
      if (t =? t') && all_gone (gone s) rem then Some (upd_stack s stk) else None
  | EEnd t, FRel t' cur :: stk =>
      if (t =? t') && cur_done (gone s) cur then
        if enabled s then
          (* the loop ran until the queue was empty *)
          if forallb (skippable (look (t_events (tabs s)))) (queue s) then
            Some {| tabs := tabs s; enabled := true; queue := []; gone := gone s;
                    next := next s; exc := false; stack := stk |}
          else None
        else Some (upd_stack s stk)       (* a callback disabled dispatching: the loop stopped *)
      else None
  | _, _ => None
  end.

Fixpoint run (p : params) (s : mstate) (log : list entry) : option mstate :=
  match log with
  | [] => Some s
  | e :: log => match step p s e with Some s' => run p s' log | None => None end
  end.

Definition init (ops : list action) : mstate :=
  {| tabs := no_tables; enabled := true; queue := []; gone := []; next := 0; exc := false;
     stack := [FScript None ops] |}.

Definition final_ok (s : mstate) : bool :=
  negb (exc s) && match stack s with [FScript None []] => true | _ => false end.

Definition maccepts (p : params) (ops : list action) (log : list entry) : bool :=
  match run p (init ops) log with Some s => final_ok s | None => false end.

(* ------------------------------------------------------------------ *)
(* Classes and the event_handler decorator.                             *)
Definition mapping := list (ev * meth).        (* a dict name -> method name, insertion order *)

Record cdef := {
  cd_cls : cls;
  cd_bases : list cls;           (* the bases, in order ([]: a fresh root) *)
  cd_names : list ev;            (* positional arguments of event_handler: names *)
  cd_maps : list (ev * meth);    (* keyword arguments of event_handler: name=method *)
}.

(* what getattr(cls, '__events__', None) gives, per class (None: no such attribute) *)
Definition ctable := list (cls * option mapping).

(* observed after a class definition: the method resolution order Python gave
   the new class, and __events__ of every class defined so far *)
Record cobs := { co_mro : list cls; co_tab : ctable }.

(* static facts about a class: its MRO and whether the decorator assigned
   __events__ to it (event_handler() without arguments returns cls unchanged) *)
Record cinfo := { ci_mro : list cls; ci_own : bool }.

(* d1 | d2 on dicts *)
Definition dict_or (d1 d2 : mapping) : mapping := fold_left (fun acc em => aset (fst em) (snd em) acc) d2 d1.

Definition empty_deco (d : cdef) : bool := isnil (cd_names d) && isnil (cd_maps d).

(* attribute lookup: the first class of the MRO that owns the attribute *)
Definition owns (info : list (cls * cinfo)) (b : cls) : bool :=
  match alookup b info with Some i => ci_own i | None => false end.
Definition first_owner (info : list (cls * cinfo)) (l : list cls) : option cls := find (owns info) l.

(* getattr(cls, '__events__', {}) as the decorator sees it, before it assigns *)
Definition inherited (info : list (cls * cinfo)) (tb : ctable) (mro : list cls) : option mapping :=
  match first_owner info (tl mro) with
  | Some b => match alookup b tb with Some om => om | None => None end
  | None => None
  end.
Definition or_empty (om : option mapping) : mapping := match om with Some m => m | None => [] end.

(* the decorator: inherited | dict(zip(names, names)) | mappings, assigned to the
   new class only; an empty decorator leaves the class with what it inherits *)
Definition decorated (info : list (cls * cinfo)) (tb : ctable) (d : cdef) (mro : list cls) : option mapping :=
  let inh := inherited info tb mro in
  if empty_deco d then inh
  else Some (dict_or (dict_or (or_empty inh) (map (fun n => (n, n)) (cd_names d))) (cd_maps d)).
Definition decorate (info : list (cls * cinfo)) (tb : ctable) (d : cdef) (mro : list cls) : ctable :=
  tb ++ [(cd_cls d, decorated info tb d mro)].

(* dict equality (order of items is not part of the property) *)
Definition sub_map (m1 m2 : mapping) : bool :=
  forallb (fun em => match alookup (fst em) m2 with Some v => v =? snd em | None => false end) m1.
Definition mapping_eqb (m1 m2 : mapping) : bool := sub_map m1 m2 && sub_map m2 m1.
Definition omapping_eqb (a b : option mapping) : bool :=
  match a, b with
  | Some m1, Some m2 => mapping_eqb m1 m2
  | None, None => true
  | _, _ => false
  end.
Fixpoint ctable_eqb (t1 t2 : ctable) : bool :=
  match t1, t2 with
  | [], [] => true
  | (c1, m1) :: t1, (c2, m2) :: t2 => (c1 =? c2) && omapping_eqb m1 m2 && ctable_eqb t1 t2
  | _, _ => false
  end.

(* The MRO is Python's, read from the observation; the model checks that it
   is a consistent linearisation (what C3 guarantees): the class first, no
   repetition, the bases in their order, the MRO of every base kept as a
   subsequence, and nothing else. *)
Fixpoint subseq (a b : list Z) : bool :=
  match a, b with
  | [], _ => true
  | _ :: _, [] => false
  | x :: a', y :: b' => if x =? y then subseq a' b' else subseq a b'
  end.
Fixpoint nodupz (l : list Z) : bool :=
  match l with [] => true | x :: l => negb (inb x l) && nodupz l end.
Definition mro_of (info : list (cls * cinfo)) (b : cls) : list cls :=
  match alookup b info with Some i => ci_mro i | None => [b] end.
Definition mro_ok (info : list (cls * cinfo)) (d : cdef) (mro : list cls) : bool :=
  match mro with
  | [] => false
  | c :: rest =>
      (c =? cd_cls d) && nodupz mro && subseq (cd_bases d) rest &&
      forallb (fun b => subseq (mro_of info b) rest) (cd_bases d) &&
      forallb (fun x => existsb (fun b => inb x (mro_of info b)) (cd_bases d)) rest
  end.

(* after every class definition the harness reads the MRO of the new class and
   __events__ of all classes *)
Fixpoint cls_run (info : list (cls * cinfo)) (tb : ctable) (ds : list (cdef * cobs)) : bool :=
  match ds with
  | [] => true
  | (d, ob) :: ds =>
      mro_ok info d (co_mro ob) &&
      ctable_eqb (decorate info tb d (co_mro ob)) (co_tab ob) &&
      cls_run (info ++ [(cd_cls d, {| ci_mro := co_mro ob; ci_own := negb (empty_deco d) |})]) (co_tab ob) ds
  end.

(* ------------------------------------------------------------------ *)
(* A case as the harness encodes it.                                    *)
Record ecase := {
  c_classes : list (cdef * cobs);            (* definitions, each with what was observed after it *)
  c_hcls : list (hid * cls);                 (* class of each handler *)
  c_eqs : list (hid * hid);                  (* h |-> h0: h is a distinct object that is == and hash-equal to h0 (K4) *)
  c_scripts : list (hid * list (meth * list action));
  c_ops : list action;
  c_log : list entry;
}.

Fixpoint last_table (ds : list (cdef * cobs)) : ctable :=
  match ds with [] => [] | [(_, ob)] => co_tab ob | _ :: ds => last_table ds end.

Definition key_of (eqs : list (hid * hid)) (h : hid) : Z :=
  match alookup h eqs with Some r => r | None => h end.

Definition params_of (c : ecase) : params :=
  {| events_of := fun h => match alookup h (c_hcls c) with
                           | Some k => match alookup k (last_table (c_classes c)) with
                                       | Some om => or_empty om | None => [] end
                           | None => [] end;
     script := fun h m => match alookup h (c_scripts c) with
                          | Some ms => match alookup m ms with Some s => s | None => [] end
                          | None => [] end;
     keyf := key_of (c_eqs c) |}.

Definition accepts (c : ecase) : bool :=
  cls_run [] [] (c_classes c) && maccepts (params_of c) (c_ops c) (c_log c).

Definition bit (b : bool) (n : nat) : nat := if b then n else 0%nat.
