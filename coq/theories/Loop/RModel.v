(* Loop family, second generation: the executable model of desper/loop.py
   (switch, quit_loop, Loop.start / switch, SimpleLoop.start / loop / switch)
   on top of the event bus of RBus.v, with callbacks that act.

   Exceptions: a computation ends with RNorm or RExn x and keeps the state
   reached so far.  They are caught exactly where the code catches them:
   SimpleLoop.loop catches SwitchWorld raised inside its try block (time
   function and world.process) and, in the except clause, keeps switching as
   long as carrying out a switch raises another SwitchWorld (repaired code,
   /repo ce4190f); Loop.start catches Quit, and
   SimpleLoop.start resets the timestamp in a finally clause.
   No proofs in this file. *)
From Coq Require Import ZArith List Bool Arith.
From Desper Require Import Lib.Alist.
From Desper Require Export Loop.RBus.
Import ListNotations.
Open Scope Z_scope.

Section Loop.
  Variable react : ekind -> action -> M.

  (* switch(target_handle, cc, cn, from_world) *)
  Definition switch_fn (h : Z) (cc cn : bool) : M := fun s =>
    let from := s_curw s in
    let '(s1, to, l1) := handle_call h s in                  (* to_world = target_handle() *)
    (emit l1 ;;
     dispatch react from (VOut from to) ;;                   (* from_world.dispatch(on_switch_out) *)
     upd (disable from) ;;                                   (* from_world.dispatch_enabled = False *)
     upd (disable to) ;;                                     (* to_world.dispatch_enabled = False *)
     dispatch react to (VIn from to) ;;                      (* to_world.dispatch(on_switch_in) *)
     raise (XSW h cc cn (Some (from, to)))) s1.              (* raise SwitchWorld(...) *)

  (* quit_loop(target): target is the loop's current world *)
  Definition quit_fn : M := fun s =>
    (dispatch react (s_curw s) VQuit ;; raise XQuit) s.

  Definition perform_body (a : action) : M :=
    match a with
    | ANormal => ret
    | AQuit => raise XQuit
    | AQuitLoop _ => quit_fn
    | ASwitch h cc cn _ => switch_fn h cc cn
    | ARaiseSW h cc cn => raise (XSW h cc cn None)
    | AOther => raise XOther
    | ADirect _ _ _ => ret      (* only a scripted frame action (wf_b): see run_frame *)
    end.

  (* the doubles log every action before performing it *)
  Definition perform (o : origin) (a : action) : M := fun s =>
    (emit [EAct o a (s_curw s) (s_curh s)] ;; perform_body a) s.

  (* Loop.switch's two clears *)
  Definition clears (h : Z) (cc cn : bool) (s : state) : state :=
    let s1 := if cc then (if s_curh s =? none then s else handle_clear (s_curh s) s) else s in
    if cn then handle_clear h s1 else s1.

  (* SimpleLoop.switch = Loop.switch, then world_handle().dispatch_enabled = True;
     runs in the except clause of loop() or is called from outside *)
  Definition loop_switch (h : Z) (cc cn : bool) : M := fun s =>
    let s2 := clears h cc cn (set_inh true s) in
    let '(s3, w, l3) := handle_call h s2 in                  (* self._current_world = world_handle() *)
    let s4 := set_cur w h s3 in
    let '(s5, w', l5) := handle_call h s4 in                 (* world_handle() once more *)
    (emit (l3 ++ l5) ;; enable react w' ;; upd (set_inh false)) s5.
End Loop.

(* except SwitchWorld as ex:
     while ex is not None:
         try: self.switch(ex.world_handle, ex.clear_current, ex.clear_next); ex = None
         except SwitchWorld as nested_ex: ex = nested_ex
   n bounds the number of rounds (every further round needs a reaction) *)
Fixpoint handler (react : ekind -> action -> M) (n : nat) (h : Z) (cc cn : bool) : M := fun s =>
  match n with
  | O => None
  | S n' =>
      match loop_switch react h cc cn s with
      | None => None
      | Some (s1, l1, RExn (XSW h2 cc2 cn2 _)) =>
          match handler react n' h2 cc2 cn2 s1 with
          | None => None
          | Some (s2, l2, r2) => Some (s2, l1 ++ l2, r2)
          end
      | Some (s1, l1, r1) => Some (s1, l1, r1)
      end
  end.

(* a reaction is performed by the listener's callback; fuel = nesting depth *)
Fixpoint react_n (n : nat) : ekind -> action -> M :=
  match n with
  | O => fun _ _ _ => None
  | S n' => fun k a s => perform (react_n n') (OCallback k (s_inh s)) a s
  end.

Inductive fres := FCont | FQuit | FOther | FSwitch.

Definition procs (w dt : Z) (a n : nat) : list entry :=
  map (fun i => EProc w i dt) (seq a n).

(* events poked at the worlds other handles hold (no reaction to a poke) *)
Fixpoint do_pokes (ps : list (Z * Z)) (s : state) : state * list entry :=
  match ps with
  | [] => (s, [])
  | (k, tok) :: ps' =>
      match alookup k (s_cache s) with
      | Some w =>
          match alookup w (s_worlds s) with
          | Some (false, q) =>
              let '(s2, l2) :=
                do_pokes ps' (set_worlds (aset w (false, q ++ [VPoke tok]) (s_worlds s)) s) in
              (s2, EPoke k tok w :: l2)
          | Some (true, _) =>
              let '(s2, l2) := do_pokes ps' s in (s2, EPoke k tok w :: EEv w (VPoke tok) :: l2)
          | None => let '(s2, l2) := do_pokes ps' s in (s2, EPoke k tok w :: l2)
          end
      | None => do_pokes ps' s
      end
  end.

Definition coros (w : Z) (a n : nat) : list entry := map (fun i => ECoro w i) (seq a n).

(* World.process calls the scripted processors in order, then the
   CoroutineProcessor, which runs the coroutines in order, one step each.
   How many processors / coroutines have been called when the acting one
   (processor pos mod np, or coroutine pos mod nc) has begun: *)
Definition procs_upto (o : origin) (pos np : nat) : nat :=
  match o with OCoro => np | _ => S (Nat.modulo pos np) end.
Definition coros_upto (o : origin) (pos nc : nat) : nat :=
  match o with OCoro => S (Nat.modulo pos nc) | _ => O end.

Definition fres_of (r : res) : fres :=
  match r with
  | RNorm => FCont
  | RExn XQuit => FQuit
  | RExn XOther => FOther
  | RExn (XSW _ _ _ _) => FSwitch
  end.

Definition prefix (l : list entry) (x : option (state * list entry * fres))
  : option (state * list entry * fres) :=
  match x with Some (s, l', r) => Some (s, l ++ l', r) | None => None end.

Section Run.
  Variable fuel : nat.
  Variable nps ncs : list nat.

  (* how the iteration goes on after the acting processor: the action returned
     (the remaining processors [rest] run), raised SwitchWorld (except clause
     of loop()), or raised something else *)
  Definition after_action (x : option (state * list entry * res)) (rest : list entry)
    : option (state * list entry * fres) :=
    match x with
    | None => None
    | Some (s2, l2, RNorm) => Some (s2, l2 ++ rest, FCont)
    | Some (s2, l2, RExn (XSW h cc cn _)) =>
        match handler (react_n fuel) fuel h cc cn s2 with
        | None => None
        | Some (s3, l3, r3) => Some (s3, l2 ++ l3, fres_of r3)
        end
    | Some (s2, l2, r) => Some (s2, l2, fres_of r)
    end.

  (* the_loop.switch(h, cc, cn) called by the acting processor: SimpleLoop.switch
     runs inside the frame (no exception, no on_switch_in / out, the world left
     is not disabled) *)
  Definition direct (o : origin) (h : Z) (cc cn : bool) : M := fun s =>
    (emit [EAct o (ADirect h cc cn) (s_curw s) (s_curh s)] ;;
     loop_switch (react_n fuel) h cc cn) s.

  (* one iteration of SimpleLoop.loop; last = self.last_timestamp.  The new
     value of last_timestamp is always Some (f_t f).  The processors that run
     are those of the world that was current when world.process was called,
     also after a direct switch. *)
  Definition run_frame (last : option Z) (f : frame) (s : state)
    : option (state * list entry * fres) :=
    let t := f_t f in                                     (* timestamp = self.time_function() *)
    let dt := match last with None => 0 | Some l => t - l end in
    let s0 := set_inh false s in
    let w := s_curw s in
    let np := np_of nps (s_curh s) in
    let nc := np_of ncs (s_curh s) in
    let pb := procs_upto (f_org f) (f_pos f) np in
    let cb := coros_upto (f_org f) (f_pos f) nc in
    let head := EClock t w (s_curh s) :: procs w dt 0 pb ++ coros w 0 cb in
    let rest := procs w dt pb (np - pb) ++ coros w cb (nc - cb) in
    let '(s1, lp) := do_pokes (f_pokes f) s0 in
    match f_act f with
    | ANormal => Some (s1, head ++ lp ++ rest, FCont)
    | ADirect h cc cn => prefix (head ++ lp) (after_action (direct (f_org f) h cc cn s1) rest)
    | _ => prefix (head ++ lp)
                  (after_action (perform (react_n fuel) (f_org f) (f_act f) s1) rest)
    end.

  Fixpoint run_frames (last : option Z) (fs : list frame) (ek : endkind) (s : state)
    : option (state * list entry * fres) :=
    match fs with
    | [] => Some (s, [EClockEnd ek (s_curw s) (s_curh s)],
                  match ek with EndQuit => FQuit | EndOther => FOther end)
    | f :: fs' =>
        match run_frame last f s with
        | None => None
        | Some (s1, l1, FCont) =>
            match run_frames (Some (f_t f)) fs' ek s1 with
            | None => None
            | Some (s2, l2, r2) => Some (s2, l1 ++ l2, r2)
            end
        | Some (s1, l1, r) => Some (s1, l1, r)
        end
    end.
End Run.

(* SimpleLoop.start: try: Loop.start() finally: last_timestamp = None
   Loop.start: running = True; try: loop() except Quit: running = False.
   Returns the state, the timestamp left behind and the log. *)
Definition run_start (nps ncs : list nat) (last : option Z) (fs : list frame) (ek : endkind)
           (rs : list reaction) (s : state) : option (state * option Z * list entry) :=
  let running := true in
  match run_frames (S (length rs)) nps ncs last fs ek (set_reacts rs s) with
  | None => None
  | Some (s1, l, r) =>
      let running := match r with FQuit => false | _ => running end in
      let out := match r with
                 | FQuit => Returned running
                 | FSwitch => RaisedSwitch
                 | _ => RaisedOther
                 end in
      Some (s1, None (* finally *), l ++ [EEnd out (s_curw s1) (s_curh s1)])
  end.

Definition run_op (nps ncs : list nat) (last : option Z) (o : op) (s : state)
  : option (state * option Z * list entry) :=
  match o with
  | OTop h cc cn rs =>
      match loop_switch (react_n (S (length rs))) h cc cn (set_reacts rs s) with
      | None => None
      | Some (s1, l, r) =>
          let w := s_curw s1 in let hh := s_curh s1 in
          Some (set_inh false s1, last,
                l ++ [match r with
                      | RNorm => ETopDone w hh
                      | RExn XQuit => ETopExc TQuit w hh
                      | RExn XOther => ETopExc TOther w hh
                      | RExn (XSW _ _ _ _) => ETopExc TSwitch w hh
                      end])
      end
  | OStart fs ek rs => run_start nps ncs last fs ek rs s
  end.

Fixpoint run_ops (nps ncs : list nat) (last : option Z) (ops : list (op * list entry))
         (s : state)
  : bool :=
  match ops with
  | [] => true
  | (o, obs) :: ops' =>
      match run_op nps ncs last o s with
      | None => false
      | Some (s1, last1, l) => log_eqb l obs && run_ops nps ncs last1 ops' s1
      end
  end.

Definition accepts (c : rcase) : bool := run_ops (c_nps c) (c_ncs c) None (c_ops c) init.

(* ---- input domain -------------------------------------------------------- *)
Fixpoint sorted_from (t : Z) (l : list Z) : bool :=
  match l with
  | [] => true
  | x :: l' => (t <=? x) && sorted_from x l'
  end.

Definition op_times (o : op) : list Z :=
  match o with OTop _ _ _ _ => [] | OStart fs _ _ => map f_t fs end.

Definition first_is_top (ops : list (op * list entry)) : bool :=
  match ops with (OTop _ _ _ _, _) :: _ => true | _ => false end.

Definition is_callback (o : origin) : bool :=
  match o with OCallback _ _ => true | _ => false end.

(* scripted origins of frames are never callbacks *)
Definition frame_origin_ok (f : frame) : bool := negb (is_callback (f_org f)).

(* loop.switch called from OUTSIDE the loop does not end by SwitchWorld (nobody
   is there to honour a request made by the callbacks it runs) *)
Definition top_escapes (e : entry) : bool :=
  match e with ETopExc TSwitch _ _ => true | _ => false end.

(* a direct the_loop.switch is a scripted frame action, not a reaction *)
Definition is_direct (a : action) : bool :=
  match a with ADirect _ _ _ => true | _ => false end.
Definition op_reacts (o : op) : list reaction :=
  match o with OTop _ _ _ rs => rs | OStart _ _ rs => rs end.

Definition wf_b (c : rcase) : bool :=
  forallb (fun x => forallb (fun r => negb (is_direct (snd r))) (op_reacts (fst x))) (c_ops c)
  && forallb (fun n => (1 <=? n)%nat) (c_ncs c)
  && forallb (fun n => (1 <=? n)%nat) (c_nps c)
  && first_is_top (c_ops c)
  && forallb (fun x => match fst x with
                       | OTop _ _ _ _ => negb (existsb top_escapes (snd x))
                       | OStart fs _ _ => forallb frame_origin_ok fs
                       end) (c_ops c)
  && match flat_map (fun x => op_times (fst x)) (c_ops c) with
     | [] => true
     | t :: l => sorted_from t l
     end.

(* ---- the recorded call patterns ----------------------------------------- *)
(* K5: switch() with clear_next, or with clear_current towards the current handle *)
Definition k5_entry (e : entry) : bool :=
  match e with
  | EAct _ (ASwitch h cc cn _) _ ch => cn || (cc && (h =? ch))
  | _ => false
  end.
Definition any_entry (p : entry -> bool) (c : rcase) : bool :=
  existsb (fun x => existsb p (snd x)) (c_ops c).
