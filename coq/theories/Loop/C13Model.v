(* C13 - world switching delivers in/out events to the worlds that run.
   The property as a checker over the observed logs.  Its state is the
   abstract picture the property text uses: which instance every handle
   holds, which instances exist, whether an instance currently *holds* the
   events sent to it (it does from its creation by load() and from the moment
   it is left or targeted through switch(), until the loop enters it) and
   what it holds, in order.  It contains no code path of loop.py: no
   exception, no second handle call, no conditional dispatch.  After each
   scripted request the checker knows exactly which deliveries and loads must
   follow and in which order (b_exp); anything else in the log is a failure.
   No proofs in this file. *)
From Coq Require Import ZArith List Bool Arith.
From Desper Require Import Lib.Alist.
From Desper Require Export Loop.Model.
Import ListNotations.
Open Scope Z_scope.

(* an instance: (delivers at once?, events held so far) *)
Definition inst : Type := world.      (* = bool * list event *)

Record s13 := {
  b_worlds : list (Z * inst);      (* the instances created so far *)
  b_inst : list (Z * Z);           (* handle -> the instance it holds, if any *)
  b_next : Z;                      (* next fresh serial *)
  b_curw : Z;                      (* the instance the loop runs *)
  b_curh : Z;                      (* and its handle *)
  b_inframe : bool;                (* an iteration is in progress and has not been abandoned *)
  b_exp : list entry }.            (* log entries that must come next, in this order *)

Definition b_init : s13 :=
  {| b_worlds := []; b_inst := []; b_next := 1; b_curw := none; b_curh := none;
     b_inframe := false; b_exp := [] |}.

Definition with_exp (l : list entry) (fr : bool) (b : s13) : s13 :=
  {| b_worlds := b_worlds b; b_inst := b_inst b; b_next := b_next b; b_curw := b_curw b;
     b_curh := b_curh b; b_inframe := fr; b_exp := l |}.
Definition with_worlds ws (b : s13) : s13 :=
  {| b_worlds := ws; b_inst := b_inst b; b_next := b_next b; b_curw := b_curw b;
     b_curh := b_curh b; b_inframe := b_inframe b; b_exp := b_exp b |}.
Definition with_inst m (b : s13) : s13 :=
  {| b_worlds := b_worlds b; b_inst := m; b_next := b_next b; b_curw := b_curw b;
     b_curh := b_curh b; b_inframe := b_inframe b; b_exp := b_exp b |}.

(* an event is sent to instance w: delivered at once, or held *)
Definition send (w : Z) (e : event) (b : s13) : s13 * list entry :=
  match alookup w (b_worlds b) with
  | Some (true, _) => (b, [EEv w e])
  | Some (false, q) => (with_worlds (aset w (false, q ++ [e]) (b_worlds b)) b, [])
  | None => (b, [])
  end.

(* from now on instance w holds what is sent to it *)
Definition hold (w : Z) (b : s13) : s13 :=
  match alookup w (b_worlds b) with
  | Some (_, q) => with_worlds (aset w (false, q) (b_worlds b)) b
  | None => b
  end.

(* the instance handle h holds; if it holds none, load() runs now and creates
   a FRESH instance (new serial) that holds its own on_world_load *)
Definition instance_of (h : Z) (b : s13) : s13 * Z * list entry :=
  match alookup h (b_inst b) with
  | Some w => (b, w, [])
  | None =>
      let w := b_next b in
      ({| b_worlds := aset w (false, [VLoad h w]) (b_worlds b);
          b_inst := aset h w (b_inst b);
          b_next := w + 1;
          b_curw := b_curw b; b_curh := b_curh b; b_inframe := b_inframe b;
          b_exp := b_exp b |}, w, [ELoad h w])
  end.

Definition forget (h : Z) (b : s13) : s13 := with_inst (adel h (b_inst b)) b.

(* the loop enters handle h (clear_current / clear_next first drop the
   instances of the handle being left / entered): the instance entered is the
   one the handle holds - a fresh one if it holds none -, it delivers
   everything it holds, in order, and delivers at once from then on.
   Returns also the instance entered and what it held. *)
Definition enter (h : Z) (cc cn : bool) (b : s13) : s13 * list entry * Z * list event :=
  let b1 := if cc && negb (b_curh b =? none) then forget (b_curh b) b else b in
  let b2 := if cn then forget h b1 else b1 in
  let '(b3, e, l3) := instance_of h b2 in
  let held := match alookup e (b_worlds b3) with Some (_, q) => q | None => [] end in
  ({| b_worlds := aset e (true, []) (b_worlds b3);
      b_inst := b_inst b3; b_next := b_next b3;
      b_curw := e; b_curh := h; b_inframe := b_inframe b3; b_exp := b_exp b3 |},
   l3 ++ map (EEv e) held, e, held).

Definition last_is (q : list event) (x : event) : bool :=
  match rev q with
  | y :: _ => if event_eq_dec y x then true else false
  | [] => false
  end.

(* switch(h, cc, cn) requested by running code of the current world [from]:
   - the target instance [to] is the one h holds (loaded now if none);
   - on_switch_out(from, to) is delivered in [from], now;
   - from now on [from] and [to] hold their events; [to] holds on_switch_in(from, to);
   - the loop enters h; the instance it enters must hold on_switch_in(from, to)
     as the LAST of what it holds (so it is delivered there, once, after
     everything that instance had pending). *)
Definition spec_switch (h : Z) (cc cn : bool) (b : s13) : option (s13 * list entry) :=
  let from := b_curw b in
  let '(b1, to, l1) := instance_of h b in
  let b2 := hold to (hold from b1) in
  let '(b3, _) := send to (VIn from to) b2 in
  let '(b4, l4, e, held) := enter h cc cn b3 in
  if last_is held (VIn from to)
  then Some (b4, l1 ++ [EEv from (VOut from to)] ++ l4)
  else None.

Definition step13 (b : s13) (x : entry) : option s13 :=
  match b_exp b with
  | y :: ys => if entry_eqb x y then Some (with_exp ys (b_inframe b) b) else None
  | [] =>
      match x with
      | EClock _ w h =>                 (* the world processed next is the one entered *)
          if (w =? b_curw b) && (h =? b_curh b) then Some (with_exp [] true b) else None
      | EClockEnd _ w h =>
          if (w =? b_curw b) && (h =? b_curh b) then Some (with_exp [] false b) else None
      | EProc w _ _ =>                  (* only the instance entered is processed, and not
                                           after the frame was abandoned *)
          if b_inframe b && (w =? b_curw b) then Some b else None
      | EPoke _ tok w =>
          if b_inframe b then
            let '(b', l) := send w (VPoke tok) b in Some (with_exp l true b')
          else None
      | EAct _ a =>
          if b_inframe b then
            match a with
            | ANormal => None
            | AQuit | AOther => Some (with_exp [] false b)
            | AQuitLoop _ =>
                let '(b', l) := send (b_curw b) VQuit b in Some (with_exp l false b')
            | ASwitch h cc cn _ =>
                match spec_switch h cc cn b with
                | Some (b', l) => Some (with_exp l false b')
                | None => None
                end
            | ARaiseSW h cc cn =>       (* no switch() call: no in/out events *)
                let '(b', l, _, _) := enter h cc cn b in Some (with_exp l false b')
            end
          else None
      | EEnd _ _ _ => if b_inframe b then None else Some b
      | ELoad _ _ | EEv _ _ | ETopDone _ _ => None      (* never unannounced *)
      end
  end.

Fixpoint run13 (b : s13) (l : list entry) : option s13 :=
  match l with
  | [] => Some b
  | x :: l' => match step13 b x with Some b' => run13 b' l' | None => None end
  end.

Definition op13 (b : s13) (o : op) (l : list entry) : option s13 :=
  let r :=
    match o with
    | OTop h cc cn =>
        let '(b', l', e, _) := enter h cc cn b in
        run13 (with_exp (l' ++ [ETopDone e h]) false b') l
    | OStart _ _ => run13 b l
    end in
  match r with
  | Some b' => match b_exp b' with [] => Some b' | _ => None end
  | None => None
  end.

Fixpoint ops13 (b : s13) (ops : list (op * list entry)) : bool :=
  match ops with
  | [] => true
  | (o, l) :: ops' => match op13 b o l with Some b' => ops13 b' ops' | None => false end
  end.

Definition holds13_b (c : lcase) : bool := ops13 b_init (c_ops c).
Definition holds13 (c : lcase) : Prop := holds13_b c = true.

(* ---- known finding K5 ---------------------------------------------------- *)
(* the call pattern: switch() with clear_next, or with clear_current when the
   target is the loop's current handle.  (A bare SwitchWorld is not concerned:
   it announces no events.)  The current handle is tracked along the scripts:
   by wf_b every scripted frame is executed. *)
Definition k5_action (curh : Z) (a : action) : bool :=
  match a with
  | ASwitch h cc cn _ => cn || (cc && (h =? curh))
  | _ => false
  end.

Definition next_handle (curh : Z) (a : action) : Z :=
  match a with
  | ASwitch h _ _ _ | ARaiseSW h _ _ => h
  | _ => curh
  end.

Fixpoint k5_frames (curh : Z) (fs : list frame) : bool * Z :=
  match fs with
  | [] => (false, curh)
  | f :: fs' =>
      let '(k, h') := k5_frames (next_handle curh (f_act f)) fs' in
      (k5_action curh (f_act f) || k, h')
  end.

Fixpoint k5_ops (curh : Z) (ops : list (op * list entry)) : bool :=
  match ops with
  | [] => false
  | (OTop h _ _, _) :: ops' => k5_ops h ops'
  | (OStart fs _, _) :: ops' =>
      let '(k, h') := k5_frames curh fs in k || k5_ops h' ops'
  end.

Definition known13_b (c : lcase) : bool := k5_ops none (c_ops c).

Definition C13_case := lcase.
Definition C13_verdict (c : C13_case) : nat :=
  (bit (wf_b c) 1 + bit (known13_b c) 2 + bit (accepts c) 4 + bit (holds13_b c) 8)%nat.
