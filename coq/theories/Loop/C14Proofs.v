(* C14 - proofs: every log the model of SimpleLoop produces passes the
   checker of C14Model.v, for all scripts, clocks and restarts. *)
From Coq Require Import ZArith List Bool Arith Lia ZifyBool.
From Desper Require Import Lib.Alist Loop.Model Loop.ModelFacts Loop.C14Model.
Import ListNotations.
Open Scope Z_scope.

Ltac triple_inv :=
  let E := fresh "E" in let E1 := fresh "E" in let E2 := fresh "E" in let E3 := fresh "E" in
  intros E; apply pair_equal_spec in E as [E1 E3]; apply pair_equal_spec in E1 as [E1 E2];
  subst.

Section WithNps.
Variable nps : list nat.
Hypothesis Hnps : nps_ok nps.

Lemma run14_app a l1 l2 :
  run14 nps a (l1 ++ l2) =
  match run14 nps a l1 with Some a' => run14 nps a' l2 | None => None end.
Proof.
  revert a. induction l1 as [|e l1 IH]; intros a; cbn [run14 app]; auto.
  destruct (step14 nps a e); auto.
Qed.

Lemma run14_procs n : forall k prev w h dt,
  run14 nps {| a_prev := prev; a_mode := MFrame w h dt k |} (procs w dt k n)
  = Some {| a_prev := prev; a_mode := MFrame w h dt (k + n) |}.
Proof.
  unfold procs. induction n as [|n IH]; intros k prev w h dt; cbn [seq map run14].
  - now rewrite Nat.add_0_r.
  - cbn [step14 a_mode a_prev]. rewrite Z.eqb_refl, Nat.eqb_refl, Z.eqb_refl. cbn [andb].
    rewrite IH. do 3 f_equal. lia.
Qed.

Lemma run14_skip_frame l : forall prev w h dt k,
  forallb is_ev_poke l = true ->
  run14 nps {| a_prev := prev; a_mode := MFrame w h dt k |} l
  = Some {| a_prev := prev; a_mode := MFrame w h dt k |}.
Proof.
  induction l as [|e l IH]; intros prev w h dt k H; cbn [run14]; auto.
  cbn [forallb] in H. apply andb_prop in H as [H1 H2].
  destruct e; try discriminate; cbn [step14 a_mode]; now rewrite IH.
Qed.

Lemma run14_skip_between l : forall prev,
  forallb is_ev_load l = true ->
  run14 nps {| a_prev := prev; a_mode := MBetween |} l
  = Some {| a_prev := prev; a_mode := MBetween |}.
Proof.
  induction l as [|e l IH]; intros prev H; cbn [run14]; auto.
  cbn [forallb] in H. apply andb_prop in H as [H1 H2].
  destruct e; try discriminate; cbn [step14 a_mode]; now rewrite IH.
Qed.

(* an iteration may begin *)
Definition ready (m : m14) : Prop :=
  m = MBetween \/ exists w h dt, m = MFrame w h dt (np_of nps h).

Lemma ready_clock a e :
  ready (a_mode a) -> (match e with EClock _ _ _ | EClockEnd _ _ _ => True | _ => False end) ->
  step14 nps a e = clock14 (a_prev a) e.
Proof.
  intros [R|(w&h&dt&R)] He; unfold step14; rewrite R.
  - destruct e; try contradiction; reflexivity.
  - rewrite Nat.eqb_refl. destruct e; try contradiction; reflexivity.
Qed.

Lemma run_frame_running f s s' l r :
  inv s -> run_frame nps f s = (s', l, r) -> s_running s' = s_running s.
Proof.
  intros Iv. unfold run_frame. cbv zeta.
  destruct (do_pokes (f_pokes f) (set_last (Some (f_t f)) s)) as [s1 lp] eqn:P.
  pose proof (do_pokes_wmono _ _ _ _ P) as M.
  assert (I1 : inv s1) by (eapply wmono_inv; [exact M|exact Iv]).
  destruct M as (_&_&_&_&_&Mr&_). cbn in Mr.
  destruct (f_act f) as [| |q|h cc cn ex|h cc cn|].
  - triple_inv. exact Mr.
  - triple_inv. exact Mr.
  - destruct (dispatch (s_curw s) VQuit s1) as [s2 l2] eqn:D. triple_inv.
    apply dispatch_fields in D. destruct D as (_&_&_&D). congruence.
  - destruct (switch_fn h s1) as [s2 l2] eqn:S2.
    destruct (loop_switch h cc cn s2) as [s3 l3] eqn:S3. triple_inv.
    pose proof (switch_fn_fields _ _ _ _ S2) as (_&_&_&F2).
    pose proof (switch_fn_inv _ _ _ _ S2 I1) as I2.
    destruct (loop_switch_inv _ _ _ _ _ _ S3 I2) as (_&_&_&_&F3). congruence.
  - destruct (loop_switch h cc cn s1) as [s3 l3] eqn:S3. triple_inv.
    destruct (loop_switch_inv _ _ _ _ _ _ S3 I1) as (_&_&_&_&F3). congruence.
  - triple_inv. exact Mr.
Qed.

Lemma frame14 f s s' l r a :
  ready (a_mode a) -> a_prev a = s_last s -> inv s -> cur_ok s ->
  run_frame nps f s = (s', l, r) ->
  exists a', run14 nps a l = Some a' /\ a_prev a' = s_last s' /\
    s_curw s' = s_curw s' /\
    match r with
    | FCont => ready (a_mode a')
    | FQuit => a_mode a' = MEndQuit (s_curw s') (s_curh s') /\ s_running s' = s_running s
    | FOther => a_mode a' = MEndOther
    end.
Proof.
  intros Rd Hp I C. unfold run_frame. cbv zeta.
  destruct (do_pokes (f_pokes f) (set_last (Some (f_t f)) s)) as [s1 lp] eqn:P.
  pose proof (do_pokes_wmono _ _ _ _ P) as M.
  pose proof (do_pokes_log _ _ _ _ P) as Lp.
  assert (C1 : cur_ok s1) by (eapply wmono_cur_ok; [exact M|exact C]).
  destruct M as (_&_&Mw&Mh&Ml&Mr&_). cbn in Mw, Mh, Ml, Mr.
  set (dt := match s_last s with None => 0 | Some l0 => f_t f - l0 end).
  set (np := np_of nps (s_curh s)).
  set (pos := eff_pos (f_org f) (f_pos f) np).
  assert (Hnp : (1 <= np)%nat) by (apply np_of_pos; exact Hnps).
  assert (Hpos : (S pos <= np)%nat) by (apply eff_pos_lt; exact Hnp).
  (* the part common to all scripts: clock, processors 0..pos, pokes *)
  assert (Head : forall rest,
    run14 nps a ((EClock (f_t f) (s_curw s) (s_curh s) :: procs (s_curw s) dt 0 (S pos)) ++ lp ++ rest)
    = run14 nps {| a_prev := Some (f_t f);
                   a_mode := MFrame (s_curw s) (s_curh s) dt (S pos) |} rest).
  { intros rest. cbn [app run14]. rewrite (ready_clock a (EClock (f_t f) (s_curw s) (s_curh s)) Rd Logic.I).
    cbn [clock14]. rewrite Hp. fold dt.
    rewrite run14_app, run14_procs. cbn [Nat.add].
    rewrite run14_app, (run14_skip_frame lp _ _ _ _ _ Lp). reflexivity. }
  destruct (f_act f) as [| |q|h cc cn ex|h cc cn|].
  - (* normal *)
    triple_inv. rewrite Head. rewrite run14_procs.
    eexists. split; [reflexivity|]. cbn. split; [congruence|]. split; [reflexivity|].
    right. exists (s_curw s), (s_curh s), dt. f_equal. fold np. lia.
  - triple_inv. rewrite Head. cbn.
    eexists. split; [reflexivity|]. cbn. rewrite Mw, Mh. repeat split; congruence.
  - destruct C1 as [q1 C1]. rewrite Mw in C1. rewrite (dispatch_enabled _ _ _ _ C1).
    triple_inv. rewrite Head. cbn. rewrite Z.eqb_refl.
    eexists. split; [reflexivity|]. cbn. rewrite Mh. repeat split; congruence.
  - destruct (switch_fn h s1) as [s2 l2] eqn:S2.
    destruct (loop_switch h cc cn s2) as [s3 l3] eqn:S3. triple_inv.
    rewrite Head. cbn [run14 step14 a_mode a_prev Nat.ltb Nat.leb].
    pose proof (switch_fn_log _ _ _ _ S2) as L2. pose proof (loop_switch_log _ _ _ _ _ _ S3) as L3.
    rewrite (run14_skip_between (l2 ++ l3)) by (apply forallb_app'; auto).
    eexists. split; [reflexivity|]. cbn.
    pose proof (switch_fn_fields _ _ _ _ S2) as (_&_&F2&_).
    assert (I2 : inv s2).
    { eapply switch_fn_inv; [exact S2|]. eapply wmono_inv; [eapply do_pokes_wmono; exact P|exact I]. }
    destruct (loop_switch_inv _ _ _ _ _ _ S3 I2) as (_&_&_&F3&_).
    split; [congruence|]. split; [reflexivity|]. now left.
  - destruct (loop_switch h cc cn s1) as [s3 l3] eqn:S3. triple_inv.
    rewrite Head. cbn [run14 step14 a_mode a_prev Nat.ltb Nat.leb].
    pose proof (loop_switch_log _ _ _ _ _ _ S3) as L3.
    rewrite (run14_skip_between l3) by auto.
    eexists. split; [reflexivity|]. cbn.
    assert (I1 : inv s1).
    { eapply wmono_inv; [eapply do_pokes_wmono; exact P|exact I]. }
    destruct (loop_switch_inv _ _ _ _ _ _ S3 I1) as (_&_&_&F3&_).
    split; [congruence|]. split; [reflexivity|]. now left.
  - triple_inv. rewrite Head. cbn.
    eexists. split; [reflexivity|]. cbn. repeat split; congruence.
Qed.

Lemma frames14 ek fs : forall s s' l r a,
  ready (a_mode a) -> a_prev a = s_last s -> inv s -> cur_ok s ->
  run_frames nps fs ek s = (s', l, r) ->
  inv s' /\ cur_ok s' /\
  exists a', run14 nps a l = Some a' /\
    match r with
    | FCont => False
    | FQuit => a_mode a' = MEndQuit (s_curw s') (s_curh s') /\ s_running s' = s_running s
    | FOther => a_mode a' = MEndOther
    end.
Proof.
  induction fs as [|f fs IH]; intros s s' l r a Rd Hp I C; cbn [run_frames].
  - intros [= <- <- <-]. split; auto. split; auto. cbn [run14].
    rewrite (ready_clock a (EClockEnd ek (s_curw s) (s_curh s)) Rd Logic.I). destruct ek; cbn; eexists; (split; [reflexivity|]); cbn; auto.
  - destruct (run_frame nps f s) as [[s1 l1] r1] eqn:F.
    destruct (frame14 _ _ _ _ _ _ Rd Hp I C F) as (a1&R1&P1&_&M1).
    destruct (run_frame_inv _ _ _ _ _ _ F I C) as [I1 C1].
    destruct r1.
    + destruct (run_frames nps fs ek s1) as [[s2 l2] r2] eqn:FS. intros [= <- <- <-].
      destruct (IH _ _ _ _ _ M1 P1 I1 C1 FS) as (I2&C2&a2&R2&M2).
      split; auto. split; auto. exists a2. rewrite run14_app, R1. split; auto.
      destruct r2; auto. destruct M2 as [M2 M3]. split; auto.
      rewrite M3. eapply run_frame_running; eauto.
    + intros [= <- <- <-]. split; auto. split; auto. exists a1. split; auto.
    + intros [= <- <- <-]. split; auto. split; auto. exists a1. split; auto.
Qed.

(* one start(): its log passes the checker, whatever the state before *)
Lemma start14_ok fs ek s s' l :
  s_last s = None -> inv s -> cur_ok s ->
  run_start nps fs ek s = (s', l) ->
  start14 nps l = true /\ s_last s' = None /\ inv s' /\ cur_ok s'.
Proof.
  intros HL I C. unfold run_start.
  destruct (run_frames nps fs ek (set_running true s)) as [[s1 l1] r] eqn:FS.
  intros [= <- <-].
  assert (Rd : ready (a_mode {| a_prev := None; a_mode := MBetween |})) by now left.
  destruct (frames14 ek fs (set_running true s) _ _ _ _ Rd (eq_sym HL) I C FS) as (I1&C1&a1&R1&M1).
  split; [|split; [reflexivity|]].
  - unfold start14. rewrite run14_app, R1. cbn [run14].
    destruct r; [contradiction| |].
    + destruct M1 as [M1 _]. unfold step14. rewrite M1. cbn. rewrite !Z.eqb_refl. reflexivity.
    + unfold step14. rewrite M1. cbn. reflexivity.
  - destruct r; auto.
Qed.

End WithNps.

(* ---- all operations of a case -------------------------------------------- *)
Lemma ops14 nps (Hnps : nps_ok nps) ops : forall s,
  s_last s = None -> inv s -> cur_ok s ->
  run_ops nps ops s = true ->
  forallb (fun x => match fst x with OTop _ _ _ => true | OStart _ _ => start14 nps (snd x) end)
          ops = true.
Proof.
  induction ops as [|[o obs] ops IH]; intros s HL I C; cbn [run_ops forallb]; auto.
  destruct (run_op nps o s) as [s1 l] eqn:R. intros H. apply andb_prop in H as [H1 H2].
  apply log_eqb_eq in H1. subst obs. cbn [fst snd].
  destruct o as [h cc cn|fs ek]; cbn [run_op] in R.
  - destruct (loop_switch h cc cn s) as [s2 l2] eqn:S. injection R as <- <-.
    destruct (loop_switch_inv _ _ _ _ _ _ S I) as (I2&C2&_&L2&_).
    cbn [andb]. apply (IH s2); auto. congruence.
  - destruct (start14_ok nps Hnps _ _ _ _ _ HL I C R) as (A&B&I1&C1).
    rewrite A. cbn [andb]. apply (IH s1); auto.
Qed.

Lemma inv_init : inv init.
Proof. split; intros x W; cbn; discriminate. Qed.

Theorem accepts_holds14 (c : lcase) :
  wf_b c = true -> accepts c = true -> holds14 c.
Proof.
  unfold wf_b, accepts, holds14, holds14_b. intros W A.
  apply andb_prop in W as [W _]. apply andb_prop in W as [W _]. apply andb_prop in W as [Wn Wt].
  destruct (c_ops c) as [|[o obs] ops] eqn:E; [reflexivity|].
  destruct o as [h cc cn|]; [|discriminate].
  cbn [forallb fst andb]. cbn [run_ops run_op] in A.
  destruct (loop_switch h cc cn init) as [s2 l2] eqn:S.
  apply andb_prop in A as [_ A].
  destruct (loop_switch_inv _ _ _ _ _ _ S inv_init) as (I2&C2&_&L2&_).
  apply (ops14 (c_nps c) Wn ops s2); auto.
Qed.


(* ---- reading of the checker on raw logs: the deltas telescope ------------- *)
(* the delta given to processor 0 in every iteration, the readings taken *)
Definition d0 (e : entry) : Z := match e with EProc _ O d => d | _ => 0 end.
Fixpoint sum_dt0 (l : list entry) : Z :=
  match l with [] => 0 | e :: l' => d0 e + sum_dt0 l' end.
Fixpoint readings (l : list entry) : list Z :=
  match l with
  | [] => []
  | EClock t _ _ :: l' => t :: readings l'
  | _ :: l' => readings l'
  end.

Definition prevval (a : s14) : Z := match a_prev a with Some p => p | None => 0 end.
Definition pend (a : s14) : Z := match a_mode a with MFrame _ _ dt O => dt | _ => 0 end.
Definition phi (a : s14) : Z := prevval a - pend a.

Lemma step14_phi nps a e a' :
  nps_ok nps -> step14 nps a e = Some a' ->
  a_prev a' = match e with EClock t _ _ => Some t | _ => a_prev a end /\
  match e with
  | EClock t _ _ => pend a = 0 /\ phi a' = match a_prev a with Some p => p | None => t end
  | _ => phi a' = phi a + d0 e
  end.
Proof.
  intros Hn. unfold step14, phi, prevval, pend.
  destruct (a_mode a) as [|w h dt k|w h|w h| |] eqn:M.
  - destruct e as [t w h|k w h| | | | | | |]; cbn; try discriminate;
      try (intros [= <-]; cbn; rewrite ?M; split; auto; lia).
    + intros [= <-]. cbn. destruct (a_prev a); split; auto; split; lia.
    + destruct k; intros [= <-]; cbn; split; auto; lia.
  - assert (K : forall x : option s14, (if Nat.eqb k (np_of nps h) then x else None) = Some a' ->
                x = Some a' /\ exists k', k = S k').
    { intros x. destruct (Nat.eqb k (np_of nps h)) eqn:K; [|discriminate].
      apply Nat.eqb_eq in K. pose proof (np_of_pos nps h Hn). intros ->. split; auto.
      destruct k; [lia|eauto]. }
    destruct e as [t w0 h0|k0 w0 h0|w0 p d| | | | | |]; cbn.
    + intros H. apply K in H as [H [k' ->]]. injection H as <-. cbn.
      destruct (a_prev a); split; auto; split; lia.
    + intros H. apply K in H as [H [k' ->]]. destruct k0; injection H as <-; cbn; split; auto; lia.
    + destruct ((w0 =? w) && Nat.eqb p k && (d =? dt)) eqn:Q; [|discriminate].
      apply andb_prop in Q as [Q Q3]. apply andb_prop in Q as [Q1 Q2].
      apply Nat.eqb_eq in Q2. subst k. intros [= <-]. cbn. split; auto.
      destruct p; cbn; lia.
    + intros [= <-]. rewrite M. split; auto. cbn. lia.
    + destruct k; [discriminate|].
      destruct a0; try discriminate; intros [= <-]; cbn; split; auto; lia.
    + intros H. apply K in H as [H _]. discriminate.
    + intros [= <-]. rewrite M. split; auto. cbn. lia.
    + intros H. apply K in H as [H _]. discriminate.
    + intros H. apply K in H as [H _]. discriminate.
  - destruct e as [| | | | | |w0 e| |]; try discriminate. destruct e; try discriminate.
    destruct (w0 =? w); [|discriminate]. intros [= <-]. cbn. split; auto. lia.
  - destruct e as [| | | | | | |out w0 h0|]; try discriminate.
    destruct out as [[|]| |]; try discriminate.
    destruct ((w0 =? w) && (h0 =? h)); [|discriminate]. intros [= <-]. cbn. split; auto. lia.
  - destruct e as [| | | | | | |out w0 h0|]; try discriminate.
    destruct out; try discriminate. intros [= <-]. cbn. split; auto. lia.
  - discriminate.
Qed.

Definition base (a : s14) (l : list entry) : Z :=
  match a_prev a with
  | Some _ => 0
  | None => match readings l with t :: _ => t | [] => 0 end
  end.

Lemma run14_phi nps (Hn : nps_ok nps) l : forall a a',
  run14 nps a l = Some a' ->
  phi a' = phi a + sum_dt0 l + base a l /\
  a_prev a' = match rev (readings l) with t :: _ => Some t | [] => a_prev a end.
Proof.
  induction l as [|e l IH]; intros a a'; cbn [run14].
  - intros [= <-]. unfold base. cbn. destruct (a_prev a); split; auto; lia.
  - destruct (step14 nps a e) as [a1|] eqn:S; [|discriminate]. intros R.
    destruct (IH _ _ R) as [IH1 IH2]. destruct (step14_phi _ _ _ _ Hn S) as [P1 P2].
    cbn [sum_dt0]. unfold base in *.
    assert (Rd : forall t w h, e = EClock t w h ->
              a_prev a' = match rev (readings l) ++ [t] with t' :: _ => Some t' | [] => a_prev a end).
    { intros t w h ->. rewrite IH2, P1. destruct (rev (readings l)); reflexivity. }
    destruct e as [t w h| | | | | | | |]; cbn [readings rev d0] in *;
      try (rewrite P1 in *; split; [lia|exact IH2]).
    destruct P2 as [P2 P3]. rewrite P1 in IH1. split; [|eapply Rd; eauto].
    unfold phi in *. unfold prevval in *. destruct (a_prev a); lia.
Qed.

Lemma start14_telescopes nps l :
  nps_ok nps -> start14 nps l = true ->
  sum_dt0 l = match readings l with [] => 0 | t0 :: rs => last rs t0 - t0 end.
Proof.
  intros Hn. unfold start14.
  destruct (run14 nps {| a_prev := None; a_mode := MBetween |} l) as [a'|] eqn:R; [|discriminate].
  destruct (a_mode a') eqn:M; try discriminate. intros _.
  destruct (run14_phi nps Hn l _ _ R) as [P1 P2].
  unfold phi, prevval, pend, base in P1. rewrite M in P1. cbn in P1, P2.
  destruct (readings l) as [|t0 rs] eqn:E.
  - cbn in P2. rewrite P2 in P1. lia.
  - assert (L : a_prev a' = Some (last rs t0)).
    { rewrite P2. clear. destruct rs as [|x rs] using rev_ind; [reflexivity|].
      cbn [rev]. rewrite rev_app_distr. cbn [rev app]. now rewrite last_last. }
    rewrite L in P1. lia.
Qed.
