(* C13 - world switching delivers in/out events to the worlds that run:
   the property as a checker over the observed logs, second generation
   (callbacks that act).

   The checker's state is the abstract picture of RBus.v (which instance
   every handle holds, whether an instance delivers at once or holds the
   events sent to it, and what it holds) and it uses the event bus of RBus.v
   (deliver / hold / release in order, a raising callback stops a release and
   what was not delivered stays held) as given: that is C04's subject.  What
   it states is the PROTOCOL the property demands of loop.py, written without
   any code path of loop.py:
   - switch(h, ...) requested by running code of the current world [from]:
     the target instance is the one h holds (loaded now if none);
     on_switch_out(from, to) is delivered in [from], at once, unconditionally;
     then [from] and [to] hold their events and [to] holds on_switch_in;
   - a switch request (switch() or a bare SwitchWorld) that reaches the loop
     abandons the frame; the loop enters the handle: clear flags first drop
     instances, the instance entered is the one the handle holds (a fresh one
     if none), it must hold on_switch_in(from, to) as the LAST of what it holds
     when the request came through switch(), it releases everything it holds
     in order and delivers at once from then on;
   - a switch request must be honoured, also one made by a callback of the
     world being entered: the loop goes on entering the new target (the world
     abandoned half-way keeps what it had not delivered yet).
   After each scripted action the checker knows which entries must follow
   (b_exp); anything else is a failure.  No proofs in this file. *)
From Coq Require Import ZArith List Bool Arith.
From Desper Require Import Lib.Alist.
From Desper Require Export Loop.RModel.
Import ListNotations.
Open Scope Z_scope.

Definition last_is (q : list event) (x : event) : bool :=
  match rev q with
  | y :: _ => if event_eq_dec y x then true else false
  | [] => false
  end.

(* instance w holds one more event *)
Definition push (w : Z) (e : event) (s : state) : state :=
  match alookup w (s_worlds s) with
  | Some (en, q) => set_worlds (aset w (en, q ++ [e]) (s_worlds s)) s
  | None => s
  end.

Section Spec.
  Variable react : ekind -> action -> M.

  Definition a_switch (h : Z) (cc cn : bool) : M := fun s =>
    let from := s_curw s in
    let '(s1, to, l1) := handle_call h s in
    (emit l1 ;;
     deliver react from (VOut from to) ;;
     upd (disable from) ;; upd (disable to) ;;
     upd (push to (VIn from to)) ;;
     raise (XSW h cc cn (Some (from, to)))) s1.

  (* quit_loop: on_quit is delivered in the current world, then Quit *)
  Definition a_quit : M := fun s => (deliver react (s_curw s) VQuit ;; raise XQuit) s.

  Definition a_body (a : action) : M :=
    match a with
    | ANormal => ret
    | AQuit => raise XQuit
    | AQuitLoop _ => a_quit
    | ASwitch h cc cn _ => a_switch h cc cn
    | ARaiseSW h cc cn => raise (XSW h cc cn None)
    | AOther => raise XOther
    | ADirect _ _ _ => ret      (* only a scripted frame action: see act13 *)
    end.

  Definition a_perform (o : origin) (a : action) : M := fun s =>
    (emit [EAct o a (s_curw s) (s_curh s)] ;; a_body a) s.

  (* the loop enters handle h *)
  Definition a_enter (h : Z) (cc cn : bool) (tag : option (Z * Z)) : M := fun s =>
    let s2 := clears h cc cn (set_inh true s) in
    let '(s3, e, l3) := handle_call h s2 in
    let held := match alookup e (s_worlds s3) with Some (_, q) => q | None => [] end in
    let ok := match tag with Some (f, t) => last_is held (VIn f t) | None => true end in
    if ok then (emit l3 ;; upd (set_cur e h) ;; enable react e ;; upd (set_inh false)) s3
    else None.

  (* the loop honours a switch request, and every further request made while
     it enters the target; n bounds the number of rounds *)
  Fixpoint a_handler (n : nat) (h : Z) (cc cn : bool) (tag : option (Z * Z)) : M := fun s =>
    match n with
    | O => None
    | S n' =>
        match a_enter h cc cn tag s with
        | None => None
        | Some (s1, l1, RExn (XSW h2 cc2 cn2 tag2)) =>
            match a_handler n' h2 cc2 cn2 tag2 s1 with
            | None => None
            | Some (s2, l2, r2) => Some (s2, l1 ++ l2, r2)
            end
        | Some (s1, l1, r1) => Some (s1, l1, r1)
        end
    end.
End Spec.

Fixpoint a_react_n (n : nat) : ekind -> action -> M :=
  match n with
  | O => fun _ _ _ => None
  | S n' => fun k a s => a_perform (a_react_n n') (OCallback k (s_inh s)) a s
  end.

Record s13 := {
  b_st : state;
  b_fuel : nat;                    (* bound on the nesting of reactions in this operation *)
  b_inframe : bool;                (* an iteration is in progress and has not been abandoned *)
  b_fw : Z;                        (* the world whose processors this iteration runs *)
  b_exp : list entry }.            (* log entries that must come next, in this order *)

Definition with_exp (l : list entry) (fr : bool) (b : s13) : s13 :=
  {| b_st := b_st b; b_fuel := b_fuel b; b_inframe := fr; b_fw := b_fw b; b_exp := l |}.
Definition with_st (s : state) (l : list entry) (fr : bool) (b : s13) : s13 :=
  {| b_st := s; b_fuel := b_fuel b; b_inframe := fr; b_fw := b_fw b; b_exp := l |}.

(* a scripted action a, performed in an iteration of the current world.  A
   direct the_loop.switch(h, cc, cn) makes the loop enter h at once (no
   on_switch_in / out, the world left keeps delivering); if nothing is raised
   the frame goes on with the processors of the world it began with, and the
   next iteration processes the world entered *)
Definition act13 (b : s13) (a : action) : option s13 :=
  match (match a with
         | ADirect h cc cn => a_enter (a_react_n (b_fuel b)) h cc cn None (b_st b)
         | _ => a_body (a_react_n (b_fuel b)) a (b_st b)
         end) with
  | None => None
  | Some (s1, l1, RNorm) =>
      match a with ADirect _ _ _ => Some (with_st s1 l1 true b) | _ => None end
  | Some (s1, l1, RExn (XSW h cc cn tag)) =>          (* the request reaches the loop *)
      match a_handler (a_react_n (b_fuel b)) (b_fuel b) h cc cn tag s1 with
      | Some (s2, l2, _) => Some (with_st s2 (l1 ++ l2) false b)
      | None => None
      end
  | Some (s1, l1, RExn _) => Some (with_st s1 l1 false b)
  end.

(* an event poked at instance w (no reaction to a poke) *)
Definition poke13 (w tok : Z) (s : state) : state * list entry :=
  match alookup w (s_worlds s) with
  | Some (true, _) => (s, [EEv w (VPoke tok)])
  | Some (false, q) => (set_worlds (aset w (false, q ++ [VPoke tok]) (s_worlds s)) s, [])
  | None => (s, [])
  end.

Definition step13 (b : s13) (x : entry) : option s13 :=
  match b_exp b with
  | y :: ys => if entry_eqb x y then Some (with_exp ys (b_inframe b) b) else None
  | [] =>
      let s := b_st b in
      match x with
      | EClock _ w h =>                 (* the world processed next is the one entered *)
          if (w =? s_curw s) && (h =? s_curh s)
          then Some {| b_st := set_inh false s; b_fuel := b_fuel b; b_inframe := true;
                       b_fw := w; b_exp := [] |}
          else None
      | EClockEnd _ w h =>
          if (w =? s_curw s) && (h =? s_curh s) then Some (with_exp [] false b) else None
      | EProc w _ _ | ECoro w _ => if b_inframe b && (w =? b_fw b) then Some b else None
      | EPoke _ tok w =>
          if b_inframe b then let '(s', l) := poke13 w tok s in Some (with_st s' l true b)
          else None
      | EAct o a w h =>
          if b_inframe b && negb (is_callback o) && (w =? s_curw s) && (h =? s_curh s)
          then act13 b a else None
      | EEnd _ _ _ => if b_inframe b then None else Some b
      | ELoad _ _ | EEv _ _ | ETopDone _ _ | ETopExc _ _ _ => None      (* never unannounced *)
      end
  end.

Fixpoint run13 (b : s13) (l : list entry) : option s13 :=
  match l with
  | [] => Some b
  | x :: l' => match step13 b x with Some b' => run13 b' l' | None => None end
  end.

Definition top_entry (r : res) (w h : Z) : entry :=
  match r with
  | RNorm => ETopDone w h
  | RExn XQuit => ETopExc TQuit w h
  | RExn XOther => ETopExc TOther w h
  | RExn (XSW _ _ _ _) => ETopExc TSwitch w h
  end.

Definition op13 (s : state) (o : op) (l : list entry) : option state :=
  let r :=
    match o with
    | OTop h cc cn rs =>
        let n := S (length rs) in
        match a_enter (a_react_n n) h cc cn None (set_reacts rs s) with
        | Some (s1, l1, r1) =>
            run13 {| b_st := set_inh false s1; b_fuel := n; b_inframe := false; b_fw := none;
                     b_exp := l1 ++ [top_entry r1 (s_curw s1) (s_curh s1)] |} l
        | None => None
        end
    | OStart _ _ rs =>
        run13 {| b_st := set_reacts rs s; b_fuel := S (length rs); b_inframe := false;
                 b_fw := none; b_exp := [] |} l
    end in
  match r with
  | Some b' => match b_exp b' with [] => Some (b_st b') | _ => None end
  | None => None
  end.

Fixpoint ops13 (s : state) (ops : list (op * list entry)) : bool :=
  match ops with
  | [] => true
  | (o, l) :: ops' => match op13 s o l with Some s' => ops13 s' ops' | None => false end
  end.

Definition holds13_b (c : rcase) : bool := ops13 init (c_ops c).
Definition holds13 (c : rcase) : Prop := holds13_b c = true.

(* known finding K5 *)
Definition known13_b (c : rcase) : bool := any_entry k5_entry c.

Definition C13_case := rcase.
Definition C13_verdict (c : C13_case) : nat :=
  (bit (wf_b c) 1 + bit (known13_b c) 2 + bit (accepts c) 4 + bit (holds13_b c) 8)%nat.
