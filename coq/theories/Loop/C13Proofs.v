(* C13 - proofs: outside the call pattern of known finding K5, every log the
   model of loop.py produces passes the checker of C13Model.v. *)
From Coq Require Import ZArith List Bool Arith Lia ZifyBool.
From Desper Require Import Lib.Alist Loop.Model Loop.ModelFacts Loop.C13Model.
Import ListNotations.
Open Scope Z_scope.

Ltac triple_inv :=
  let E := fresh "E" in let E1 := fresh "E" in let E2 := fresh "E" in let E3 := fresh "E" in
  intros E; apply pair_equal_spec in E as [E1 E3]; apply pair_equal_spec in E1 as [E1 E2];
  match type of E1 with _ = ?x => subst x end;
  match type of E2 with _ = ?x => subst x end;
  match type of E3 with _ = ?x => subst x end.

(* the checker's picture of a model state *)
Definition proj (s : state) (fr : bool) (ex : list entry) : s13 :=
  {| b_worlds := s_worlds s; b_inst := s_cache s; b_next := s_next s;
     b_curw := s_curw s; b_curh := s_curh s; b_inframe := fr; b_exp := ex |}.

Lemma send_proj w e s s' l fr ex :
  dispatch w e s = (s', l) -> send w e (proj s fr ex) = (proj s' fr ex, l).
Proof.
  unfold dispatch, send. cbn [proj b_worlds]. unfold inst.
  destruct (alookup w (s_worlds s)) as [[[|] q]|]; cbn [w_en w_q fst snd];
    intros [= <- <-]; reflexivity.
Qed.

Lemma hold_proj w s fr ex : hold w (proj s fr ex) = proj (disable w s) fr ex.
Proof.
  unfold hold, disable. cbn [proj b_worlds]. unfold inst.
  destruct (alookup w (s_worlds s)) as [[en q]|]; reflexivity.
Qed.

Lemma instance_proj h s s' w l fr ex :
  handle_call h s = (s', w, l) -> instance_of h (proj s fr ex) = (proj s' fr ex, w, l).
Proof.
  unfold handle_call, instance_of. cbn [proj b_inst].
  destruct (alookup h (s_cache s)); intros [= <- <- <-]; reflexivity.
Qed.

Lemma release_map w q : release w q = map (EEv w) q.
Proof. induction q as [|e q IH]; cbn; congruence. Qed.

(* Loop.switch's two clears *)
Definition clears (h : Z) (cc cn : bool) (s : state) : state :=
  let s1 := if cc then (if s_curh s =? none then s else handle_clear (s_curh s) s) else s in
  if cn then handle_clear h s1 else s1.

Lemma clears_inv h cc cn s : inv s -> inv (clears h cc cn s).
Proof.
  intros I. unfold clears. destruct cn, cc; try destruct (s_curh s =? none);
    auto using handle_clear_inv.
Qed.

Lemma clears_worlds h cc cn s : s_worlds (clears h cc cn s) = s_worlds s.
Proof. unfold clears. destruct cn, cc; try destruct (s_curh s =? none); reflexivity. Qed.

Lemma enter_proj h cc cn s s' l fr ex :
  inv s -> loop_switch h cc cn s = (s', l) ->
  exists s3 e l3 en held,
    handle_call h (clears h cc cn s) = (s3, e, l3) /\
    alookup e (s_worlds s3) = Some (en, held) /\
    enter h cc cn (proj s fr ex) = (proj s' fr ex, l, e, held) /\
    s_curw s' = e /\ s_curh s' = h.
Proof.
  intros I. unfold loop_switch. fold (clears h cc cn s).
  destruct (handle_call h (clears h cc cn s)) as [[s3 w] l3] eqn:H3.
  destruct (handle_call_inv _ _ _ _ _ H3 (clears_inv h cc cn s I)) as (I3&C3&[[en held] HW3]).
  rewrite (handle_call_cached h (set_cur w h s3) w C3).
  unfold enable. cbn [set_cur s_worlds]. rewrite HW3. cbn [w_q snd].
  intros [= <- <-]. exists s3, w, l3, en, held. repeat split; auto.
  unfold enter.
  assert (P : (if cn then forget h (if cc && negb (b_curh (proj s fr ex) =? none)
                                    then forget (b_curh (proj s fr ex)) (proj s fr ex)
                                    else proj s fr ex)
               else (if cc && negb (b_curh (proj s fr ex) =? none)
                     then forget (b_curh (proj s fr ex)) (proj s fr ex) else proj s fr ex))
              = proj (clears h cc cn s) fr ex).
  { unfold clears. cbn [proj b_curh]. destruct cn, cc; cbn [andb];
      destruct (s_curh s =? none); reflexivity. }
  rewrite P. rewrite (instance_proj _ _ _ _ _ fr ex H3).
  cbn [proj b_worlds]. unfold inst. rewrite HW3. rewrite release_map. cbn [app]. reflexivity.
Qed.

(* ---- consuming announced entries ----------------------------------------- *)
Lemma run13_expect l : forall s fr rest,
  run13 (proj s fr l) (l ++ rest) = run13 (proj s fr []) rest.
Proof.
  induction l as [|x l IH]; intros s fr rest; [reflexivity|].
  cbn [app run13]. unfold step13. cbn [proj b_exp]. rewrite entry_eqb_refl. apply IH.
Qed.

Lemma run13_procs n : forall a s dt rest,
  run13 (proj s true []) (procs (s_curw s) dt a n ++ rest) = run13 (proj s true []) rest.
Proof.
  unfold procs. induction n as [|n IH]; intros a s dt rest; [reflexivity|].
  cbn [seq map app run13]. unfold step13 at 1. cbn [proj b_exp b_inframe b_curw].
  rewrite Z.eqb_refl. cbn [andb]. apply IH.
Qed.

Lemma pokes13 ps : forall s s1 lp rest,
  do_pokes ps s = (s1, lp) ->
  run13 (proj s true []) (lp ++ rest) = run13 (proj s1 true []) rest.
Proof.
  induction ps as [|[k tok] ps IH]; intros s s1 lp rest; cbn [do_pokes].
  - intros [= <- <-]. reflexivity.
  - destruct (alookup k (s_cache s)) as [w|]; [|apply IH].
    destruct (dispatch w (VPoke tok) s) as [s2 l2] eqn:D.
    destruct (do_pokes ps s2) as [s3 l3] eqn:P. intros [= <- <-].
    cbn [app run13]. unfold step13 at 1. cbn [proj b_exp b_inframe].
    rewrite (send_proj _ _ _ _ _ true [] D).
    change (with_exp l2 true (proj s2 true [])) with (proj s2 true l2).
    rewrite <- app_assoc. rewrite run13_expect. eapply IH; eauto.
Qed.

(* ---- switch() followed by the loop's switch, outside K5 ------------------ *)
Lemma last_is_snoc q x : last_is (q ++ [x]) x = true.
Proof.
  unfold last_is. rewrite rev_app_distr. cbn [rev app].
  destruct (event_eq_dec x x); [reflexivity|contradiction].
Qed.

Lemma disable_lookup w s x :
  alookup x (s_worlds (disable w s)) =
  match alookup x (s_worlds s) with
  | Some W => if x =? w then Some (false, w_q W) else Some W
  | None => None
  end.
Proof.
  unfold disable. destruct (alookup w (s_worlds s)) as [W|] eqn:H.
  - cbn [set_worlds s_worlds]. rewrite alookup_aset. destruct (x =? w) eqn:E.
    + apply Z.eqb_eq in E. subst. now rewrite H.
    + destruct (alookup x (s_worlds s)); reflexivity.
  - destruct (alookup x (s_worlds s)) eqn:Hx; auto. destruct (x =? w) eqn:E; auto.
    apply Z.eqb_eq in E. subst. congruence.
Qed.

Lemma switch_proj h cc cn s s2 l2 s3 l3 fr ex :
  inv s -> cur_ok s -> cn || (cc && (h =? s_curh s)) = false ->
  switch_fn h s = (s2, l2) -> loop_switch h cc cn s2 = (s3, l3) ->
  spec_switch h cc cn (proj s fr ex) = Some (proj s3 fr ex, l2 ++ l3).
Proof.
  intros I [qc C] K. unfold switch_fn.
  destruct (handle_call h s) as [[s1 to] l1] eqn:H1.
  destruct (handle_call_inv _ _ _ _ _ H1 I) as (I1&C1&[Wto Hto]).
  pose proof (handle_call_keeps _ _ _ _ _ _ _ H1 I C) as Cf.
  pose proof (handle_call_fields _ _ _ _ _ H1) as (Fw&Fh&_&_).
  rewrite (dispatch_enabled _ _ _ _ Cf).
  set (from := s_curw s) in *.
  set (s4 := disable to (disable from s1)).
  assert (I4 : inv s4) by (unfold s4; auto using disable_inv).
  assert (L4 : exists q, alookup to (s_worlds s4) = Some (false, q)).
  { unfold s4. rewrite disable_lookup, disable_lookup, Hto.
    destruct (to =? from); rewrite Z.eqb_refl; eauto. }
  destruct L4 as [q4 L4].
  assert (D5 : dispatch to (VIn from to) s4
               = (set_worlds (aset to (false, q4 ++ [VIn from to]) (s_worlds s4)) s4, [])).
  { unfold dispatch. rewrite L4. reflexivity. }
  rewrite D5. set (s5 := set_worlds _ s4) in *.
  intros [= <- <-] LS.
  assert (I5 : inv s5).
  { eapply wmono_inv; [|exact I4]. eapply dispatch_wmono. exact D5. }
  destruct (enter_proj h cc cn s5 s3 l3 fr ex I5 LS) as (s6&e&l6&en&held&H6&W6&E6&_&_).
  (* outside K5 the handle still holds [to] when the loop asks for it *)
  assert (C5 : alookup h (s_cache (clears h cc cn s5)) = Some to).
  { apply orb_false_elim in K as [K1 K2]. subst cn. unfold clears.
    assert (C5' : alookup h (s_cache s5) = Some to).
    { unfold s5, s4. cbn [set_worlds s_cache].
      pose proof (disable_fields to (disable from s1)) as (_&_&_&_&A&_).
      pose proof (disable_fields from s1) as (_&_&_&_&B&_). congruence. }
    assert (H5 : s_curh s5 = s_curh s).
    { unfold s5, s4. cbn [set_worlds s_curh].
      pose proof (disable_fields to (disable from s1)) as (_&A&_).
      pose proof (disable_fields from s1) as (_&B&_). congruence. }
    destruct cc; auto. destruct (s_curh s5 =? none); auto.
    unfold handle_clear. cbn [set_cache s_cache]. rewrite alookup_adel.
    rewrite H5. cbn [andb] in K2. rewrite K2. exact C5'. }
  rewrite (handle_call_cached _ _ _ C5) in H6. injection H6 as <- <- <-.
  rewrite clears_worlds in W6. unfold s5 in W6. cbn [set_worlds s_worlds] in W6.
  rewrite alookup_aset_eq in W6. injection W6 as <- <-.
  unfold spec_switch. cbn [proj b_curw].
  rewrite (instance_proj _ _ _ _ _ fr ex H1). fold from.
  rewrite !hold_proj. fold s4.
  rewrite (send_proj _ _ _ _ _ fr ex D5). fold s5.
  rewrite E6. rewrite last_is_snoc. cbn [app]. rewrite <- app_assoc. reflexivity.
Qed.

(* ---- one iteration -------------------------------------------------------- *)
Lemma run_frame_curh nps f s s' l r :
  inv s -> run_frame nps f s = (s', l, r) ->
  s_curh s' = next_handle (s_curh s) (f_act f) /\
  (r = FCont <-> continues (f_act f) = true).
Proof.
  intros I. unfold run_frame. cbv zeta.
  destruct (do_pokes (f_pokes f) (set_last (Some (f_t f)) s)) as [s1 lp] eqn:P.
  pose proof (do_pokes_wmono _ _ _ _ P) as M.
  assert (I1 : inv s1) by (eapply wmono_inv; [exact M|exact I]).
  destruct M as (_&_&_&Mh&_). cbn in Mh.
  destruct (f_act f) as [| |q|h cc cn ex|h cc cn|]; cbn [next_handle continues].
  - triple_inv. split; [auto|tauto].
  - triple_inv. split; [auto|]. split; discriminate.
  - destruct (dispatch (s_curw s) VQuit s1) as [s2 l2] eqn:D. triple_inv.
    apply dispatch_fields in D. destruct D as (_&D&_). split; [congruence|]. split; discriminate.
  - destruct (switch_fn h s1) as [s2 l2] eqn:S2.
    destruct (loop_switch h cc cn s2) as [s3 l3] eqn:S3. triple_inv.
    pose proof (switch_fn_inv _ _ _ _ S2 I1) as I2.
    destruct (loop_switch_inv _ _ _ _ _ _ S3 I2) as (_&_&F3&_). split; [auto|tauto].
  - destruct (loop_switch h cc cn s1) as [s3 l3] eqn:S3. triple_inv.
    destruct (loop_switch_inv _ _ _ _ _ _ S3 I1) as (_&_&F3&_). split; [auto|tauto].
  - triple_inv. split; [auto|]. split; discriminate.
Qed.

Lemma frame13 nps f s s' l r fr :
  inv s -> cur_ok s -> k5_action (s_curh s) (f_act f) = false ->
  run_frame nps f s = (s', l, r) ->
  exists fr', (r <> FCont -> fr' = false) /\
    forall rest, run13 (proj s fr []) (l ++ rest) = run13 (proj s' fr' []) rest.
Proof.
  intros I C K. unfold run_frame. cbv zeta.
  destruct (do_pokes (f_pokes f) (set_last (Some (f_t f)) s)) as [s1 lp] eqn:P.
  pose proof (do_pokes_wmono _ _ _ _ P) as M.
  assert (I1 : inv s1) by (eapply wmono_inv; [exact M|exact I]).
  assert (C1 : cur_ok s1) by (eapply wmono_cur_ok; [exact M|exact C]).
  destruct M as (_&_&Mw&Mh&_). cbn in Mw, Mh.
  set (dt := match s_last s with None => 0 | Some l0 => f_t f - l0 end).
  set (np := np_of nps (s_curh s)).
  set (pos := eff_pos (f_org f) (f_pos f) np).
  assert (Head : forall tail rest,
    run13 (proj s fr [])
      (((EClock (f_t f) (s_curw s) (s_curh s) :: procs (s_curw s) dt 0 (S pos)) ++ lp ++ tail) ++ rest)
    = run13 (proj s1 true []) (tail ++ rest)).
  { intros tail rest. cbn [app run13]. unfold step13 at 1. cbn [proj b_exp b_curw b_curh].
    rewrite !Z.eqb_refl. cbn [andb].
    change (with_exp [] true (proj s fr [])) with (proj (set_last (Some (f_t f)) s) true []).
    rewrite <- !app_assoc.
    change (s_curw s) with (s_curw (set_last (Some (f_t f)) s)) at 1.
    rewrite run13_procs. apply (pokes13 _ _ _ _ _ P). }
  destruct (f_act f) as [| |q|h cc cn ex|h cc cn|].
  - triple_inv. exists true. split; [congruence|]. intros rest. rewrite Head.
    rewrite <- Mw. apply run13_procs.
  - triple_inv. exists false. split; auto. intros rest. rewrite Head. reflexivity.
  - destruct C1 as [q1 C1]. rewrite Mw in C1. rewrite (dispatch_enabled _ _ _ _ C1).
    triple_inv. exists false. split; auto. intros rest. rewrite Head.
    cbn [app run13]. unfold step13 at 1. cbn [proj b_exp b_inframe b_curw].
    rewrite Mw. erewrite send_proj by (eapply dispatch_enabled; exact C1).
    change (with_exp [EEv (s_curw s) VQuit] false (proj s1 true []))
      with (proj s1 false [EEv (s_curw s) VQuit]).
    apply (run13_expect [EEv (s_curw s) VQuit]).
  - destruct (switch_fn h s1) as [s2 l2] eqn:S2.
    destruct (loop_switch h cc cn s2) as [s3 l3] eqn:S3.
    triple_inv. exists false. split; auto. intros rest. rewrite Head.
    cbn [app run13]. unfold step13 at 1. cbn [proj b_exp b_inframe].
    cbn [k5_action] in K. rewrite <- Mh in K.
    rewrite (switch_proj _ _ _ _ _ _ _ _ true [] I1 C1 K S2 S3).
    change (with_exp (l2 ++ l3) false (proj s3 true [])) with (proj s3 false (l2 ++ l3)).
    apply run13_expect.
  - destruct (loop_switch h cc cn s1) as [s3 l3] eqn:S3.
    triple_inv. exists false. split; auto. intros rest. rewrite Head.
    cbn [app run13]. unfold step13 at 1. cbn [proj b_exp b_inframe].
    destruct (enter_proj h cc cn s1 s3 l3 true [] I1 S3) as (s6&e&l6&en&held&_&_&E6&_&_).
    rewrite E6.
    change (with_exp l3 false (proj s3 true [])) with (proj s3 false l3).
    apply run13_expect.
  - triple_inv. exists false. split; auto. intros rest. rewrite Head. reflexivity.
Qed.

Lemma frames13 nps ek fs : forall s s' l r fr h',
  inv s -> cur_ok s -> frames_wf fs = true -> k5_frames (s_curh s) fs = (false, h') ->
  run_frames nps fs ek s = (s', l, r) ->
  inv s' /\ cur_ok s' /\ s_curh s' = h' /\ r <> FCont /\
  forall rest, run13 (proj s fr []) (l ++ rest) = run13 (proj s' false []) rest.
Proof.
  induction fs as [|f fs IH]; intros s s' l r fr h' I C W K; cbn [run_frames].
  - triple_inv. cbn in K. injection K as <-. (split; [assumption|split; [assumption|split; [reflexivity|split]]]).
    + destruct ek; discriminate.
    + intros rest. cbn [app run13]. unfold step13. cbn [proj b_exp b_curw b_curh].
      rewrite !Z.eqb_refl. reflexivity.
  - destruct (run_frame nps f s) as [[s1 l1] r1] eqn:F.
    cbn [k5_frames] in K.
    destruct (k5_frames (next_handle (s_curh s) (f_act f)) fs) as [k hh] eqn:KF.
    injection K as K1 <-. apply orb_false_elim in K1 as [K1 K2]. subst k.
    destruct (run_frame_inv _ _ _ _ _ _ F I C) as [I1 C1].
    destruct (run_frame_curh _ _ _ _ _ _ I F) as [H1 R1].
    destruct (frame13 _ _ _ _ _ _ fr I C K1 F) as (fr1&Hfr&Run1).
    destruct r1.
    + destruct (run_frames nps fs ek s1) as [[s2 l2] r2] eqn:FS. triple_inv.
      assert (W' : frames_wf fs = true).
      { cbn [frames_wf] in W. destruct fs; auto. apply andb_prop in W as [_ W]. exact W. }
      rewrite <- H1 in KF.
      destruct (IH _ _ _ _ fr1 _ I1 C1 W' KF FS) as (I2&C2&H2&R2&Run2).
      (split; [assumption|split; [assumption|split; [assumption|split; [assumption|]]]]). intros rest. rewrite <- app_assoc, Run1. apply Run2.
    + triple_inv.
      assert (fs = []).
      { destruct fs as [|g fs]; auto. cbn [frames_wf] in W. apply andb_prop in W as [W _].
        apply R1 in W. discriminate. }
      subst fs. cbn in KF. injection KF as <-.
      (split; [assumption|split; [assumption|split; [exact H1|split; [discriminate|]]]]).
      intros rest. rewrite Run1. rewrite Hfr by discriminate. reflexivity.
    + triple_inv.
      assert (fs = []).
      { destruct fs as [|g fs]; auto. cbn [frames_wf] in W. apply andb_prop in W as [W _].
        apply R1 in W. discriminate. }
      subst fs. cbn in KF. injection KF as <-.
      (split; [assumption|split; [assumption|split; [exact H1|split; [discriminate|]]]]).
      intros rest. rewrite Run1. rewrite Hfr by discriminate. reflexivity.
Qed.

(* ---- all operations ------------------------------------------------------- *)
Lemma ops13_ok nps ops : forall s fr,
  inv s -> (cur_ok s \/ first_is_top ops = true) ->
  forallb (fun x => match fst x with OTop _ _ _ => true | OStart fs _ => frames_wf fs end) ops = true ->
  k5_ops (s_curh s) ops = false ->
  run_ops nps ops s = true ->
  ops13 (proj s fr []) ops = true.
Proof.
  induction ops as [|[o obs] ops IH]; intros s fr I C W K; cbn [run_ops ops13]; auto.
  destruct (run_op nps o s) as [s1 l] eqn:R. intros H. apply andb_prop in H as [H1 H2].
  apply log_eqb_eq in H1. subst obs.
  cbn [forallb fst] in W. apply andb_prop in W as [W1 W2].
  destruct o as [h cc cn|fs ek]; cbn [run_op] in R.
  - destruct (loop_switch h cc cn s) as [s2 l2] eqn:S. injection R as <- <-.
    destruct (loop_switch_inv _ _ _ _ _ _ S I) as (I2&C2&H2'&_).
    destruct (enter_proj h cc cn s s2 l2 fr [] I S) as (s6&e&l6&en&held&_&_&E6&Ew&Eh).
    unfold op13. rewrite E6.
    change (with_exp (l2 ++ [ETopDone e h]) false (proj s2 fr []))
      with (proj s2 false (l2 ++ [ETopDone e h])).
    rewrite Ew, Eh. rewrite <- (app_nil_r (l2 ++ [ETopDone e h])) at 2.
    rewrite run13_expect. cbn [run13 proj b_exp].
    cbn [k5_ops] in K. rewrite <- Eh in K. apply (IH s2 false); auto.
  - destruct C as [C|C]; [|discriminate].
    unfold run_start in R.
    destruct (run_frames nps fs ek (set_running true s)) as [[s2 l2] r] eqn:FS.
    injection R as <- <-.
    cbn [k5_ops] in K. destruct (k5_frames (s_curh s) fs) as [k hh] eqn:KF.
    apply orb_false_elim in K as [K1 K2]. subst k.
    destruct (frames13 nps ek fs (set_running true s) _ _ _ fr hh I C W1 KF FS)
      as (I2&C2&H2'&R2&Run2).
    unfold op13. change (proj s fr []) with (proj (set_running true s) fr []).
    rewrite Run2. cbn [run13]. unfold step13. cbn [proj b_exp b_inframe].
    destruct r; [exfalso; apply R2; reflexivity| |].
    + apply (IH (set_last None (set_running false s2)) false); auto.
      cbn [set_last set_running s_curh]. rewrite H2'. exact K2.
    + apply (IH (set_last None s2) false); auto.
      cbn [set_last s_curh]. rewrite H2'. exact K2.
Qed.

Lemma inv_init_13 : inv init.
Proof. split; intros x W; cbn; discriminate. Qed.

Theorem accepts_holds13 (c : lcase) :
  wf_b c = true -> known13_b c = false -> accepts c = true -> holds13 c.
Proof.
  unfold wf_b, known13_b, accepts, holds13, holds13_b. intros W K A.
  apply andb_prop in W as [W _]. apply andb_prop in W as [W Wf]. apply andb_prop in W as [_ Wt].
  apply (ops13_ok (c_nps c) (c_ops c) init false); auto.
  apply inv_init_13.
Qed.

(* ---- reading of the checker: what an accepted switch() announces --------- *)
Lemma last_is_spec q x : last_is q x = true -> exists q', q = q' ++ [x].
Proof.
  unfold last_is. destruct (rev q) as [|y r] eqn:E; [discriminate|].
  destruct (event_eq_dec y x) as [->|]; [|discriminate]. intros _.
  exists (rev r). rewrite <- (rev_involutive q), E. reflexivity.
Qed.

Lemma spec_switch_shape h cc cn b b' l :
  spec_switch h cc cn b = Some (b', l) ->
  exists to pre,
    l = pre ++ [EEv (b_curw b') (VIn (b_curw b) to)] /\
    In (EEv (b_curw b) (VOut (b_curw b) to)) pre /\ b_curh b' = h.
Proof.
  unfold spec_switch.
  destruct (instance_of h b) as [[b1 to] l1].
  destruct (send to (VIn (b_curw b) to) (hold to (hold (b_curw b) b1))) as [b3 x].
  unfold enter.
  destruct (instance_of h _) as [[b5 e] l5].
  set (held := match alookup e (b_worlds b5) with Some (_, q) => q | None => [] end).
  destruct (last_is held (VIn (b_curw b) to)) eqn:L; [|discriminate].
  intros [= <- <-]. apply last_is_spec in L as [q' L]. rewrite L.
  exists to, (l1 ++ [EEv (b_curw b) (VOut (b_curw b) to)] ++ l5 ++ map (EEv e) q').
  cbn [b_curw b_curh]. split; [|split; [|reflexivity]].
  - rewrite map_app. cbn [map]. rewrite <- !app_assoc. reflexivity.
  - apply in_or_app. right. left. reflexivity.
Qed.
