(* C13, second generation - proofs: outside the call pattern of the known
   finding K5, every log the model of loop.py produces (callbacks
   that act included) passes the checker of R13Model.v. *)
From Coq Require Import ZArith List Bool Arith Lia ZifyBool.
From Desper Require Import Lib.Alist Loop.RBus Loop.RModel Loop.RFacts Loop.R13Model.
Import ListNotations.
Open Scope Z_scope.

Definition nok13 (l : list entry) : bool := forallb (fun e => negb (k5_entry e)) l.

Lemma nok13_app l1 l2 : nok13 (l1 ++ l2) = true -> nok13 l1 = true /\ nok13 l2 = true.
Proof. unfold nok13. rewrite forallb_app. intros H. apply andb_prop in H. exact H. Qed.

Lemma nok13_10 l : nok13 l = true -> nok10 l = true.
Proof. reflexivity. Qed.

Lemma nok13_k5 o h cc cn ex w ch l :
  nok13 l = true -> In (EAct o (ASwitch h cc cn ex) w ch) l -> cn || (cc && (h =? ch)) = false.
Proof.
  unfold nok13. rewrite forallb_forall. intros H Hin. specialize (H _ Hin).
  cbn [k5_entry] in H. destruct (cn || (cc && (h =? ch))); [discriminate|reflexivity].
Qed.

(* ---- the protocol of the checker computes what the model computes -------- *)
Definition agree (m m' : M) : Prop := forall s s' l r,
  m s = Some (s', l, r) -> inv s -> cur_ok s -> nok13 l = true -> m' s = Some (s', l, r).

Lemma agree_refl m : agree m m.
Proof. intros s s' l r H _ _ _. exact H. Qed.

Lemma agree_andthen m m' k k' :
  good m -> agree m m' -> agree k k' -> agree (m ;; k) (m' ;; k').
Proof.
  intros Gm Am Ak s s' l r H I C N.
  apply andthen_inv in H as (s1&l1&r1&H1&H2). destruct r1 as [|x].
  - destruct H2 as (l2&H2&->). apply nok13_app in N as [N1 N2].
    pose proof (Gm _ _ _ _ H1 I C (nok13_10 _ N1)) as (I1&_&_&_&_&C1&_).
    rewrite (andthen_norm _ _ _ _ _ (Am _ _ _ _ H1 I C N1)).
    now rewrite (Ak _ _ _ _ H2 I1 (C1 eq_refl) N2).
  - destruct H2 as (->&->&->). apply andthen_exn. apply (Am _ _ _ _ H1 I C N).
Qed.

(* where a tagged SwitchWorld comes from: a switch() call that was announced *)
Definition from_switch (r : res) (l : list entry) (ch : Z) : Prop :=
  match r with
  | RExn (XSW h cc cn (Some _)) => exists o ex w, In (EAct o (ASwitch h cc cn ex) w ch) l
  | _ => True
  end.

Definition tagging (m : M) : Prop := forall s s' l r,
  m s = Some (s', l, r) -> inv s -> cur_ok s -> nok10 l = true -> from_switch r l (s_curh s).

Lemma from_switch_app_r r l1 l2 ch : from_switch r l2 ch -> from_switch r (l1 ++ l2) ch.
Proof.
  destruct r as [|[| |h cc cn [t|]]]; cbn; auto. intros (o&ex&w&H). exists o, ex, w.
  apply in_or_app. now right.
Qed.
Lemma from_switch_app_l r l1 l2 ch : from_switch r l1 ch -> from_switch r (l1 ++ l2) ch.
Proof.
  destruct r as [|[| |h cc cn [t|]]]; cbn; auto. intros (o&ex&w&H). exists o, ex, w.
  apply in_or_app. now left.
Qed.

Lemma tagging_andthen m k : good m -> tagging m -> tagging k -> tagging (m ;; k).
Proof.
  intros Gm Tm Tk s s' l r H I C N.
  apply andthen_inv in H as (s1&l1&r1&H1&H2). destruct r1 as [|x].
  - destruct H2 as (l2&H2&->). apply nok10_app in N as [N1 N2].
    pose proof (Gm _ _ _ _ H1 I C N1) as (I1&_&Fh&_&_&C1&_).
    apply from_switch_app_r. rewrite <- Fh. apply (Tk _ _ _ _ H2 I1 (C1 eq_refl) N2).
  - destruct H2 as (->&->&->). apply (Tm _ _ _ _ H1 I C N).
Qed.

Lemma tagging_norm (m : M) : (forall s s' l r, m s = Some (s', l, r) -> r = RNorm) -> tagging m.
Proof. intros Hm s s' l r H _ _ _. rewrite (Hm _ _ _ _ H). exact I. Qed.

Section BusAgree.
  Variable react areact : ekind -> action -> M.
  Hypothesis Hgood : forall k a, good (react k a).
  Hypothesis Hag : forall k a, agree (react k a) (areact k a).
  Hypothesis Htag : forall k a, tagging (react k a).

  Lemma agree_deliver w e : agree (deliver react w e) (deliver areact w e).
  Proof.
    unfold deliver. apply agree_andthen; [apply good_emit|apply agree_refl|].
    intros s s' l r H I C N. destruct (kind_of e) as [k|]; [|exact H].
    destruct (take_reaction k (s_reacts s)) as [[a rest]|]; [|exact H].
    apply (Hag k a _ _ _ _ H I C N).
  Qed.

  Lemma tagging_deliver w e : tagging (deliver react w e).
  Proof.
    unfold deliver. apply tagging_andthen; [apply good_emit| |].
    - apply tagging_norm. intros s s' l r [= <- <- <-]. reflexivity.
    - intros s s' l r H I C N. destruct (kind_of e) as [k|].
      + destruct (take_reaction k (s_reacts s)) as [[a rest]|].
        * apply (Htag k a _ _ _ _ H I C N).
        * injection H as <- <- <-. exact Logic.I.
      + injection H as <- <- <-. exact Logic.I.
  Qed.

  Lemma agree_dispatch w e : agree (dispatch react w e) (dispatch areact w e).
  Proof.
    intros s s' l r H I C N. unfold dispatch in *.
    destruct (alookup w (s_worlds s)) as [W|]; [|exact H].
    destruct (w_en W); [|exact H]. apply (agree_deliver w e _ _ _ _ H I C N).
  Qed.

  Lemma tagging_dispatch w e : tagging (dispatch react w e).
  Proof.
    intros s s' l r H I C N. unfold dispatch in H.
    destruct (alookup w (s_worlds s)) as [W|].
    - destruct (w_en W); [apply (tagging_deliver w e _ _ _ _ H I C N)|].
      injection H as <- <- <-. exact Logic.I.
    - injection H as <- <- <-. exact Logic.I.
  Qed.

  Lemma agree_release w fuel : agree (release react w fuel) (release areact w fuel).
  Proof.
    induction fuel as [|x fuel IH]; intros s s' l r H I C N; cbn [release] in *;
      destruct (alookup w (s_worlds s)) as [[[|] [|e rest]]|] eqn:L; try exact H.
    apply andthen_inv in H as (s1&l1&r1&H1&H2). injection H1 as <- <- <-.
    destruct H2 as (l2&H2&->). cbn [app] in N |- *.
    pose proof (post_pop _ _ _ _ L I C) as (I1&_&_&_&_&C1&_).
    assert (A : agree (dispatch react w e ;; release react w fuel)
                      (dispatch areact w e ;; release areact w fuel)).
    { apply agree_andthen; [apply good_dispatch; exact Hgood|apply agree_dispatch|exact IH]. }
    unfold andthen at 1. cbn [upd].
    rewrite (A _ _ _ _ H2 I1 (C1 eq_refl) N). reflexivity.
  Qed.

  Lemma tagging_release w fuel : tagging (release react w fuel).
  Proof.
    induction fuel as [|x fuel IH]; intros s s' l r H I C N; cbn [release] in *;
      destruct (alookup w (s_worlds s)) as [[[|] [|e rest]]|] eqn:L;
      try (injection H as <- <- <-; exact Logic.I); try discriminate.
    apply andthen_inv in H as (s1&l1&r1&H1&H2). injection H1 as <- <- <-.
    destruct H2 as (l2&H2&->). cbn [app] in N |- *.
    pose proof (post_pop _ _ _ _ L I C) as (I1&_&_&_&_&C1&_).
    assert (T : tagging (dispatch react w e ;; release react w fuel)).
    { apply tagging_andthen; [apply good_dispatch; exact Hgood|apply tagging_dispatch|exact IH]. }
    apply (T _ _ _ _ H2 I1 (C1 eq_refl) N).
  Qed.

  (* the loop's current world is enabled and releases what it holds *)
  Lemma agree_enable_cur w s s' l r :
    enable react w s = Some (s', l, r) -> inv s -> w = s_curw s ->
    (exists W, alookup w (s_worlds s) = Some W) -> nok13 l = true ->
    enable areact w s = Some (s', l, r).
  Proof.
    intros H I Ew [W L] N. unfold enable in *. rewrite L in *.
    apply andthen_inv in H as (s1&l1&r1&H1&H2). injection H1 as <- <- <-.
    destruct H2 as (l2&H2&->). cbn [app] in N |- *.
    set (s1 := set_worlds (aset w (true, w_q W) (s_worlds s)) s) in *.
    assert (I1 : inv s1) by (eapply inv_update; eauto).
    assert (C1 : cur_ok s1).
    { unfold cur_ok, s1. cbn. rewrite <- Ew, alookup_aset_eq. eauto. }
    unfold andthen at 1. cbn [upd]. fold s1.
    rewrite (agree_release w (w_q W) _ _ _ _ H2 I1 C1 N). reflexivity.
  Qed.

  (* ---- loop.py's functions against the protocol --------------------------- *)
  Lemma agree_switch h cc cn : agree (switch_fn react h cc cn) (a_switch areact h cc cn).
  Proof.
    intros s s' l r H I C N. unfold switch_fn in H. unfold a_switch.
    destruct (handle_call h s) as [[s1 to] l1] eqn:H1.
    destruct (handle_call_inv _ _ _ _ _ H1 I) as (I1&C1&[Wto Hto]&Mc&Mw&Fw&Fh&Fi&Fr).
    destruct C as [qc C]. pose proof (Mw _ _ C) as Cf.
    assert (Cu1 : cur_ok s1) by (exists qc; rewrite Fw; exact Cf).
    set (from := s_curw s) in *.
    apply andthen_inv in H as (s1'&l1'&r1&E1&H2). injection E1 as <- <- <-.
    destruct H2 as (l2&H2&->). apply nok13_app in N as [_ N].
    rewrite (andthen_norm (emit l1) _ s1 s1 l1 eq_refl).
    apply andthen_inv in H2 as (s2&l2'&r2&D2&H3).
    (* the world left dispatches: on_switch_out is delivered at once *)
    assert (D2' : deliver react from (VOut from to) s1 = Some (s2, l2', r2)).
    { unfold dispatch in D2. rewrite Cf in D2. exact D2. }
    assert (N2 : nok13 l2' = true).
    { destruct r2; [destruct H3 as (l3&_&->); apply nok13_app in N; apply N
                   |destruct H3 as (_&->&_); exact N]. }
    pose proof (agree_deliver _ _ _ _ _ _ D2' I1 Cu1 N2) as A2.
    destruct r2 as [|x].
    2:{ destruct H3 as (->&->&->). now rewrite (andthen_exn _ _ _ _ _ _ A2). }
    destruct H3 as (l3&H3&->). rewrite (andthen_norm _ _ _ _ _ A2).
    apply andthen_inv in H3 as (s3&l3'&r3&E3&H4). injection E3 as <- <- <-.
    destruct H4 as (l4&H4&->).
    apply andthen_inv in H4 as (s4&l4'&r4&E4&H5). injection E4 as <- <- <-.
    destruct H5 as (l5&H5&->).
    apply andthen_inv in H5 as (s5&l5'&r5&D5&H6).
    pose proof (good_deliver react Hgood _ _ _ _ _ _ D2' I1 Cu1 (nok13_10 _ N2))
      as (I2&_&_&_&Mc2&_&_).
    assert (Cto2 : alookup h (s_cache s2) = Some to) by (apply Mc2; exact C1).
    destruct (proj1 I2 _ _ Cto2) as [W2 Eto2].
    set (s4 := disable to (disable from s2)) in *.
    assert (L4 : exists q, alookup to (s_worlds s4) = Some (false, q)).
    { unfold s4. rewrite disable_lookup, disable_lookup, Eto2.
      destruct (to =? from); rewrite Z.eqb_refl; eauto. }
    destruct L4 as [q4 L4].
    unfold dispatch in D5. rewrite L4 in D5. cbn [w_en w_q fst snd] in D5.
    injection D5 as <- <- <-. destruct H6 as (l6&H6&->). injection H6 as <- <- <-.
    unfold andthen, upd, raise, push. fold s4. rewrite L4. reflexivity.
  Qed.

  Lemma agree_quit : agree (quit_fn react) (a_quit areact).
  Proof.
    intros s s' l r H I C N. unfold quit_fn in H. unfold a_quit.
    apply andthen_inv in H as (s1&l1&r1&D1&H2).
    destruct C as [qc C].
    assert (D1' : deliver react (s_curw s) VQuit s = Some (s1, l1, r1)).
    { unfold dispatch in D1. rewrite C in D1. exact D1. }
    assert (N1 : nok13 l1 = true).
    { destruct r1; [destruct H2 as (l2&_&->); apply nok13_app in N; apply N
                   |destruct H2 as (_&->&_); exact N]. }
    pose proof (agree_deliver _ _ _ _ _ _ D1' I (ex_intro _ qc C) N1) as A1.
    destruct r1 as [|x].
    - destruct H2 as (l2&H2&->). rewrite (andthen_norm _ _ _ _ _ A1). now rewrite H2.
    - destruct H2 as (->&->&->). now rewrite (andthen_exn _ _ _ _ _ _ A1).
  Qed.

  Lemma agree_body a : agree (perform_body react a) (a_body areact a).
  Proof.
    destruct a as [| |q|h cc cn ex|h cc cn| |hd ccd cnd]; cbn [perform_body a_body];
      try apply agree_refl.
    - apply agree_quit.
    - apply agree_switch.
  Qed.

  Lemma agree_perform o a : agree (perform react o a) (a_perform areact o a).
  Proof.
    intros s s' l r H. unfold perform in H. unfold a_perform. revert H.
    apply (agree_andthen (emit [EAct o a (s_curw s) (s_curh s)]) _ (perform_body react a));
      [apply good_emit|apply agree_refl|apply agree_body].
  Qed.

  (* a tagged SwitchWorld out of perform was announced by this very action or
     by a reaction inside it *)
  Lemma tagging_perform o a : tagging (perform react o a).
  Proof.
    intros s s' l r H I C N. unfold perform in H.
    apply andthen_inv in H as (s1&l1&r1&E1&H2). injection E1 as <- <- <-.
    destruct H2 as (l2&H2&->). cbn [app] in N.
    change ([EAct o a (s_curw s) (s_curh s)] ++ l2)
      with ([EAct o a (s_curw s) (s_curh s)] ++ l2).
    destruct a as [| |q|h cc cn ex|h cc cn| |hd ccd cnd]; cbn [perform_body] in H2;
      try (injection H2 as <- <- <-; exact Logic.I).
    - (* quit_loop *)
      unfold quit_fn in H2. apply from_switch_app_r.
      assert (T : tagging (dispatch react (s_curw s) VQuit ;; raise XQuit)).
      { apply tagging_andthen; [apply good_dispatch; exact Hgood|apply tagging_dispatch|].
        intros s0 s0' l0 r0 [= <- <- <-] _ _ _. exact Logic.I. }
      apply (T _ _ _ _ H2 I C N).
    - (* switch() *)
      unfold switch_fn in H2.
      destruct (handle_call h s) as [[s1 to] l1] eqn:H1.
      destruct (handle_call_inv _ _ _ _ _ H1 I) as (I1&C1&[Wto Hto]&Mc&Mw&Fw&Fh&Fi&Fr).
      assert (Cu1 : cur_ok s1).
      { destruct C as [q C]. exists q. rewrite Fw. apply Mw. exact C. }
      apply andthen_inv in H2 as (s1'&l1'&r1&E1&H3). injection E1 as <- <- <-.
      destruct H3 as (l3&H3&->).
      apply andthen_inv in H3 as (s2&l2'&r2&D2&H4).
      destruct r2 as [|x].
      + destruct H4 as (l4&H4&->).
        pose proof (good_dispatch react Hgood _ _ _ _ _ _ D2 I1 Cu1) as G2.
        assert (N2 : nok10 l2' = true) by reflexivity.
        destruct (G2 N2) as (I2&_&_&_&Mc2&_&_).
        destruct (switch_tail react h cc cn _ _ _ _ _ _ I2 (Mc2 _ _ C1) H4) as (q4&_&_&_&->).
        cbn [from_switch]. exists o, ex, (s_curw s). now left.
      + destruct H4 as (->&->&->). apply from_switch_app_r. apply from_switch_app_r.
        rewrite <- Fh. apply (tagging_dispatch _ _ _ _ _ _ D2 I1 Cu1 N).
  Qed.
End BusAgree.

Lemma react_n_agree_tag n :
  forall k a, agree (react_n n k a) (a_react_n n k a) /\ tagging (react_n n k a).
Proof.
  induction n as [|n IH]; intros k a.
  - split; intros s s' l r H; discriminate.
  - split; intros s s' l r H; cbn [react_n a_react_n] in *.
    + revert H. apply (agree_perform (react_n n) (a_react_n n) (react_n_good n)
                         (fun k a => proj1 (IH k a))).
    + revert H. apply (tagging_perform (react_n n) (react_n_good n)
                         (fun k a => proj2 (IH k a))).
Qed.

(* ---- the loop enters a handle -------------------------------------------- *)
Lemma last_is_snoc q x : last_is (q ++ [x]) x = true.
Proof.
  unfold last_is. rewrite rev_app_distr. cbn [rev app].
  destruct (event_eq_dec x x); [reflexivity|contradiction].
Qed.

Lemma enter_agree n h cc cn tag s s' l r :
  loop_switch (react_n n) h cc cn s = Some (s', l, r) -> inv s -> nok13 l = true ->
  tag_ok (RExn (XSW h cc cn tag)) s ->
  (tag <> None -> cn || (cc && (h =? s_curh s)) = false) ->
  a_enter (a_react_n n) h cc cn tag s = Some (s', l, r).
Proof.
  intros H I N T K.
  unfold loop_switch in H. unfold a_enter.
  set (s2 := clears h cc cn (set_inh true s)) in *.
  assert (I2 : inv s2) by (apply clears_inv; exact I).
  destruct (handle_call h s2) as [[s3 w] l3] eqn:H3.
  destruct (handle_call_inv _ _ _ _ _ H3 I2) as (I3&C3&[W3 HW3]&_).
  rewrite (handle_call_cached h (set_cur w h s3) w C3) in H.
  (* what the entered instance holds ends with the announced on_switch_in *)
  assert (Ok : match tag with
               | Some (f, t) =>
                   last_is match alookup w (s_worlds s3) with Some (_, q) => q | None => [] end
                           (VIn f t)
               | None => true
               end = true).
  { destruct tag as [[f t]|]; [|reflexivity].
    cbn [tag_ok] in T. destruct T as [Tc [q Tq]].
    specialize (K ltac:(discriminate)). apply orb_false_elim in K as [-> K2].
    assert (C2 : alookup h (s_cache s2) = Some t).
    { unfold s2, clears. cbn [set_inh s_curh s_cache].
      destruct cc; [|exact Tc]. destruct (s_curh s =? none); [exact Tc|].
      unfold handle_clear. cbn [set_cache s_cache set_inh]. rewrite alookup_adel.
      cbn [andb] in K2. rewrite K2. exact Tc. }
    rewrite (handle_call_cached _ _ _ C2) in H3. injection H3 as <- <- <-.
    destruct (clears_fields h cc false (set_inh true s)) as (Ew&_). fold s2 in Ew.
    rewrite Ew. cbn [set_inh s_worlds]. rewrite Tq. apply last_is_snoc. }
  rewrite Ok.
  apply andthen_inv in H as (s5&l5&r5&E5&H5). injection E5 as <- <- <-.
  destruct H5 as (l6&H6&->). rewrite app_nil_r in *. apply nok13_app in N as [_ N].
  apply andthen_inv in H6 as (s6&l6'&r6&E6&H7).
  assert (I4 : inv (set_cur w h s3)) by exact I3.
  assert (Nr : nok13 l6' = true).
  { destruct r6; [destruct H7 as (l7&_&->); apply nok13_app in N; apply N
                 |destruct H7 as (_&->&_); exact N]. }
  pose proof (agree_enable_cur (react_n n) (a_react_n n) (react_n_good n)
                (fun k a => proj1 (react_n_agree_tag n k a)) w _ _ _ _ E6 I4 eq_refl
                (ex_intro _ W3 HW3) Nr) as A6.
  unfold andthen at 1. cbn [emit]. unfold andthen at 1. cbn [upd].
  destruct r6 as [|x].
  - destruct H7 as (l7&H7&->). injection H7 as <- <- <-.
    rewrite (andthen_norm _ _ _ _ _ A6). cbn [upd]. reflexivity.
  - destruct H7 as (->&->&->). rewrite (andthen_exn _ _ _ _ _ _ A6). reflexivity.
Qed.

(* a tagged SwitchWorld that comes out of SimpleLoop.switch was announced by a
   callback of the world being entered, whose handle was already current *)
Lemma enter_tagging n h cc cn s s' l r :
  loop_switch (react_n n) h cc cn s = Some (s', l, r) -> inv s ->
  from_switch r l (s_curh s').
Proof.
  intros H I. pose proof (loop_switch_post _ _ _ _ _ _ _ _ H I eq_refl) as (_&_&Eh&_).
  rewrite Eh. unfold loop_switch in H.
  set (s2 := clears h cc cn (set_inh true s)) in *.
  assert (I2 : inv s2) by (apply clears_inv; exact I).
  destruct (handle_call h s2) as [[s3 w] l3] eqn:H3.
  destruct (handle_call_inv _ _ _ _ _ H3 I2) as (I3&C3&[W3 HW3]&_).
  rewrite (handle_call_cached h (set_cur w h s3) w C3) in H.
  apply andthen_inv in H as (s5&l5&r5&E5&H5). injection E5 as <- <- <-.
  destruct H5 as (l6&H6&->). apply from_switch_app_r.
  apply andthen_inv in H6 as (s6&l6'&r6&E6&H7).
  destruct r6 as [|x].
  - destruct H7 as (l7&H7&->). injection H7 as <- <- <-. exact Logic.I.
  - destruct H7 as (->&->&->).
    unfold enable in E6. cbn [set_cur s_worlds] in E6. rewrite HW3 in E6.
    apply andthen_inv in E6 as (s7&l7&r7&E7&H8). injection E7 as <- <- <-.
    destruct H8 as (l8&H8&->). cbn [app].
    set (s7 := set_worlds _ (set_cur w h s3)) in *.
    assert (I7 : inv s7) by (eapply (inv_update w _ W3 (set_cur w h s3)); [exact HW3|exact I3]).
    assert (C7 : cur_ok s7).
    { unfold cur_ok, s7. cbn. rewrite alookup_aset_eq. eauto. }
    apply (tagging_release (react_n n) (react_n_good n)
             (fun k a => proj2 (react_n_agree_tag n k a)) w (w_q W3) _ _ _ _ H8 I7 C7 eq_refl).
Qed.

Lemma handler_agree f n : forall h cc cn tag s s' l r,
  handler (react_n f) n h cc cn s = Some (s', l, r) -> inv s -> nok13 l = true ->
  tag_ok (RExn (XSW h cc cn tag)) s ->
  (tag <> None -> cn || (cc && (h =? s_curh s)) = false) ->
  a_handler (a_react_n f) n h cc cn tag s = Some (s', l, r).
Proof.
  induction n as [|n IH]; intros h cc cn tag s s' l r H I N T K; cbn [handler a_handler] in *;
    [discriminate|].
  destruct (loop_switch (react_n f) h cc cn s) as [[[s1 l1] r1]|] eqn:LS; [|discriminate].
  destruct (loop_switch_post _ _ _ _ _ _ _ _ LS I eq_refl) as (I1&_&_&T1&_).
  pose proof (enter_tagging _ _ _ _ _ _ _ _ LS I) as Tg.
  destruct r1 as [|[| |h2 cc2 cn2 t2]].
  - injection H as <- <- <-. now rewrite (enter_agree _ _ _ _ _ _ _ _ _ LS I N T K).
  - injection H as <- <- <-. now rewrite (enter_agree _ _ _ _ _ _ _ _ _ LS I N T K).
  - injection H as <- <- <-. now rewrite (enter_agree _ _ _ _ _ _ _ _ _ LS I N T K).
  - destruct (handler (react_n f) n h2 cc2 cn2 s1) as [[[s2 l2] r2]|] eqn:Hd; [|discriminate].
    injection H as <- <- <-. apply nok13_app in N as [N1 N2].
    rewrite (enter_agree _ _ _ _ _ _ _ _ _ LS I N1 T K).
    assert (K2 : t2 <> None -> cn2 || (cc2 && (h2 =? s_curh s1)) = false).
    { intros Ht. destruct t2 as [t|]; [|congruence]. cbn [from_switch] in Tg.
      destruct Tg as (o&ex&w&Hin). exact (nok13_k5 _ _ _ _ _ _ _ _ N1 Hin). }
    now rewrite (IH _ _ _ _ _ _ _ _ Hd I1 N2 T1 K2).
Qed.

(* ---- the checker run along the model's log -------------------------------- *)
Definition bst (s : state) (n : nat) (fr : bool) (fw : Z) (ex : list entry) : s13 :=
  {| b_st := s; b_fuel := n; b_inframe := fr; b_fw := fw; b_exp := ex |}.

Lemma run13_expect l : forall s n fr fw rest,
  run13 (bst s n fr fw l) (l ++ rest) = run13 (bst s n fr fw []) rest.
Proof.
  induction l as [|x l IH]; intros s n fr fw rest; [reflexivity|].
  cbn [app run13]. unfold step13. cbn [bst b_exp]. rewrite entry_eqb_refl. apply IH.
Qed.

Lemma run13_procs k : forall a s n w dt rest,
  run13 (bst s n true w []) (procs w dt a k ++ rest) = run13 (bst s n true w []) rest.
Proof.
  unfold procs. induction k as [|k IH]; intros a s n w dt rest; [reflexivity|].
  cbn [seq map app run13]. unfold step13 at 1. cbn [bst b_exp b_inframe b_fw].
  rewrite Z.eqb_refl. cbn [andb]. apply IH.
Qed.

Lemma run13_coros k : forall a s n w rest,
  run13 (bst s n true w []) (coros w a k ++ rest) = run13 (bst s n true w []) rest.
Proof.
  unfold coros. induction k as [|k IH]; intros a s n w rest; [reflexivity|].
  cbn [seq map app run13]. unfold step13 at 1. cbn [bst b_exp b_inframe b_fw].
  rewrite Z.eqb_refl. cbn [andb]. apply IH.
Qed.

Lemma pokes13 ps : forall s s1 lp n fw rest,
  do_pokes ps s = (s1, lp) ->
  run13 (bst s n true fw []) (lp ++ rest) = run13 (bst s1 n true fw []) rest.
Proof.
  induction ps as [|[k tok] ps IH]; intros s s1 lp n fw rest; cbn [do_pokes].
  - intros [= <- <-]. reflexivity.
  - destruct (alookup k (s_cache s)) as [w|]; [|apply IH].
    destruct (alookup w (s_worlds s)) as [[[|] q]|] eqn:L.
    + destruct (do_pokes ps s) as [s2 l2] eqn:P. intros [= <- <-].
      cbn [app run13]. unfold step13 at 1. cbn [bst b_exp b_inframe b_st]. unfold poke13.
      rewrite L. change (with_st s [EEv w (VPoke tok)] true (bst s n true fw []))
        with (bst s n true fw [EEv w (VPoke tok)]).
      unfold step13. cbn [bst b_exp]. rewrite entry_eqb_refl.
      change (with_exp [] (b_inframe (bst s n true fw [EEv w (VPoke tok)]))
                       (bst s n true fw [EEv w (VPoke tok)]))
        with (bst s n true fw []). eapply IH; eauto.
    + destruct (do_pokes ps _) as [s2 l2] eqn:P. intros [= <- <-].
      cbn [app run13]. unfold step13 at 1. cbn [bst b_exp b_inframe b_st]. unfold poke13.
      rewrite L. eapply IH; eauto.
    + destruct (do_pokes ps s) as [s2 l2] eqn:P. intros [= <- <-].
      cbn [app run13]. unfold step13 at 1. cbn [bst b_exp b_inframe b_st]. unfold poke13.
      rewrite L. eapply IH; eauto.
Qed.

Lemma body_raises react a s s' l :
  perform_body react a s = Some (s', l, RNorm) -> a = ANormal \/ is_direct a = true.
Proof.
  destruct a as [| |q|h cc cn ex|h cc cn| |hd ccd cnd]; cbn [perform_body is_direct]; auto;
    try discriminate.
  - unfold quit_fn. intros H. apply andthen_inv in H as (?&?&[|?]&?&H);
      [destruct H as (?&H&?)|destruct H as (?&?&?)]; discriminate.
  - unfold switch_fn. intros H. destruct (handle_call h s) as [[sx to] lx].
    repeat (apply andthen_inv in H as (?&?&[|?]&?&H);
            [destruct H as (?&H&?)|destruct H as (?&?&?); discriminate]).
    discriminate.
Qed.

(* the model's after_action against the checker's act13: [e] is the entry that
   announces the scripted action a, (s2, l2, r2) what performing it gives *)
Lemma act_after fuel a e s1 w rest0 s2 l2 r2 s' l r :
  (forall s n tail, run13 (bst s n true w []) (rest0 ++ tail) = run13 (bst s n true w []) tail) ->
  step13 (bst s1 fuel true w []) e = act13 (bst s1 fuel true w []) a ->
  match a with
  | ADirect h cc cn => a_enter (a_react_n fuel) h cc cn None s1
  | _ => a_body (a_react_n fuel) a s1
  end = Some (s2, l2, r2) ->
  (r2 = RNorm -> is_direct a = true) ->
  inv s2 -> tag_ok r2 s2 -> from_switch r2 (e :: l2) (s_curh s2) -> nok13 l = true ->
  after_action fuel (Some (s2, e :: l2, r2)) rest0 = Some (s', l, r) ->
  exists fr', (r <> FCont -> fr' = false) /\
    forall rest, run13 (bst s1 fuel true w []) (l ++ rest) = run13 (bst s' fuel fr' w []) rest.
Proof.
  intros Hrest St Hs Hn I2 T2 Tg N. unfold after_action.
  assert (Step : forall st fr ann rest,
            act13 (bst s1 fuel true w []) a = Some (bst st fuel fr w ann) ->
            run13 (bst s1 fuel true w []) ((e :: ann) ++ rest) = run13 (bst st fuel fr w []) rest).
  { intros st fr ann rest A. cbn [app run13]. rewrite St, A. apply run13_expect. }
  destruct r2 as [|[| |h cc cn tag]].
  - st_inv. exists true. split; [congruence|]. intros rest.
    rewrite <- app_assoc. cbn [app].
    change (e :: l2 ++ rest0 ++ rest) with ((e :: l2) ++ rest0 ++ rest).
    rewrite (Step s2 true l2); [apply Hrest|].
    unfold act13. cbn [bst b_st b_fuel]. rewrite Hs.
    specialize (Hn eq_refl). destruct a; try discriminate. reflexivity.
  - st_inv. exists false. split; [reflexivity|]. intros rest.
    apply (Step s2 false l2). unfold act13. cbn [bst b_st b_fuel]. rewrite Hs. reflexivity.
  - st_inv. exists false. split; [reflexivity|]. intros rest.
    apply (Step s2 false l2). unfold act13. cbn [bst b_st b_fuel]. rewrite Hs. reflexivity.
  - destruct (handler (react_n fuel) fuel h cc cn s2) as [[[s3 l3] r3]|] eqn:LS; [|discriminate].
    st_inv. exists false. split; [reflexivity|]. intros rest.
    change ((e :: l2) ++ l3) with (e :: (l2 ++ l3)).
    apply (Step s3 false (l2 ++ l3)).
    assert (N2 : nok13 (e :: l2) = true /\ nok13 l3 = true).
    { change (e :: l2 ++ l3) with ((e :: l2) ++ l3) in N. apply nok13_app in N. exact N. }
    destruct N2 as [N2 N3].
    assert (K : tag <> None -> cn || (cc && (h =? s_curh s2)) = false).
    { intros Ht. destruct tag as [t|]; [|congruence]. cbn [from_switch] in Tg.
      destruct Tg as (o&ex&ww&Hin). exact (nok13_k5 _ _ _ _ _ _ _ _ N2 Hin). }
    pose proof (handler_agree _ _ _ _ _ _ _ _ _ _ LS I2 N3 T2 K) as En.
    unfold act13. cbn [bst b_st b_fuel]. rewrite Hs, En. reflexivity.
Qed.

Lemma nok13_prefix_after fuel s2 l2 r2 rest pre s' l r :
  prefix pre (after_action fuel (Some (s2, l2, r2)) rest) = Some (s', l, r) ->
  nok13 l = true -> nok13 l2 = true.
Proof.
  unfold prefix.
  destruct (after_action fuel (Some (s2, l2, r2)) rest) as [[[s3 l3] r3]|] eqn:AA; [|discriminate].
  intros E N. apply some_triple_eq in E as (_&<-&_). apply nok13_app in N as [_ N].
  unfold after_action in AA. destruct r2 as [|[| |h cc cn tag]].
  - apply some_triple_eq in AA as (_&<-&_). apply nok13_app in N. apply N.
  - apply some_triple_eq in AA as (_&<-&_). exact N.
  - apply some_triple_eq in AA as (_&<-&_). exact N.
  - destruct (handler _ _ _ _ _ _) as [[[s4 l4] r4]|]; [|discriminate].
    apply some_triple_eq in AA as (_&<-&_). apply nok13_app in N. apply N.
Qed.

Lemma frame13 fuel nps ncs last f s s' l r fr fw :
  inv s -> cur_ok s -> frame_origin_ok f = true ->
  run_frame fuel nps ncs last f s = Some (s', l, r) -> nok13 l = true ->
  exists fr' fw', (r <> FCont -> fr' = false) /\
    forall rest, run13 (bst s fuel fr fw []) (l ++ rest) = run13 (bst s' fuel fr' fw' []) rest.
Proof.
  intros I C Fo. unfold run_frame. cbv zeta.
  destruct (do_pokes (f_pokes f) (set_inh false s)) as [s1 lp] eqn:P.
  destruct (do_pokes_post _ _ _ _ P I C) as ((I1&Fw&Fh&_&_&C1&_)&_&Lp).
  specialize (C1 eq_refl). cbn in Fw, Fh.
  set (dt := match last with None => 0 | Some l0 => f_t f - l0 end).
  set (np := np_of nps (s_curh s)).
  set (nc := np_of ncs (s_curh s)).
  set (pb := procs_upto (f_org f) (f_pos f) np).
  set (cb := coros_upto (f_org f) (f_pos f) nc).
  set (w := s_curw s).
  set (head := EClock (f_t f) w (s_curh s) :: procs w dt 0 pb ++ coros w 0 cb).
  set (rest0 := procs w dt pb (np - pb) ++ coros w cb (nc - cb)).
  assert (Hrest : forall s0 n tail,
            run13 (bst s0 n true w []) (rest0 ++ tail) = run13 (bst s0 n true w []) tail).
  { intros s0 n tail. unfold rest0. rewrite <- app_assoc, run13_procs. apply run13_coros. }
  assert (Head : forall tail rest,
    run13 (bst s fuel fr fw []) ((head ++ lp ++ tail) ++ rest)
    = run13 (bst s1 fuel true w []) (tail ++ rest)).
  { intros tail rest. unfold head. cbn [app run13]. unfold step13 at 1.
    cbn [bst b_exp b_st]. unfold w. rewrite !Z.eqb_refl. cbn [andb].
    change {| b_st := set_inh false s; b_fuel := b_fuel (bst s fuel fr fw []); b_inframe := true;
              b_fw := s_curw s; b_exp := [] |} with (bst (set_inh false s) fuel true (s_curw s) []).
    rewrite <- !app_assoc. rewrite run13_procs, run13_coros. apply (pokes13 _ _ _ _ _ _ _ P). }
  (* the entry announcing a scripted action makes the checker compute act13 *)
  assert (St : forall a, step13 (bst s1 fuel true w []) (EAct (f_org f) a (s_curw s1) (s_curh s1))
                         = act13 (bst s1 fuel true w []) a).
  { intros a. unfold step13. cbn [bst b_exp b_inframe b_st].
    unfold frame_origin_ok in Fo. rewrite Fo, !Z.eqb_refl. reflexivity. }
  assert (Fin : forall x a s2 l2 r2,
    x = Some (s2, EAct (f_org f) a (s_curw s1) (s_curh s1) :: l2, r2) ->
    match a with
    | ADirect h cc cn => a_enter (a_react_n fuel) h cc cn None s1
    | _ => a_body (a_react_n fuel) a s1
    end = Some (s2, l2, r2) ->
    (r2 = RNorm -> is_direct a = true) ->
    inv s2 -> tag_ok r2 s2 ->
    from_switch r2 (EAct (f_org f) a (s_curw s1) (s_curh s1) :: l2) (s_curh s2) ->
    prefix (head ++ lp) (after_action fuel x rest0) = Some (s', l, r) ->
    nok13 l = true ->
    exists fr' fw', (r <> FCont -> fr' = false) /\
      forall rest, run13 (bst s fuel fr fw []) (l ++ rest) = run13 (bst s' fuel fr' fw' []) rest).
  { intros x a s2 l2 r2 -> Hs Hn I2 T2 Tg. unfold prefix.
    destruct (after_action fuel _ _) as [[[s3 l3] r3]|] eqn:AA; [|discriminate].
    st_inv. intros N. apply nok13_app in N as [_ N].
    destruct (act_after fuel a _ s1 w rest0 s2 l2 r2 s3 l3 r3 Hrest (St a) Hs Hn I2 T2 Tg N AA)
      as (fr'&Hfr&Run).
    exists fr', w. split; [exact Hfr|]. intros rest.
    rewrite <- (app_assoc head lp l3). rewrite Head. apply Run. }
  assert (Other : f_act f <> ANormal -> is_direct (f_act f) = false ->
    prefix (head ++ lp)
      (after_action fuel (perform (react_n fuel) (f_org f) (f_act f) s1) rest0) = Some (s', l, r) ->
    nok13 l = true ->
    exists fr' fw', (r <> FCont -> fr' = false) /\
      forall rest, run13 (bst s fuel fr fw []) (l ++ rest) = run13 (bst s' fuel fr' fw' []) rest).
  { intros Ha Hd E N.
    destruct (perform (react_n fuel) (f_org f) (f_act f) s1) as [[[s2 l2] r2]|] eqn:Pf;
      [|discriminate].
    pose proof (nok13_prefix_after _ _ _ _ _ _ _ _ _ E N) as N2.
    pose proof (good_perform (react_n fuel) (react_n_good fuel) _ _ _ _ _ _ Pf I1 C1 eq_refl)
      as (I2&_&Fh2&_&_&_&T2).
    pose proof (tagging_perform (react_n fuel) (react_n_good fuel)
                  (fun k a => proj2 (react_n_agree_tag fuel k a)) _ _ _ _ _ _ Pf I1 C1 eq_refl) as Tg.
    unfold perform in Pf.
    apply andthen_inv in Pf as (s0&l0&r0&E0&Pb). injection E0 as <- <- <-.
    destruct Pb as (l2'&Pb&->). cbn [app] in *.
    unfold nok13 in N2. cbn [forallb] in N2. apply andb_prop in N2 as [_ N2'].
    pose proof (agree_body (react_n fuel) (a_react_n fuel) (react_n_good fuel)
                  (fun k a => proj1 (react_n_agree_tag fuel k a)) _ _ _ _ _ Pb I1 C1 N2') as Hb.
    refine (Fin _ (f_act f) s2 l2' r2 eq_refl _ _ I2 T2 _ E N).
    - destruct (f_act f); try discriminate; exact Hb.
    - intros ->. destruct (body_raises _ _ _ _ _ Pb) as [A|A]; congruence.
    - rewrite Fh2. exact Tg. }
  destruct (f_act f) as [| |q|h cc cn ex|h cc cn| |hd ccd cnd] eqn:Ea; cbv beta iota;
    try (apply Other; [discriminate|reflexivity]).
  - (* nothing *)
    st_inv. intros _. exists true, w. split; [congruence|]. intros rest.
    rewrite Head. apply Hrest.
  - (* a direct switch inside the frame *)
    intros E N.
    destruct (direct fuel (f_org f) hd ccd cnd s1) as [[[s2 l2] r2]|] eqn:D; [|discriminate].
    pose proof (nok13_prefix_after _ _ _ _ _ _ _ _ _ E N) as N2.
    unfold direct in D.
    apply andthen_inv in D as (s0&l0&r0&E0&LS). injection E0 as <- <- <-.
    destruct LS as (l2'&LS&->). cbn [app] in *.
    unfold nok13 in N2. cbn [forallb] in N2. apply andb_prop in N2 as [_ N2'].
    destruct (loop_switch_post _ _ _ _ _ _ _ _ LS I1 eq_refl) as (I2&_&_&T2&_).
    pose proof (enter_tagging _ _ _ _ _ _ _ _ LS I1) as Tg.
    pose proof (enter_agree _ _ _ _ None _ _ _ _ LS I1 N2' Logic.I ltac:(congruence)) as En.
    refine (Fin _ (ADirect hd ccd cnd) s2 l2' r2 eq_refl En _ I2 T2 _ E N).
    + intros _. reflexivity.
    + apply (from_switch_app_r r2 [EAct (f_org f) (ADirect hd ccd cnd) (s_curw s1) (s_curh s1)]).
      exact Tg.
Qed.

Lemma run_frame_inv fuel nps ncs last f s s' l r :
  inv s -> cur_ok s -> run_frame fuel nps ncs last f s = Some (s', l, r) -> nok10 l = true ->
  inv s' /\ cur_ok s'.
Proof.
  intros I C. unfold run_frame. cbv zeta.
  destruct (do_pokes (f_pokes f) (set_inh false s)) as [s1 lp] eqn:P.
  destruct (do_pokes_post _ _ _ _ P I C) as ((I1&_&_&_&_&C1&_)&_&_).
  specialize (C1 eq_refl).
  assert (Fin : forall x s2 l2 r2 rest pre,
    x = Some (s2, l2, r2) -> inv s2 -> (is_sw r2 = false -> cur_ok s2) ->
    prefix pre (after_action fuel x rest) = Some (s', l, r) -> inv s' /\ cur_ok s').
  { intros x s2 l2 r2 rest pre -> I2 C2. unfold prefix, after_action.
    destruct r2 as [|[| |h cc cn tag]]; try (st_inv; split; [exact I2|apply C2; reflexivity]).
    destruct (handler (react_n fuel) fuel h cc cn s2) as [[[s3 l3] r3]|] eqn:LS; [|discriminate].
    st_inv. destruct (handler_post _ _ _ _ _ _ _ _ _ LS I2) as (I3&C3&_). auto. }
  assert (Other : forall rest pre,
    prefix pre (after_action fuel (perform (react_n fuel) (f_org f) (f_act f) s1) rest)
    = Some (s', l, r) -> nok10 l = true -> inv s' /\ cur_ok s').
  { intros rest pre E _.
    destruct (perform (react_n fuel) (f_org f) (f_act f) s1) as [[[s2 l2] r2]|] eqn:Pf;
      [|discriminate].
    pose proof (good_perform (react_n fuel) (react_n_good fuel) _ _ _ _ _ _ Pf I1 C1 eq_refl)
      as (I2&_&_&_&_&C2&_).
    exact (Fin _ _ _ _ _ _ eq_refl I2 C2 E). }
  destruct (f_act f) as [| |q|h cc cn ex|h cc cn| |hd ccd cnd] eqn:Ea; cbv beta iota;
    try (apply Other).
  - st_inv. auto.
  - intros E _.
    destruct (direct fuel (f_org f) hd ccd cnd s1) as [[[s2 l2] r2]|] eqn:D; [|discriminate].
    unfold direct in D.
    apply andthen_inv in D as (s0&l0&r0&E0&LS). injection E0 as <- <- <-.
    destruct LS as (l2'&LS&->).
    destruct (loop_switch_post _ _ _ _ _ _ _ _ LS I1 eq_refl) as (I2&C2&_).
    exact (Fin _ _ _ _ _ _ eq_refl I2 C2 E).
Qed.

Lemma frames13 fuel nps ncs ek fs : forall last s s' l r fr fw,
  inv s -> cur_ok s -> forallb frame_origin_ok fs = true ->
  run_frames fuel nps ncs last fs ek s = Some (s', l, r) -> nok13 l = true ->
  inv s' /\ cur_ok s' /\ exists fw',
  forall rest, run13 (bst s fuel fr fw []) (l ++ rest) = run13 (bst s' fuel false fw' []) rest.
Proof.
  induction fs as [|f fs IH]; intros last s s' l r fr fw I C Fo; cbn [run_frames].
  - st_inv. intros _. split; [exact I|]. split; [exact C|]. exists fw. intros rest.
    cbn [app run13]. unfold step13. cbn [bst b_exp b_st]. rewrite !Z.eqb_refl. reflexivity.
  - cbn [forallb] in Fo. apply andb_prop in Fo as [Fo1 Fo2].
    destruct (run_frame fuel nps ncs last f s) as [[[s1 l1] r1]|] eqn:F; [|discriminate].
    assert (Stop : r1 <> FCont -> Some (s1, l1, r1) = Some (s', l, r) -> nok13 l = true ->
              inv s' /\ cur_ok s' /\ exists fw',
              forall rest, run13 (bst s fuel fr fw []) (l ++ rest)
                           = run13 (bst s' fuel false fw' []) rest).
    { intros Hr. st_inv. intros N.
      destruct (run_frame_inv _ _ _ _ _ _ _ _ _ I C F (nok13_10 _ N)) as [I1 C1].
      destruct (frame13 _ _ _ _ _ _ _ _ _ fr fw I C Fo1 F N) as (fr1&fw1&Hfr&Run1).
      split; [exact I1|]. split; [exact C1|]. exists fw1. intros rest.
      rewrite Run1, (Hfr Hr). reflexivity. }
    destruct r1; try (apply Stop; discriminate).
    destruct (run_frames fuel nps ncs (Some (f_t f)) fs ek s1) as [[[s2 l2] r2]|] eqn:FS; [|discriminate].
    st_inv. intros N. apply nok13_app in N as [N1 N2].
    destruct (run_frame_inv _ _ _ _ _ _ _ _ _ I C F (nok13_10 _ N1)) as [I1 C1].
    destruct (frame13 _ _ _ _ _ _ _ _ _ fr fw I C Fo1 F N1) as (fr1&fw1&_&Run1).
    destruct (IH _ _ _ _ _ fr1 fw1 I1 C1 Fo2 FS N2) as (I2&C2&fw2&Run2).
    split; [exact I2|]. split; [exact C2|]. exists fw2. intros rest.
    rewrite <- app_assoc, Run1. apply Run2.
Qed.

(* ---- all operations ------------------------------------------------------- *)
Lemma ops13_ok nps ncs ops : forall last s,
  inv s -> (cur_ok s \/ first_is_top ops = true) ->
  forallb op_ok ops = true ->
  forallb (fun x => nok13 (snd x)) ops = true ->
  run_ops nps ncs last ops s = true ->
  ops13 s ops = true.
Proof.
  induction ops as [|[o obs] ops IH]; intros last s I C W K; cbn [run_ops ops13]; auto.
  destruct (run_op nps ncs last o s) as [[[s1 last1] l]|] eqn:R; [|discriminate].
  intros H. apply andb_prop in H as [H1 H2].
  apply log_eqb_eq in H1. subst obs.
  cbn [forallb] in W, K. apply andb_prop in W as [W1 W2]. apply andb_prop in K as [N K2].
  unfold op_ok in W1. cbn [fst snd] in W1, N.
  destruct o as [h cc cn rs|fs ek rs]; cbn [run_op] in R.
  - destruct (loop_switch _ h cc cn (set_reacts rs s)) as [[[s2 l2] r2]|] eqn:S; [|discriminate].
    injection R as <- <- <-. apply nok13_app in N as [N _].
    destruct (loop_switch_post _ _ _ _ _ _ _ _ S I (nok13_10 _ N)) as (I2&C2&_).
    apply top_escape_sw in W1. specialize (C2 W1).
    assert (En : a_enter (a_react_n (Datatypes.S (length rs))) h cc cn None (set_reacts rs s)
                 = Some (s2, l2, r2)).
    { apply (enter_agree _ _ _ _ None _ _ _ _ S I N); [exact Logic.I|congruence]. }
    unfold op13. rewrite En.
    change {| b_st := set_inh false s2; b_fuel := Datatypes.S (length rs); b_inframe := false;
              b_fw := none; b_exp := l2 ++ [top_entry r2 (s_curw s2) (s_curh s2)] |}
      with (bst (set_inh false s2) (Datatypes.S (length rs)) false none
                (l2 ++ [top_entry r2 (s_curw s2) (s_curh s2)])).
    assert (Et : top_entry r2 (s_curw s2) (s_curh s2) =
                 match r2 with
                 | RNorm => ETopDone (s_curw s2) (s_curh s2)
                 | RExn XQuit => ETopExc TQuit (s_curw s2) (s_curh s2)
                 | RExn XOther => ETopExc TOther (s_curw s2) (s_curh s2)
                 | RExn (XSW _ _ _ _) => ETopExc TSwitch (s_curw s2) (s_curh s2)
                 end) by reflexivity.
    rewrite <- Et. rewrite <- (app_nil_r (l2 ++ [top_entry r2 (s_curw s2) (s_curh s2)])) at 2.
    rewrite run13_expect. cbn [run13 bst b_exp b_st].
    apply (IH last (set_inh false s2)); auto.
  - destruct C as [C|C]; [|discriminate].
    unfold run_start in R.
    destruct (run_frames (Datatypes.S (length rs)) nps ncs last fs ek (set_reacts rs s))
      as [[[s2 l2] r]|] eqn:FS; [|discriminate].
    injection R as <- <- <-. apply nok13_app in N as [N _].
    destruct (frames13 _ _ _ _ _ _ (set_reacts rs s) _ _ _ false none I C W1 FS N) as (I2&C2&fw2&Run2).
    unfold op13.
    change {| b_st := set_reacts rs s; b_fuel := Datatypes.S (length rs); b_inframe := false;
              b_fw := none; b_exp := [] |}
      with (bst (set_reacts rs s) (Datatypes.S (length rs)) false none []).
    rewrite Run2. cbn [run13]. unfold step13. cbn [bst b_exp b_inframe b_st].
    apply (IH None s2); auto.
Qed.

Lemma existsb_false_forallb {A} (p : A -> bool) l :
  existsb p l = false -> forallb (fun x => negb (p x)) l = true.
Proof.
  induction l as [|x l IH]; cbn; auto. intros H. apply orb_false_elim in H as [H1 H2].
  rewrite H1, (IH H2). reflexivity.
Qed.

Theorem accepts_holds13 (c : rcase) :
  wf_b c = true -> known13_b c = false -> accepts c = true -> holds13 c.
Proof.
  unfold wf_b, known13_b, any_entry, accepts, holds13, holds13_b. intros W K5 A.
  apply andb_prop in W as [W _]. apply andb_prop in W as [W Wf]. apply andb_prop in W as [Wn Wt].
  apply andb_prop in Wn as [_ Wn].
  apply (ops13_ok (c_nps c) (c_ncs c) (c_ops c) None init); auto.
  - apply inv_init.
  - (* no K5 entry anywhere *)
    clear - K5. induction (c_ops c) as [|[o l] ops IH]; cbn in *; auto.
    apply orb_false_elim in K5 as [A5 B5]. rewrite (IH B5), andb_true_r.
    unfold nok13. clear - A5. induction l as [|e l IHl]; cbn in *; auto.
    apply orb_false_elim in A5 as [X5 Y5]. rewrite X5, (IHl Y5). reflexivity.
Qed.
