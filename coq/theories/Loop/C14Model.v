(* C14 - SimpleLoop feeds exact time deltas and stops cleanly on Quit.
   The property as a checker over the observed log of every start() call.
   It knows nothing of worlds' queues, handles' caches or how a switch is
   carried out: it reads the clock readings, the process(dt) calls, the
   scripted actions and how start() ended.  No proofs in this file. *)
From Coq Require Import ZArith List Bool Arith.
From Desper Require Import Lib.Alist.
From Desper Require Export Loop.Model.
Import ListNotations.
Open Scope Z_scope.

Inductive m14 :=
| MBetween                          (* an iteration is over (or none has begun): the time
                                       function is called next *)
| MFrame (w h dt : Z) (k : nat)     (* iteration of world w (handle h) with delta dt; its
                                       processors 0..k-1 have been called *)
| MQuitEv (w h : Z)                 (* quit_loop was called: on_quit goes to w first *)
| MEndQuit (w h : Z)                (* Quit was raised while w, h were current: start returns *)
| MEndOther                         (* another exception was raised: it reaches the caller *)
| MDone.

Record s14 := {
  a_prev : option Z;                (* previous reading of the time function in this start *)
  a_mode : m14 }.

(* the time function is called: exact delta against the previous reading of
   this start, 0 if there is none *)
Definition clock14 (prev : option Z) (e : entry) : option s14 :=
  match e with
  | EClock t w h =>
      let dt := match prev with None => 0 | Some p => t - p end in
      Some {| a_prev := Some t; a_mode := MFrame w h dt 0 |}
  | EClockEnd EndQuit w h => Some {| a_prev := prev; a_mode := MEndQuit w h |}
  | EClockEnd EndOther _ _ => Some {| a_prev := prev; a_mode := MEndOther |}
  | _ => None
  end.

Definition step14 (nps : list nat) (s : s14) (e : entry) : option s14 :=
  let prev := a_prev s in
  match a_mode s with
  | MBetween =>
      match e with
      | ELoad _ _ | EEv _ _ => Some s          (* a switch being carried out *)
      | _ => clock14 prev e
      end
  | MFrame w h dt k =>
      match e with
      | EProc w' p d =>                        (* the current world, each processor in turn,
                                                  all with this iteration's delta *)
          if (w' =? w) && Nat.eqb p k && (d =? dt)
          then Some {| a_prev := prev; a_mode := MFrame w h dt (S k) |} else None
      | EPoke _ _ _ | EEv _ _ => Some s        (* the scripts' own event traffic *)
      | EAct _ a =>
          if Nat.ltb 0 k then
            match a with
            | ANormal => None
            | AQuit => Some {| a_prev := prev; a_mode := MEndQuit w h |}
            | AQuitLoop _ => Some {| a_prev := prev; a_mode := MQuitEv w h |}
            | ASwitch _ _ _ _ | ARaiseSW _ _ _ =>       (* the frame is abandoned; the
                                                           clock is NOT reset *)
                Some {| a_prev := prev; a_mode := MBetween |}
            | AOther => Some {| a_prev := prev; a_mode := MEndOther |}
            end
          else None
      | _ =>                                   (* next iteration: only after every processor
                                                  of the world was called *)
          if Nat.eqb k (np_of nps h) then clock14 prev e else None
      end
  | MQuitEv w h =>
      match e with
      | EEv w' VQuit => if w' =? w then Some {| a_prev := prev; a_mode := MEndQuit w h |} else None
      | _ => None
      end
  | MEndQuit w h =>                            (* returns normally, running false, current
                                                  world and handle unchanged *)
      match e with
      | EEnd (Returned false) w' h' =>
          if (w' =? w) && (h' =? h) then Some {| a_prev := prev; a_mode := MDone |} else None
      | _ => None
      end
  | MEndOther =>
      match e with
      | EEnd RaisedOther _ _ => Some {| a_prev := prev; a_mode := MDone |}
      | _ => None
      end
  | MDone => None
  end.

Fixpoint run14 (nps : list nat) (s : s14) (l : list entry) : option s14 :=
  match l with
  | [] => Some s
  | e :: l' => match step14 nps s e with Some s' => run14 nps s' l' | None => None end
  end.

(* every start() begins with no previous reading: its first delta is 0 *)
Definition start14 (nps : list nat) (l : list entry) : bool :=
  match run14 nps {| a_prev := None; a_mode := MBetween |} l with
  | Some s => match a_mode s with MDone => true | _ => false end
  | None => false
  end.

Definition holds14_b (c : lcase) : bool :=
  forallb (fun x => match fst x with OTop _ _ _ => true | OStart _ _ => start14 (c_nps c) (snd x) end)
          (c_ops c).
Definition holds14 (c : lcase) : Prop := holds14_b c = true.

(* no known finding for C14 *)
Definition known14_b (c : lcase) : bool := false.

Definition C14_case := lcase.
Definition C14_verdict (c : C14_case) : nat :=
  (bit (wf_b c) 1 + bit (known14_b c) 2 + bit (accepts c) 4 + bit (holds14_b c) 8)%nat.
