(* C14, second generation - proofs: every log the model of SimpleLoop
   produces (callbacks that act included) passes the checker of R14Model.v,
   *)
From Coq Require Import ZArith List Bool Arith Lia ZifyBool.
From Desper Require Import Lib.Alist Loop.RBus Loop.RModel Loop.RFacts Loop.R14Model.
Import ListNotations.
Open Scope Z_scope.

Section WithNps.
Variable nps ncs : list nat.
Hypothesis Hnps : nps_ok nps.
Hypothesis Hncs : nps_ok ncs.

Lemma run14_app a l1 l2 :
  run14 nps a (l1 ++ l2) =
  match run14 nps a l1 with Some a' => run14 nps a' l2 | None => None end.
Proof.
  revert a. induction l1 as [|e l1 IH]; intros a; cbn [run14 app]; auto.
  destruct (step14 nps a e); auto.
Qed.

Lemma run14_procs n : forall k prev w h dt,
  run14 nps {| a_prev := prev; a_mode := MFrame w h dt k |} (procs w dt k n)
  = Some {| a_prev := prev; a_mode := MFrame w h dt (k + n) |}.
Proof.
  unfold procs. induction n as [|n IH]; intros k prev w h dt; cbn [seq map run14].
  - now rewrite Nat.add_0_r.
  - cbn [step14 a_mode a_prev]. rewrite Z.eqb_refl, Nat.eqb_refl, Z.eqb_refl. cbn [andb].
    rewrite IH. do 3 f_equal. lia.
Qed.

Lemma run14_skip_frame l : forall prev w h dt k,
  forallb is_ev_poke l = true ->
  run14 nps {| a_prev := prev; a_mode := MFrame w h dt k |} l
  = Some {| a_prev := prev; a_mode := MFrame w h dt k |}.
Proof.
  induction l as [|e l IH]; intros prev w h dt k H; cbn [run14]; auto.
  cbn [forallb] in H. apply andb_prop in H as [H1 H2].
  destruct e; try discriminate; cbn [step14 a_mode]; now rewrite IH.
Qed.

Lemma run14_coros n : forall a prev w h dt k,
  n = O \/ k = np_of nps h ->
  run14 nps {| a_prev := prev; a_mode := MFrame w h dt k |} (coros w a n)
  = Some {| a_prev := prev; a_mode := MFrame w h dt k |}.
Proof.
  unfold coros. induction n as [|n IH]; intros a prev w h dt k Hk; [reflexivity|].
  destruct Hk as [Hk|Hk]; [discriminate|]. subst k.
  cbn [seq map run14 step14 a_mode a_prev]. rewrite Nat.eqb_refl, Z.eqb_refl. cbn [andb].
  apply IH. now right.
Qed.

(* ---- what a computation does to the checker ------------------------------ *)
Definition pend_of (r : res) (s : state) (p : pend14) : pend14 :=
  match r with
  | RNorm => p
  | RExn XQuit => PQuit (s_curw s) (s_curh s)
  | RExn XOther => POther
  | RExn (XSW _ _ _ _) => PSwitch
  end.

Definition mp (prev : option Z) (p : pend14) : s14 := {| a_prev := prev; a_mode := MPend p |}.

Definition sim14 (m : M) : Prop := forall s s' l r,
  m s = Some (s', l, r) -> inv s -> cur_ok s -> nok10 l = true ->
  forall prev p, run14 nps (mp prev p) l = Some (mp prev (pend_of r s' p)).

Lemma sim_andthen m k : good m -> sim14 m -> sim14 k -> sim14 (m ;; k).
Proof.
  intros Gm Sm Sk s s' l r H I C N prev p.
  apply andthen_inv in H as (s1&l1&r1&H1&H2). destruct r1 as [|x].
  - destruct H2 as (l2&H2&->). apply nok10_app in N as [N1 N2].
    pose proof (Gm _ _ _ _ H1 I C N1) as (I1&_&_&_&_&C1&_).
    rewrite run14_app, (Sm _ _ _ _ H1 I C N1). cbn [pend_of].
    apply (Sk _ _ _ _ H2 I1 (C1 eq_refl) N2).
  - destruct H2 as (->&->&->). apply (Sm _ _ _ _ H1 I C N).
Qed.

Definition is_ev_load (e : entry) : bool :=
  match e with EEv _ _ | ELoad _ _ => true | _ => false end.

Lemma run14_skip_pend l : forall prev p,
  forallb is_ev_load l = true -> run14 nps (mp prev p) l = Some (mp prev p).
Proof.
  induction l as [|e l IH]; intros prev p H; cbn [run14]; auto.
  cbn [forallb] in H. apply andb_prop in H as [H1 H2].
  destruct e; try discriminate; cbn [step14 a_mode mp]; now apply IH.
Qed.

Lemma sim_emit l : forallb is_ev_load l = true -> sim14 (emit l).
Proof. intros H s s' l' r [= <- <- <-] _ _ _ prev p. now apply run14_skip_pend. Qed.
Lemma sim_ret : sim14 ret.
Proof. intros s s' l' r [= <- <- <-] _ _ _ prev p. reflexivity. Qed.
Lemma sim_upd f : sim14 (upd f).
Proof. intros s s' l' r [= <- <- <-] _ _ _ prev p. reflexivity. Qed.

Section BusSim.
  Variable react : ekind -> action -> M.
  Hypothesis Hgood : forall k a, good (react k a).
  Hypothesis Hsim : forall k a, sim14 (react k a).

  Lemma sim_deliver w e : sim14 (deliver react w e).
  Proof.
    unfold deliver. apply sim_andthen; [apply good_emit|apply sim_emit; reflexivity|].
    intros s s' l r H I C N prev p. destruct (kind_of e) as [k|]; [|eapply sim_ret; eauto].
    destruct (take_reaction k (s_reacts s)) as [[a rest]|]; [|eapply sim_ret; eauto].
    apply (Hsim k a _ _ _ _ H I C N).
  Qed.

  Lemma sim_dispatch w e : sim14 (dispatch react w e).
  Proof.
    intros s s' l r H I C N prev p. unfold dispatch in H.
    destruct (alookup w (s_worlds s)) as [W|] eqn:L.
    - destruct (w_en W) eqn:E; [eapply sim_deliver; eauto|].
      injection H as <- <- <-. reflexivity.
    - injection H as <- <- <-. reflexivity.
  Qed.

  Lemma sim_release w fuel : sim14 (release react w fuel).
  Proof.
    induction fuel as [|x fuel IH]; intros s s' l r H I C N prev p; cbn [release] in H;
      destruct (alookup w (s_worlds s)) as [[[|] [|e rest]]|] eqn:L;
      try (injection H as <- <- <-; reflexivity); try discriminate.
    apply andthen_inv in H as (s1&l1&r1&H1&H2). injection H1 as <- <- <-.
    destruct H2 as (l2&H2&->). cbn [app] in N |- *.
    pose proof (post_pop _ _ _ _ L I C) as (I1&_&_&_&_&C1&_).
    assert (S : sim14 (dispatch react w e ;; release react w fuel)).
    { apply sim_andthen; [apply good_dispatch; exact Hgood|apply sim_dispatch|exact IH]. }
    apply (S _ _ _ _ H2 I1 (C1 eq_refl) N).
  Qed.

  Lemma sim_enable_cur w s s' l r :
    enable react w s = Some (s', l, r) -> inv s -> w = s_curw s ->
    (exists W, alookup w (s_worlds s) = Some W) -> nok10 l = true ->
    forall prev p, run14 nps (mp prev p) l = Some (mp prev (pend_of r s' p)).
  Proof.
    intros H I Ew [W L] N prev p. unfold enable in H. rewrite L in H.
    apply andthen_inv in H as (s1&l1&r1&H1&H2). injection H1 as <- <- <-.
    destruct H2 as (l2&H2&->). cbn [app] in N |- *.
    set (s1 := set_worlds (aset w (true, w_q W) (s_worlds s)) s) in *.
    assert (I1 : inv s1) by (eapply inv_update; eauto).
    assert (C1 : cur_ok s1).
    { unfold cur_ok, s1. cbn. rewrite <- Ew, alookup_aset_eq. eauto. }
    apply (sim_release w (w_q W) _ _ _ _ H2 I1 C1 N).
  Qed.

  (* switch(): from "a SwitchWorld is pending" to the exception it ends with *)
  Lemma sim_switch_fn h cc cn s s' l r :
    switch_fn react h cc cn s = Some (s', l, r) -> inv s -> cur_ok s -> nok10 l = true ->
    forall prev, run14 nps (mp prev PSwitch) l = Some (mp prev (pend_of r s' PSwitch)).
  Proof.
    intros H I C N prev. set (p := PSwitch). unfold switch_fn in H.
    destruct (handle_call h s) as [[s1 to] l1] eqn:H1.
    destruct (handle_call_inv _ _ _ _ _ H1 I) as (I1&C1&[Wto Hto]&Mc&Mw&Fw&Fh&Fi&Fr).
    assert (Cu1 : cur_ok s1).
    { destruct C as [q C]. exists q. rewrite Fw. apply Mw. exact C. }
    assert (L1 : forallb is_ev_load l1 = true).
    { unfold handle_call in H1. destruct (alookup h (s_cache s)); injection H1 as <- <- <-;
        reflexivity. }
    apply andthen_inv in H as (s1'&l1'&r1&E1&H2). injection E1 as <- <- <-.
    destruct H2 as (l2&H2&->). apply nok10_app in N as [_ N].
    rewrite run14_app, (run14_skip_pend l1 prev p L1).
    apply andthen_inv in H2 as (s2&l2'&r2&D2&H3).
    pose proof (sim_dispatch _ _ _ _ _ _ D2 I1 Cu1) as S2.
    destruct r2 as [|x].
    2:{ destruct H3 as (->&->&->). apply S2. exact N. }
    destruct H3 as (l3&H3&->). apply nok10_app in N as [N2 N3].
    rewrite run14_app, (S2 N2). cbn [pend_of].
    apply andthen_inv in H3 as (s3&l3'&r3&E3&H4). injection E3 as <- <- <-.
    destruct H4 as (l4&H4&->).
    apply andthen_inv in H4 as (s4&l4'&r4&E4&H5). injection E4 as <- <- <-.
    destruct H5 as (l5&H5&->).
    apply andthen_inv in H5 as (s5&l5'&r5&D5&H6).
    (* the target is muted: on_switch_in is queued, nothing is logged *)
    pose proof (good_dispatch react Hgood _ _ _ _ _ _ D2 I1 Cu1 N2) as (I2&_&_&_&Mc2&_&_).
    assert (Cto2 : alookup h (s_cache s2) = Some to) by (apply Mc2; exact C1).
    destruct (proj1 I2 _ _ Cto2) as [W2 Eto2].
    set (from := s_curw s) in *.
    assert (L4 : exists q, alookup to (s_worlds (disable to (disable from s2))) = Some (false, q)).
    { rewrite disable_lookup, disable_lookup, Eto2.
      destruct (to =? from); rewrite Z.eqb_refl; eauto. }
    destruct L4 as [q4 L4].
    unfold dispatch in D5. rewrite L4 in D5. cbn [w_en w_q fst snd] in D5.
    injection D5 as <- <- <-. destruct H6 as (l6&H6&->). injection H6 as <- <- <-.
    reflexivity.
  Qed.
End BusSim.

(* performing a non-trivial action from any checker state that allows it *)
Section PerformSim.
  Variable react : ekind -> action -> M.
  Hypothesis Hgood : forall k a, good (react k a).
  Hypothesis Hsim : forall k a, sim14 (react k a).

  Lemma sim_body a s s' l r prev :
    perform_body react a s = Some (s', l, r) -> inv s -> cur_ok s -> nok10 l = true ->
    a <> ANormal -> is_direct a = false ->
    exists st, act14 prev a (s_curw s) (s_curh s) = Some st /\
      r <> RNorm /\ run14 nps st l = Some (mp prev (pend_of r s' PSwitch)).
  Proof.
    intros H I C N Ha Hd.
    destruct a as [| |q|h cc cn ex|h cc cn| |hd ccd cnd]; cbn [perform_body] in H;
      [congruence| | | | | |discriminate].
    - injection H as <- <- <-. eexists. split; [reflexivity|]. split; [discriminate|reflexivity].
    - (* quit_loop: on_quit is delivered to the current world first *)
      eexists. split; [reflexivity|]. unfold quit_fn in H.
      apply andthen_inv in H as (s1&l1&r1&D1&H2).
      destruct C as [qc C]. unfold dispatch in D1. rewrite C in D1. cbn [w_en fst] in D1.
      unfold deliver in D1. apply andthen_inv in D1 as (s0&l0&r0&E0&D1'). injection E0 as <- <- <-.
      destruct D1' as (l1'&D1'&->). cbn [kind_of] in D1'.
      assert (Step : forall rest, run14 nps {| a_prev := prev; a_mode := MQuitEv (s_curw s) (s_curh s) |}
                                    (EEv (s_curw s) VQuit :: l1' ++ rest)
                                  = run14 nps (mp prev (PQuit (s_curw s) (s_curh s))) (l1' ++ rest)).
      { intros rest. cbn [run14 step14 a_mode a_prev]. now rewrite Z.eqb_refl. }
      destruct (take_reaction KQuit (s_reacts s)) as [[a rest]|].
      + assert (C' : cur_ok (set_reacts rest s)) by (exists qc; exact C).
        destruct r1 as [|x].
        * destruct H2 as (l2&H2&->). injection H2 as <- <- <-. apply nok10_app in N as [N1 _].
          cbn [app] in N1.
          pose proof (Hgood _ _ _ _ _ _ D1' I C' N1) as (_&Fw&Fh&_).
          split; [discriminate|]. cbn [app]. rewrite Step. rewrite run14_app.
          rewrite (Hsim _ _ _ _ _ _ D1' I C' N1). cbn [pend_of run14 mp].
          cbn in Fw, Fh. now rewrite Fw, Fh.
        * destruct H2 as (->&->&->). split; [discriminate|].
          cbn [app]. rewrite <- (app_nil_r l1') at 1. rewrite Step, app_nil_r.
          cbn [app] in N.
          rewrite (Hsim _ _ _ _ _ _ D1' I C' N). destruct x; reflexivity.
      + injection D1' as <- <- <-. destruct H2 as (l2&H2&->). injection H2 as <- <- <-.
        split; [discriminate|]. cbn. now rewrite Z.eqb_refl.
    - eexists. split; [reflexivity|].
      pose proof (sim_switch_fn react Hgood Hsim h cc cn _ _ _ _ H I C N prev) as S.
      split; [|exact S].
      (* switch() never returns normally *)
      intros ->. unfold switch_fn in H. destruct (handle_call h s) as [[s1 to] l1].
      repeat (apply andthen_inv in H as (?&?&[|?]&?&H); [destruct H as (?&H&?)|destruct H as (?&?&?); discriminate]).
      discriminate.
    - injection H as <- <- <-. eexists. split; [reflexivity|]. split; [discriminate|reflexivity].
    - injection H as <- <- <-. eexists. split; [reflexivity|]. split; [discriminate|reflexivity].
  Qed.

  Lemma sim_perform_callback k b a : sim14 (perform react (OCallback k b) a).
  Proof.
    intros s s' l r H I C N prev p. unfold perform in H.
    apply andthen_inv in H as (s1&l1&r1&E1&H2). injection E1 as <- <- <-.
    destruct H2 as (l2&H2&->). cbn [app] in N |- *.
    cbn [run14 step14 a_mode a_prev mp is_callback].
    destruct (action_eq_dec a ANormal) as [->|Ha].
    { cbn [perform_body] in H2. injection H2 as <- <- <-. reflexivity. }
    destruct (is_direct a) eqn:Hd.
    { destruct a; try discriminate. cbn [perform_body] in H2. injection H2 as <- <- <-.
      reflexivity. }
    destruct (sim_body a _ _ _ _ prev H2 I C N Ha Hd) as (st&A&Rn&Run).
    replace (act14' (mp prev p) a (s_curw s) (s_curh s))
      with (act14 prev a (s_curw s) (s_curh s)) by (destruct a; try reflexivity; [congruence|discriminate]).
    rewrite A. rewrite Run.
    destruct r; [congruence|reflexivity].
  Qed.
End PerformSim.

Lemma react_n_sim n : forall k a, sim14 (react_n n k a).
Proof.
  induction n as [|n IH]; intros k a s s' l r H; [discriminate|].
  cbn [react_n] in H. revert H.
  apply (sim_perform_callback (react_n n) (react_n_good n) IH).
Qed.

Lemma loop_switch_sim n h cc cn s s' l r :
  loop_switch (react_n n) h cc cn s = Some (s', l, r) -> inv s -> nok10 l = true ->
  forall prev p, run14 nps (mp prev p) l = Some (mp prev (pend_of r s' p)).
Proof.
  intros H I N prev p. unfold loop_switch in H.
  set (s2 := clears h cc cn (set_inh true s)) in *.
  assert (I2 : inv s2) by (apply clears_inv; exact I).
  destruct (handle_call h s2) as [[s3 w] l3] eqn:H3.
  destruct (handle_call_inv _ _ _ _ _ H3 I2) as (I3&C3&[W3 HW3]&_).
  assert (L3 : forallb is_ev_load l3 = true).
  { unfold handle_call in H3. destruct (alookup h (s_cache s2)); injection H3 as <- <- <-;
      reflexivity. }
  rewrite (handle_call_cached h (set_cur w h s3) w C3) in H.
  apply andthen_inv in H as (s5&l5&r5&E5&H5). injection E5 as <- <- <-.
  destruct H5 as (l6&H6&->). apply nok10_app in N as [_ N].
  rewrite app_nil_r. rewrite run14_app, (run14_skip_pend l3 prev p L3).
  apply andthen_inv in H6 as (s6&l6'&r6&E6&H7).
  assert (I4 : inv (set_cur w h s3)) by exact I3.
  assert (Nr : nok10 l6' = true).
  { destruct r6; [destruct H7 as (l7&_&->); apply nok10_app in N; apply N
                 |destruct H7 as (_&->&_); exact N]. }
  pose proof (sim_enable_cur (react_n n) (react_n_good n) (react_n_sim n) w _ _ _ _ E6 I4
                eq_refl (ex_intro _ W3 HW3) Nr prev p) as S.
  destruct r6 as [|x].
  - destruct H7 as (l7&H7&->). injection H7 as <- <- <-. rewrite app_nil_r. exact S.
  - destruct H7 as (->&->&->). exact S.
Qed.

Lemma handler_sim f n : forall h cc cn s s' l r,
  handler (react_n f) n h cc cn s = Some (s', l, r) -> inv s ->
  forall prev, run14 nps (mp prev PSwitch) l = Some (mp prev (pend_of r s' PSwitch)).
Proof.
  induction n as [|n IH]; intros h cc cn s s' l r H I prev; cbn [handler] in H; [discriminate|].
  destruct (loop_switch (react_n f) h cc cn s) as [[[s1 l1] r1]|] eqn:LS; [|discriminate].
  pose proof (loop_switch_sim _ _ _ _ _ _ _ _ LS I eq_refl prev PSwitch) as S1.
  destruct (loop_switch_post _ _ _ _ _ _ _ _ LS I eq_refl) as (I1&_).
  destruct r1 as [|[| |h2 cc2 cn2 t2]]; try (injection H as <- <- <-; exact S1).
  destruct (handler (react_n f) n h2 cc2 cn2 s1) as [[[s2 l2] r2]|] eqn:Hd; [|discriminate].
  injection H as <- <- <-. rewrite run14_app, S1. cbn [pend_of]. apply (IH _ _ _ _ _ _ _ Hd I1).
Qed.

(* ---- iterations ----------------------------------------------------------- *)
Definition ready (m : m14) : Prop :=
  m = MPend PSwitch \/ exists w h dt, m = MFrame w h dt (np_of nps h).

Lemma ready_clock a e :
  ready (a_mode a) -> (match e with EClock _ _ _ | EClockEnd _ _ _ => True | _ => False end) ->
  step14 nps a e = clock14 (a_prev a) e.
Proof.
  intros [R|(w&h&dt&R)] He; unfold step14; rewrite R.
  - destruct e; try contradiction; reflexivity.
  - rewrite Nat.eqb_refl. destruct e; try contradiction; reflexivity.
Qed.

Definition end_mode (r : fres) (s : state) (m : m14) : Prop :=
  match r with
  | FCont => ready m
  | FQuit => m = MPend (PQuit (s_curw s) (s_curh s))
  | FOther => m = MPend POther
  | FSwitch => m = MPend PSwitch
  end.

Lemma end_mode_of_res r s : r <> RNorm -> end_mode (fres_of r) s (MPend (pend_of r s PSwitch)).
Proof. destruct r as [|[| |h cc cn t]]; cbn; auto; congruence. Qed.

(* the release a direct switch performs inside a frame: the checker reads it
   from "in a frame" exactly as it reads it from "an exception is pending",
   unless nothing is raised, in which case it stays in the frame *)
Lemma transfer l : forall prev w h dt k a1 a2,
  run14 nps (mp prev POther) l = Some a1 -> run14 nps (mp prev PSwitch) l = Some a2 ->
  (a1 = mp prev POther /\ a2 = mp prev PSwitch /\
   run14 nps {| a_prev := prev; a_mode := MFrame w h dt (S k) |} l
   = Some {| a_prev := prev; a_mode := MFrame w h dt (S k) |}) \/
  (a1 = a2 /\ run14 nps {| a_prev := prev; a_mode := MFrame w h dt (S k) |} l = Some a1).
Proof.
  induction l as [|e l IH]; intros prev w h dt k a1 a2; cbn [run14].
  - intros [= <-] [= <-]. left. auto.
  - destruct e as [| | | | |o a cw ch|hh ww|ww ev|out ww hh| |]; cbn [step14 mp a_mode a_prev Nat.ltb Nat.leb];
      try discriminate.
    + destruct (is_callback o); [|discriminate].
      destruct a as [| |q|h1 cc cn ex|h1 cc cn| |hd ccd cnd]; cbn [act14' act14 a_prev mp];
        try apply IH;
        intros R1 R2; right; (split; [congruence|exact R1]).
    + apply IH.
    + apply IH.
    + destruct out as [[|]| |]; discriminate.
Qed.

(* how an iteration goes on after the acting processor / coroutine *)
Lemma after14 fuel x w h dt pb cb nc t s2 l2 r2 s' l r :
  x = Some (s2, l2, r2) -> inv s2 -> (is_sw r2 = false -> cur_ok s2) ->
  (forall tail,
     run14 nps {| a_prev := Some t; a_mode := MFrame w h dt pb |} (l2 ++ tail)
     = run14 nps {| a_prev := Some t;
                    a_mode := match r2 with
                              | RNorm => MFrame w h dt pb
                              | _ => MPend (pend_of r2 s2 PSwitch)
                              end |} tail) ->
  (pb <= np_of nps h)%nat ->
  after_action fuel x (procs w dt pb (np_of nps h - pb) ++ coros w cb (nc - cb)) = Some (s', l, r) ->
  inv s' /\ cur_ok s' /\
  exists a', run14 nps {| a_prev := Some t; a_mode := MFrame w h dt pb |} l = Some a' /\
             a_prev a' = Some t /\ end_mode r s' (a_mode a').
Proof.
  intros -> I2 C2 Run Hpb. unfold after_action.
  destruct r2 as [|[| |h2 cc2 cn2 t2]].
  - st_inv. split; [exact I2|]. split; [exact (C2 eq_refl)|].
    rewrite Run, run14_app, run14_procs.
    replace (pb + (np_of nps h - pb))%nat with (np_of nps h) by lia.
    rewrite run14_coros by (right; reflexivity).
    eexists. split; [reflexivity|]. split; [reflexivity|].
    right. exists w, h, dt. reflexivity.
  - st_inv. split; [exact I2|]. split; [exact (C2 eq_refl)|].
    rewrite <- (app_nil_r l2), Run. cbn [run14]. eexists. split; [reflexivity|].
    split; reflexivity.
  - st_inv. split; [exact I2|]. split; [exact (C2 eq_refl)|].
    rewrite <- (app_nil_r l2), Run. cbn [run14]. eexists. split; [reflexivity|].
    split; reflexivity.
  - destruct (handler (react_n fuel) fuel h2 cc2 cn2 s2) as [[[s3 l3] r3]|] eqn:LS; [|discriminate].
    st_inv. destruct (handler_post _ _ _ _ _ _ _ _ _ LS I2) as (I3&C3&Ns3).
    split; [exact I3|]. split; [exact C3|]. rewrite Run. cbn [pend_of].
    change {| a_prev := Some t; a_mode := MPend PSwitch |} with (mp (Some t) PSwitch).
    rewrite (handler_sim _ _ _ _ _ _ _ _ _ LS I2 (Some t)).
    eexists. split; [reflexivity|]. split; [reflexivity|]. cbn [a_mode mp].
    destruct r3 as [|x3]; [left; reflexivity|]. apply end_mode_of_res. discriminate.
Qed.

Lemma frame14 fuel last f s s' l r a :
  ready (a_mode a) -> a_prev a = last -> inv s -> cur_ok s ->
  frame_origin_ok f = true ->
  run_frame fuel nps ncs last f s = Some (s', l, r) -> nok10 l = true ->
  inv s' /\ cur_ok s' /\
  exists a', run14 nps a l = Some a' /\ a_prev a' = Some (f_t f) /\ end_mode r s' (a_mode a').
Proof.
  intros Rd Hp I C Fo. unfold run_frame. cbv zeta.
  destruct (do_pokes (f_pokes f) (set_inh false s)) as [s1 lp] eqn:P.
  destruct (do_pokes_post _ _ _ _ P I C) as ((I1&Fw&Fh&_&_&C1&_)&_&Lp).
  specialize (C1 eq_refl). cbn in Fw, Fh.
  set (dt := match last with None => 0 | Some l0 => f_t f - l0 end).
  set (np := np_of nps (s_curh s)).
  set (nc := np_of ncs (s_curh s)).
  assert (Hnp : (1 <= np)%nat) by (apply np_of_pos; exact Hnps).
  assert (Hnc : (1 <= nc)%nat) by (apply np_of_pos; exact Hncs).
  destruct (procs_upto_bounds (f_org f) (f_pos f) np Hnp) as (pos&Epb&Hpos).
  destruct (coros_upto_bounds (f_org f) (f_pos f) nc np Hnc) as (Hcb&Hcb2).
  rewrite Epb in *.
  set (cb := coros_upto (f_org f) (f_pos f) nc) in *.
  set (head := EClock (f_t f) (s_curw s) (s_curh s)
               :: procs (s_curw s) dt 0 (S pos) ++ coros (s_curw s) 0 cb).
  set (fm := {| a_prev := Some (f_t f); a_mode := MFrame (s_curw s) (s_curh s) dt (S pos) |}).
  assert (Head : forall rest, run14 nps a (head ++ lp ++ rest) = run14 nps fm rest).
  { intros rest. unfold head. cbn [app run14].
    rewrite (ready_clock a (EClock (f_t f) (s_curw s) (s_curh s)) Rd Logic.I).
    cbn [clock14]. rewrite Hp. fold dt.
    rewrite <- app_assoc, run14_app, run14_procs. cbn [Nat.add].
    rewrite run14_app, run14_coros by (destruct Hcb2; [left|right]; auto).
    rewrite run14_app, (run14_skip_frame lp _ _ _ _ _ Lp). reflexivity. }
  (* both kinds of acting processor end in after_action *)
  assert (Fin : forall x s2 l2 r2,
    x = Some (s2, l2, r2) -> inv s2 -> (is_sw r2 = false -> cur_ok s2) ->
    (forall tail, run14 nps fm (l2 ++ tail)
       = run14 nps {| a_prev := Some (f_t f);
                      a_mode := match r2 with
                                | RNorm => MFrame (s_curw s) (s_curh s) dt (S pos)
                                | _ => MPend (pend_of r2 s2 PSwitch)
                                end |} tail) ->
    prefix (head ++ lp)
           (after_action fuel x (procs (s_curw s) dt (S pos) (np - S pos)
                                 ++ coros (s_curw s) cb (nc - cb))) = Some (s', l, r) ->
    inv s' /\ cur_ok s' /\
    exists a', run14 nps a l = Some a' /\ a_prev a' = Some (f_t f) /\ end_mode r s' (a_mode a')).
  { intros x s2 l2 r2 Ex I2 C2 Run. unfold prefix.
    destruct (after_action fuel x _) as [[[s3 l3] r3]|] eqn:AA; [|discriminate].
    st_inv.
    destruct (after14 fuel x (s_curw s) (s_curh s) dt (S pos) cb nc (f_t f) s2 l2 r2 s3 l3 r3
                Ex I2 C2 Run Hpos AA)
      as (I3&C3&a'&R'&P'&M').
    split; [exact I3|]. split; [exact C3|]. exists a'. rewrite <- app_assoc, Head. auto. }
  assert (StepAct : forall a0 st rest,
    a0 <> ANormal -> act14' fm a0 (s_curw s) (s_curh s) = Some st ->
    run14 nps fm (EAct (f_org f) a0 (s_curw s1) (s_curh s1) :: rest) = run14 nps st rest).
  { intros a0 st rest Hn A. cbn [run14 step14 a_mode a_prev fm Nat.ltb Nat.leb].
    unfold frame_origin_ok in Fo. apply negb_true_iff in Fo. rewrite Fo, Fw, Fh, !Z.eqb_refl.
    cbn [andb]. fold fm. replace (match a0 with ANormal => None | _ => act14' fm a0 (s_curw s) (s_curh s) end)
      with (act14' fm a0 (s_curw s) (s_curh s)) by (destruct a0; congruence).
    now rewrite A. }
  assert (Other : f_act f <> ANormal -> is_direct (f_act f) = false ->
    prefix (head ++ lp)
      (after_action fuel (perform (react_n fuel) (f_org f) (f_act f) s1)
                    (procs (s_curw s) dt (S pos) (np - S pos)
                     ++ coros (s_curw s) cb (nc - cb))) = Some (s', l, r) ->
    nok10 l = true ->
    inv s' /\ cur_ok s' /\
    exists a', run14 nps a l = Some a' /\ a_prev a' = Some (f_t f) /\ end_mode r s' (a_mode a')).
  { intros Ha Hd E _.
    destruct (perform (react_n fuel) (f_org f) (f_act f) s1) as [[[s2 l2] r2]|] eqn:Pf;
      [|discriminate].
    pose proof (good_perform (react_n fuel) (react_n_good fuel) _ _ _ _ _ _ Pf I1 C1 eq_refl)
      as (I2&Fw2&Fh2&_&_&C2&_).
    unfold perform in Pf.
    apply andthen_inv in Pf as (s0&l0&r0&E0&Pb). injection E0 as <- <- <-.
    destruct Pb as (l2'&Pb&->).
    destruct (sim_body (react_n fuel) (react_n_good fuel) (react_n_sim fuel) _ _ _ _ _
                (Some (f_t f)) Pb I1 C1 eq_refl Ha Hd) as (st&A&Rn&Run).
    refine (Fin _ _ _ _ eq_refl I2 C2 _ E).
    intros tail. cbn [app]. rewrite (StepAct (f_act f) st); [|exact Ha|].
    - rewrite run14_app, Run. destruct r2; [congruence|reflexivity].
    - rewrite <- Fw, <- Fh. destruct (f_act f); try congruence; try discriminate; exact A. }
  destruct (f_act f) as [| |q|h cc cn ex|h cc cn| |hd ccd cnd] eqn:Ea; cbv beta iota;
    try (apply Other; [discriminate|reflexivity]).
  - (* nothing *)
    st_inv. intros _. split; [exact I1|]. split; [exact C1|].
    rewrite Head. unfold fm. rewrite run14_app, run14_procs.
    replace (S pos + (np - S pos))%nat with np by lia.
    rewrite run14_coros by (right; reflexivity).
    eexists. split; [reflexivity|].
    split; [reflexivity|]. right. exists (s_curw s), (s_curh s), dt. reflexivity.
  - (* a direct switch inside the frame *)
    intros E _.
    destruct (direct fuel (f_org f) hd ccd cnd s1) as [[[s2 l2] r2]|] eqn:D; [|discriminate].
    unfold direct in D.
    apply andthen_inv in D as (s0&l0&r0&E0&LS). injection E0 as <- <- <-.
    destruct LS as (l2'&LS&->).
    destruct (loop_switch_post _ _ _ _ _ _ _ _ LS I1 eq_refl) as (I2&C2&_).
    refine (Fin _ _ _ _ eq_refl I2 C2 _ E).
    intros tail. cbn [app]. rewrite (StepAct (ADirect hd ccd cnd) fm); [|discriminate|reflexivity].
    rewrite run14_app.
    pose proof (loop_switch_sim _ _ _ _ _ _ _ _ LS I1 eq_refl (Some (f_t f)) POther) as R1.
    pose proof (loop_switch_sim _ _ _ _ _ _ _ _ LS I1 eq_refl (Some (f_t f)) PSwitch) as R2.
    destruct (transfer l2' (Some (f_t f)) (s_curw s) (s_curh s) dt pos _ _ R1 R2)
      as [(A1&A2&Rf)|(A12&Rf)]; fold fm in Rf; rewrite Rf.
    + destruct r2 as [|[| |h2 cc2 cn2 t2]]; try reflexivity; cbn [pend_of] in A1, A2; discriminate.
    + destruct r2 as [|[| |h2 cc2 cn2 t2]]; cbn [pend_of] in A12 |- *;
        try discriminate; reflexivity.
Qed.

Lemma frames14 fuel ek fs : forall last s s' l r a,
  ready (a_mode a) -> a_prev a = last -> inv s -> cur_ok s ->
  forallb frame_origin_ok fs = true ->
  run_frames fuel nps ncs last fs ek s = Some (s', l, r) -> nok10 l = true ->
  inv s' /\ cur_ok s' /\
  exists a', run14 nps a l = Some a' /\ r <> FCont /\ end_mode r s' (a_mode a').
Proof.
  induction fs as [|f fs IH]; intros last s s' l r a Rd Hp I C Fo; cbn [run_frames].
  - intros [= <- <- <-] _. split; [exact I|]. split; [exact C|]. cbn [run14].
    rewrite (ready_clock a (EClockEnd ek (s_curw s) (s_curh s)) Rd Logic.I).
    destruct ek; cbn; eexists; (split; [reflexivity|]); split; try discriminate; reflexivity.
  - cbn [forallb] in Fo. apply andb_prop in Fo as [Fo1 Fo2].
    destruct (run_frame fuel nps ncs last f s) as [[[s1 l1] r1]|] eqn:F; [|discriminate].
    assert (Stop : r1 <> FCont -> Some (s1, l1, r1) = Some (s', l, r) -> nok10 l = true ->
              inv s' /\ cur_ok s' /\
              exists a', run14 nps a l = Some a' /\ r <> FCont /\ end_mode r s' (a_mode a')).
    { intros Hr [= <- <- <-] N.
      destruct (frame14 _ _ _ _ _ _ _ _ Rd Hp I C Fo1 F N) as (I1&C1&a1&R1&_&M1).
      split; [exact I1|]. split; [exact C1|]. exists a1. auto. }
    destruct r1; try (apply Stop; discriminate).
    destruct (run_frames fuel nps ncs (Some (f_t f)) fs ek s1) as [[[s2 l2] r2]|] eqn:FS; [|discriminate].
    intros [= <- <- <-] N. apply nok10_app in N as [N1 N2].
    destruct (frame14 _ _ _ _ _ _ _ _ Rd Hp I C Fo1 F N1) as (I1&C1&a1&R1&P1&M1).
    destruct (IH _ _ _ _ _ a1 M1 P1 I1 C1 Fo2 FS N2) as (I2&C2&a2&R2&Hr2&M2).
    split; [exact I2|]. split; [exact C2|]. exists a2. rewrite run14_app, R1. auto.
Qed.

Lemma start14_ok fs ek rs s s' last' l :
  inv s -> cur_ok s -> forallb frame_origin_ok fs = true ->
  run_start nps ncs None fs ek rs s = Some (s', last', l) -> nok10 l = true ->
  start14 nps l = true /\ last' = None /\ inv s' /\ cur_ok s'.
Proof.
  intros I C Fo. unfold run_start.
  destruct (run_frames (S (length rs)) nps ncs None fs ek (set_reacts rs s)) as [[[s1 l1] r]|] eqn:FS;
    [|discriminate].
  intros [= <- <- <-] N. apply nok10_app in N as [N _].
  assert (Rd : ready (a_mode (mp None PSwitch))) by (left; reflexivity).
  destruct (frames14 _ ek fs None (set_reacts rs s) _ _ _ _ Rd eq_refl I C Fo FS N)
    as (I1&C1&a1&R1&Hr&M1).
  split; [|split; [reflexivity|split; assumption]].
  unfold start14. change {| a_prev := None; a_mode := MPend PSwitch |} with (mp None PSwitch).
  rewrite run14_app, R1. cbn [run14]. unfold step14.
  destruct r; cbn [end_mode] in M1; [congruence| | |]; rewrite M1; cbn;
    rewrite ?Z.eqb_refl; reflexivity.
Qed.

End WithNps.

(* ---- all operations of a case -------------------------------------------- *)
Lemma ops14 nps ncs (Hnps : nps_ok nps) (Hncs : nps_ok ncs) ops : forall s,
  inv s -> (cur_ok s \/ first_is_top ops = true) ->
  forallb op_ok ops = true ->
  run_ops nps ncs None ops s = true ->
  forallb (fun x => match fst x with
                    | OTop _ _ _ _ => true
                    | OStart _ _ _ => start14 nps (snd x)
                    end) ops = true.
Proof.
  induction ops as [|[o obs] ops IH]; intros s I C W; cbn [run_ops forallb]; auto.
  destruct (run_op nps ncs None o s) as [[[s1 last1] l]|] eqn:R; [|discriminate].
  intros H. apply andb_prop in H as [H1 H2].
  apply log_eqb_eq in H1. subst obs. cbn [fst snd].
  cbn [forallb] in W. apply andb_prop in W as [W1 W2]. unfold op_ok in W1. cbn [fst snd] in W1.
  assert (N : nok10 l = true) by reflexivity.
  destruct o as [h cc cn rs|fs ek rs]; cbn [run_op] in R.
  - destruct (loop_switch _ h cc cn (set_reacts rs s)) as [[[s2 l2] r2]|] eqn:S; [|discriminate].
    injection R as <- <- <-. apply nok10_app in N as [N _].
    destruct (loop_switch_post _ _ _ _ _ _ _ _ S I N) as (I2&C2&_).
    apply top_escape_sw in W1. specialize (C2 W1).
    cbn [andb]. apply (IH (set_inh false s2)); auto.
  - destruct C as [C|C]; [|discriminate].
    destruct (start14_ok nps ncs Hnps Hncs _ _ _ _ _ _ _ I C W1 R N) as (A&->&I1&C1).
    rewrite A. cbn [andb]. apply (IH s1); auto.
Qed.

Theorem accepts_holds14 (c : rcase) :
  wf_b c = true -> known14_b c = false -> accepts c = true -> holds14 c.
Proof.
  unfold wf_b, known14_b, any_entry, accepts, holds14, holds14_b. intros W K A.
  apply andb_prop in W as [W _]. apply andb_prop in W as [W Wf]. apply andb_prop in W as [Wn Wt].
  apply andb_prop in Wn as [Wc Wn]. apply andb_prop in Wc as [_ Wc].
  apply (ops14 (c_nps c) (c_ncs c) Wn Wc (c_ops c) init); auto.
  apply inv_init.
Qed.

(* ---- reading of the checker on raw logs: the deltas telescope ------------- *)
Definition d0 (e : entry) : Z := match e with EProc _ O d => d | _ => 0 end.
Fixpoint sum_dt0 (l : list entry) : Z :=
  match l with [] => 0 | e :: l' => d0 e + sum_dt0 l' end.
Fixpoint readings (l : list entry) : list Z :=
  match l with
  | [] => []
  | EClock t _ _ :: l' => t :: readings l'
  | _ :: l' => readings l'
  end.

Definition prevval (a : s14) : Z := match a_prev a with Some p => p | None => 0 end.
Definition pend (a : s14) : Z := match a_mode a with MFrame _ _ dt O => dt | _ => 0 end.
Definition phi (a : s14) : Z := prevval a - pend a.

Lemma clock14_phi prev e a' m :
  clock14 prev e = Some a' -> (match m with MFrame _ _ _ O => False | _ => True end) ->
  a_prev a' = match e with EClock t _ _ => Some t | _ => prev end /\
  match e with
  | EClock t _ _ => phi a' = match prev with Some p => p | None => t end
  | _ => phi a' = phi {| a_prev := prev; a_mode := m |} + d0 e
  end.
Proof.
  intros H Hm. unfold phi, prevval, pend. destruct e as [t w h|k w h| | | | | | | | |]; try discriminate.
  - injection H as <-. cbn. destruct prev; split; auto; lia.
  - destruct k; injection H as <-; cbn; split; auto;
      destruct m as [w0 h0 dt0 [|k0]| | |]; try contradiction; lia.
Qed.

Lemma step14_phi nps a e a' :
  nps_ok nps -> step14 nps a e = Some a' ->
  a_prev a' = match e with EClock t _ _ => Some t | _ => a_prev a end /\
  match e with
  | EClock t _ _ => pend a = 0 /\ phi a' = match a_prev a with Some p => p | None => t end
  | _ => phi a' = phi a + d0 e
  end.
Proof.
  intros Hn. unfold step14.
  destruct a as [prev m]. cbn [a_prev a_mode].
  destruct m as [w h dt k|p|w h|].
  - assert (K : forall x : option s14, (if Nat.eqb k (np_of nps h) then x else None) = Some a' ->
                x = Some a' /\ exists k', k = S k').
    { intros x. destruct (Nat.eqb k (np_of nps h)) eqn:K; [|discriminate].
      apply Nat.eqb_eq in K. pose proof (np_of_pos nps h Hn). intros ->. split; auto.
      destruct k; [lia|eauto]. }
    destruct e as [t w0 h0|k0 w0 h0|w0 p d|wc cc0| |o a0 w0 h0| | | | |].
    + intros H. apply K in H as [H [k' ->]].
      destruct (clock14_phi _ _ _ (MFrame w h dt (S k')) H Logic.I) as [A B].
      split; [exact A|]. split; [reflexivity|exact B].
    + intros H. apply K in H as [H [k' ->]].
      apply (clock14_phi _ _ _ (MFrame w h dt (S k')) H Logic.I).
    + destruct ((w0 =? w) && Nat.eqb p k && (d =? dt)) eqn:Q; [|discriminate].
      apply andb_prop in Q as [Q Q3]. apply andb_prop in Q as [Q1 Q2].
      apply Nat.eqb_eq in Q2. subst k. intros [= <-]. unfold phi, prevval, pend. cbn.
      split; auto. destruct p; cbn; lia.
    + destruct (Nat.eqb k (np_of nps h) && (wc =? w)) eqn:Q; [|discriminate].
      intros [= <-]. split; auto. unfold phi. cbn. lia.
    + intros [= <-]. split; auto. unfold phi. cbn. lia.
    + destruct k; [discriminate|]. cbn [Nat.ltb Nat.leb].
      assert (A' : forall w1 h1, act14' {| a_prev := prev; a_mode := MFrame w h dt (S k) |} a0 w1 h1
                                 = Some a' ->
                   a_prev a' = prev /\ phi a' = phi {| a_prev := prev; a_mode := MFrame w h dt (S k) |} + 0).
      { intros w1 h1. unfold act14', act14. cbn [a_prev].
        destruct a0; try discriminate; intros [= <-]; unfold phi, prevval, pend; cbn;
          split; auto; lia. }
      destruct (is_callback o); [apply A'|].
      destruct ((w0 =? w) && (h0 =? h)); [|discriminate].
      destruct a0; try discriminate; apply A'.
    + intros [= <-]. split; auto. unfold phi. cbn. lia.
    + intros [= <-]. split; auto. unfold phi. cbn. lia.
    + intros H. apply K in H as [H _]. discriminate.
    + intros H. apply K in H as [H _]. discriminate.
    + intros H. apply K in H as [H _]. discriminate.
  - destruct e as [t w0 h0|k0 w0 h0| | | |o a0 w0 h0| | |out w0 h0| |]; try discriminate.
    + destruct p; try discriminate. intros H.
      destruct (clock14_phi _ _ _ (MPend PSwitch) H Logic.I) as [A B].
      split; [exact A|]. split; [reflexivity|exact B].
    + destruct p; try discriminate. intros H.
      apply (clock14_phi _ _ _ (MPend PSwitch) H Logic.I).
    + destruct (is_callback o); [|discriminate]. unfold act14', act14. cbn [a_prev].
      destruct a0; try discriminate; intros [= <-]; unfold phi, prevval, pend; cbn; split; auto; lia.
    + intros [= <-]. split; auto. unfold phi. cbn. lia.
    + intros [= <-]. split; auto. unfold phi. cbn. lia.
    + destruct p as [w1 h1| |]; destruct out as [[|]| |]; try discriminate.
      * destruct ((w0 =? w1) && (h0 =? h1)); [|discriminate]. intros [= <-].
        unfold phi, prevval, pend; cbn; split; auto; lia.
      * intros [= <-]. unfold phi, prevval, pend; cbn; split; auto; lia.
      * intros [= <-]. unfold phi, prevval, pend; cbn; split; auto; lia.
  - destruct e as [| | | | | | |w0 e| | |]; try discriminate. destruct e; try discriminate.
    destruct (w0 =? w); [|discriminate]. intros [= <-].
    unfold phi, prevval, pend; cbn; split; auto; lia.
  - discriminate.
Qed.

Definition base (a : s14) (l : list entry) : Z :=
  match a_prev a with
  | Some _ => 0
  | None => match readings l with t :: _ => t | [] => 0 end
  end.

Lemma run14_phi nps (Hn : nps_ok nps) l : forall a a',
  run14 nps a l = Some a' ->
  phi a' = phi a + sum_dt0 l + base a l /\
  a_prev a' = match rev (readings l) with t :: _ => Some t | [] => a_prev a end.
Proof.
  induction l as [|e l IH]; intros a a'; cbn [run14].
  - intros [= <-]. unfold base. cbn. destruct (a_prev a); split; auto; lia.
  - destruct (step14 nps a e) as [a1|] eqn:S; [|discriminate]. intros R.
    destruct (IH _ _ R) as [IH1 IH2]. destruct (step14_phi _ _ _ _ Hn S) as [P1 P2].
    cbn [sum_dt0]. unfold base in *.
    assert (Rd : forall t w h, e = EClock t w h ->
              a_prev a' = match rev (readings l) ++ [t] with t' :: _ => Some t' | [] => a_prev a end).
    { intros t w h ->. rewrite IH2, P1. destruct (rev (readings l)); reflexivity. }
    destruct e as [t w h| | | | | | | | | |]; cbn [readings rev d0] in *;
      try (rewrite P1 in *; split; [lia|exact IH2]).
    destruct P2 as [P2 P3]. rewrite P1 in IH1. split; [|eapply Rd; eauto].
    unfold phi in *. unfold prevval in *. destruct (a_prev a); lia.
Qed.

Lemma start14_telescopes nps l :
  nps_ok nps -> start14 nps l = true ->
  sum_dt0 l = match readings l with [] => 0 | t0 :: rs => last rs t0 - t0 end.
Proof.
  intros Hn. unfold start14.
  destruct (run14 nps {| a_prev := None; a_mode := MPend PSwitch |} l) as [a'|] eqn:R; [|discriminate].
  destruct (a_mode a') eqn:M; try discriminate. intros _.
  destruct (run14_phi nps Hn l _ _ R) as [P1 P2].
  unfold phi, prevval, pend, base in P1. rewrite M in P1. cbn in P1, P2.
  destruct (readings l) as [|t0 rs] eqn:E.
  - cbn in P2. rewrite P2 in P1. lia.
  - assert (L : a_prev a' = Some (last rs t0)).
    { rewrite P2. clear. destruct rs as [|x rs] using rev_ind; [reflexivity|].
      cbn [rev]. rewrite rev_app_distr. cbn [rev app]. now rewrite last_last. }
    rewrite L in P1. lia.
Qed.
