(* Loop family (C13, C14) - the executable model of desper/loop.py:
   switch(), quit_loop(), Loop.start / Loop.switch, SimpleLoop.start / loop /
   switch, together with what they use of Handle.__call__ / clear
   (desper/model/tree.py), WorldHandle.load (desper/model/world.py: the world
   is created with dispatching disabled and on_world_load is queued) and the
   queue / enable semantics of EventDispatcher (desper/events.py).

   A case is a list of operations performed by the harness on ONE SimpleLoop
   object, each with the log the real code produced while it ran:
     OTop h cc cn    loop.switch(h, cc, cn) called from outside the loop
     OStart fs ek    loop.start(); iteration i reads f_t of frame i from the
                     scripted clock and the scripted processors then perform
                     frame i's script; when the frames are exhausted the time
                     function raises Quit (EndQuit) or another exception.
   World instances are serial numbers in load order (1, 2, ...), handles are
   numbers, time is in eighths of a unit, "None" is -1.

   The model is a deterministic function from the operations to the log; the
   acceptor compares its log with the observed one, entry by entry.
   Models only: no proofs in this file. *)
From Coq Require Import ZArith List Bool Arith.
From Desper Require Import Lib.Alist.
Import ListNotations.
Open Scope Z_scope.

(* ---- scripts (inputs) --------------------------------------------------- *)
(* who performs the action of a frame: a processor itself, the callback of an
   event the processor dispatches on its own world, or a coroutine of the
   world (CoroutineProcessor runs after the scripted processors) *)
Inductive origin := OProc | OEvent | OCoro.
(* quit_loop() [desper.default_loop.current_world] or quit_loop(current world) *)
Inductive qtarget := QDefault | QCurrent.

Inductive action :=
| ANormal                                        (* the frame runs to its end *)
| AQuit                                          (* raise Quit() *)
| AQuitLoop (q : qtarget)                        (* desper.quit_loop(...) *)
| ASwitch (h : Z) (cc cn : bool) (explicit_from : bool)
                                                 (* desper.switch(h, cc, cn[, from_world=current]) *)
| ARaiseSW (h : Z) (cc cn : bool)                (* raise SwitchWorld(h, cc, cn): no switch() call *)
| AOther.                                        (* raise some other exception *)

Record frame := {
  f_t : Z;                       (* what the time function returns in this iteration *)
  f_pokes : list (Z * Z);        (* (handle k, token): before acting, the processor sends
                                    event poke(token) to the world handle k holds, if any *)
  f_pos : nat;                   (* which processor of the current world acts (mod their number) *)
  f_org : origin;
  f_act : action }.

Inductive endkind := EndQuit | EndOther.

Inductive op :=
| OTop (h : Z) (cc cn : bool)
| OStart (fs : list frame) (ek : endkind).

(* ---- observations ------------------------------------------------------- *)
Inductive event :=
| VLoad (h w : Z)        (* on_world_load(handle, world) *)
| VOut (f t : Z)         (* on_switch_out(from, to) *)
| VIn (f t : Z)          (* on_switch_in(from, to) *)
| VQuit                  (* on_quit() *)
| VPoke (tok : Z).       (* poke(token), sent by the harness' processors *)

Inductive outcome :=
| Returned (running : bool)   (* start() returned; loop.running afterwards *)
| RaisedOther                 (* the scripted "other" exception reached the caller *)
| RaisedSwitch.               (* a SwitchWorld reached the caller *)

Inductive entry :=
| EClock (t w h : Z)              (* the time function returned t; loop.current_world /
                                     current_world_handle at that moment *)
| EClockEnd (k : endkind) (w h : Z)   (* the time function raised (script exhausted) *)
| EProc (w : Z) (p : nat) (dt : Z)    (* processor p of world w: process(dt), dt in eighths *)
| EPoke (k tok w : Z)             (* poke(tok) sent to world w, the instance handle k holds *)
| EAct (o : origin) (a : action)  (* the script is about to perform a (never ANormal) *)
| ELoad (h w : Z)                 (* load() of handle h runs and creates world w *)
| EEv (w : Z) (e : event)         (* the listener of world w receives e *)
| EEnd (out : outcome) (w h : Z)  (* how start() ended; current world / handle afterwards *)
| ETopDone (w h : Z).             (* loop.switch returned; current world / handle *)

Record lcase := {
  c_nps : list nat;                       (* number of scripted processors of handle 0,1,... *)
  c_ops : list (op * list entry) }.       (* operation, observed log *)

(* ---- decidable equality of entries (used only to compare logs) ---------- *)
Definition origin_eq_dec (a b : origin) : {a = b} + {a <> b}.
Proof. decide equality. Defined.
Definition qtarget_eq_dec (a b : qtarget) : {a = b} + {a <> b}.
Proof. decide equality. Defined.
Definition action_eq_dec (a b : action) : {a = b} + {a <> b}.
Proof. decide equality; try apply Bool.bool_dec; try apply Z.eq_dec; apply qtarget_eq_dec. Defined.
Definition event_eq_dec (a b : event) : {a = b} + {a <> b}.
Proof. decide equality; apply Z.eq_dec. Defined.
Definition endkind_eq_dec (a b : endkind) : {a = b} + {a <> b}.
Proof. decide equality. Defined.
Definition outcome_eq_dec (a b : outcome) : {a = b} + {a <> b}.
Proof. decide equality; apply Bool.bool_dec. Defined.
Definition entry_eq_dec (a b : entry) : {a = b} + {a <> b}.
Proof.
  decide equality; try apply Z.eq_dec; try apply Nat.eq_dec;
    try apply endkind_eq_dec; try apply action_eq_dec; try apply origin_eq_dec;
    try apply event_eq_dec; try apply outcome_eq_dec.
Defined.
Definition entry_eqb (a b : entry) : bool := if entry_eq_dec a b then true else false.
Fixpoint log_eqb (l1 l2 : list entry) : bool :=
  match l1, l2 with
  | [], [] => true
  | x :: l1, y :: l2 => entry_eqb x y && log_eqb l1 l2
  | _, _ => false
  end.

(* ---- model state -------------------------------------------------------- *)
Definition none : Z := -1.

(* EventDispatcher part of a World: (_dispatch_enabled, _event_queue) *)
Definition world := (bool * list event)%type.
Definition w_en (W : world) : bool := fst W.
Definition w_q (W : world) : list event := snd W.

Record state := {
  s_worlds : list (Z * world);   (* every world instance created so far *)
  s_cache : list (Z * Z);        (* handle -> _cache, present iff _cached *)
  s_next : Z;                    (* serial of the next world created *)
  s_curw : Z;                    (* Loop._current_world (none = None) *)
  s_curh : Z;                    (* Loop._current_world_handle *)
  s_last : option Z;             (* SimpleLoop.last_timestamp *)
  s_running : bool }.            (* Loop.running *)

Definition init : state :=
  {| s_worlds := []; s_cache := []; s_next := 1; s_curw := none; s_curh := none;
     s_last := None; s_running := false |}.

Definition set_worlds ws s :=
  {| s_worlds := ws; s_cache := s_cache s; s_next := s_next s; s_curw := s_curw s;
     s_curh := s_curh s; s_last := s_last s; s_running := s_running s |}.
Definition set_cache c s :=
  {| s_worlds := s_worlds s; s_cache := c; s_next := s_next s; s_curw := s_curw s;
     s_curh := s_curh s; s_last := s_last s; s_running := s_running s |}.
Definition set_cur w h s :=
  {| s_worlds := s_worlds s; s_cache := s_cache s; s_next := s_next s; s_curw := w;
     s_curh := h; s_last := s_last s; s_running := s_running s |}.
Definition set_last l s :=
  {| s_worlds := s_worlds s; s_cache := s_cache s; s_next := s_next s; s_curw := s_curw s;
     s_curh := s_curh s; s_last := l; s_running := s_running s |}.
Definition set_running r s :=
  {| s_worlds := s_worlds s; s_cache := s_cache s; s_next := s_next s; s_curw := s_curw s;
     s_curh := s_curh s; s_last := s_last s; s_running := r |}.

Definition np_of (nps : list nat) (h : Z) : nat :=
  if h <? 0 then 1%nat else nth (Z.to_nat h) nps 1%nat.

(* ---- desper/events.py ---------------------------------------------------- *)
(* EventDispatcher.dispatch on world w (the listener handles all five events):
   disabled -> append to the queue; enabled -> call the listener *)
Definition dispatch (w : Z) (e : event) (s : state) : state * list entry :=
  match alookup w (s_worlds s) with
  | Some W =>
      if w_en W then (s, [EEv w e])
      else (set_worlds (aset w (false, w_q W ++ [e]) (s_worlds s)) s, [])
  | None => (s, [])               (* from_world is None *)
  end.

(* dispatch_enabled = False *)
Definition disable (w : Z) (s : state) : state :=
  match alookup w (s_worlds s) with
  | Some W => set_worlds (aset w (false, w_q W) (s_worlds s)) s
  | None => s
  end.

(* the repaired setter: while queue and enabled: pop(0); dispatch.  The
   callbacks of the doubles neither raise nor disable, so every popped event
   is delivered. *)
Fixpoint release (w : Z) (q : list event) : list entry :=
  match q with
  | [] => []
  | e :: q' => EEv w e :: release w q'
  end.

(* dispatch_enabled = True *)
Definition enable (w : Z) (s : state) : state * list entry :=
  match alookup w (s_worlds s) with
  | Some W => (set_worlds (aset w (true, []) (s_worlds s)) s, release w (w_q W))
  | None => (s, [])
  end.

(* ---- desper/model/tree.py, desper/model/world.py ------------------------ *)
(* Handle.__call__ with WorldHandle.load: World() ; dispatch_enabled = False ;
   transform functions (the double logs ELoad, adds processors and the
   listener) ; dispatch(on_world_load, handle, world) -> queued *)
Definition handle_call (h : Z) (s : state) : state * Z * list entry :=
  match alookup h (s_cache s) with
  | Some w => (s, w, [])
  | None =>
      let w := s_next s in
      ({| s_worlds := aset w (false, [VLoad h w]) (s_worlds s);
          s_cache := aset h w (s_cache s);
          s_next := w + 1;
          s_curw := s_curw s; s_curh := s_curh s; s_last := s_last s;
          s_running := s_running s |}, w, [ELoad h w])
  end.

(* Handle.clear *)
Definition handle_clear (h : Z) (s : state) : state := set_cache (adel h (s_cache s)) s.

(* ---- desper/loop.py ------------------------------------------------------ *)
(* switch(target_handle, cc, cn, from_world): from_world is the loop's current
   world, passed explicitly or found through desper.default_loop.  Always
   ends by raising SwitchWorld(target_handle, cc, cn). *)
Definition switch_fn (h : Z) (s : state) : state * list entry :=
  let from := s_curw s in
  let '(s1, to, l1) := handle_call h s in                 (* to_world = target_handle() *)
  let '(s2, l2) := dispatch from (VOut from to) s1 in     (* from_world.dispatch(on_switch_out) *)
  let s3 := disable from s2 in                            (* from_world.dispatch_enabled = False *)
  let s4 := disable to s3 in                              (* to_world.dispatch_enabled = False *)
  let '(s5, l5) := dispatch to (VIn from to) s4 in        (* to_world.dispatch(on_switch_in) *)
  (s5, l1 ++ l2 ++ l5).

(* SimpleLoop.switch = Loop.switch, then world_handle().dispatch_enabled = True *)
Definition loop_switch (h : Z) (cc cn : bool) (s : state) : state * list entry :=
  let s1 := if cc then (if s_curh s =? none then s else handle_clear (s_curh s) s) else s in
  let s2 := if cn then handle_clear h s1 else s1 in
  let '(s3, w, l3) := handle_call h s2 in                 (* self._current_world = world_handle() *)
  let s4 := set_cur w h s3 in
  let '(s5, w', l5) := handle_call h s4 in                (* world_handle() once more *)
  let '(s6, l6) := enable w' s5 in
  (s6, l3 ++ l5 ++ l6).

(* how an iteration ends *)
Inductive fres := FCont | FQuit | FOther.

Definition procs (w dt : Z) (a n : nat) : list entry :=
  map (fun i => EProc w i dt) (seq a n).

Fixpoint do_pokes (ps : list (Z * Z)) (s : state) : state * list entry :=
  match ps with
  | [] => (s, [])
  | (k, tok) :: ps' =>
      match alookup k (s_cache s) with
      | Some w =>
          let '(s1, l1) := dispatch w (VPoke tok) s in
          let '(s2, l2) := do_pokes ps' s1 in
          (s2, EPoke k tok w :: l1 ++ l2)
      | None => do_pokes ps' s
      end
  end.

(* a coroutine acts after all scripted processors *)
Definition eff_pos (o : origin) (pos np : nat) : nat :=
  match o with OCoro => (np - 1)%nat | _ => Nat.modulo pos np end.

(* one iteration of SimpleLoop.loop with the frame script f *)
Definition run_frame (nps : list nat) (f : frame) (s : state) : state * list entry * fres :=
  let t := f_t f in                                       (* timestamp = self.time_function() *)
  let dt := match s_last s with None => 0 | Some l => t - l end in
  let s0 := set_last (Some t) s in                        (* self.last_timestamp = timestamp *)
  let w := s_curw s in
  let np := np_of nps (s_curh s) in
  let pos := eff_pos (f_org f) (f_pos f) np in
  let head := EClock t w (s_curh s) :: procs w dt 0 (S pos) in    (* world.process(dt) *)
  let '(s1, lp) := do_pokes (f_pokes f) s0 in
  let o := f_org f in
  match f_act f with
  | ANormal => (s1, head ++ lp ++ procs w dt (S pos) (np - S pos), FCont)
  | AQuit => (s1, head ++ lp ++ [EAct o AQuit], FQuit)
  | AQuitLoop q =>
      let '(s2, l2) := dispatch w VQuit s1 in              (* target.dispatch(on_quit); raise Quit *)
      (s2, head ++ lp ++ EAct o (AQuitLoop q) :: l2, FQuit)
  | ASwitch h cc cn ex =>
      let '(s2, l2) := switch_fn h s1 in                   (* ... raise SwitchWorld *)
      let '(s3, l3) := loop_switch h cc cn s2 in           (* except SwitchWorld: self.switch(...) *)
      (s3, head ++ lp ++ EAct o (ASwitch h cc cn ex) :: l2 ++ l3, FCont)
  | ARaiseSW h cc cn =>
      let '(s3, l3) := loop_switch h cc cn s1 in
      (s3, head ++ lp ++ EAct o (ARaiseSW h cc cn) :: l3, FCont)
  | AOther => (s1, head ++ lp ++ [EAct o AOther], FOther)
  end.

(* while True: ... ; when the script is exhausted the time function raises *)
Fixpoint run_frames (nps : list nat) (fs : list frame) (ek : endkind) (s : state)
  : state * list entry * fres :=
  match fs with
  | [] => (s, [EClockEnd ek (s_curw s) (s_curh s)],
           match ek with EndQuit => FQuit | EndOther => FOther end)
  | f :: fs' =>
      let '(s1, l1, r) := run_frame nps f s in
      match r with
      | FCont => let '(s2, l2, r2) := run_frames nps fs' ek s1 in (s2, l1 ++ l2, r2)
      | _ => (s1, l1, r)
      end
  end.

(* SimpleLoop.start: try: Loop.start() finally: last_timestamp = None
   Loop.start: running = True; try: loop() except Quit: running = False *)
Definition run_start (nps : list nat) (fs : list frame) (ek : endkind) (s : state)
  : state * list entry :=
  let s0 := set_running true s in
  let '(s1, l, r) := run_frames nps fs ek s0 in
  let s2 := match r with FQuit => set_running false s1 | _ => s1 end in
  let s3 := set_last None s2 in
  let out := match r with FQuit => Returned (s_running s3) | _ => RaisedOther end in
  (s3, l ++ [EEnd out (s_curw s3) (s_curh s3)]).

Definition run_op (nps : list nat) (o : op) (s : state) : state * list entry :=
  match o with
  | OTop h cc cn =>
      let '(s1, l) := loop_switch h cc cn s in
      (s1, l ++ [ETopDone (s_curw s1) (s_curh s1)])
  | OStart fs ek => run_start nps fs ek s
  end.

Fixpoint run_ops (nps : list nat) (ops : list (op * list entry)) (s : state) : bool :=
  match ops with
  | [] => true
  | (o, obs) :: ops' =>
      let '(s1, l) := run_op nps o s in
      log_eqb l obs && run_ops nps ops' s1
  end.

Definition accepts (c : lcase) : bool := run_ops (c_nps c) (c_ops c) init.

(* ---- input domain -------------------------------------------------------- *)
(* every handle has at least one scripted processor; the loop is given a world
   before it is started; a frame that quits or raises is the last frame of its
   start (nothing of the script is left unexecuted); the readings of the time
   function never decrease *)
Definition continues (a : action) : bool :=
  match a with ANormal | ASwitch _ _ _ _ | ARaiseSW _ _ _ => true | _ => false end.

Fixpoint frames_wf (fs : list frame) : bool :=
  match fs with
  | [] => true
  | [f] => true
  | f :: fs' => continues (f_act f) && frames_wf fs'
  end.

Fixpoint sorted_from (t : Z) (l : list Z) : bool :=
  match l with
  | [] => true
  | x :: l' => (t <=? x) && sorted_from x l'
  end.

Definition op_times (o : op) : list Z :=
  match o with OTop _ _ _ => [] | OStart fs _ => map f_t fs end.

Definition first_is_top (ops : list (op * list entry)) : bool :=
  match ops with (OTop _ _ _, _) :: _ => true | _ => false end.

Definition wf_b (c : lcase) : bool :=
  forallb (fun n => (1 <=? n)%nat) (c_nps c)
  && first_is_top (c_ops c)
  && forallb (fun x => match fst x with OTop _ _ _ => true | OStart fs _ => frames_wf fs end)
             (c_ops c)
  && match flat_map (fun x => op_times (fst x)) (c_ops c) with
     | [] => true
     | t :: l => sorted_from t l
     end.

Definition bit (b : bool) (n : nat) : nat := if b then n else 0%nat.
