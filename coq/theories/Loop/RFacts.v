(* Facts about the second-generation model (RBus.v, RModel.v) shared by the
   proofs of C13 and C14: inversion of sequenced computations, the state
   invariant, and the contract [good] every computation of loop.py and of the
   bus satisfies as long as no K10 entry is logged. *)
From Coq Require Import ZArith List Bool Arith Lia ZifyBool.
From Desper Require Import Lib.Alist Loop.RBus Loop.RModel.
Import ListNotations.
Open Scope Z_scope.

Lemma entry_eqb_eq a b : entry_eqb a b = true -> a = b.
Proof. unfold entry_eqb. destruct (entry_eq_dec a b); [auto|discriminate]. Qed.
Lemma entry_eqb_refl a : entry_eqb a a = true.
Proof. unfold entry_eqb. destruct (entry_eq_dec a a); [auto|contradiction]. Qed.
Lemma log_eqb_eq l1 : forall l2, log_eqb l1 l2 = true -> l1 = l2.
Proof.
  induction l1 as [|x l1 IH]; intros [|y l2]; cbn [log_eqb]; try discriminate; auto.
  intros H. apply andb_prop in H as [H1 H2]. apply entry_eqb_eq in H1. apply IH in H2.
  now subst.
Qed.

(* ---- sequencing ---------------------------------------------------------- *)
Lemma andthen_inv (m k : M) s s' l r :
  (m ;; k) s = Some (s', l, r) ->
  exists s1 l1 r1, m s = Some (s1, l1, r1) /\
    match r1 with
    | RNorm => exists l2, k s1 = Some (s', l2, r) /\ l = l1 ++ l2
    | RExn x => s' = s1 /\ l = l1 /\ r = RExn x
    end.
Proof.
  unfold andthen. destruct (m s) as [[[s1 l1] r1]|]; [|discriminate].
  destruct r1 as [|x].
  - destruct (k s1) as [[[s2 l2] r2]|]; [|discriminate]. intros [= <- <- <-].
    exists s1, l1, RNorm. split; auto. exists l2. auto.
  - intros [= <- <- <-]. exists s1, l1, (RExn x). auto.
Qed.

Lemma andthen_norm (m k : M) s s1 l1 :
  m s = Some (s1, l1, RNorm) ->
  (m ;; k) s = match k s1 with Some (s2, l2, r) => Some (s2, l1 ++ l2, r) | None => None end.
Proof. intros H. unfold andthen. rewrite H. reflexivity. Qed.

Lemma andthen_exn (m k : M) s s1 l1 x :
  m s = Some (s1, l1, RExn x) -> (m ;; k) s = Some (s1, l1, RExn x).
Proof. intros H. unfold andthen. rewrite H. reflexivity. Qed.

(* ---- invariant ----------------------------------------------------------- *)
Definition cache_ok (s : state) : Prop :=
  forall h w, alookup h (s_cache s) = Some w -> exists W, alookup w (s_worlds s) = Some W.
Definition worlds_lt (s : state) : Prop :=
  forall x W, alookup x (s_worlds s) = Some W -> x < s_next s.
Definition inv (s : state) : Prop := cache_ok s /\ worlds_lt s.
Definition cur_ok (s : state) : Prop :=
  exists q, alookup (s_curw s) (s_worlds s) = Some (true, q).

Lemma inv_init : inv init.
Proof. split; intros x W; cbn; discriminate. Qed.

(* replacing the value of a world that exists *)
Lemma inv_update w V W s :
  alookup w (s_worlds s) = Some W -> inv s -> inv (set_worlds (aset w V (s_worlds s)) s).
Proof.
  intros H [C L]. split.
  - intros h x Hx. cbn in Hx. destruct (C h x Hx) as [W0 H0]. cbn.
    rewrite alookup_aset. destruct (x =? w); eauto.
  - intros x W0. cbn. rewrite alookup_aset. destruct (x =? w) eqn:E.
    + apply Z.eqb_eq in E. subst. intros _. eapply L; eauto.
    + apply L.
Qed.

Lemma cur_ok_update w V s :
  cur_ok s -> (w = s_curw s -> exists q, V = (true, q)) ->
  cur_ok (set_worlds (aset w V (s_worlds s)) s).
Proof.
  intros [q H] HV. unfold cur_ok. cbn. rewrite alookup_aset.
  destruct (s_curw s =? w) eqn:E; [|eauto].
  apply Z.eqb_eq in E. symmetry in E. destruct (HV E) as [q' ->]. eauto.
Qed.

Lemma disable_inv w s : inv s -> inv (disable w s).
Proof.
  intros I. unfold disable. destruct (alookup w (s_worlds s)) as [W|] eqn:H; auto.
  eapply inv_update; eauto.
Qed.

Lemma disable_lookup w s x :
  alookup x (s_worlds (disable w s)) =
  match alookup x (s_worlds s) with
  | Some W => if x =? w then Some (false, w_q W) else Some W
  | None => None
  end.
Proof.
  unfold disable. destruct (alookup w (s_worlds s)) as [W|] eqn:H.
  - cbn [set_worlds s_worlds]. rewrite alookup_aset. destruct (x =? w) eqn:E.
    + apply Z.eqb_eq in E. subst. now rewrite H.
    + destruct (alookup x (s_worlds s)); reflexivity.
  - destruct (alookup x (s_worlds s)) eqn:Hx; auto. destruct (x =? w) eqn:E; auto.
    apply Z.eqb_eq in E. subst. congruence.
Qed.

Lemma disable_fields w s :
  s_cache (disable w s) = s_cache s /\ s_next (disable w s) = s_next s /\
  s_curw (disable w s) = s_curw s /\ s_curh (disable w s) = s_curh s /\
  s_inh (disable w s) = s_inh s /\ s_reacts (disable w s) = s_reacts s.
Proof. unfold disable. destruct (alookup w (s_worlds s)); cbn; auto 10. Qed.

Lemma handle_clear_inv h s : inv s -> inv (handle_clear h s).
Proof.
  intros [C L]. split; [|exact L]. intros h' w. unfold handle_clear; cbn.
  rewrite alookup_adel. destruct (h' =? h); [discriminate|]. apply C.
Qed.

Lemma handle_call_inv h s s' w l :
  handle_call h s = (s', w, l) -> inv s ->
  inv s' /\ alookup h (s_cache s') = Some w /\ (exists W, alookup w (s_worlds s') = Some W) /\
  (forall h' w', alookup h' (s_cache s) = Some w' -> alookup h' (s_cache s') = Some w') /\
  (forall x W, alookup x (s_worlds s) = Some W -> alookup x (s_worlds s') = Some W) /\
  s_curw s' = s_curw s /\ s_curh s' = s_curh s /\ s_inh s' = s_inh s /\
  s_reacts s' = s_reacts s.
Proof.
  unfold handle_call. destruct (alookup h (s_cache s)) as [w0|] eqn:H.
  - intros [= <- <- <-] I. destruct I as [C L]. repeat split; auto. eauto.
  - intros [= <- <- <-] [C L]. cbn. split; [split|].
    + intros h' x. cbn. rewrite alookup_aset. destruct (h' =? h) eqn:E.
      * intros [= <-]. rewrite alookup_aset_eq. eauto.
      * intros Hx. destruct (C h' x Hx) as [W0 H0]. rewrite alookup_aset.
        destruct (x =? s_next s); eauto.
    + intros x W0. cbn. rewrite alookup_aset. destruct (x =? s_next s) eqn:E.
      * intros _. lia.
      * intros Hx. apply L in Hx. lia.
    + rewrite !alookup_aset_eq. repeat split; eauto.
      * intros h' w' Hh. rewrite alookup_aset. destruct (h' =? h) eqn:E; auto.
        apply Z.eqb_eq in E. subst. congruence.
      * intros x W Hx. rewrite alookup_aset. destruct (x =? s_next s) eqn:E; auto.
        apply L in Hx. lia.
Qed.

Lemma handle_call_cached h s w :
  alookup h (s_cache s) = Some w -> handle_call h s = (s, w, []).
Proof. intros H. unfold handle_call. now rewrite H. Qed.

(* ---- no K10 entry -------------------------------------------------------- *)
Definition nok10 (l : list entry) : bool := forallb (fun e => negb (k10_entry e)) l.

Lemma nok10_app l1 l2 : nok10 (l1 ++ l2) = true -> nok10 l1 = true /\ nok10 l2 = true.
Proof. unfold nok10. rewrite forallb_app. intros H. apply andb_prop in H. exact H. Qed.

Definition is_sw (r : res) : bool :=
  match r with RExn (XSW _ _ _ _) => true | _ => false end.

(* the ghost tag of a SwitchWorld raised by switch() is truthful *)
Definition tag_ok (r : res) (s : state) : Prop :=
  match r with
  | RExn (XSW h _ _ (Some (f, t))) =>
      alookup h (s_cache s) = Some t /\
      exists q, alookup t (s_worlds s) = Some (false, q ++ [VIn f t])
  | _ => True
  end.

(* what a computation of the model guarantees *)
Definition post (s s' : state) (r : res) : Prop :=
  inv s' /\ s_curw s' = s_curw s /\ s_curh s' = s_curh s /\ s_inh s' = s_inh s /\
  (forall h w, alookup h (s_cache s) = Some w -> alookup h (s_cache s') = Some w) /\
  (is_sw r = false -> cur_ok s') /\ tag_ok r s'.

Definition good (m : M) : Prop := forall s s' l r,
  m s = Some (s', l, r) -> inv s -> cur_ok s -> nok10 l = true -> post s s' r.

(* ... and, while the loop is carrying out a switch, no SwitchWorld comes out *)
Definition calm (m : M) : Prop := forall s s' l r,
  m s = Some (s', l, r) -> inv s -> cur_ok s -> nok10 l = true ->
  s_inh s = true -> is_sw r = false.

Lemma post_refl s : inv s -> cur_ok s -> post s s RNorm.
Proof. intros I C. unfold post. repeat split; auto; apply I. Qed.

Lemma post_trans s s1 s2 r :
  post s s1 RNorm -> post s1 s2 r -> post s s2 r.
Proof.
  intros (A1&A2&A3&A4&A5&A6&A7) (B1&B2&B3&B4&B5&B6&B7).
  unfold post. repeat split; try congruence; auto; apply B1.
Qed.

Lemma good_andthen m k : good m -> good k -> good (m ;; k).
Proof.
  intros Gm Gk s s' l r H I C N.
  apply andthen_inv in H as (s1&l1&r1&H1&H2). destruct r1 as [|x].
  - destruct H2 as (l2&H2&->). apply nok10_app in N as [N1 N2].
    pose proof (Gm _ _ _ _ H1 I C N1) as P1.
    assert (C1 : cur_ok s1) by (apply P1; reflexivity).
    assert (I1 : inv s1) by apply P1.
    pose proof (Gk _ _ _ _ H2 I1 C1 N2) as P2. eapply post_trans; eauto.
  - destruct H2 as (->&->&->). eapply Gm; eauto.
Qed.

Lemma calm_andthen m k : good m -> calm m -> calm k -> calm (m ;; k).
Proof.
  intros Gm Cm Ck s s' l r H I C N Hi.
  apply andthen_inv in H as (s1&l1&r1&H1&H2). destruct r1 as [|x].
  - destruct H2 as (l2&H2&->). apply nok10_app in N as [N1 N2].
    pose proof (Gm _ _ _ _ H1 I C N1) as (I1&_&_&E&_&C1&_).
    eapply Ck; eauto. congruence.
  - destruct H2 as (->&->&->). eapply Cm; eauto.
Qed.

Lemma good_emit l : good (emit l).
Proof. intros s s' l' r [= <- <- <-] I C _. now apply post_refl. Qed.
Lemma calm_emit l : calm (emit l).
Proof. intros s s' l' r [= <- <- <-] _ _ _ _. reflexivity. Qed.
Lemma good_ret : good ret.
Proof. intros s s' l' r [= <- <- <-] I C _. now apply post_refl. Qed.
Lemma calm_ret : calm ret.
Proof. intros s s' l' r [= <- <- <-] _ _ _ _. reflexivity. Qed.

Section BusFacts.
  Variable react : ekind -> action -> M.
  Hypothesis Hgood : forall k a, good (react k a).
  Hypothesis Hcalm : forall k a, calm (react k a).

  Lemma set_reacts_inv rs s : inv s -> inv (set_reacts rs s).
  Proof. intros I. exact I. Qed.

  Lemma good_deliver w e : good (deliver react w e).
  Proof.
    unfold deliver. apply good_andthen; [apply good_emit|].
    intros s s' l r H I C N. destruct (kind_of e) as [k|]; [|eapply good_ret; eauto].
    destruct (take_reaction k (s_reacts s)) as [[a rest]|]; [|eapply good_ret; eauto].
    pose proof (Hgood k a _ _ _ _ H I C N) as P. exact P.
  Qed.

  Lemma calm_deliver w e : calm (deliver react w e).
  Proof.
    unfold deliver. apply calm_andthen; [apply good_emit|apply calm_emit|].
    intros s s' l r H I C N Hi. destruct (kind_of e) as [k|]; [|eapply calm_ret; eauto].
    destruct (take_reaction k (s_reacts s)) as [[a rest]|]; [|eapply calm_ret; eauto].
    eapply (Hcalm k a); eauto.
  Qed.

  (* queueing on a disabled world *)
  Lemma post_queue w W V s :
    alookup w (s_worlds s) = Some W -> w_en W = false -> inv s -> cur_ok s ->
    post s (set_worlds (aset w V (s_worlds s)) s) RNorm.
  Proof.
    intros H E I C. unfold post. cbn. repeat split; auto.
    - eapply inv_update; eauto.
    - eapply inv_update; eauto.
    - intros _. apply cur_ok_update; auto. intros ->. destruct C as [q C]. rewrite C in H.
      injection H as <-. discriminate.
  Qed.

  Lemma good_dispatch w e : good (dispatch react w e).
  Proof.
    intros s s' l r H I C N. unfold dispatch in H.
    destruct (alookup w (s_worlds s)) as [W|] eqn:L.
    - destruct (w_en W) eqn:E; [eapply good_deliver; eauto|].
      injection H as <- <- <-. eapply post_queue; eauto.
    - eapply good_ret; eauto.
  Qed.

  Lemma calm_dispatch w e : calm (dispatch react w e).
  Proof.
    intros s s' l r H I C N Hi. unfold dispatch in H.
    destruct (alookup w (s_worlds s)) as [W|] eqn:L.
    - destruct (w_en W) eqn:E; [eapply calm_deliver; eauto|].
      injection H as <- <- <-. reflexivity.
    - injection H as <- <- <-. reflexivity.
  Qed.

  (* popping the head of the queue of an enabled world *)
  Lemma good_pop w rest : good (upd (fun s => set_worlds (aset w (true, rest) (s_worlds s)) s)).
  Proof.
    intros s s' l r [= <- <- <-] I C _. unfold post. cbn.
    destruct (alookup w (s_worlds s)) as [W|] eqn:L.
    - repeat split; auto; try (eapply inv_update; eauto).
      intros _. apply cur_ok_update; eauto.
    - (* the world does not exist: aset appends; the invariant on serials is
         not needed for what follows, but keep the statement uniform *)
      repeat split; auto.
      + intros h x Hx. destruct I as [Ic _]. destruct (Ic h x Hx) as [W0 H0].
        cbn. rewrite alookup_aset. destruct (x =? w); eauto.
      + (* worlds_lt may fail here: rule the case out *)
        exfalso. admit_case.
  Abort.
End BusFacts.
