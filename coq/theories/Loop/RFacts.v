(* Facts about the second-generation model (RBus.v, RModel.v) shared by the
   proofs of C13 and C14: inversion of sequenced computations, the state
   invariant, and the contract [good] every computation of loop.py and of the
   bus satisfies. *)
From Coq Require Import ZArith List Bool Arith Lia ZifyBool.
From Desper Require Import Lib.Alist Loop.RBus Loop.RModel.
Import ListNotations.
Open Scope Z_scope.

Lemma entry_eqb_eq a b : entry_eqb a b = true -> a = b.
Proof. unfold entry_eqb. destruct (entry_eq_dec a b); [auto|discriminate]. Qed.
Lemma entry_eqb_refl a : entry_eqb a a = true.
Proof. unfold entry_eqb. destruct (entry_eq_dec a a); [auto|contradiction]. Qed.
Lemma log_eqb_eq l1 : forall l2, log_eqb l1 l2 = true -> l1 = l2.
Proof.
  induction l1 as [|x l1 IH]; intros [|y l2]; cbn [log_eqb]; try discriminate; auto.
  intros H. apply andb_prop in H as [H1 H2]. apply entry_eqb_eq in H1. apply IH in H2.
  now subst.
Qed.

Lemma some_triple_eq {A B C} (a a' : A) (b b' : B) (c c' : C) :
  Some (a, b, c) = Some (a', b', c') -> a = a' /\ b = b' /\ c = c'.
Proof. intros [= -> -> ->]. auto. Qed.
Ltac st_inv := let E := fresh "E" in intros E; apply some_triple_eq in E as (<-&<-&<-).

(* ---- sequencing ---------------------------------------------------------- *)
Lemma andthen_inv (m k : M) s s' l r :
  (m ;; k) s = Some (s', l, r) ->
  exists s1 l1 r1, m s = Some (s1, l1, r1) /\
    match r1 with
    | RNorm => exists l2, k s1 = Some (s', l2, r) /\ l = l1 ++ l2
    | RExn x => s' = s1 /\ l = l1 /\ r = RExn x
    end.
Proof.
  unfold andthen. destruct (m s) as [[[s1 l1] r1]|] eqn:Hm; [|discriminate].
  destruct r1 as [|x].
  - destruct (k s1) as [[[s2 l2] r2]|] eqn:Hk; [|discriminate]. intros [= <- <- <-].
    exists s1, l1, RNorm. split; [reflexivity|]. exists l2. split; [exact Hk|reflexivity].
  - intros [= <- <- <-]. exists s1, l1, (RExn x). repeat split; reflexivity.
Qed.

Lemma andthen_norm (m k : M) s s1 l1 :
  m s = Some (s1, l1, RNorm) ->
  (m ;; k) s = match k s1 with Some (s2, l2, r) => Some (s2, l1 ++ l2, r) | None => None end.
Proof. intros H. unfold andthen. rewrite H. reflexivity. Qed.

Lemma andthen_exn (m k : M) s s1 l1 x :
  m s = Some (s1, l1, RExn x) -> (m ;; k) s = Some (s1, l1, RExn x).
Proof. intros H. unfold andthen. rewrite H. reflexivity. Qed.

(* ---- invariant ----------------------------------------------------------- *)
Definition cache_ok (s : state) : Prop :=
  forall h w, alookup h (s_cache s) = Some w -> exists W, alookup w (s_worlds s) = Some W.
Definition worlds_lt (s : state) : Prop :=
  forall x W, alookup x (s_worlds s) = Some W -> x < s_next s.
Definition inv (s : state) : Prop := cache_ok s /\ worlds_lt s.
Definition cur_ok (s : state) : Prop :=
  exists q, alookup (s_curw s) (s_worlds s) = Some (true, q).

Lemma inv_init : inv init.
Proof. split; intros x W; cbn; discriminate. Qed.

(* replacing the value of a world that exists *)
Lemma inv_update w V W s :
  alookup w (s_worlds s) = Some W -> inv s -> inv (set_worlds (aset w V (s_worlds s)) s).
Proof.
  intros H [C L]. split.
  - intros h x Hx. cbn in Hx. destruct (C h x Hx) as [W0 H0]. cbn.
    rewrite alookup_aset. destruct (x =? w); eauto.
  - intros x W0. cbn. rewrite alookup_aset. destruct (x =? w) eqn:E.
    + apply Z.eqb_eq in E. subst. intros _. eapply L; eauto.
    + apply L.
Qed.

Lemma cur_ok_update w V s :
  cur_ok s -> (w = s_curw s -> exists q, V = (true, q)) ->
  cur_ok (set_worlds (aset w V (s_worlds s)) s).
Proof.
  intros [q H] HV. unfold cur_ok. cbn. rewrite alookup_aset.
  destruct (s_curw s =? w) eqn:E; [|eauto].
  apply Z.eqb_eq in E. symmetry in E. destruct (HV E) as [q' ->]. eauto.
Qed.

Lemma disable_inv w s : inv s -> inv (disable w s).
Proof.
  intros I. unfold disable. destruct (alookup w (s_worlds s)) as [W|] eqn:H; auto.
  eapply inv_update; eauto.
Qed.

Lemma disable_lookup w s x :
  alookup x (s_worlds (disable w s)) =
  match alookup x (s_worlds s) with
  | Some W => if x =? w then Some (false, w_q W) else Some W
  | None => None
  end.
Proof.
  unfold disable. destruct (alookup w (s_worlds s)) as [W|] eqn:H.
  - cbn [set_worlds s_worlds]. rewrite alookup_aset. destruct (x =? w) eqn:E.
    + apply Z.eqb_eq in E. subst. now rewrite H.
    + destruct (alookup x (s_worlds s)); reflexivity.
  - destruct (alookup x (s_worlds s)) eqn:Hx; auto. destruct (x =? w) eqn:E; auto.
    apply Z.eqb_eq in E. subst. congruence.
Qed.

Lemma disable_fields w s :
  s_cache (disable w s) = s_cache s /\ s_next (disable w s) = s_next s /\
  s_curw (disable w s) = s_curw s /\ s_curh (disable w s) = s_curh s /\
  s_inh (disable w s) = s_inh s /\ s_reacts (disable w s) = s_reacts s.
Proof. unfold disable. destruct (alookup w (s_worlds s)); cbn; auto 10. Qed.

Lemma handle_clear_inv h s : inv s -> inv (handle_clear h s).
Proof.
  intros [C L]. split; [|exact L]. intros h' w. unfold handle_clear; cbn.
  rewrite alookup_adel. destruct (h' =? h); [discriminate|]. apply C.
Qed.

Lemma handle_call_inv h s s' w l :
  handle_call h s = (s', w, l) -> inv s ->
  inv s' /\ alookup h (s_cache s') = Some w /\ (exists W, alookup w (s_worlds s') = Some W) /\
  (forall h' w', alookup h' (s_cache s) = Some w' -> alookup h' (s_cache s') = Some w') /\
  (forall x W, alookup x (s_worlds s) = Some W -> alookup x (s_worlds s') = Some W) /\
  s_curw s' = s_curw s /\ s_curh s' = s_curh s /\ s_inh s' = s_inh s /\
  s_reacts s' = s_reacts s.
Proof.
  unfold handle_call. destruct (alookup h (s_cache s)) as [w0|] eqn:H.
  - intros [= <- <- <-] I. destruct I as [C L]. repeat split; auto. eauto.
  - intros [= <- <- <-] [C L]. cbn. split; [split|].
    + intros h' x. cbn. rewrite alookup_aset. destruct (h' =? h) eqn:E.
      * intros [= <-]. rewrite alookup_aset_eq. eauto.
      * intros Hx. destruct (C h' x Hx) as [W0 H0]. rewrite alookup_aset.
        destruct (x =? s_next s); eauto.
    + intros x W0. cbn. rewrite alookup_aset. destruct (x =? s_next s) eqn:E.
      * intros _. lia.
      * intros Hx. apply L in Hx. lia.
    + rewrite !alookup_aset_eq. repeat split; eauto.
      * intros h' w' Hh. rewrite alookup_aset. destruct (h' =? h) eqn:E; auto.
        apply Z.eqb_eq in E. subst. congruence.
      * intros x W Hx. rewrite alookup_aset. destruct (x =? s_next s) eqn:E; auto.
        apply L in Hx. lia.
Qed.

Lemma handle_call_cached h s w :
  alookup h (s_cache s) = Some w -> handle_call h s = (s, w, []).
Proof. intros H. unfold handle_call. now rewrite H. Qed.

(* The contracts below carry a condition on the log of the computation.  It
   used to exclude the entries of the former known finding K10; since the
   repair of loop.py (ce4190f) every log qualifies, and the condition is kept
   only so that the contracts keep their shape. *)
Definition nok10 (l : list entry) : bool := true.

Lemma nok10_app l1 l2 : nok10 (l1 ++ l2) = true -> nok10 l1 = true /\ nok10 l2 = true.
Proof. intros _. split; reflexivity. Qed.

Definition is_sw (r : res) : bool :=
  match r with RExn (XSW _ _ _ _) => true | _ => false end.

(* the ghost tag of a SwitchWorld raised by switch() is truthful *)
Definition tag_ok (r : res) (s : state) : Prop :=
  match r with
  | RExn (XSW h _ _ (Some (f, t))) =>
      alookup h (s_cache s) = Some t /\
      exists q, alookup t (s_worlds s) = Some (false, q ++ [VIn f t])
  | _ => True
  end.

(* what a computation of the model guarantees *)
Definition post (s s' : state) (r : res) : Prop :=
  inv s' /\ s_curw s' = s_curw s /\ s_curh s' = s_curh s /\ s_inh s' = s_inh s /\
  (forall h w, alookup h (s_cache s) = Some w -> alookup h (s_cache s') = Some w) /\
  (is_sw r = false -> cur_ok s') /\ tag_ok r s'.

Definition good (m : M) : Prop := forall s s' l r,
  m s = Some (s', l, r) -> inv s -> cur_ok s -> nok10 l = true -> post s s' r.

Lemma post_refl s : inv s -> cur_ok s -> post s s RNorm.
Proof. intros I C. unfold post. repeat split; auto; apply I. Qed.

Lemma post_trans s s1 s2 r :
  post s s1 RNorm -> post s1 s2 r -> post s s2 r.
Proof.
  intros (A1&A2&A3&A4&A5&A6&A7) (B1&B2&B3&B4&B5&B6&B7).
  unfold post. repeat split; try congruence; auto; apply B1.
Qed.

Lemma good_andthen m k : good m -> good k -> good (m ;; k).
Proof.
  intros Gm Gk s s' l r H I C N.
  apply andthen_inv in H as (s1&l1&r1&H1&H2). destruct r1 as [|x].
  - destruct H2 as (l2&H2&->). apply nok10_app in N as [N1 N2].
    pose proof (Gm _ _ _ _ H1 I C N1) as P1.
    assert (C1 : cur_ok s1) by (apply P1; reflexivity).
    assert (I1 : inv s1) by apply P1.
    pose proof (Gk _ _ _ _ H2 I1 C1 N2) as P2. eapply post_trans; eauto.
  - destruct H2 as (->&->&->). eapply Gm; eauto.
Qed.


Lemma good_emit l : good (emit l).
Proof. intros s s' l' r [= <- <- <-] I C _. now apply post_refl. Qed.
Lemma good_ret : good ret.
Proof. intros s s' l' r [= <- <- <-] I C _. now apply post_refl. Qed.

Section BusFacts.
  Variable react : ekind -> action -> M.
  Hypothesis Hgood : forall k a, good (react k a).

  Lemma set_reacts_inv rs s : inv s -> inv (set_reacts rs s).
  Proof. intros I. exact I. Qed.

  Lemma good_deliver w e : good (deliver react w e).
  Proof.
    unfold deliver. apply good_andthen; [apply good_emit|].
    intros s s' l r H I C N. destruct (kind_of e) as [k|]; [|eapply good_ret; eauto].
    destruct (take_reaction k (s_reacts s)) as [[a rest]|]; [|eapply good_ret; eauto].
    pose proof (Hgood k a _ _ _ _ H I C N) as P. exact P.
  Qed.


  (* queueing on a disabled world *)
  Lemma post_queue w W V s :
    alookup w (s_worlds s) = Some W -> w_en W = false -> inv s -> cur_ok s ->
    post s (set_worlds (aset w V (s_worlds s)) s) RNorm.
  Proof.
    intros H E I C. unfold post. cbn. repeat split; auto.
    - eapply inv_update; eauto.
    - eapply inv_update; eauto.
    - intros _. apply cur_ok_update; auto. intros ->. destruct C as [q C]. rewrite C in H.
      injection H as <-. discriminate.
  Qed.

  Lemma good_dispatch w e : good (dispatch react w e).
  Proof.
    intros s s' l r H I C N. unfold dispatch in H.
    destruct (alookup w (s_worlds s)) as [W|] eqn:L.
    - destruct (w_en W) eqn:E; [eapply good_deliver; eauto|].
      injection H as <- <- <-. eapply post_queue; eauto.
    - eapply good_ret; eauto.
  Qed.


  Lemma post_pop w e rest s :
    alookup w (s_worlds s) = Some (true, e :: rest) -> inv s -> cur_ok s ->
    post s (set_worlds (aset w (true, rest) (s_worlds s)) s) RNorm.
  Proof.
    intros H I C. unfold post. cbn. repeat split; auto; try (eapply inv_update; eauto).
    intros _. apply cur_ok_update; eauto.
  Qed.

  Lemma good_release w fuel : good (release react w fuel).
  Proof.
    induction fuel as [|x fuel IH]; intros s s' l r H I C N; cbn [release] in H;
      destruct (alookup w (s_worlds s)) as [[[|] [|e rest]]|] eqn:L;
      try (eapply good_ret; eauto; fail); try discriminate.
    apply andthen_inv in H as (s1&l1&r1&H1&H2). injection H1 as <- <- <-.
    destruct H2 as (l2&H2&->). cbn [app] in N.
    pose proof (post_pop _ _ _ _ L I C) as P1.
    eapply post_trans; [exact P1|].
    assert (G : good (dispatch react w e ;; release react w fuel))
      by (apply good_andthen; [apply good_dispatch|exact IH]).
    eapply G; eauto; [apply P1|apply P1; reflexivity].
  Qed.


  (* enabling the loop's current world (the only world the loop enables) *)
  Lemma good_enable_cur w s s' l r :
    enable react w s = Some (s', l, r) -> inv s -> w = s_curw s ->
    (exists W, alookup w (s_worlds s) = Some W) -> nok10 l = true ->
    inv s' /\ s_curw s' = s_curw s /\ s_curh s' = s_curh s /\ s_inh s' = s_inh s /\
    (forall h x, alookup h (s_cache s) = Some x -> alookup h (s_cache s') = Some x) /\
    (is_sw r = false -> cur_ok s') /\ tag_ok r s'.
  Proof.
    intros H I Ew [W L] N. unfold enable in H. rewrite L in H.
    apply andthen_inv in H as (s1&l1&r1&H1&H2). injection H1 as <- <- <-.
    destruct H2 as (l2&H2&->). cbn [app] in N.
    set (s1 := set_worlds (aset w (true, w_q W) (s_worlds s)) s) in *.
    assert (I1 : inv s1) by (eapply inv_update; eauto).
    assert (C1 : cur_ok s1).
    { unfold cur_ok, s1. cbn. rewrite <- Ew, alookup_aset_eq. eauto. }
    pose proof (good_release w (w_q W) _ _ _ _ H2 I1 C1 N) as (A1&A2&A3&A4&A5&A6&A7).
    split; [exact A1|]. split; [exact A2|]. split; [exact A3|]. split; [exact A4|].
    split; [exact A5|]. split; [exact A6|]. exact A7.
  Qed.
End BusFacts.

(* ---- loop.py ------------------------------------------------------------- *)
Section LoopFacts.
  Variable react : ekind -> action -> M.
  Hypothesis Hgood : forall k a, good (react k a).

  Lemma good_switch_fn h cc cn : good (switch_fn react h cc cn).
  Proof.
    intros s s' l r H I C N. unfold switch_fn in H.
    destruct (handle_call h s) as [[s1 to] l1] eqn:H1.
    destruct (handle_call_inv _ _ _ _ _ H1 I) as (I1&C1&[Wto Hto]&Mc&Mw&Fw&Fh&Fi&Fr).
    assert (Cu1 : cur_ok s1).
    { destruct C as [q C]. exists q. rewrite Fw. apply Mw. exact C. }
    assert (P01 : post s s1 RNorm).
    { unfold post. repeat split; auto; apply I1. }
    apply andthen_inv in H as (s1'&l1'&r1&E1&H2). injection E1 as <- <- <-.
    destruct H2 as (l2&H2&->). apply nok10_app in N as [_ N].
    apply andthen_inv in H2 as (s2&l2'&r2&D2&H3).
    pose proof (good_dispatch react Hgood _ _ _ _ _ _ D2 I1 Cu1) as G2.
    destruct r2 as [|x].
    2:{ destruct H3 as (->&->&->). eapply post_trans; [exact P01|]. apply G2. exact N. }
    destruct H3 as (l3&H3&->). apply nok10_app in N as [N2 N3].
    specialize (G2 N2). destruct G2 as (I2&Fw2&Fh2&Fi2&Mc2&Cu2&_).
    (* the three state updates and the final dispatch to the muted target *)
    apply andthen_inv in H3 as (s3&l3'&r3&E3&H4). injection E3 as <- <- <-.
    destruct H4 as (l4&H4&->).
    apply andthen_inv in H4 as (s4&l4'&r4&E4&H5). injection E4 as <- <- <-.
    destruct H5 as (l5&H5&->).
    apply andthen_inv in H5 as (s5&l5'&r5&D5&H6).
    set (from := s_curw s) in *.
    set (s4 := disable to (disable from s2)) in *.
    assert (I4 : inv s4) by (unfold s4; auto using disable_inv).
    assert (Cto2 : alookup h (s_cache s2) = Some to) by (apply Mc2; exact C1).
    assert (Eto2 : exists W, alookup to (s_worlds s2) = Some W) by (apply I2 in Cto2; exact Cto2).
    destruct Eto2 as [W2 Eto2].
    assert (L4 : exists q, alookup to (s_worlds s4) = Some (false, q)).
    { unfold s4. rewrite disable_lookup, disable_lookup, Eto2.
      destruct (to =? from); rewrite Z.eqb_refl; eauto. }
    destruct L4 as [q4 L4].
    unfold dispatch in D5. rewrite L4 in D5. cbn [w_en w_q fst snd] in D5.
    injection D5 as <- <- <-. destruct H6 as (l6&H6&->). injection H6 as <- <- <-.
    pose proof (disable_fields to (disable from s2)) as (Dc&Dn&Dw&Dh&Di&Dr).
    pose proof (disable_fields from s2) as (Dc'&Dn'&Dw'&Dh'&Di'&Dr').
    fold s4 in Dc, Dn, Dw, Dh, Di, Dr.
    unfold post. cbn [set_worlds s_curw s_curh s_inh s_cache is_sw tag_ok s_worlds].
    unfold from in *.
    repeat split; try (eapply inv_update; eauto; fail); try congruence.
    - intros h0 w0 Hh. rewrite Dc, Dc'. apply Mc2. apply Mc. exact Hh.
    - exists q4. now rewrite alookup_aset_eq.
  Qed.

  Definition plain (x : exn) : Prop :=
    match x with XSW _ _ _ (Some _) => False | _ => True end.

  Lemma good_raise x : plain x -> good (raise x).
  Proof.
    intros Px s s' l r [= <- <- <-] I C _. unfold post. repeat split; auto; try apply I.
    destruct x as [| |h cc cn [t|]]; cbn; auto. destruct Px.
  Qed.

  Lemma good_quit_fn : good (quit_fn react).
  Proof.
    intros s s' l r H. unfold quit_fn in H. revert H.
    apply (good_andthen (dispatch react (s_curw s) VQuit) (raise XQuit));
      [apply good_dispatch; exact Hgood|apply good_raise; exact I].
  Qed.


  Lemma good_perform_body a : good (perform_body react a).
  Proof.
    destruct a as [| |q|h cc cn ex|h cc cn| |hd ccd cnd]; cbn [perform_body].
    - apply good_ret.
    - apply good_raise; exact I.
    - apply good_quit_fn.
    - apply good_switch_fn.
    - apply good_raise; exact I.
    - apply good_raise; exact I.
    - apply good_ret.
  Qed.

  Lemma good_perform o a : good (perform react o a).
  Proof.
    intros s s' l r H. unfold perform in H. revert H.
    apply (good_andthen (emit [EAct o a (s_curw s) (s_curh s)]) (perform_body react a));
      [apply good_emit|apply good_perform_body].
  Qed.

End LoopFacts.

Lemma react_n_good n : forall k a, good (react_n n k a).
Proof.
  induction n as [|n IH]; intros k a s s' l r H; [discriminate|].
  cbn [react_n] in H. revert H. apply (good_perform (react_n n) IH).
Qed.

Lemma clears_inv h cc cn s : inv s -> inv (clears h cc cn s).
Proof.
  intros I. unfold clears. destruct cn, cc; try destruct (s_curh s =? none);
    auto using handle_clear_inv.
Qed.

Lemma clears_fields h cc cn s :
  s_worlds (clears h cc cn s) = s_worlds s /\ s_next (clears h cc cn s) = s_next s /\
  s_curw (clears h cc cn s) = s_curw s /\ s_curh (clears h cc cn s) = s_curh s /\
  s_inh (clears h cc cn s) = s_inh s /\ s_reacts (clears h cc cn s) = s_reacts s.
Proof. unfold clears. destruct cn, cc; try destruct (s_curh s =? none); cbn; auto 10. Qed.

(* SimpleLoop.switch, however it ends: the current world is the instance the
   handle holds; unless a SwitchWorld comes out (a callback of the entered
   world called switch(), which muted it) it dispatches *)
Lemma loop_switch_post n h cc cn s s' l r :
  loop_switch (react_n n) h cc cn s = Some (s', l, r) -> inv s -> nok10 l = true ->
  inv s' /\ (is_sw r = false -> cur_ok s') /\ s_curh s' = h /\ tag_ok r s' /\
  alookup h (s_cache s') = Some (s_curw s').
Proof.
  intros H I N. unfold loop_switch in H.
  set (s2 := clears h cc cn (set_inh true s)) in *.
  assert (I2 : inv s2) by (apply clears_inv; exact I).
  destruct (handle_call h s2) as [[s3 w] l3] eqn:H3.
  destruct (handle_call_inv _ _ _ _ _ H3 I2) as (I3&C3&[W3 HW3]&_&_&_&_&Fi3&_).
  rewrite (handle_call_cached h (set_cur w h s3) w C3) in H.
  apply andthen_inv in H as (s5&l5&r5&E5&H5). injection E5 as <- <- <-.
  destruct H5 as (l6&H6&->).
  apply andthen_inv in H6 as (s6&l6'&r6&E6&H7).
  assert (I4 : inv (set_cur w h s3)) by exact I3.
  destruct (good_enable_cur (react_n n) (react_n_good n) w _ _ _ _ E6 I4
              eq_refl (ex_intro _ W3 HW3) eq_refl) as (A1&A2&A3&A4&A5&A6&A7).
  destruct r6 as [|x].
  - destruct H7 as (l7&H7&->). injection H7 as <- <- <-. cbn in A2, A3.
    split; [exact A1|]. split; [intros _; exact (A6 eq_refl)|]. split; [exact A3|].
    split; [exact Logic.I|]. cbn. rewrite A2. apply A5. exact C3.
  - destruct H7 as (->&->&->). cbn in A2, A3.
    split; [exact A1|]. split; [exact A6|]. split; [exact A3|]. split; [exact A7|].
    rewrite A2. apply A5. exact C3.
Qed.

(* the except clause of SimpleLoop.loop: rounds of SimpleLoop.switch until no
   SwitchWorld comes out; then the current world dispatches *)
Lemma handler_post f n : forall h cc cn s s' l r,
  handler (react_n f) n h cc cn s = Some (s', l, r) -> inv s ->
  inv s' /\ cur_ok s' /\ is_sw r = false.
Proof.
  induction n as [|n IH]; intros h cc cn s s' l r H I; cbn [handler] in H; [discriminate|].
  destruct (loop_switch (react_n f) h cc cn s) as [[[s1 l1] r1]|] eqn:LS; [|discriminate].
  destruct (loop_switch_post _ _ _ _ _ _ _ _ LS I eq_refl) as (I1&C1&_).
  destruct r1 as [|[| |h2 cc2 cn2 t2]];
    try (injection H as <- <- <-; split; [exact I1|]; split; [exact (C1 eq_refl)|reflexivity]).
  destruct (handler (react_n f) n h2 cc2 cn2 s1) as [[[s2 l2] r2]|] eqn:Hd; [|discriminate].
  injection H as <- <- <-. apply (IH _ _ _ _ _ _ _ Hd I1).
Qed.

(* ---- pokes, processors ---------------------------------------------------- *)
Definition is_ev_poke (e : entry) : bool :=
  match e with EEv _ _ | EPoke _ _ _ => true | _ => false end.

Lemma do_pokes_post ps : forall s s' l,
  do_pokes ps s = (s', l) -> inv s -> cur_ok s ->
  post s s' RNorm /\ s_reacts s' = s_reacts s /\ forallb is_ev_poke l = true.
Proof.
  induction ps as [|[k tok] ps IH]; intros s s' l; cbn [do_pokes].
  - intros [= <- <-] I C. exact (conj (post_refl _ I C) (conj eq_refl eq_refl)).
  - destruct (alookup k (s_cache s)) as [w|]; [|apply IH].
    destruct (alookup w (s_worlds s)) as [[[|] q]|] eqn:L.
    + destruct (do_pokes ps s) as [s2 l2] eqn:P. intros [= <- <-] I C.
      destruct (IH _ _ _ P I C) as (A&B&D). exact (conj A (conj B D)).
    + set (s1 := set_worlds _ s).
      destruct (do_pokes ps s1) as [s2 l2] eqn:P. intros [= <- <-] I C.
      assert (P1 : post s s1 RNorm).
      { unfold post, s1. cbn. repeat split; auto; try (eapply inv_update; eauto).
        intros _. apply cur_ok_update; auto. intros ->. destruct C as [q' C]. congruence. }
      destruct (IH _ _ _ P) as (A&B&D); [apply P1|apply P1; reflexivity|].
      exact (conj (post_trans _ _ _ _ P1 A) (conj B D)).
    + destruct (do_pokes ps s) as [s2 l2] eqn:P. intros [= <- <-] I C.
      destruct (IH _ _ _ P I C) as (A&B&D). exact (conj A (conj B D)).
Qed.

Definition nps_ok (nps : list nat) : Prop := forallb (fun n => (1 <=? n)%nat) nps = true.

Lemma np_of_pos nps h : nps_ok nps -> (1 <= np_of nps h)%nat.
Proof.
  intros H. unfold np_of. destruct (h <? 0); [lia|].
  unfold nps_ok in H. rewrite forallb_forall in H.
  destruct (nth_in_or_default (Z.to_nat h) nps 1%nat) as [Hin|Hd].
  - apply H in Hin. lia.
  - rewrite Hd. lia.
Qed.

Lemma procs_upto_bounds o pos np :
  (1 <= np)%nat -> exists k, procs_upto o pos np = S k /\ (S k <= np)%nat.
Proof.
  intros H. unfold procs_upto.
  assert (Nat.modulo pos np < np)%nat by (apply Nat.mod_upper_bound; lia).
  destruct o; try (eexists; split; [reflexivity|lia]).
  destruct np; [lia|]. eexists; split; [reflexivity|lia].
Qed.

Lemma coros_upto_bounds o pos nc np :
  (1 <= nc)%nat ->
  (coros_upto o pos nc <= nc)%nat /\ (coros_upto o pos nc = O \/ procs_upto o pos np = np).
Proof.
  intros H. unfold coros_upto, procs_upto.
  assert (Nat.modulo pos nc < nc)%nat by (apply Nat.mod_upper_bound; lia).
  destruct o; split; auto; lia.
Qed.

(* the end of switch(): both worlds muted, on_switch_in queued on the target,
   SwitchWorld raised; nothing is logged *)
Lemma switch_tail react h cc cn from to s2 s' l r :
  inv s2 -> alookup h (s_cache s2) = Some to ->
  (upd (disable from) ;; upd (disable to) ;; dispatch react to (VIn from to) ;;
   raise (XSW h cc cn (Some (from, to)))) s2 = Some (s', l, r) ->
  exists q4, alookup to (s_worlds (disable to (disable from s2))) = Some (false, q4) /\
    s' = set_worlds (aset to (false, q4 ++ [VIn from to])
                          (s_worlds (disable to (disable from s2))))
                    (disable to (disable from s2)) /\
    l = [] /\ r = RExn (XSW h cc cn (Some (from, to))).
Proof.
  intros I2 Cto2 H. destruct (proj1 I2 _ _ Cto2) as [W2 Eto2].
  apply andthen_inv in H as (s3&l3'&r3&E3&H4). injection E3 as <- <- <-.
  destruct H4 as (l4&H4&->).
  apply andthen_inv in H4 as (s4&l4'&r4&E4&H5). injection E4 as <- <- <-.
  destruct H5 as (l5&H5&->).
  apply andthen_inv in H5 as (s5&l5'&r5&D5&H6).
  assert (L4 : exists q, alookup to (s_worlds (disable to (disable from s2))) = Some (false, q)).
  { rewrite disable_lookup, disable_lookup, Eto2.
    destruct (to =? from); rewrite Z.eqb_refl; eauto. }
  destruct L4 as [q4 L4]. exists q4. split; [exact L4|].
  unfold dispatch in D5. rewrite L4 in D5. cbn [w_en w_q fst snd] in D5.
  injection D5 as <- <- <-. destruct H6 as (l6&H6&->). injection H6 as <- <- <-.
  repeat split; reflexivity.
Qed.

(* ---- well-formed operations ----------------------------------------------- *)
Definition op_ok (x : op * list entry) : bool :=
  match fst x with
  | OTop _ _ _ _ => negb (existsb top_escapes (snd x))
  | OStart fs _ _ => forallb frame_origin_ok fs
  end.

Lemma top_escape_sw l r w h :
  negb (existsb top_escapes
          (l ++ [match r with
                 | RNorm => ETopDone w h
                 | RExn XQuit => ETopExc TQuit w h
                 | RExn XOther => ETopExc TOther w h
                 | RExn (XSW _ _ _ _) => ETopExc TSwitch w h
                 end])) = true -> is_sw r = false.
Proof.
  rewrite existsb_app. destruct r as [|[| |h' cc cn t]]; cbn; auto.
  rewrite orb_true_r. discriminate.
Qed.
