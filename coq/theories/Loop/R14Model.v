(* C14 - SimpleLoop feeds exact time deltas and stops cleanly on Quit: the
   property as a checker over the observed log of every start() call, second
   generation (callbacks that act).  It reads the clock readings, the
   process(dt) calls, the actions performed (by scripts and by callbacks) and
   how start() ended; it knows nothing of queues, handles or how a switch is
   carried out, and it leaves open whether a SwitchWorld is caught by the
   loop (C13's business).  No proofs in this file. *)
From Coq Require Import ZArith List Bool Arith.
From Desper Require Import Lib.Alist.
From Desper Require Export Loop.RModel.
Import ListNotations.
Open Scope Z_scope.

(* the exception that is propagating (or, for PSwitch, also: nothing) *)
Inductive pend14 :=
| PQuit (w h : Z)      (* Quit, raised while w, h were the loop's current world and handle *)
| POther               (* some other exception *)
| PSwitch.             (* a SwitchWorld: the loop either switches and goes on with the next
                          iteration, or the exception leaves start(); also the situation
                          before the first iteration *)

Inductive m14 :=
| MFrame (w h dt : Z) (k : nat)   (* iteration of world w with delta dt; its processors
                                     0..k-1 have been called *)
| MPend (p : pend14)
| MQuitEv (w h : Z)               (* quit_loop was called: on_quit goes to w first *)
| MDone.

Record s14 := { a_prev : option Z; a_mode : m14 }.

Definition clock14 (prev : option Z) (e : entry) : option s14 :=
  match e with
  | EClock t w h =>
      let dt := match prev with None => 0 | Some p => t - p end in
      Some {| a_prev := Some t; a_mode := MFrame w h dt 0 |}
  | EClockEnd EndQuit w h => Some {| a_prev := prev; a_mode := MPend (PQuit w h) |}
  | EClockEnd EndOther _ _ => Some {| a_prev := prev; a_mode := MPend POther |}
  | _ => None
  end.

(* an action is performed while w, h are current *)
Definition act14 (prev : option Z) (a : action) (w h : Z) : option s14 :=
  match a with
  | ANormal => None
  | AQuit => Some {| a_prev := prev; a_mode := MPend (PQuit w h) |}
  | AQuitLoop _ => Some {| a_prev := prev; a_mode := MQuitEv w h |}
  | ASwitch _ _ _ _ | ARaiseSW _ _ _ => Some {| a_prev := prev; a_mode := MPend PSwitch |}
  | AOther => Some {| a_prev := prev; a_mode := MPend POther |}
  | ADirect _ _ _ => None
  end.

(* ... an action that does not raise (nothing, or a direct the_loop.switch)
   leaves things as they are: after a direct switch the frame goes on with the
   processors of the world it began with *)
Definition act14' (s : s14) (a : action) (w h : Z) : option s14 :=
  match a with
  | ANormal | ADirect _ _ _ => Some s
  | _ => act14 (a_prev s) a w h
  end.

Definition step14 (nps : list nat) (s : s14) (e : entry) : option s14 :=
  let prev := a_prev s in
  match a_mode s with
  | MFrame w h dt k =>
      match e with
      | EProc w' p d =>
          if (w' =? w) && Nat.eqb p k && (d =? dt)
          then Some {| a_prev := prev; a_mode := MFrame w h dt (S k) |} else None
      | EPoke _ _ _ | EEv _ _ | ELoad _ _ => Some s
      | ECoro w' _ =>                 (* the coroutines of the world run after its processors *)
          if Nat.eqb k (np_of nps h) && (w' =? w) then Some s else None
      | EAct o a w' h' =>
          if Nat.ltb 0 k then
            if is_callback o then act14' s a w' h'     (* a callback run by a direct switch *)
            else if (w' =? w) && (h' =? h)
                 then match a with ANormal => None | _ => act14' s a w h end
                 else None
          else None
      | _ => if Nat.eqb k (np_of nps h) then clock14 prev e else None
      end
  | MPend p =>
      match e with
      | ELoad _ _ | EEv _ _ => Some s
      | EAct o a w h =>
          if is_callback o then act14' s a w h else None
      | EClock _ _ _ | EClockEnd _ _ _ =>
          match p with PSwitch => clock14 prev e | _ => None end
      | EEnd out w' h' =>
          match p, out with
          | PQuit w h, Returned false =>
              if (w' =? w) && (h' =? h) then Some {| a_prev := prev; a_mode := MDone |} else None
          | POther, RaisedOther => Some {| a_prev := prev; a_mode := MDone |}
          | PSwitch, RaisedSwitch => Some {| a_prev := prev; a_mode := MDone |}
          | _, _ => None
          end
      | _ => None
      end
  | MQuitEv w h =>
      match e with
      | EEv w' VQuit =>
          if w' =? w then Some {| a_prev := prev; a_mode := MPend (PQuit w h) |} else None
      | _ => None
      end
  | MDone => None
  end.

Fixpoint run14 (nps : list nat) (s : s14) (l : list entry) : option s14 :=
  match l with
  | [] => Some s
  | e :: l' => match step14 nps s e with Some s' => run14 nps s' l' | None => None end
  end.

(* every start() begins with no previous reading: its first delta is 0 *)
Definition start14 (nps : list nat) (l : list entry) : bool :=
  match run14 nps {| a_prev := None; a_mode := MPend PSwitch |} l with
  | Some s => match a_mode s with MDone => true | _ => false end
  | None => false
  end.

Definition holds14_b (c : rcase) : bool :=
  forallb (fun x => match fst x with
                    | OTop _ _ _ _ => true
                    | OStart _ _ _ => start14 (c_nps c) (snd x)
                    end) (c_ops c).
Definition holds14 (c : rcase) : Prop := holds14_b c = true.

(* no known finding for C14 *)
Definition known14_b (c : rcase) : bool := false.

Definition C14_case := rcase.
Definition C14_verdict (c : C14_case) : nat :=
  (bit (wf_b c) 1 + bit (known14_b c) 2 + bit (accepts c) 4 + bit (holds14_b c) 8)%nat.
