(* Loop family, second generation (callbacks that act).  This file: the data
   (scripts, observations, state) and the part of the model that is NOT
   loop.py - the event bus of every world (desper/events.py: dispatch, the
   queue, the repaired dispatch_enabled setter), handles (Handle.__call__ /
   clear of desper/model/tree.py) and WorldHandle.load (desper/model/world.py).

   New with respect to Loop/Model.v: the listener callbacks on_world_load,
   on_switch_in, on_switch_out, on_quit can themselves act (one-shot
   *reactions*: the first pending reaction to the kind of event delivered is
   consumed and performed), so every operation can end by an exception that
   was raised from inside a callback, at any depth.  A computation is a
   function  state -> option (state * log * result) ; None = out of fuel (a
   case whose model run is None is rejected).  No proofs in this file. *)
From Coq Require Import ZArith List Bool Arith.
From Desper Require Import Lib.Alist.
Import ListNotations.
Open Scope Z_scope.

(* ---- scripts (inputs) --------------------------------------------------- *)
Inductive ekind := KLoad | KIn | KOut | KQuit.

(* who performs an action: a processor, the callback of an event the
   processor dispatches on its own world, a coroutine of the world, or the
   listener's callback for an event of kind k (a reaction); inh = it happens
   while the loop is carrying out a switch (outside the try block of
   SimpleLoop.loop) *)
Inductive origin := OProc | OEvent | OCoro | OCallback (k : ekind) (inh : bool).
Inductive qtarget := QDefault | QCurrent.

Inductive action :=
| ANormal
| AQuit                                          (* raise Quit() *)
| AQuitLoop (q : qtarget)                        (* desper.quit_loop(...) *)
| ASwitch (h : Z) (cc cn : bool) (explicit_from : bool)   (* desper.switch(...) *)
| ARaiseSW (h : Z) (cc cn : bool)                (* raise SwitchWorld(h, cc, cn) *)
| AOther                                         (* raise some other exception *)
| ADirect (h : Z) (cc cn : bool).                (* the_loop.switch(h, cc, cn) called directly
                                                    inside a frame; the frame then goes on
                                                    (scripted frame action only) *)

Definition reaction := (ekind * action)%type.

Record frame := {
  f_t : Z; f_pokes : list (Z * Z); f_pos : nat; f_org : origin; f_act : action }.

Inductive endkind := EndQuit | EndOther.

Inductive op :=
| OTop (h : Z) (cc cn : bool) (rs : list reaction)      (* loop.switch(h, cc, cn) from outside *)
| OStart (fs : list frame) (ek : endkind) (rs : list reaction).   (* loop.start() *)

(* ---- observations ------------------------------------------------------- *)
Inductive event :=
| VLoad (h w : Z) | VOut (f t : Z) | VIn (f t : Z) | VQuit | VPoke (tok : Z).

Inductive outcome := Returned (running : bool) | RaisedOther | RaisedSwitch.
Inductive topexc := TQuit | TOther | TSwitch.

Inductive entry :=
| EClock (t w h : Z)
| EClockEnd (k : endkind) (w h : Z)
| EProc (w : Z) (p : nat) (dt : Z)
| ECoro (w : Z) (c : nat)                    (* coroutine c of world w runs one step *)
| EPoke (k tok w : Z)
| EAct (o : origin) (a : action) (w h : Z)   (* about to perform a; loop.current_world /
                                                current_world_handle at that moment *)
| ELoad (h w : Z)
| EEv (w : Z) (e : event)
| EEnd (out : outcome) (w h : Z)
| ETopDone (w h : Z)                         (* loop.switch returned *)
| ETopExc (x : topexc) (w h : Z).            (* loop.switch raised *)

Record rcase := {
  c_nps : list nat;                     (* scripted processors of handle 0, 1, ... *)
  c_ncs : list nat;                     (* coroutines of the worlds of handle 0, 1, ... *)
  c_ops : list (op * list entry) }.

(* ---- decidable equality -------------------------------------------------- *)
Definition ekind_eq_dec (a b : ekind) : {a = b} + {a <> b}.
Proof. decide equality. Defined.
Definition origin_eq_dec (a b : origin) : {a = b} + {a <> b}.
Proof. decide equality; try apply Bool.bool_dec; apply ekind_eq_dec. Defined.
Definition qtarget_eq_dec (a b : qtarget) : {a = b} + {a <> b}.
Proof. decide equality. Defined.
Definition action_eq_dec (a b : action) : {a = b} + {a <> b}.
Proof. decide equality; try apply Bool.bool_dec; try apply Z.eq_dec; apply qtarget_eq_dec. Defined.
Definition event_eq_dec (a b : event) : {a = b} + {a <> b}.
Proof. decide equality; apply Z.eq_dec. Defined.
Definition endkind_eq_dec (a b : endkind) : {a = b} + {a <> b}.
Proof. decide equality. Defined.
Definition outcome_eq_dec (a b : outcome) : {a = b} + {a <> b}.
Proof. decide equality; apply Bool.bool_dec. Defined.
Definition topexc_eq_dec (a b : topexc) : {a = b} + {a <> b}.
Proof. decide equality. Defined.
Definition entry_eq_dec (a b : entry) : {a = b} + {a <> b}.
Proof.
  decide equality; try apply Z.eq_dec; try apply Nat.eq_dec;
    try apply endkind_eq_dec; try apply action_eq_dec; try apply origin_eq_dec;
    try apply event_eq_dec; try apply outcome_eq_dec; try apply topexc_eq_dec.
Defined.
Definition entry_eqb (a b : entry) : bool := if entry_eq_dec a b then true else false.
Fixpoint log_eqb (l1 l2 : list entry) : bool :=
  match l1, l2 with
  | [], [] => true
  | x :: l1, y :: l2 => entry_eqb x y && log_eqb l1 l2
  | _, _ => false
  end.

(* ---- state --------------------------------------------------------------- *)
Definition none : Z := -1.

(* a world instance: (dispatches at once?, events it holds, in order) *)
Definition world := (bool * list event)%type.
Definition w_en (W : world) : bool := fst W.
Definition w_q (W : world) : list event := snd W.

Record state := {
  s_worlds : list (Z * world);   (* every world instance created so far *)
  s_cache : list (Z * Z);        (* handle -> the instance it holds, if any *)
  s_next : Z;                    (* serial of the next world created *)
  s_curw : Z;                    (* Loop._current_world (none = None) *)
  s_curh : Z;                    (* Loop._current_world_handle *)
  s_inh : bool;                  (* ghost: the loop is carrying out a switch *)
  s_reacts : list reaction }.    (* reactions the listeners still have to perform *)

Definition init : state :=
  {| s_worlds := []; s_cache := []; s_next := 1; s_curw := none; s_curh := none;
     s_inh := false; s_reacts := [] |}.

Definition set_worlds ws s :=
  {| s_worlds := ws; s_cache := s_cache s; s_next := s_next s; s_curw := s_curw s;
     s_curh := s_curh s; s_inh := s_inh s;
     s_reacts := s_reacts s |}.
Definition set_cache c s :=
  {| s_worlds := s_worlds s; s_cache := c; s_next := s_next s; s_curw := s_curw s;
     s_curh := s_curh s; s_inh := s_inh s;
     s_reacts := s_reacts s |}.
Definition set_cur w h s :=
  {| s_worlds := s_worlds s; s_cache := s_cache s; s_next := s_next s; s_curw := w;
     s_curh := h; s_inh := s_inh s;
     s_reacts := s_reacts s |}.
Definition set_inh b s :=
  {| s_worlds := s_worlds s; s_cache := s_cache s; s_next := s_next s; s_curw := s_curw s;
     s_curh := s_curh s; s_inh := b;
     s_reacts := s_reacts s |}.
Definition set_reacts rs s :=
  {| s_worlds := s_worlds s; s_cache := s_cache s; s_next := s_next s; s_curw := s_curw s;
     s_curh := s_curh s; s_inh := s_inh s;
     s_reacts := rs |}.

Definition np_of (nps : list nat) (h : Z) : nat :=
  if h <? 0 then 1%nat else nth (Z.to_nat h) nps 1%nat.

(* ---- computations -------------------------------------------------------- *)
(* SwitchWorld(h, cc, cn); tag is ghost data: Some (from, to) when the
   exception was raised by switch(), which had queued on_switch_in(from, to) *)
Inductive exn := XQuit | XOther | XSW (h : Z) (cc cn : bool) (tag : option (Z * Z)).
Inductive res := RNorm | RExn (x : exn).

Definition M := state -> option (state * list entry * res).

Definition ret : M := fun s => Some (s, [], RNorm).
Definition emit (l : list entry) : M := fun s => Some (s, l, RNorm).
Definition raise (x : exn) : M := fun s => Some (s, [], RExn x).
Definition upd (f : state -> state) : M := fun s => Some (f s, [], RNorm).
(* m ; k : k runs only if m ends normally; the log is kept in any case *)
Definition andthen (m k : M) : M := fun s =>
  match m s with
  | None => None
  | Some (s1, l1, RNorm) =>
      match k s1 with
      | None => None
      | Some (s2, l2, r) => Some (s2, l1 ++ l2, r)
      end
  | Some (s1, l1, RExn x) => Some (s1, l1, RExn x)
  end.
Notation "m ;; k" := (andthen m k) (at level 61, right associativity).

Definition kind_of (e : event) : option ekind :=
  match e with
  | VLoad _ _ => Some KLoad | VIn _ _ => Some KIn | VOut _ _ => Some KOut
  | VQuit => Some KQuit | VPoke _ => None
  end.

(* the first pending reaction to kind k, and the list without it *)
Fixpoint take_reaction (k : ekind) (rs : list reaction) : option (action * list reaction) :=
  match rs with
  | [] => None
  | (k', a) :: rs' =>
      if ekind_eq_dec k k' then Some (a, rs')
      else match take_reaction k rs' with
           | Some (b, rest) => Some (b, (k', a) :: rest)
           | None => None
           end
  end.

Section Bus.
  (* what performing a reaction does (loop.py's part, see RModel.v) *)
  Variable react : ekind -> action -> M.

  (* the listener of world w receives e: it logs it, then performs the first
     pending reaction to that kind of event, if any *)
  Definition deliver (w : Z) (e : event) : M :=
    emit [EEv w e] ;;
    (fun s =>
       match kind_of e with
       | None => ret s
       | Some k =>
           match take_reaction k (s_reacts s) with
           | Some (a, rest) => react k a (set_reacts rest s)
           | None => ret s
           end
       end).

  (* EventDispatcher.dispatch: disabled -> queue; enabled -> call the listener *)
  Definition dispatch (w : Z) (e : event) : M := fun s =>
    match alookup w (s_worlds s) with
    | Some W =>
        if w_en W then deliver w e s
        else Some (set_worlds (aset w (false, w_q W ++ [e]) (s_worlds s)) s, [], RNorm)
    | None => ret s
    end.

  (* the repaired setter's loop: while queue and enabled: pop(0); dispatch.
     [fuel] is the queue at the start: nothing is appended while the world
     is enabled, so it bounds the number of iterations *)
  Fixpoint release (w : Z) (fuel : list event) : M := fun s =>
    match alookup w (s_worlds s) with
    | Some (true, e :: rest) =>
        match fuel with
        | [] => None
        | _ :: fuel' =>
            (upd (fun s => set_worlds (aset w (true, rest) (s_worlds s)) s) ;;
             dispatch w e ;; release w fuel') s
        end
    | _ => ret s
    end.

  (* dispatch_enabled = True *)
  Definition enable (w : Z) : M := fun s =>
    match alookup w (s_worlds s) with
    | Some W =>
        (upd (fun s => set_worlds (aset w (true, w_q W) (s_worlds s)) s) ;;
         release w (w_q W)) s
    | None => ret s
    end.
End Bus.

(* dispatch_enabled = False *)
Definition disable (w : Z) (s : state) : state :=
  match alookup w (s_worlds s) with
  | Some W => set_worlds (aset w (false, w_q W) (s_worlds s)) s
  | None => s
  end.

(* Handle.__call__ with WorldHandle.load (world created disabled,
   on_world_load queued) *)
Definition handle_call (h : Z) (s : state) : state * Z * list entry :=
  match alookup h (s_cache s) with
  | Some w => (s, w, [])
  | None =>
      let w := s_next s in
      ({| s_worlds := aset w (false, [VLoad h w]) (s_worlds s);
          s_cache := aset h w (s_cache s);
          s_next := w + 1;
          s_curw := s_curw s; s_curh := s_curh s; s_inh := s_inh s;
          s_reacts := s_reacts s |},
       w, [ELoad h w])
  end.

(* Handle.clear *)
Definition handle_clear (h : Z) (s : state) : state := set_cache (adel h (s_cache s)) s.

Definition bit (b : bool) (n : nat) : nat := if b then n else 0%nat.
