(* Facts about the model of Loop/Model.v shared by the proofs of C13 and C14:
   comparison of logs, what each function leaves untouched, and the state
   invariant (cached instances exist, serials are fresh, the current world
   exists and dispatches). *)
From Coq Require Import ZArith List Bool Arith Lia ZifyBool.
From Desper Require Import Lib.Alist Loop.Model.
Import ListNotations.
Open Scope Z_scope.

Lemma entry_eqb_eq a b : entry_eqb a b = true -> a = b.
Proof. unfold entry_eqb. destruct (entry_eq_dec a b); [auto|discriminate]. Qed.

Lemma entry_eqb_refl a : entry_eqb a a = true.
Proof. unfold entry_eqb. destruct (entry_eq_dec a a); [auto|contradiction]. Qed.

Lemma log_eqb_eq l1 : forall l2, log_eqb l1 l2 = true -> l1 = l2.
Proof.
  induction l1 as [|x l1 IH]; intros [|y l2]; cbn [log_eqb]; try discriminate; auto.
  intros H. apply andb_prop in H as [H1 H2]. apply entry_eqb_eq in H1. apply IH in H2.
  now subst.
Qed.

(* ---- invariant ----------------------------------------------------------- *)
Definition cache_ok (s : state) : Prop :=
  forall h w, alookup h (s_cache s) = Some w -> exists W, alookup w (s_worlds s) = Some W.
Definition worlds_lt (s : state) : Prop :=
  forall x W, alookup x (s_worlds s) = Some W -> x < s_next s.
Definition inv (s : state) : Prop := cache_ok s /\ worlds_lt s.
(* the loop's current world exists and its dispatching is enabled *)
Definition cur_ok (s : state) : Prop :=
  exists q, alookup (s_curw s) (s_worlds s) = Some (true, q).

(* s' differs from s only in queues / flags of worlds that were disabled in s
   and in worlds that did not exist *)
Definition wmono (s s' : state) : Prop :=
  s_cache s' = s_cache s /\ s_next s' = s_next s /\ s_curw s' = s_curw s /\
  s_curh s' = s_curh s /\ s_last s' = s_last s /\ s_running s' = s_running s /\
  (forall x, alookup x (s_worlds s) = None -> alookup x (s_worlds s') = None) /\
  (forall x W, alookup x (s_worlds s) = Some W ->
     exists W', alookup x (s_worlds s') = Some W' /\ (w_en W = true -> W' = W)).

Lemma wmono_refl s : wmono s s.
Proof. unfold wmono. repeat split; auto. intros x W H. exists W. auto. Qed.

Lemma wmono_trans s1 s2 s3 : wmono s1 s2 -> wmono s2 s3 -> wmono s1 s3.
Proof.
  intros (A1&A2&A3&A4&A5&A6&A7&A8) (B1&B2&B3&B4&B5&B6&B7&B8).
  unfold wmono. repeat split; try congruence; auto.
  intros x W H. destruct (A8 x W H) as (W'&H1&H2). destruct (B8 x W' H1) as (W''&H3&H4).
  exists W''. split; auto. intros E. pose proof (H2 E) as ->. apply H4. exact E.
Qed.

Lemma wmono_inv s s' : wmono s s' -> inv s -> inv s'.
Proof.
  intros (A1&A2&A3&A4&A5&A6&A7&A8) [C L]. split.
  - intros h w H. rewrite A1 in H. destruct (C h w H) as [W HW].
    destruct (A8 w W HW) as (W'&H1&_). eauto.
  - intros x W H. rewrite A2. destruct (alookup x (s_worlds s)) as [W0|] eqn:E.
    + eapply L; eauto.
    + rewrite (A7 x E) in H. discriminate.
Qed.

Lemma wmono_cur_ok s s' : wmono s s' -> cur_ok s -> cur_ok s'.
Proof.
  intros (A1&A2&A3&A4&A5&A6&A7&A8) [q H]. destruct (A8 _ _ H) as (W'&H1&H2).
  exists q. rewrite A3. rewrite H1. f_equal. apply H2. reflexivity.
Qed.

(* updating a world that exists and is disabled *)
Lemma wmono_update w V W s :
  alookup w (s_worlds s) = Some W -> w_en W = false ->
  wmono s (set_worlds (aset w V (s_worlds s)) s).
Proof.
  intros H E. unfold wmono, set_worlds; cbn. repeat split; auto.
  - intros x Hx. rewrite alookup_aset. destruct (x =? w) eqn:Ex; auto.
    apply Z.eqb_eq in Ex. subst. congruence.
  - intros x W0 Hx. rewrite alookup_aset. destruct (x =? w) eqn:Ex.
    + apply Z.eqb_eq in Ex. subst. exists V. split; auto. intros E'. congruence.
    + exists W0. auto.
Qed.

Lemma dispatch_wmono w e s s' l : dispatch w e s = (s', l) -> wmono s s'.
Proof.
  unfold dispatch. destruct (alookup w (s_worlds s)) as [W|] eqn:H.
  - destruct (w_en W) eqn:E; intros [= <- <-]; [apply wmono_refl|].
    eapply wmono_update; eauto.
  - intros [= <- <-]. apply wmono_refl.
Qed.

(* an enabled world delivers at once *)
Lemma dispatch_enabled w e s q :
  alookup w (s_worlds s) = Some (true, q) -> dispatch w e s = (s, [EEv w e]).
Proof. intros H. unfold dispatch. rewrite H. reflexivity. Qed.

Lemma do_pokes_wmono ps : forall s s' l, do_pokes ps s = (s', l) -> wmono s s'.
Proof.
  induction ps as [|[k tok] ps IH]; intros s s' l; cbn [do_pokes].
  - intros [= <- <-]. apply wmono_refl.
  - destruct (alookup k (s_cache s)) as [w|]; [|apply IH].
    destruct (dispatch w (VPoke tok) s) as [s1 l1] eqn:D.
    destruct (do_pokes ps s1) as [s2 l2] eqn:P. intros [= <- <-].
    eapply wmono_trans; [eapply dispatch_wmono; eauto|eapply IH; eauto].
Qed.

(* ---- the functions that do change handles and flags --------------------- *)
Lemma handle_clear_inv h s : inv s -> inv (handle_clear h s).
Proof.
  intros [C L]. split; [|exact L]. intros h' w. unfold handle_clear; cbn.
  rewrite alookup_adel. destruct (h' =? h); [discriminate|]. apply C.
Qed.

Lemma disable_inv w s : inv s -> inv (disable w s).
Proof.
  intros [C L]. unfold disable. destruct (alookup w (s_worlds s)) as [W|] eqn:H; [|split; auto].
  split.
  - intros h x Hx. cbn in Hx. destruct (C h x Hx) as [W0 H0]. cbn.
    rewrite alookup_aset. destruct (x =? w); eauto.
  - intros x W0. cbn. rewrite alookup_aset. destruct (x =? w) eqn:E.
    + apply Z.eqb_eq in E. subst. intros _. eapply L; eauto.
    + apply L.
Qed.

Lemma enable_inv w s s' l : enable w s = (s', l) -> inv s -> inv s'.
Proof.
  unfold enable. destruct (alookup w (s_worlds s)) as [W|] eqn:H; intros [= <- <-]; auto.
  intros [C L]. split.
  - intros h x Hx. cbn in Hx. destruct (C h x Hx) as [W0 H0]. cbn.
    rewrite alookup_aset. destruct (x =? w); eauto.
  - intros x W0. cbn. rewrite alookup_aset. destruct (x =? w) eqn:E.
    + apply Z.eqb_eq in E. subst. intros _. eapply L; eauto.
    + apply L.
Qed.

Lemma handle_call_inv h s s' w l :
  handle_call h s = (s', w, l) -> inv s ->
  inv s' /\ alookup h (s_cache s') = Some w /\ (exists W, alookup w (s_worlds s') = Some W).
Proof.
  unfold handle_call. destruct (alookup h (s_cache s)) as [w0|] eqn:H.
  - intros [= <- <- <-] I. split; auto. split; auto. destruct I as [C _]. eauto.
  - intros [= <- <- <-] [C L]. cbn. split; [split|].
    + intros h' x. cbn. rewrite alookup_aset. destruct (h' =? h) eqn:E.
      * intros [= <-]. rewrite alookup_aset_eq. eauto.
      * intros Hx. destruct (C h' x Hx) as [W0 H0]. rewrite alookup_aset.
        destruct (x =? s_next s); eauto.
    + intros x W0. cbn. rewrite alookup_aset. destruct (x =? s_next s) eqn:E.
      * intros _. lia.
      * intros Hx. apply L in Hx. lia.
    + rewrite !alookup_aset_eq. eauto.
Qed.

(* a load does not touch the worlds that exist *)
Lemma handle_call_keeps h s s' w l x W :
  handle_call h s = (s', w, l) -> inv s ->
  alookup x (s_worlds s) = Some W -> alookup x (s_worlds s') = Some W.
Proof.
  unfold handle_call. destruct (alookup h (s_cache s)) as [w0|].
  - intros [= <- <- <-]. auto.
  - intros [= <- <- <-] [_ L] Hx. cbn. rewrite alookup_aset.
    destruct (x =? s_next s) eqn:E; auto. apply L in Hx. lia.
Qed.

Lemma handle_call_fields h s s' w l :
  handle_call h s = (s', w, l) ->
  s_curw s' = s_curw s /\ s_curh s' = s_curh s /\ s_last s' = s_last s /\
  s_running s' = s_running s.
Proof.
  unfold handle_call. destruct (alookup h (s_cache s)); intros [= <- <- <-]; cbn; auto.
Qed.

Lemma handle_call_cached h s w :
  alookup h (s_cache s) = Some w -> handle_call h s = (s, w, []).
Proof. intros H. unfold handle_call. now rewrite H. Qed.

Lemma dispatch_fields w e s s' l :
  dispatch w e s = (s', l) ->
  s_curw s' = s_curw s /\ s_curh s' = s_curh s /\ s_last s' = s_last s /\
  s_running s' = s_running s.
Proof. intros H. apply dispatch_wmono in H. unfold wmono in H. tauto. Qed.

Lemma disable_fields w s :
  s_curw (disable w s) = s_curw s /\ s_curh (disable w s) = s_curh s /\
  s_last (disable w s) = s_last s /\ s_running (disable w s) = s_running s /\
  s_cache (disable w s) = s_cache s /\ s_next (disable w s) = s_next s.
Proof. unfold disable. destruct (alookup w (s_worlds s)); cbn; auto 10. Qed.

Lemma enable_fields w s s' l :
  enable w s = (s', l) ->
  s_curw s' = s_curw s /\ s_curh s' = s_curh s /\ s_last s' = s_last s /\
  s_running s' = s_running s /\ s_cache s' = s_cache s /\ s_next s' = s_next s.
Proof. unfold enable. destruct (alookup w (s_worlds s)); intros [= <- <-]; cbn; auto 10. Qed.

Lemma switch_fn_inv h s s' l : switch_fn h s = (s', l) -> inv s -> inv s'.
Proof.
  unfold switch_fn. destruct (handle_call h s) as [[s1 to] l1] eqn:H1.
  destruct (dispatch (s_curw s) (VOut (s_curw s) to) s1) as [s2 l2] eqn:H2.
  destruct (dispatch to (VIn (s_curw s) to) (disable to (disable (s_curw s) s2))) as [s5 l5] eqn:H5.
  intros [= <- <-] I.
  apply (handle_call_inv _ _ _ _ _ H1) in I as [I _].
  apply (wmono_inv _ _ (dispatch_wmono _ _ _ _ _ H2)) in I.
  apply (disable_inv (s_curw s)) in I. apply (disable_inv to) in I.
  apply (wmono_inv _ _ (dispatch_wmono _ _ _ _ _ H5)) in I. exact I.
Qed.

Lemma switch_fn_fields h s s' l :
  switch_fn h s = (s', l) ->
  s_curw s' = s_curw s /\ s_curh s' = s_curh s /\ s_last s' = s_last s /\
  s_running s' = s_running s.
Proof.
  unfold switch_fn. destruct (handle_call h s) as [[s1 to] l1] eqn:H1.
  destruct (dispatch (s_curw s) (VOut (s_curw s) to) s1) as [s2 l2] eqn:H2.
  destruct (dispatch to (VIn (s_curw s) to) (disable to (disable (s_curw s) s2))) as [s5 l5] eqn:H5.
  intros [= <- <-].
  apply handle_call_fields in H1. apply dispatch_fields in H2. apply dispatch_fields in H5.
  pose proof (disable_fields to (disable (s_curw s) s2)) as D1.
  pose proof (disable_fields (s_curw s) s2) as D2.
  intuition congruence.
Qed.

(* whatever the state, after SimpleLoop.switch the current world is the
   instance the handle holds, it exists and it dispatches *)
Lemma loop_switch_inv h cc cn s s' l :
  loop_switch h cc cn s = (s', l) -> inv s ->
  inv s' /\ cur_ok s' /\ s_curh s' = h /\ s_last s' = s_last s /\ s_running s' = s_running s.
Proof.
  unfold loop_switch.
  set (s1 := if cc then if s_curh s =? none then s else handle_clear (s_curh s) s else s).
  set (s2 := if cn then handle_clear h s1 else s1).
  destruct (handle_call h s2) as [[s3 w] l3] eqn:H3.
  destruct (handle_call h (set_cur w h s3)) as [[s5 w'] l5] eqn:H5.
  destruct (enable w' s5) as [s6 l6] eqn:H6.
  intros [= <- <-] I.
  assert (I1 : inv s1).
  { unfold s1. destruct cc; auto. destruct (s_curh s =? none); auto. now apply handle_clear_inv. }
  assert (I2 : inv s2). { unfold s2. destruct cn; auto. now apply handle_clear_inv. }
  assert (F2 : s_last s2 = s_last s /\ s_running s2 = s_running s).
  { unfold s2, s1. destruct cn, cc; cbn; try destruct (s_curh s =? none); cbn; auto. }
  destruct (handle_call_inv _ _ _ _ _ H3 I2) as (I3&C3&[W3 HW3]).
  pose proof (handle_call_fields _ _ _ _ _ H3) as (_&_&L3&R3).
  assert (I4 : inv (set_cur w h s3)) by exact I3.
  rewrite (handle_call_cached h (set_cur w h s3) w C3) in H5.
  injection H5 as <- <- <-.
  unfold enable in H6. cbn [set_cur s_worlds] in H6. rewrite HW3 in H6.
  injection H6 as <- <-.
  split; [|split; [|split; [|split]]].
  - destruct I3 as [C L]. split.
    + intros h' x Hx. cbn in Hx. destruct (C h' x Hx) as [W0 H0]. cbn.
      rewrite alookup_aset. destruct (x =? w); eauto.
    + intros x W0. cbn. rewrite alookup_aset. destruct (x =? w) eqn:E.
      * apply Z.eqb_eq in E. subst. intros _. eapply L; eauto.
      * apply L.
  - exists []. cbn. now rewrite alookup_aset_eq.
  - reflexivity.
  - cbn. destruct F2. congruence.
  - cbn. destruct F2. congruence.
Qed.

(* ---- shape of the logs --------------------------------------------------- *)
Definition is_ev (e : entry) : bool := match e with EEv _ _ => true | _ => false end.
Definition is_ev_load (e : entry) : bool :=
  match e with EEv _ _ | ELoad _ _ => true | _ => false end.
Definition is_ev_poke (e : entry) : bool :=
  match e with EEv _ _ | EPoke _ _ _ => true | _ => false end.

Lemma dispatch_log w e s s' l : dispatch w e s = (s', l) -> forallb is_ev l = true.
Proof.
  unfold dispatch. destruct (alookup w (s_worlds s)) as [W|]; [destruct (w_en W)|];
    intros [= <- <-]; reflexivity.
Qed.

Lemma forallb_app' {A} (f : A -> bool) l1 l2 :
  forallb f l1 = true -> forallb f l2 = true -> forallb f (l1 ++ l2) = true.
Proof. intros H1 H2. rewrite forallb_app, H1, H2. reflexivity. Qed.

Lemma forallb_weaken {A} (f g : A -> bool) l :
  (forall x, f x = true -> g x = true) -> forallb f l = true -> forallb g l = true.
Proof.
  intros H. induction l as [|x l IH]; cbn; auto. intros H1. apply andb_prop in H1 as [H1 H2].
  rewrite (H x H1), (IH H2). reflexivity.
Qed.

Lemma release_log w q : forallb is_ev (release w q) = true.
Proof. induction q as [|e q IH]; cbn; auto. Qed.

Lemma handle_call_log h s s' w l : handle_call h s = (s', w, l) -> forallb is_ev_load l = true.
Proof.
  unfold handle_call. destruct (alookup h (s_cache s)); intros [= <- <- <-]; reflexivity.
Qed.

Lemma do_pokes_log ps : forall s s' l, do_pokes ps s = (s', l) -> forallb is_ev_poke l = true.
Proof.
  induction ps as [|[k tok] ps IH]; intros s s' l; cbn [do_pokes].
  - intros [= <- <-]. reflexivity.
  - destruct (alookup k (s_cache s)) as [w|]; [|apply IH].
    destruct (dispatch w (VPoke tok) s) as [s1 l1] eqn:D.
    destruct (do_pokes ps s1) as [s2 l2] eqn:P. intros [= <- <-].
    cbn [forallb is_ev_poke]. apply forallb_app'.
    + eapply forallb_weaken; [|eapply dispatch_log; eauto]. now intros [].
    + eapply IH; eauto.
Qed.

Lemma switch_fn_log h s s' l : switch_fn h s = (s', l) -> forallb is_ev_load l = true.
Proof.
  unfold switch_fn. destruct (handle_call h s) as [[s1 to] l1] eqn:H1.
  destruct (dispatch (s_curw s) (VOut (s_curw s) to) s1) as [s2 l2] eqn:H2.
  destruct (dispatch to (VIn (s_curw s) to) (disable to (disable (s_curw s) s2))) as [s5 l5] eqn:H5.
  intros [= <- <-]. apply forallb_app'; [eapply handle_call_log; eauto|].
  apply forallb_app'; (eapply forallb_weaken; [|eapply dispatch_log; eauto]); now intros [].
Qed.

Lemma loop_switch_log h cc cn s s' l : loop_switch h cc cn s = (s', l) -> forallb is_ev_load l = true.
Proof.
  unfold loop_switch.
  destruct (handle_call h _) as [[s3 w] l3] eqn:H3.
  destruct (handle_call h (set_cur w h s3)) as [[s5 w'] l5] eqn:H5.
  destruct (enable w' s5) as [s6 l6] eqn:H6.
  intros [= <- <-]. apply forallb_app'; [eapply handle_call_log; eauto|].
  apply forallb_app'; [eapply handle_call_log; eauto|].
  unfold enable in H6. destruct (alookup w' (s_worlds s5)); injection H6 as <- <-; auto.
  eapply forallb_weaken; [|apply release_log]. now intros [].
Qed.

(* ---- processors ---------------------------------------------------------- *)
Definition nps_ok (nps : list nat) : Prop := forallb (fun n => (1 <=? n)%nat) nps = true.

Lemma np_of_pos nps h : nps_ok nps -> (1 <= np_of nps h)%nat.
Proof.
  intros H. unfold np_of. destruct (h <? 0); [lia|].
  unfold nps_ok in H. rewrite forallb_forall in H.
  destruct (nth_in_or_default (Z.to_nat h) nps 1%nat) as [Hin|Hd].
  - apply H in Hin. lia.
  - rewrite Hd. lia.
Qed.

Lemma eff_pos_lt o pos np : (1 <= np)%nat -> (S (eff_pos o pos np) <= np)%nat.
Proof.
  intros H. unfold eff_pos. destruct o; try lia;
    (assert (Nat.modulo pos np < np)%nat by (apply Nat.mod_upper_bound; lia); lia).
Qed.

Lemma procs_split w dt pos np :
  (S pos <= np)%nat -> procs w dt 0 (S pos) ++ procs w dt (S pos) (np - S pos) = procs w dt 0 np.
Proof.
  intros H. unfold procs. rewrite <- map_app. f_equal.
  replace np with (S pos + (np - S pos))%nat at 2 by lia.
  now rewrite seq_app.
Qed.

(* ---- one iteration keeps the invariant ----------------------------------- *)
Lemma run_frame_inv nps f s s' l r :
  run_frame nps f s = (s', l, r) -> inv s -> cur_ok s ->
  inv s' /\ cur_ok s'.
Proof.
  unfold run_frame.
  destruct (do_pokes (f_pokes f) (set_last (Some (f_t f)) s)) as [s1 lp] eqn:P.
  intros H I C.
  assert (I0 : inv (set_last (Some (f_t f)) s)) by exact I.
  assert (C0 : cur_ok (set_last (Some (f_t f)) s)) by exact C.
  pose proof (do_pokes_wmono _ _ _ _ P) as M.
  pose proof (wmono_inv _ _ M I0) as I1. pose proof (wmono_cur_ok _ _ M C0) as C1.
  destruct (f_act f) as [| |q|h cc cn ex|h cc cn|].
  - injection H as <- <- <-. auto.
  - injection H as <- <- <-. auto.
  - destruct (dispatch (s_curw s) VQuit s1) as [s2 l2] eqn:D. injection H as <- <- <-.
    pose proof (dispatch_wmono _ _ _ _ _ D) as M2.
    split; [eapply wmono_inv; eauto|eapply wmono_cur_ok; eauto].
  - destruct (switch_fn h s1) as [s2 l2] eqn:S2.
    destruct (loop_switch h cc cn s2) as [s3 l3] eqn:S3. injection H as <- <- <-.
    pose proof (switch_fn_inv _ _ _ _ S2 I1) as I2.
    destruct (loop_switch_inv _ _ _ _ _ _ S3 I2) as (A&B&_). auto.
  - destruct (loop_switch h cc cn s1) as [s3 l3] eqn:S3. injection H as <- <- <-.
    destruct (loop_switch_inv _ _ _ _ _ _ S3 I1) as (A&B&_). auto.
  - injection H as <- <- <-. auto.
Qed.
