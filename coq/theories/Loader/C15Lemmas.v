(* C15 - lemmas about values, the three regexes and the per-argument /
   per-dict part of the pipeline (three passes = one-pass substitution). *)
From Coq Require Import ZArith List Bool Lia ZifyBool.
From Desper Require Import Lib.Alist Loader.Value Loader.C15Model.
Import ListNotations.
Open Scope Z_scope.

(* ---- induction over nested values ------------------------------------------ *)
Section ValInd.
  Variable P : val -> Prop.
  Hypothesis HNull : P JNull.
  Hypothesis HBool : forall b, P (JBool b).
  Hypothesis HNum : forall z, P (JNum z).
  Hypothesis HStr : forall s, P (JStr s).
  Hypothesis HList : forall l, Forall P l -> P (JList l).
  Hypothesis HObj : forall kv, Forall (fun p => P (snd p)) kv -> P (JObj kv).
  Hypothesis HRef : forall k i, P (JRef k i).

  Fixpoint val_ind' (v : val) : P v :=
    match v with
    | JNull => HNull
    | JBool b => HBool b
    | JNum z => HNum z
    | JStr s => HStr s
    | JList l => HList l ((fix go (l : list val) : Forall P l :=
                             match l with
                             | [] => Forall_nil _
                             | x :: l' => Forall_cons _ (val_ind' x) (go l')
                             end) l)
    | JObj kv => HObj kv ((fix go (l : list (Z * val)) : Forall (fun p => P (snd p)) l :=
                             match l with
                             | [] => Forall_nil _
                             | x :: l' => Forall_cons _ (val_ind' (snd x)) (go l')
                             end) kv)
    | JRef k i => HRef k i
    end.
End ValInd.

Lemma str_eqb_eq a b : str_eqb a b = true <-> a = b.
Proof.
  revert b; induction a as [|x a IH]; intros [|y b]; cbn [str_eqb]; split; intro H;
    try discriminate; try reflexivity.
  - apply andb_true_iff in H as [H1 H2]. apply Z.eqb_eq in H1. apply IH in H2. now subst.
  - inversion H; subst. rewrite Z.eqb_refl. cbn. now apply IH.
Qed.

Lemma rkind_eqb_eq a b : rkind_eqb a b = true <-> a = b.
Proof. destruct a, b; cbn; split; intro H; try discriminate; reflexivity. Qed.

Lemma val_eqb_eq a : forall b, val_eqb a b = true <-> a = b.
Proof.
  induction a as [| x | x | x | l IH | kv IH | k i] using val_ind'; intros b.
  - destruct b; cbn; split; intro H; try discriminate; reflexivity.
  - destruct b as [| y | | | | |]; cbn; split; intro H; try discriminate.
    + apply eqb_prop in H. now subst.
    + inversion H; subst. apply eqb_reflx.
  - destruct b as [| | y | | | |]; cbn; split; intro H; try discriminate.
    + apply Z.eqb_eq in H. now subst.
    + inversion H; subst. apply Z.eqb_refl.
  - destruct b as [| | | y | | |]; cbn [val_eqb]; split; intro H; try discriminate.
    + apply str_eqb_eq in H. now subst.
    + inversion H; subst. now apply str_eqb_eq.
  - destruct b as [| | | | m | |]; cbn [val_eqb]; split; intro H; try discriminate.
    + f_equal. revert m H. induction IH as [|x l Hx _ IHl]; intros [|y m] H; try discriminate.
      * reflexivity.
      * apply andb_true_iff in H as [H1 H2]. apply Hx in H1. apply IHl in H2. now subst.
    + inversion H; subst m. clear H. induction IH as [|x l Hx _ IHl]; [reflexivity|].
      apply andb_true_iff. split; [now apply Hx|exact IHl].
  - destruct b as [| | | | | m |]; cbn [val_eqb]; split; intro H; try discriminate.
    + f_equal. revert m H. induction IH as [|[k x] l Hx _ IHl]; intros [|[k' y] m] H;
        try discriminate.
      * reflexivity.
      * cbn [fst snd] in *. apply andb_true_iff in H as [H1 H3].
        apply andb_true_iff in H1 as [H1 H2]. apply Z.eqb_eq in H1. apply Hx in H2.
        apply IHl in H3. now subst.
    + inversion H; subst m. clear H. induction IH as [|[k x] l Hx _ IHl]; [reflexivity|].
      cbn [fst snd] in *. rewrite Z.eqb_refl. cbn [andb].
      apply andb_true_iff. split; [now apply Hx|exact IHl].
  - destruct b as [| | | | | | k' i']; cbn [val_eqb]; split; intro H; try discriminate.
    + apply andb_true_iff in H as [H1 H2]. apply rkind_eqb_eq in H1. apply Z.eqb_eq in H2.
      now subst.
    + inversion H; subst. apply andb_true_iff. split; [now apply rkind_eqb_eq|apply Z.eqb_refl].
Qed.

Lemma val_eqb_refl a : val_eqb a a = true.
Proof. now apply val_eqb_eq. Qed.

Lemma val_eqb_neq a b : val_eqb a b = false <-> a <> b.
Proof.
  split; intro H.
  - intro E. apply val_eqb_eq in E. congruence.
  - destruct (val_eqb a b) eqn:E; [|reflexivity]. apply val_eqb_eq in E. contradiction.
Qed.

Lemma plain_nocopy v : plain v = true -> has_nocopy v = false.
Proof.
  induction v as [| x | x | x | l IH | kv IH | k i] using val_ind'; cbn [plain has_nocopy];
    intro H; try reflexivity; try discriminate; try (destruct k; (reflexivity || discriminate)).
  - induction IH as [|x l Hx _ IHl]; [reflexivity|].
    cbn [forallb existsb] in *. apply andb_true_iff in H as [H1 H2].
    now rewrite (Hx H1), (IHl H2).
  - induction IH as [|x l Hx _ IHl]; [reflexivity|].
    cbn [forallb existsb] in *. apply andb_true_iff in H as [H1 H2].
    now rewrite (Hx H1), (IHl H2).
Qed.

Lemma vmem_In v l : vmem v l = true <-> In v l.
Proof.
  unfold vmem. rewrite existsb_exists. split.
  - intros [x [Hx E]]. apply val_eqb_eq in E. now subst.
  - intro H. exists v. split; [exact H|apply val_eqb_refl].
Qed.

Lemma vmem_notIn v l : vmem v l = false <-> ~ In v l.
Proof.
  split; intro H.
  - intro HI. apply vmem_In in HI. congruence.
  - destruct (vmem v l) eqn:E; [|reflexivity]. apply vmem_In in E. contradiction.
Qed.

Lemma vnodup_NoDup l : vnodup l = true <-> NoDup l.
Proof.
  induction l as [|x l IH]; cbn [vnodup]; split; intro H.
  - constructor.
  - reflexivity.
  - apply andb_true_iff in H as [H1 H2]. constructor.
    + apply negb_true_iff in H1. now apply vmem_notIn.
    + now apply IH.
  - inversion H; subst. apply andb_true_iff. split.
    + apply negb_true_iff. now apply vmem_notIn.
    + now apply IH.
Qed.

Lemma zmem_In x l : existsb (Z.eqb x) l = true <-> In x l.
Proof.
  rewrite existsb_exists. split.
  - intros [y [Hy E]]. apply Z.eqb_eq in E. now subst.
  - intro H. exists x. split; [exact H|apply Z.eqb_refl].
Qed.

Lemma znodup_NoDup l : znodup l = true <-> NoDup l.
Proof.
  induction l as [|x l IH]; cbn [znodup]; split; intro H.
  - constructor.
  - reflexivity.
  - apply andb_true_iff in H as [H1 H2]. constructor.
    + apply negb_true_iff in H1. intro HI. apply zmem_In in HI. congruence.
    + now apply IH.
  - inversion H; subst. apply andb_true_iff. split.
    + apply negb_true_iff. destruct (existsb (Z.eqb x) l) eqn:E; [|reflexivity].
      apply zmem_In in E. contradiction.
    + now apply IH.
Qed.

(* ---- forall2b / mapM -------------------------------------------------------- *)
Lemma forall2b_app {A B} (f : A -> B -> bool) l1 m1 l2 m2 :
  forall2b f l1 m1 = true -> forall2b f l2 m2 = true -> forall2b f (l1 ++ l2) (m1 ++ m2) = true.
Proof.
  revert m1; induction l1 as [|x l1 IH]; intros [|y m1] H1 H2; cbn [forall2b app] in *;
    try discriminate; [exact H2|].
  apply andb_true_iff in H1 as [Ha Hb]. rewrite Ha. cbn [andb]. now apply IH.
Qed.

Lemma forall2b_refl {A} (f : A -> A -> bool) l :
  (forall x, f x x = true) -> forall2b f l l = true.
Proof. intro H. induction l as [|x l IH]; cbn [forall2b]; [reflexivity|]. now rewrite H, IH. Qed.

Lemma forall2b_length {A B} (f : A -> B -> bool) l m :
  forall2b f l m = true -> length l = length m.
Proof.
  revert m; induction l as [|x l IH]; intros [|y m] H; cbn [forall2b] in H; try discriminate;
    [reflexivity|].
  apply andb_true_iff in H as [_ H]. cbn [length]. f_equal. now apply IH.
Qed.

Lemma zlist_eqb_refl l : zlist_eqb l l = true.
Proof. apply forall2b_refl, Z.eqb_refl. Qed.

Lemma zlist_eqb_eq a b : zlist_eqb a b = true -> a = b.
Proof.
  unfold zlist_eqb. revert b; induction a as [|x a IH]; intros [|y b] H; cbn [forall2b] in H;
    try discriminate; [reflexivity|].
  apply andb_true_iff in H as [H1 H2]. apply Z.eqb_eq in H1. apply IH in H2. now subst.
Qed.

(* ---- the regexes ------------------------------------------------------------- *)
Lemma starts_with_false_match m s : starts_with m s = false -> match_prefix m s = None.
Proof. unfold starts_with, match_prefix. now destruct (strip_prefix m s). Qed.

Lemma split_last_app s b l : split_last s = Some (b, l) -> s = b ++ [l].
Proof.
  revert b l; induction s as [|c s IH]; intros b l H; cbn [split_last] in H; [discriminate|].
  destruct (split_last s) as [[b' l']|] eqn:E.
  - inversion H; subst. cbn [app]. f_equal. now apply IH.
  - inversion H; subst. destruct s as [|c' s]; [reflexivity|].
    cbn [split_last] in E. destruct (split_last s) as [[? ?]|]; discriminate.
Qed.

Lemma first_line_clean b :
  forallb (fun x => negb (x =? 125) && negb (x =? 10)) b = true ->
  first_line (b ++ [125]) = b ++ [125].
Proof.
  induction b as [|c b IH]; cbn [forallb app first_line]; intro H.
  - reflexivity.
  - apply andb_true_iff in H as [H1 H2]. apply andb_true_iff in H1 as [_ H1].
    apply negb_true_iff in H1. rewrite H1. f_equal. now apply IH.
Qed.

Lemma last_brace_clean b :
  forallb (fun x => negb (x =? 125) && negb (x =? 10)) b = true ->
  last_brace (b ++ [125]) = Some b.
Proof.
  induction b as [|c b IH]; cbn [forallb app last_brace]; intro H.
  - reflexivity.
  - apply andb_true_iff in H as [H1 H2]. rewrite (IH H2). reflexivity.
Qed.

(* a string of the exact form is matched, and the group is its body *)
Lemma exact_body_match m s b : exact_body m s = Some b -> match_prefix m s = Some b.
Proof.
  unfold exact_body, match_prefix. destruct (strip_prefix m s) as [rest|]; [|discriminate].
  destruct (split_last rest) as [[body l]|] eqn:E; [|discriminate].
  destruct ((l =? 125) && negb (null body)
            && forallb (fun x => negb (x =? 125) && negb (x =? 10)) body) eqn:C; [|discriminate].
  intro H; inversion H; subst b; clear H.
  apply andb_true_iff in C as [C1 C3]. apply andb_true_iff in C1 as [C1 C2].
  apply Z.eqb_eq in C1. subst l. apply split_last_app in E. subst rest.
  rewrite (first_line_clean _ C3), (last_brace_clean _ C3).
  destruct body; [discriminate|reflexivity].
Qed.

Lemma exact_body_starts m s b : exact_body m s = Some b -> starts_with m s = true.
Proof.
  unfold exact_body, starts_with. destruct (strip_prefix m s); [reflexivity|discriminate].
Qed.

(* the three markers exclude each other *)
Lemma res_not_obj s : starts_with m_res s = true -> starts_with m_obj s = false.
Proof.
  unfold starts_with, m_res, m_obj. destruct s as [|a [|c s]]; cbn [strip_prefix]; try reflexivity.
  - destruct (36 =? a); [discriminate|reflexivity].
  - destruct (36 =? a); [|reflexivity].
    destruct (114 =? c) eqn:E1; [|discriminate]. apply Z.eqb_eq in E1. subst c. reflexivity.
Qed.

Lemma handle_not_obj s : starts_with m_handle s = true -> starts_with m_obj s = false.
Proof.
  unfold starts_with, m_handle, m_obj. destruct s as [|a [|c s]]; cbn [strip_prefix]; try reflexivity.
  - destruct (36 =? a); [discriminate|reflexivity].
  - destruct (36 =? a); [|reflexivity].
    destruct (104 =? c) eqn:E1; [|discriminate]. apply Z.eqb_eq in E1. subst c. reflexivity.
Qed.

Lemma handle_not_res s : starts_with m_handle s = true -> starts_with m_res s = false.
Proof.
  unfold starts_with, m_handle, m_res. destruct s as [|a [|c s]]; cbn [strip_prefix]; try reflexivity.
  - destruct (36 =? a); [discriminate|reflexivity].
  - destruct (36 =? a); [|reflexivity].
    destruct (104 =? c) eqn:E1; [|discriminate]. apply Z.eqb_eq in E1. subst c. reflexivity.
Qed.

(* ---- classification ----------------------------------------------------------- *)
Lemma classify_obj s b : classify s = FObj b -> exact_body m_obj s = Some b.
Proof.
  unfold classify. destruct (exact_body m_obj s); [now intros [= ->]|].
  destruct (exact_body m_res s); [discriminate|].
  destruct (exact_body m_handle s); [discriminate|].
  destruct (_ || _ || _); discriminate.
Qed.

Lemma classify_res s b :
  classify s = FRes b -> exact_body m_res s = Some b.
Proof.
  unfold classify. destruct (exact_body m_obj s); [discriminate|].
  destruct (exact_body m_res s); [now intros [= ->]|].
  destruct (exact_body m_handle s); [discriminate|].
  destruct (_ || _ || _); discriminate.
Qed.

Lemma classify_handle s b :
  classify s = FHandle b -> exact_body m_handle s = Some b.
Proof.
  unfold classify. destruct (exact_body m_obj s); [discriminate|].
  destruct (exact_body m_res s); [discriminate|].
  destruct (exact_body m_handle s); [now intros [= ->]|].
  destruct (_ || _ || _); discriminate.
Qed.

Lemma classify_plain s :
  classify s = FPlain ->
  starts_with m_obj s = false /\ starts_with m_res s = false /\ starts_with m_handle s = false.
Proof.
  unfold classify. destruct (exact_body m_obj s); [discriminate|].
  destruct (exact_body m_res s); [discriminate|].
  destruct (exact_body m_handle s); [discriminate|].
  destruct (starts_with m_obj s), (starts_with m_res s), (starts_with m_handle s);
    cbn; try discriminate. auto.
Qed.

(* ---- one argument through the second and third pass ------------------------- *)
Lemma slookup_In {A} k (l : list (str * A)) v : slookup k l = Some v -> exists k', In (k', v) l.
Proof.
  induction l as [|[k' v'] l IH]; cbn [slookup]; [discriminate|].
  destruct (str_eqb k k').
  - intros [= ->]. exists k'. now left.
  - intro H. destruct (IH H) as [k'' HI]. exists k''. now right.
Qed.

(* a namespace object passes the third pass unchanged *)
Lemma res_map_nsval E name e :
  ns_wf E = true -> slookup name (c_ns E) = Some e -> res_map E (n_val e) = Some (n_val e).
Proof.
  intros Hns Hl. apply slookup_In in Hl as [k HI].
  unfold ns_wf in Hns. rewrite forallb_forall in Hns. specialize (Hns _ HI). cbn [snd] in Hns.
  destruct (n_val e) as [| | | s | | |]; try reflexivity.
  apply negb_true_iff, orb_false_iff in Hns as [H1 H2].
  unfold res_map. now rewrite (starts_with_false_match _ _ H1), (starts_with_false_match _ _ H2).
Qed.

Lemma res_not_handle s : starts_with m_res s = true -> starts_with m_handle s = false.
Proof.
  intro H. destruct (starts_with m_handle s) eqn:E; [|reflexivity].
  apply handle_not_res in E. congruence.
Qed.

Lemma not_starts_exact m s : starts_with m s = false -> exact_body m s = None.
Proof. unfold starts_with, exact_body. now destruct (strip_prefix m s). Qed.

(* ---- one pass on one value: the code's pass against its declarative reading ---- *)
Definition agrees (r : option val) (x : expect) : Prop :=
  match r with
  | Some c' => x = Exactly c' \/ x = Anything
  | None => x = Anything \/ x = MustFail
  end.

Lemma vpass_spec E p c : agrees (vpass E p c) (spec_pass E p (Exactly c)).
Proof.
  destruct p; cbn [vpass].
  - (* type pass: arguments untouched *)
    left. now destruct c.
  - (* object pass *)
    destruct c as [| | | s | | |]; try (left; reflexivity).
    cbn [obj_map spec_pass agrees]. unfold object_from_string.
    destruct (exact_body m_obj s) as [name|] eqn:X.
    + rewrite (exact_body_match _ _ _ X). destruct (slookup name (c_ns E)); cbn; auto.
    + destruct (starts_with m_obj s) eqn:S.
      * destruct (match_prefix m_obj s) as [g|]; [|cbn; auto].
        destruct (slookup g (c_ns E)); cbn; auto.
      * rewrite (starts_with_false_match _ _ S). cbn. auto.
  - (* resource pass *)
    destruct c as [| | | s | | |]; try (left; reflexivity).
    cbn [res_map spec_pass agrees]. unfold tree_expect.
    destruct (exact_body m_res s) as [q|] eqn:X.
    + rewrite (exact_body_match _ _ _ X).
      destruct (slookup (dots_to_slashes q) (c_tree E)) as [[h r|m]|]; cbn; auto.
    + destruct (starts_with m_res s) eqn:S.
      * rewrite (not_starts_exact _ _ (res_not_handle _ S)). cbn [orb].
        destruct (match_prefix m_res s) as [g|].
        -- destruct (slookup (dots_to_slashes g) (c_tree E)) as [[h r|m]|]; cbn; auto.
        -- rewrite (starts_with_false_match _ _ (res_not_handle _ S)). cbn. auto.
      * rewrite (starts_with_false_match _ _ S). cbn [orb].
        destruct (exact_body m_handle s) as [q|] eqn:Y.
        -- rewrite (exact_body_match _ _ _ Y).
           destruct (slookup (dots_to_slashes q) (c_tree E)) as [[h r|m]|]; cbn; auto.
        -- destruct (starts_with m_handle s) eqn:S2.
           ++ destruct (match_prefix m_handle s) as [g|]; [|cbn; auto].
              destruct (slookup (dots_to_slashes g) (c_tree E)) as [[h r|m]|]; cbn; auto.
           ++ rewrite (starts_with_false_match _ _ S2). cbn. auto.
Qed.

(* all passes on one value *)
Fixpoint vfold (E : env) (ps : list pass) (c : val) : option val :=
  match ps with
  | [] => Some c
  | p :: r => match vpass E p c with Some c' => vfold E r c' | None => None end
  end.

Lemma spec_fold_anything E ps : spec_fold E ps Anything = Anything.
Proof. induction ps as [|p r IH]; cbn [spec_fold spec_pass]; [reflexivity|exact IH]. Qed.

Lemma spec_fold_mustfail E ps : spec_fold E ps MustFail = MustFail.
Proof. induction ps as [|p r IH]; cbn [spec_fold spec_pass]; [reflexivity|exact IH]. Qed.

Lemma vfold_spec E ps : forall c, agrees (vfold E ps c) (spec_fold E ps (Exactly c)).
Proof.
  induction ps as [|p r IH]; intro c; cbn [vfold spec_fold].
  - left. reflexivity.
  - pose proof (vpass_spec E p c) as H. destruct (vpass E p c) as [c'|]; cbn [agrees] in H.
    + destruct H as [-> | ->].
      * apply IH.
      * rewrite spec_fold_anything. destruct (vfold E r c'); cbn; auto.
    + destruct H as [-> | ->].
      * rewrite spec_fold_anything. now left.
      * rewrite spec_fold_mustfail. now right.
Qed.

(* the default list of passes read pass by pass = the one-pass reading *)
Lemma fold_default_one_pass E a :
  ns_wf E = true -> spec_fold E default_passes (Exactly a) = subst_spec E a.
Proof.
  intro Hns. unfold default_passes. cbn [spec_fold].
  destruct a as [| | | s | | |]; try reflexivity.
  cbn [subst_spec]. cbn [spec_pass].
  destruct (classify s) as [name | q | q | | ] eqn:C.
  - apply classify_obj in C. rewrite C.
    destruct (slookup name (c_ns E)) as [e|] eqn:L; [|reflexivity].
    apply slookup_In in L as [k HI].
    unfold ns_wf in Hns. rewrite forallb_forall in Hns. specialize (Hns _ HI). cbn [snd] in Hns.
    destruct (n_val e) as [| | | s' | | |]; try reflexivity.
    apply negb_true_iff, orb_false_iff in Hns as [H1 H2]. cbn [spec_pass].
    now rewrite (not_starts_exact _ _ H1), (not_starts_exact _ _ H2), H1, H2.
  - apply classify_res in C. pose proof (exact_body_starts _ _ _ C) as S.
    rewrite (not_starts_exact _ _ (res_not_obj _ S)), (res_not_obj _ S). cbn [spec_pass].
    rewrite C. unfold tree_expect.
    now destruct (slookup (dots_to_slashes q) (c_tree E)) as [[h r|m]|].
  - apply classify_handle in C. pose proof (exact_body_starts _ _ _ C) as S.
    rewrite (not_starts_exact _ _ (handle_not_obj _ S)), (handle_not_obj _ S). cbn [spec_pass].
    rewrite (not_starts_exact _ _ (handle_not_res _ S)), C. unfold tree_expect.
    now destruct (slookup (dots_to_slashes q) (c_tree E)) as [[h r|m]|].
  - apply classify_plain in C as [C1 [C2 C3]].
    rewrite (not_starts_exact _ _ C1), C1. cbn [spec_pass].
    now rewrite (not_starts_exact _ _ C2), (not_starts_exact _ _ C3), C2, C3.
  - (* open: begins with a marker, no exact form *)
    unfold classify in C.
    destruct (exact_body m_obj s) eqn:X1; [discriminate|].
    destruct (exact_body m_res s) eqn:X2; [discriminate|].
    destruct (exact_body m_handle s) eqn:X3; [discriminate|].
    destruct (starts_with m_obj s) eqn:S1; [reflexivity|]. cbn [spec_pass].
    rewrite X2, X3.
    destruct (starts_with m_res s || starts_with m_handle s) eqn:S2; [reflexivity|].
    cbn [orb] in C. rewrite S2 in C. discriminate.
Qed.

(* ---- mapM ------------------------------------------------------------------------ *)
Lemma mapM_Forall2 {A B} (f : A -> option B) : forall l l',
  mapM f l = Some l' -> Forall2 (fun a b => f a = Some b) l l'.
Proof.
  induction l as [|a l IH]; intros l' H; cbn [mapM] in H.
  - injection H as <-. constructor.
  - destruct (f a) as [b|] eqn:Fa; [|discriminate].
    destruct (mapM f l) as [r|]; [|discriminate]. injection H as <-.
    constructor; [exact Fa|now apply IH].
Qed.

Lemma mapM_None {A B} (f : A -> option B) : forall l,
  mapM f l = None -> exists a, In a l /\ f a = None.
Proof.
  induction l as [|a l IH]; cbn [mapM]; intro H; [discriminate|].
  destruct (f a) as [b|] eqn:Fa.
  - destruct (mapM f l) as [r|]; [discriminate|].
    destruct (IH eq_refl) as [x [Hx Fx]]. exists x. split; [now right|exact Fx].
  - exists a. split; [now left|exact Fa].
Qed.

Definition bindo {A B} (o : option A) (g : A -> option B) : option B :=
  match o with Some a => g a | None => None end.

Lemma mapM_compose {A B C} (f : A -> option B) (g : B -> option C) : forall l,
  bindo (mapM f l) (mapM g) = mapM (fun a => bindo (f a) g) l.
Proof.
  induction l as [|a l IH]; cbn [mapM bindo]; [reflexivity|].
  destruct (f a) as [b|]; cbn [bindo]; [|reflexivity].
  rewrite <- IH. destruct (mapM f l) as [r|]; cbn [bindo mapM]; [reflexivity|].
  now destruct (g b).
Qed.

Lemma mapM_ext {A B} (f g : A -> option B) l : (forall a, f a = g a) -> mapM f l = mapM g l.
Proof. intro H. induction l as [|a l IH]; cbn [mapM]; [reflexivity|]. now rewrite H, IH. Qed.

Lemma mapM_id {A} (l : list A) : mapM (fun a => Some a) l = Some l.
Proof. induction l as [|a l IH]; cbn [mapM]; [reflexivity|]. now rewrite IH. Qed.

Definition kw_lift (f : val -> option val) (p : Z * val) : option (Z * val) :=
  match f (snd p) with Some v => Some (fst p, v) | None => None end.

Lemma kw_lift_compose f g p : bindo (kw_lift f p) (kw_lift g) = kw_lift (fun a => bindo (f a) g) p.
Proof. unfold kw_lift. cbn. destruct (f (snd p)); reflexivity. Qed.

Lemma tr_args_compose f g o :
  bindo (tr_args f o) (tr_args g) = tr_args (fun a => bindo (f a) g) o.
Proof.
  destruct o as [l|]; cbn [tr_args bindo]; [|reflexivity].
  rewrite <- mapM_compose. destruct (mapM f l); reflexivity.
Qed.

Lemma tr_kwargs_compose f g o :
  bindo (tr_kwargs f o) (tr_kwargs g) = tr_kwargs (fun a => bindo (f a) g) o.
Proof.
  destruct o as [l|]; cbn [tr_kwargs bindo]; [|reflexivity].
  fold (kw_lift f). fold (kw_lift g). fold (kw_lift (fun a => bindo (f a) g)).
  rewrite (mapM_ext _ _ l (fun p => eq_sym (kw_lift_compose f g p))).
  rewrite <- mapM_compose. destruct (mapM (kw_lift f) l); reflexivity.
Qed.

(* ---- one dict through any list of passes ------------------------------------------ *)
Definition constr_of (ds : dstate) : constr :=
  K (match s_type ds with TObj e => tserial e | TStr _ => -3 end)
    (optl (s_args ds)) (optl (s_kwargs ds)).

Definition vals_of (d : dstate) : list val := optl (s_args d) ++ map snd (optl (s_kwargs d)).

Definition both (f : val -> option val) (e : nsent) (d : dstate) : option dstate :=
  match tr_args f (s_args d) with
  | Some a => match tr_kwargs f (s_kwargs d) with
              | Some k => Some (DSt (TObj e) a k)
              | None => None
              end
  | None => None
  end.

Definition ptypes (ps : list pass) : nat := length (filter is_ptype ps).

(* the type field in front of the remaining passes *)
Definition type_state (E : env) (ty : str) (e : nsent) (ps : list pass) (d : dstate) : Prop :=
  (s_type d = TStr ty /\ ptypes ps = 1%nat) \/ (s_type d = TObj e /\ ptypes ps = 0%nat).

Lemma deepcopy_ok_vals d :
  (match s_type d with TObj e => has_nocopy (n_val e) = false | TStr _ => True end) ->
  existsb has_nocopy (vals_of d) = false -> deepcopy_ok d = true.
Proof.
  intros Ht Hv. unfold vals_of in Hv. rewrite existsb_app in Hv.
  apply orb_false_iff in Hv as [Ha Hk]. unfold deepcopy_ok. rewrite Ha.
  assert (Hk' : existsb (fun p => has_nocopy (snd p)) (optl (s_kwargs d)) = false).
  { clear - Hk. induction (optl (s_kwargs d)) as [|p l IH]; cbn in *; [reflexivity|].
    apply orb_false_iff in Hk as [H1 H2]. now rewrite H1, IH. }
  rewrite Hk'. destruct (s_type d); [reflexivity|now rewrite Ht].
Qed.

Lemma tr_both_vals f d d' :
  tr_both f d = Some d' ->
  s_type d' = s_type d /\ Forall2 (fun c c' => f c = Some c') (vals_of d) (vals_of d').
Proof.
  unfold tr_both, vals_of. destruct d as [ty a k]. cbn [s_type s_args s_kwargs].
  destruct a as [la|]; cbn [tr_args optl].
  - destruct (mapM f la) as [la'|] eqn:Ma; [|discriminate].
    destruct k as [lk|]; cbn [tr_kwargs optl].
    + fold (kw_lift f). destruct (mapM (kw_lift f) lk) as [lk'|] eqn:Mk; [|discriminate].
      intros [= <-]. cbn [s_type s_args s_kwargs optl]. split; [reflexivity|].
      apply Forall2_app; [now apply mapM_Forall2|].
      apply mapM_Forall2 in Mk. clear - Mk. induction Mk as [|p q l l' H _ IH]; cbn [map]; constructor.
      * unfold kw_lift in H. destruct (f (snd p)); [|discriminate]. now injection H as <-.
      * exact IH.
    + intros [= <-]. cbn [s_type s_args s_kwargs optl map]. split; [reflexivity|].
      rewrite !app_nil_r. now apply mapM_Forall2.
  - destruct k as [lk|]; cbn [tr_kwargs optl].
    + fold (kw_lift f). destruct (mapM (kw_lift f) lk) as [lk'|] eqn:Mk; [|discriminate].
      intros [= <-]. cbn [s_type s_args s_kwargs optl app]. split; [reflexivity|].
      apply mapM_Forall2 in Mk. clear - Mk. induction Mk as [|p q l l' H _ IH]; cbn [map]; constructor.
      * unfold kw_lift in H. destruct (f (snd p)); [|discriminate]. now injection H as <-.
      * exact IH.
    + intros [= <-]. cbn. split; [reflexivity|constructor].
Qed.

Lemma both_tr_both f e d d' :
  tr_both f d = Some d' -> forall g, both g e d' = both (fun a => bindo (f a) g) e d.
Proof.
  unfold tr_both, both. destruct d as [ty a k]. cbn [s_type s_args s_kwargs].
  intros H g. rewrite <- tr_args_compose, <- tr_kwargs_compose.
  destruct (tr_args f a) as [a'|]; [|discriminate].
  destruct (tr_kwargs f k) as [k'|]; [|discriminate].
  injection H as <-. cbn [s_args s_kwargs bindo]. reflexivity.
Qed.

Lemma both_tr_both_none f e d :
  tr_both f d = None -> forall g, both (fun a => bindo (f a) g) e d = None.
Proof.
  unfold tr_both, both. destruct d as [ty a k]. cbn [s_type s_args s_kwargs].
  intros H g. rewrite <- tr_args_compose, <- tr_kwargs_compose.
  destruct (tr_args f a) as [a'|]; cbn [bindo]; [|reflexivity].
  destruct (tr_kwargs f k) as [k'|]; [discriminate|]. cbn [bindo].
  now destruct (tr_args g a').
Qed.

Lemma vknown_tail E p r c c' :
  vknown E (p :: r) c = false -> vpass E p c = Some c' ->
  (r <> [] -> has_nocopy c' = false) /\ vknown E r c' = false.
Proof.
  cbn [vknown]. intros H V. rewrite V in H. apply orb_false_iff in H as [H1 H2].
  split; [|exact H2]. intro Hr. destruct r; [contradiction|].
  cbn [null negb] in H1. now rewrite andb_true_r in H1.
Qed.

Lemma Forall2_known E p r (f := vpass E p) l l' :
  Forall2 (fun c c' => f c = Some c') l l' ->
  forallb (fun c => negb (vknown E (p :: r) c)) l = true ->
  (r <> [] -> existsb has_nocopy l' = false) /\ forallb (fun c => negb (vknown E r c)) l' = true.
Proof.
  induction 1 as [|c c' l l' H _ IH]; cbn [forallb existsb]; intro HK; [split; reflexivity|].
  apply andb_true_iff in HK as [H1 H2]. apply negb_true_iff in H1.
  destruct (vknown_tail E p r c c' H1 H) as [Ha Hb]. destruct (IH H2) as [Hc Hd].
  split.
  - intro Hr. now rewrite (Ha Hr), (Hc Hr).
  - now rewrite Hb, Hd.
Qed.

Lemma apply_spec E ty e : 0 < c_depth E ->
  slookup ty (c_ns E) = Some e -> callable (n_kind e) = true -> has_nocopy (n_val e) = false ->
  forall ps d,
    type_state E ty e ps d ->
    (ps <> [] -> existsb has_nocopy (vals_of d) = false) ->
    forallb (fun c => negb (vknown E ps c)) (vals_of d) = true ->
    apply_transformers (map (pass_fn E) ps) d = both (vfold E ps) e d.
Proof.
  intros Hd L Hcall Hnc. induction ps as [|p r IH]; intros d TS NC KN; cbn [map apply_transformers].
  - destruct TS as [[_ H]|[H _]]; [discriminate|].
    unfold both. cbn [vfold]. destruct d as [t a k]. cbn [s_type s_args s_kwargs] in *. subst t.
    destruct a as [la|]; destruct k as [lk|]; cbn [tr_args tr_kwargs];
      try rewrite mapM_id;
      try (rewrite (mapM_ext _ (fun p => Some p) lk) by (now intros [? ?]); rewrite mapM_id);
      reflexivity.
  - assert (DC : deepcopy_ok d = true).
    { apply deepcopy_ok_vals; [|apply NC; discriminate].
      destruct TS as [[H _]|[H _]]; rewrite H; [exact I|exact Hnc]. }
    rewrite DC.
    destruct p; cbn [pass_fn].
    + (* type pass *)
      destruct TS as [[H C]|[H C]]; [|cbn in C; discriminate].
      unfold type_tr. rewrite H. unfold object_from_string. rewrite L, Hcall.
      rewrite IH.
      * unfold both. cbn [s_args s_kwargs vfold vpass]. reflexivity.
      * right. cbn [s_type]. split; [reflexivity|]. cbn in C. unfold ptypes. lia.
      * intro Hr. unfold vals_of in *. cbn [s_args s_kwargs]. apply NC. discriminate.
      * unfold vals_of in *. cbn [s_args s_kwargs].
        rewrite forallb_forall in KN. apply forallb_forall. intros c Hc. specialize (KN c Hc).
        apply negb_true_iff in KN. apply negb_true_iff. cbn [vknown vpass] in KN.
        now apply orb_false_iff in KN as [_ KN].
    + (* object pass *)
      unfold object_tr. destruct (tr_both (obj_map E) d) as [d'|] eqn:T.
      * destruct (tr_both_vals _ _ _ T) as [Hty F2].
        destruct (Forall2_known E PObj r _ _ F2 KN) as [NC' KN'].
        rewrite IH; [|  |exact NC'|exact KN'].
        -- rewrite (both_tr_both _ e _ _ T). unfold both.
           cbn [vfold vpass]. reflexivity.
        -- destruct TS as [[H C]|[H C]]; [left|right]; rewrite Hty; (split; [exact H|exact C]).
      * symmetry. exact (both_tr_both_none _ e _ T (vfold E r)).
    + (* resource pass *)
      unfold resource_tr. replace (c_depth E <=? 0) with false by lia.
      destruct (tr_both (res_map E) d) as [d'|] eqn:T.
      * destruct (tr_both_vals _ _ _ T) as [Hty F2].
        destruct (Forall2_known E PRes r _ _ F2 KN) as [NC' KN'].
        rewrite IH; [|  |exact NC'|exact KN'].
        -- rewrite (both_tr_both _ e _ _ T). unfold both.
           cbn [vfold vpass]. reflexivity.
        -- destruct TS as [[H C]|[H C]]; [left|right]; rewrite Hty; (split; [exact H|exact C]).
      * symmetry. exact (both_tr_both_none _ e _ T (vfold E r)).
Qed.

(* ---- the result of the passes against the expectation --------------------------------- *)
Lemma is_default_eq ps : is_default ps = true -> ps = default_passes.
Proof.
  unfold is_default, default_passes.
  destruct ps as [|[] [|[] [|[] [|? ?]]]]; try discriminate. reflexivity.
Qed.

Lemma expected_fold E ps a :
  ns_wf E = true -> expected E (HFile ps) a = spec_fold E ps (Exactly a).
Proof.
  intro Hns. cbn [expected]. destruct (is_default ps) eqn:D; [|reflexivity].
  apply is_default_eq in D. subst ps. symmetry. now apply fold_default_one_pass.
Qed.

Lemma arg_fold_ok E ps a :
  ns_wf E = true ->
  match vfold E ps a with
  | Some o => arg_ok E (HFile ps) a o = true
  | None => open_arg E (HFile ps) a = true
  end.
Proof.
  intro Hns. unfold arg_ok, open_arg. rewrite (expected_fold E ps a Hns).
  pose proof (vfold_spec E ps a) as H. destruct (vfold E ps a) as [o|]; cbn [agrees] in H.
  - destruct H as [-> | ->]; [apply val_eqb_refl|reflexivity].
  - destruct H as [-> | ->]; reflexivity.
Qed.

Lemma args_fold_ok E ps l :
  ns_wf E = true ->
  match mapM (vfold E ps) l with
  | Some l' => forall2b (arg_ok E (HFile ps)) l l' = true
  | None => existsb (open_arg E (HFile ps)) l = true
  end.
Proof.
  intro Hns. induction l as [|a l IH]; cbn [mapM]; [reflexivity|].
  pose proof (arg_fold_ok E ps a Hns) as HA.
  destruct (vfold E ps a) as [o|]; cbn [existsb]; [|now rewrite HA].
  destruct (mapM (vfold E ps) l) as [l'|]; [|now rewrite IH, orb_true_r].
  cbn [forall2b]. now rewrite HA, IH.
Qed.

Lemma kwargs_fold_ok E ps l :
  ns_wf E = true ->
  match mapM (kw_lift (vfold E ps)) l with
  | Some l' => forall2b (fun p q => (fst p =? fst q) && arg_ok E (HFile ps) (snd p) (snd q)) l l' = true
  | None => existsb (fun p => open_arg E (HFile ps) (snd p)) l = true
  end.
Proof.
  intro Hns. induction l as [|[k a] l IH]; cbn [mapM]; [reflexivity|].
  pose proof (arg_fold_ok E ps a Hns) as HA. unfold kw_lift at 1. cbn [fst snd].
  destruct (vfold E ps a) as [o|]; cbn [existsb snd]; [|now rewrite HA].
  destruct (mapM (kw_lift (vfold E ps)) l) as [l'|]; [|now rewrite IH, orb_true_r].
  cbn [forall2b fst snd]. now rewrite Z.eqb_refl, HA, IH.
Qed.

Lemma args_plain_nocopy E l :
  forallb (arg_wf E) l = true -> existsb has_nocopy l = false.
Proof.
  induction l as [|a l IH]; cbn [forallb existsb]; intro H; [reflexivity|].
  apply andb_true_iff in H as [H1 H2]. unfold arg_wf in H1. apply andb_true_iff in H1 as [H1 _].
  now rewrite (plain_nocopy _ H1), (IH H2).
Qed.

Lemma kwargs_plain_nocopy E (l : list (Z * val)) :
  forallb (fun p => arg_wf E (snd p)) l = true -> existsb has_nocopy (map snd l) = false.
Proof.
  induction l as [|a l IH]; cbn [forallb existsb map]; intro H; [reflexivity|].
  apply andb_true_iff in H as [H1 H2]. unfold arg_wf in H1. apply andb_true_iff in H1 as [H1 _].
  now rewrite (plain_nocopy _ H1), (IH H2).
Qed.

Lemma not_known_forallb (f : val -> bool) (la : list val) (lk : list (Z * val)) :
  existsb f la || existsb (fun p => f (snd p)) lk = false ->
  forallb (fun c => negb (f c)) (la ++ map snd lk) = true.
Proof.
  intro H. apply orb_false_iff in H as [Ha Hk]. rewrite forallb_app. apply andb_true_iff. split.
  - clear Hk. induction la as [|a l IH]; cbn in *; [reflexivity|].
    apply orb_false_iff in Ha as [H1 H2]. now rewrite H1, IH.
  - clear Ha. induction lk as [|a l IH]; cbn in *; [reflexivity|].
    apply orb_false_iff in Hk as [H1 H2]. now rewrite H1, IH.
Qed.

Definition dict_result (E : env) (h : how) (d : ddict) (t : Z) (k : ckind) (ds : dstate) : Prop :=
  s_type ds = TObj (NS (JRef KObj t) k) /\ check_constr E (h, d) (constr_of ds) = true.

(* a dict of a file, through any list of passes that resolves the type once *)
Lemma transform_dict_spec E ps d t k :
  0 < c_depth E -> ns_wf E = true -> ptypes ps = 1%nat ->
  dict_wf E (HFile ps) d = true -> class_of E d = Some (t, k) ->
  callable k = true -> dict_known E (HFile ps, d) = false ->
  match transform_dict E ps d with
  | Some ds => dict_result E (HFile ps) d t k ds
  | None => dict_open E (HFile ps, d) = true
  end.
Proof.
  intros Hd Hns Hpt Hwf Hc Hcall Hk.
  unfold dict_wf in Hwf. apply andb_true_iff in Hwf as [Hwf _].
  apply andb_true_iff in Hwf as [Hwa Hwk].
  unfold dict_known in Hk. cbn [fst snd] in Hk.
  unfold class_of in Hc.
  destruct (slookup (d_type d) (c_ns E)) as [e|] eqn:L; [|discriminate].
  destruct e as [v k']. destruct v as [| | | | | | rk t']; try discriminate.
  destruct rk; try discriminate. injection Hc as -> ->.
  unfold transform_dict.
  rewrite (apply_spec E (d_type d) (NS (JRef KObj t) k) Hd L Hcall eq_refl).
  2: { left. split; [reflexivity|exact Hpt]. }
  2: { intros _. unfold vals_of, init_dstate. cbn [s_args s_kwargs]. rewrite existsb_app.
       now rewrite (args_plain_nocopy E _ Hwa), (kwargs_plain_nocopy E _ Hwk). }
  2: { unfold vals_of, init_dstate. cbn [s_args s_kwargs]. now apply not_known_forallb. }
  unfold both, init_dstate, dict_open, dict_result, check_constr, constr_of.
  cbn [s_type s_args s_kwargs fst snd]. rewrite L.
  pose proof (args_fold_ok E ps (optl (d_args d)) Hns) as PA.
  pose proof (kwargs_fold_ok E ps (optl (d_kwargs d)) Hns) as PK.
  destruct (d_args d) as [la|]; destruct (d_kwargs d) as [lk|]; cbn [optl tr_args tr_kwargs] in *.
  - fold (kw_lift (vfold E ps)).
    destruct (mapM (vfold E ps) la) as [la'|]; [|now rewrite PA].
    destruct (mapM (kw_lift (vfold E ps)) lk) as [lk'|]; [|now rewrite PK, orb_true_r].
    cbn [s_type s_args s_kwargs optl k_type k_args k_kwargs tserial n_val].
    split; [reflexivity|]. now rewrite Z.eqb_refl, PA, PK.
  - destruct (mapM (vfold E ps) la) as [la'|]; [|now rewrite PA].
    cbn [s_type s_args s_kwargs optl k_type k_args k_kwargs tserial n_val forall2b].
    split; [reflexivity|]. now rewrite Z.eqb_refl, PA.
  - fold (kw_lift (vfold E ps)).
    destruct (mapM (kw_lift (vfold E ps)) lk) as [lk'|]; [|now rewrite PK].
    cbn [s_type s_args s_kwargs optl k_type k_args k_kwargs tserial n_val forall2b].
    split; [reflexivity|]. now rewrite Z.eqb_refl, PK.
  - cbn [s_type s_args s_kwargs optl k_type k_args k_kwargs tserial n_val forall2b].
    split; [reflexivity|]. now rewrite Z.eqb_refl.
Qed.

(* a dict handed to populate_world_from_dict: nothing is substituted *)
Lemma direct_dict_spec E d t k :
  class_of E d = Some (t, k) ->
  exists ds, direct_dict E d = Some ds /\ dict_result E HDict d t k ds.
Proof.
  intro Hc. unfold class_of in Hc. unfold direct_dict, object_from_string.
  destruct (slookup (d_type d) (c_ns E)) as [e|] eqn:L; [|discriminate].
  destruct e as [v k']. destruct v as [| | | | | | rk t']; try discriminate.
  destruct rk; try discriminate. injection Hc as -> ->.
  eexists. split; [reflexivity|]. unfold dict_result, check_constr, constr_of.
  cbn [s_type s_args s_kwargs k_type k_args k_kwargs tserial n_val]. rewrite L.
  split; [reflexivity|]. rewrite Z.eqb_refl. cbn [andb].
  apply andb_true_iff. split.
  - apply forall2b_refl. intro x. unfold arg_ok. cbn [expected]. apply val_eqb_refl.
  - apply forall2b_refl. intros [key x]. cbn [fst snd]. rewrite Z.eqb_refl. unfold arg_ok.
    cbn [expected]. apply val_eqb_refl.
Qed.
