(* C15 - lemmas about values, the three regexes and the per-argument /
   per-dict part of the pipeline (three passes = one-pass substitution). *)
From Coq Require Import ZArith List Bool Lia ZifyBool.
From Desper Require Import Lib.Alist Loader.Value Loader.C15Model.
Import ListNotations.
Open Scope Z_scope.

(* ---- induction over nested values ------------------------------------------ *)
Section ValInd.
  Variable P : val -> Prop.
  Hypothesis HNull : P JNull.
  Hypothesis HBool : forall b, P (JBool b).
  Hypothesis HNum : forall z, P (JNum z).
  Hypothesis HStr : forall s, P (JStr s).
  Hypothesis HList : forall l, Forall P l -> P (JList l).
  Hypothesis HObj : forall kv, Forall (fun p => P (snd p)) kv -> P (JObj kv).
  Hypothesis HRef : forall k i, P (JRef k i).

  Fixpoint val_ind' (v : val) : P v :=
    match v with
    | JNull => HNull
    | JBool b => HBool b
    | JNum z => HNum z
    | JStr s => HStr s
    | JList l => HList l ((fix go (l : list val) : Forall P l :=
                             match l with
                             | [] => Forall_nil _
                             | x :: l' => Forall_cons _ (val_ind' x) (go l')
                             end) l)
    | JObj kv => HObj kv ((fix go (l : list (Z * val)) : Forall (fun p => P (snd p)) l :=
                             match l with
                             | [] => Forall_nil _
                             | x :: l' => Forall_cons _ (val_ind' (snd x)) (go l')
                             end) kv)
    | JRef k i => HRef k i
    end.
End ValInd.

Lemma str_eqb_eq a b : str_eqb a b = true <-> a = b.
Proof.
  revert b; induction a as [|x a IH]; intros [|y b]; cbn [str_eqb]; split; intro H;
    try discriminate; try reflexivity.
  - apply andb_true_iff in H as [H1 H2]. apply Z.eqb_eq in H1. apply IH in H2. now subst.
  - inversion H; subst. rewrite Z.eqb_refl. cbn. now apply IH.
Qed.

Lemma rkind_eqb_eq a b : rkind_eqb a b = true <-> a = b.
Proof. destruct a, b; cbn; split; intro H; try discriminate; reflexivity. Qed.

Lemma val_eqb_eq a : forall b, val_eqb a b = true <-> a = b.
Proof.
  induction a as [| x | x | x | l IH | kv IH | k i] using val_ind'; intros b.
  - destruct b; cbn; split; intro H; try discriminate; reflexivity.
  - destruct b as [| y | | | | |]; cbn; split; intro H; try discriminate.
    + apply eqb_prop in H. now subst.
    + inversion H; subst. apply eqb_reflx.
  - destruct b as [| | y | | | |]; cbn; split; intro H; try discriminate.
    + apply Z.eqb_eq in H. now subst.
    + inversion H; subst. apply Z.eqb_refl.
  - destruct b as [| | | y | | |]; cbn [val_eqb]; split; intro H; try discriminate.
    + apply str_eqb_eq in H. now subst.
    + inversion H; subst. now apply str_eqb_eq.
  - destruct b as [| | | | m | |]; cbn [val_eqb]; split; intro H; try discriminate.
    + f_equal. revert m H. induction IH as [|x l Hx _ IHl]; intros [|y m] H; try discriminate.
      * reflexivity.
      * apply andb_true_iff in H as [H1 H2]. apply Hx in H1. apply IHl in H2. now subst.
    + inversion H; subst m. clear H. induction IH as [|x l Hx _ IHl]; [reflexivity|].
      apply andb_true_iff. split; [now apply Hx|exact IHl].
  - destruct b as [| | | | | m |]; cbn [val_eqb]; split; intro H; try discriminate.
    + f_equal. revert m H. induction IH as [|[k x] l Hx _ IHl]; intros [|[k' y] m] H;
        try discriminate.
      * reflexivity.
      * cbn [fst snd] in *. apply andb_true_iff in H as [H1 H3].
        apply andb_true_iff in H1 as [H1 H2]. apply Z.eqb_eq in H1. apply Hx in H2.
        apply IHl in H3. now subst.
    + inversion H; subst m. clear H. induction IH as [|[k x] l Hx _ IHl]; [reflexivity|].
      cbn [fst snd] in *. rewrite Z.eqb_refl. cbn [andb].
      apply andb_true_iff. split; [now apply Hx|exact IHl].
  - destruct b as [| | | | | | k' i']; cbn [val_eqb]; split; intro H; try discriminate.
    + apply andb_true_iff in H as [H1 H2]. apply rkind_eqb_eq in H1. apply Z.eqb_eq in H2.
      now subst.
    + inversion H; subst. apply andb_true_iff. split; [now apply rkind_eqb_eq|apply Z.eqb_refl].
Qed.

Lemma val_eqb_refl a : val_eqb a a = true.
Proof. now apply val_eqb_eq. Qed.

Lemma val_eqb_neq a b : val_eqb a b = false <-> a <> b.
Proof.
  split; intro H.
  - intro E. apply val_eqb_eq in E. congruence.
  - destruct (val_eqb a b) eqn:E; [|reflexivity]. apply val_eqb_eq in E. contradiction.
Qed.

Lemma plain_nocopy v : plain v = true -> has_nocopy v = false.
Proof.
  induction v as [| x | x | x | l IH | kv IH | k i] using val_ind'; cbn [plain has_nocopy];
    intro H; try reflexivity; try discriminate; try (destruct k; (reflexivity || discriminate)).
  - induction IH as [|x l Hx _ IHl]; [reflexivity|].
    cbn [forallb existsb] in *. apply andb_true_iff in H as [H1 H2].
    now rewrite (Hx H1), (IHl H2).
  - induction IH as [|x l Hx _ IHl]; [reflexivity|].
    cbn [forallb existsb] in *. apply andb_true_iff in H as [H1 H2].
    now rewrite (Hx H1), (IHl H2).
Qed.

Lemma vmem_In v l : vmem v l = true <-> In v l.
Proof.
  unfold vmem. rewrite existsb_exists. split.
  - intros [x [Hx E]]. apply val_eqb_eq in E. now subst.
  - intro H. exists v. split; [exact H|apply val_eqb_refl].
Qed.

Lemma vmem_notIn v l : vmem v l = false <-> ~ In v l.
Proof.
  split; intro H.
  - intro HI. apply vmem_In in HI. congruence.
  - destruct (vmem v l) eqn:E; [|reflexivity]. apply vmem_In in E. contradiction.
Qed.

Lemma vnodup_NoDup l : vnodup l = true <-> NoDup l.
Proof.
  induction l as [|x l IH]; cbn [vnodup]; split; intro H.
  - constructor.
  - reflexivity.
  - apply andb_true_iff in H as [H1 H2]. constructor.
    + apply negb_true_iff in H1. now apply vmem_notIn.
    + now apply IH.
  - inversion H; subst. apply andb_true_iff. split.
    + apply negb_true_iff. now apply vmem_notIn.
    + now apply IH.
Qed.

Lemma zmem_In x l : existsb (Z.eqb x) l = true <-> In x l.
Proof.
  rewrite existsb_exists. split.
  - intros [y [Hy E]]. apply Z.eqb_eq in E. now subst.
  - intro H. exists x. split; [exact H|apply Z.eqb_refl].
Qed.

Lemma znodup_NoDup l : znodup l = true <-> NoDup l.
Proof.
  induction l as [|x l IH]; cbn [znodup]; split; intro H.
  - constructor.
  - reflexivity.
  - apply andb_true_iff in H as [H1 H2]. constructor.
    + apply negb_true_iff in H1. intro HI. apply zmem_In in HI. congruence.
    + now apply IH.
  - inversion H; subst. apply andb_true_iff. split.
    + apply negb_true_iff. destruct (existsb (Z.eqb x) l) eqn:E; [|reflexivity].
      apply zmem_In in E. contradiction.
    + now apply IH.
Qed.

(* ---- forall2b / mapM -------------------------------------------------------- *)
Lemma forall2b_app {A B} (f : A -> B -> bool) l1 m1 l2 m2 :
  forall2b f l1 m1 = true -> forall2b f l2 m2 = true -> forall2b f (l1 ++ l2) (m1 ++ m2) = true.
Proof.
  revert m1; induction l1 as [|x l1 IH]; intros [|y m1] H1 H2; cbn [forall2b app] in *;
    try discriminate; [exact H2|].
  apply andb_true_iff in H1 as [Ha Hb]. rewrite Ha. cbn [andb]. now apply IH.
Qed.

Lemma forall2b_refl {A} (f : A -> A -> bool) l :
  (forall x, f x x = true) -> forall2b f l l = true.
Proof. intro H. induction l as [|x l IH]; cbn [forall2b]; [reflexivity|]. now rewrite H, IH. Qed.

Lemma forall2b_length {A B} (f : A -> B -> bool) l m :
  forall2b f l m = true -> length l = length m.
Proof.
  revert m; induction l as [|x l IH]; intros [|y m] H; cbn [forall2b] in H; try discriminate;
    [reflexivity|].
  apply andb_true_iff in H as [_ H]. cbn [length]. f_equal. now apply IH.
Qed.

Lemma zlist_eqb_refl l : zlist_eqb l l = true.
Proof. apply forall2b_refl, Z.eqb_refl. Qed.

Lemma zlist_eqb_eq a b : zlist_eqb a b = true -> a = b.
Proof.
  unfold zlist_eqb. revert b; induction a as [|x a IH]; intros [|y b] H; cbn [forall2b] in H;
    try discriminate; [reflexivity|].
  apply andb_true_iff in H as [H1 H2]. apply Z.eqb_eq in H1. apply IH in H2. now subst.
Qed.

(* ---- the regexes ------------------------------------------------------------- *)
Lemma starts_with_false_match m s : starts_with m s = false -> match_prefix m s = None.
Proof. unfold starts_with, match_prefix. now destruct (strip_prefix m s). Qed.

Lemma split_last_app s b l : split_last s = Some (b, l) -> s = b ++ [l].
Proof.
  revert b l; induction s as [|c s IH]; intros b l H; cbn [split_last] in H; [discriminate|].
  destruct (split_last s) as [[b' l']|] eqn:E.
  - inversion H; subst. cbn [app]. f_equal. now apply IH.
  - inversion H; subst. destruct s as [|c' s]; [reflexivity|].
    cbn [split_last] in E. destruct (split_last s) as [[? ?]|]; discriminate.
Qed.

Lemma first_line_clean b :
  forallb (fun x => negb (x =? 125) && negb (x =? 10)) b = true ->
  first_line (b ++ [125]) = b ++ [125].
Proof.
  induction b as [|c b IH]; cbn [forallb app first_line]; intro H.
  - reflexivity.
  - apply andb_true_iff in H as [H1 H2]. apply andb_true_iff in H1 as [_ H1].
    apply negb_true_iff in H1. rewrite H1. f_equal. now apply IH.
Qed.

Lemma last_brace_clean b :
  forallb (fun x => negb (x =? 125) && negb (x =? 10)) b = true ->
  last_brace (b ++ [125]) = Some b.
Proof.
  induction b as [|c b IH]; cbn [forallb app last_brace]; intro H.
  - reflexivity.
  - apply andb_true_iff in H as [H1 H2]. rewrite (IH H2). reflexivity.
Qed.

(* a string of the exact form is matched, and the group is its body *)
Lemma exact_body_match m s b : exact_body m s = Some b -> match_prefix m s = Some b.
Proof.
  unfold exact_body, match_prefix. destruct (strip_prefix m s) as [rest|]; [|discriminate].
  destruct (split_last rest) as [[body l]|] eqn:E; [|discriminate].
  destruct ((l =? 125) && negb (null body)
            && forallb (fun x => negb (x =? 125) && negb (x =? 10)) body) eqn:C; [|discriminate].
  intro H; inversion H; subst b; clear H.
  apply andb_true_iff in C as [C1 C3]. apply andb_true_iff in C1 as [C1 C2].
  apply Z.eqb_eq in C1. subst l. apply split_last_app in E. subst rest.
  rewrite (first_line_clean _ C3), (last_brace_clean _ C3).
  destruct body; [discriminate|reflexivity].
Qed.

Lemma exact_body_starts m s b : exact_body m s = Some b -> starts_with m s = true.
Proof.
  unfold exact_body, starts_with. destruct (strip_prefix m s); [reflexivity|discriminate].
Qed.

(* the three markers exclude each other *)
Lemma res_not_obj s : starts_with m_res s = true -> starts_with m_obj s = false.
Proof.
  unfold starts_with, m_res, m_obj. destruct s as [|a [|c s]]; cbn [strip_prefix]; try reflexivity.
  - destruct (36 =? a); [discriminate|reflexivity].
  - destruct (36 =? a); [|reflexivity].
    destruct (114 =? c) eqn:E1; [|discriminate]. apply Z.eqb_eq in E1. subst c. reflexivity.
Qed.

Lemma handle_not_obj s : starts_with m_handle s = true -> starts_with m_obj s = false.
Proof.
  unfold starts_with, m_handle, m_obj. destruct s as [|a [|c s]]; cbn [strip_prefix]; try reflexivity.
  - destruct (36 =? a); [discriminate|reflexivity].
  - destruct (36 =? a); [|reflexivity].
    destruct (104 =? c) eqn:E1; [|discriminate]. apply Z.eqb_eq in E1. subst c. reflexivity.
Qed.

Lemma handle_not_res s : starts_with m_handle s = true -> starts_with m_res s = false.
Proof.
  unfold starts_with, m_handle, m_res. destruct s as [|a [|c s]]; cbn [strip_prefix]; try reflexivity.
  - destruct (36 =? a); [discriminate|reflexivity].
  - destruct (36 =? a); [|reflexivity].
    destruct (104 =? c) eqn:E1; [|discriminate]. apply Z.eqb_eq in E1. subst c. reflexivity.
Qed.

(* ---- classification ----------------------------------------------------------- *)
Lemma classify_obj s b : classify s = FObj b -> exact_body m_obj s = Some b.
Proof.
  unfold classify. destruct (exact_body m_obj s); [now intros [= ->]|].
  destruct (exact_body m_res s); [discriminate|].
  destruct (exact_body m_handle s); [discriminate|].
  destruct (_ || _ || _); discriminate.
Qed.

Lemma classify_res s b :
  classify s = FRes b -> exact_body m_res s = Some b.
Proof.
  unfold classify. destruct (exact_body m_obj s); [discriminate|].
  destruct (exact_body m_res s); [now intros [= ->]|].
  destruct (exact_body m_handle s); [discriminate|].
  destruct (_ || _ || _); discriminate.
Qed.

Lemma classify_handle s b :
  classify s = FHandle b -> exact_body m_handle s = Some b.
Proof.
  unfold classify. destruct (exact_body m_obj s); [discriminate|].
  destruct (exact_body m_res s); [discriminate|].
  destruct (exact_body m_handle s); [now intros [= ->]|].
  destruct (_ || _ || _); discriminate.
Qed.

Lemma classify_plain s :
  classify s = FPlain ->
  starts_with m_obj s = false /\ starts_with m_res s = false /\ starts_with m_handle s = false.
Proof.
  unfold classify. destruct (exact_body m_obj s); [discriminate|].
  destruct (exact_body m_res s); [discriminate|].
  destruct (exact_body m_handle s); [discriminate|].
  destruct (starts_with m_obj s), (starts_with m_res s), (starts_with m_handle s);
    cbn; try discriminate. auto.
Qed.

(* ---- one argument through the second and third pass ------------------------- *)
Lemma slookup_In {A} k (l : list (str * A)) v : slookup k l = Some v -> exists k', In (k', v) l.
Proof.
  induction l as [|[k' v'] l IH]; cbn [slookup]; [discriminate|].
  destruct (str_eqb k k').
  - intros [= ->]. exists k'. now left.
  - intro H. destruct (IH H) as [k'' HI]. exists k''. now right.
Qed.

(* a namespace object passes the third pass unchanged *)
Lemma res_map_nsval E name e :
  ns_wf E = true -> slookup name (c_ns E) = Some e -> res_map E (n_val e) = Some (n_val e).
Proof.
  intros Hns Hl. apply slookup_In in Hl as [k HI].
  unfold ns_wf in Hns. rewrite forallb_forall in Hns. specialize (Hns _ HI). cbn [snd] in Hns.
  destruct (n_val e) as [| | | s | | |]; try reflexivity.
  apply negb_true_iff, orb_false_iff in Hns as [H1 H2].
  unfold res_map. now rewrite (starts_with_false_match _ _ H1), (starts_with_false_match _ _ H2).
Qed.

Definition arg_result (E : env) (a : val) : Prop :=
  match obj_map E a with
  | Some a' => has_nocopy a' = false /\
               match res_map E a' with
               | Some o => arg_ok E a o = true
               | None => is_open a = true
               end
  | None => is_open a = true
  end.

Lemma arg_pipeline E a :
  ns_wf E = true -> arg_wf E a = true -> arg_known E a = false -> arg_result E a.
Proof.
  intros Hns Hwf Hk. unfold arg_wf in Hwf. apply andb_true_iff in Hwf as [Hpl Hwf].
  unfold arg_result.
  destruct a as [| x | x | s | l | kv | k i];
    try (cbn [obj_map res_map]; split; [now apply plain_nocopy|];
         unfold arg_ok; cbn [subst_spec]; apply val_eqb_refl).
  unfold is_open, arg_ok. cbn [subst_spec obj_map].
  destruct (classify s) as [name | p | p | | ] eqn:C.
  - (* ${name} *)
    apply classify_obj in C. rewrite (exact_body_match _ _ _ C).
    unfold object_from_string. unfold arg_known in Hk. rewrite (exact_body_match _ _ _ C) in Hk.
    destruct (slookup name (c_ns E)) as [e|] eqn:L; [|discriminate].
    split; [exact Hk|]. rewrite (res_map_nsval E name e Hns L). apply val_eqb_refl.
  - (* $res{p} *)
    apply classify_res in C. pose proof (exact_body_starts _ _ _ C) as S.
    rewrite (starts_with_false_match _ _ (res_not_obj _ S)).
    split; [now apply plain_nocopy|]. cbn [res_map]. rewrite (exact_body_match _ _ _ C).
    destruct (slookup (dots_to_slashes p) (c_tree E)) as [[h r|m]|]; try discriminate;
      apply val_eqb_refl.
  - (* $handle{p} *)
    apply classify_handle in C. pose proof (exact_body_starts _ _ _ C) as S.
    rewrite (starts_with_false_match _ _ (handle_not_obj _ S)).
    split; [now apply plain_nocopy|]. cbn [res_map].
    rewrite (starts_with_false_match _ _ (handle_not_res _ S)), (exact_body_match _ _ _ C).
    destruct (slookup (dots_to_slashes p) (c_tree E)) as [[h r|m]|]; try discriminate;
      apply val_eqb_refl.
  - (* no marker *)
    apply classify_plain in C as [C1 [C2 C3]].
    rewrite (starts_with_false_match _ _ C1).
    split; [now apply plain_nocopy|]. cbn [res_map].
    rewrite (starts_with_false_match _ _ C2), (starts_with_false_match _ _ C3).
    apply val_eqb_refl.
  - (* open form *)
    unfold arg_known in Hk. unfold object_from_string.
    destruct (match_prefix m_obj s) as [g|].
    + destruct (slookup g (c_ns E)) as [e|]; [|reflexivity].
      split; [exact Hk|]. now destruct (res_map E (n_val e)).
    + split; [now apply plain_nocopy|]. now destruct (res_map E (JStr s)).
Qed.

(* ---- lists of arguments -------------------------------------------------------- *)
Lemma args_pipeline E l :
  ns_wf E = true -> forallb (arg_wf E) l = true -> existsb (arg_known E) l = false ->
  match mapM (obj_map E) l with
  | Some l' => existsb has_nocopy l' = false /\
               match mapM (res_map E) l' with
               | Some l'' => forall2b (arg_ok E) l l'' = true
               | None => existsb is_open l = true
               end
  | None => existsb is_open l = true
  end.
Proof.
  intros Hns. induction l as [|a l IH]; cbn [forallb existsb mapM]; intros Hwf Hk.
  - split; reflexivity.
  - apply andb_true_iff in Hwf as [Hw1 Hw2]. apply orb_false_iff in Hk as [Hk1 Hk2].
    pose proof (arg_pipeline E a Hns Hw1 Hk1) as HA. unfold arg_result in HA.
    specialize (IH Hw2 Hk2).
    destruct (obj_map E a) as [a'|]; [|now rewrite HA].
    destruct HA as [HA1 HA2].
    destruct (mapM (obj_map E) l) as [l'|]; [|now rewrite IH, orb_true_r].
    destruct IH as [IH1 IH2]. cbn [existsb mapM]. rewrite HA1, IH1. split; [reflexivity|].
    destruct (res_map E a') as [o|]; [|now rewrite HA2].
    destruct (mapM (res_map E) l') as [l''|]; [|now rewrite IH2, orb_true_r].
    cbn [forall2b]. now rewrite HA2, IH2.
Qed.

Definition kw_lift (f : val -> option val) (p : Z * val) : option (Z * val) :=
  match f (snd p) with Some v => Some (fst p, v) | None => None end.

Lemma kwargs_pipeline E l :
  ns_wf E = true -> forallb (fun p => arg_wf E (snd p)) l = true ->
  existsb (fun p => arg_known E (snd p)) l = false ->
  match mapM (kw_lift (obj_map E)) l with
  | Some l' => existsb (fun p => has_nocopy (snd p)) l' = false /\
               match mapM (kw_lift (res_map E)) l' with
               | Some l'' => forall2b (fun p q => (fst p =? fst q) && arg_ok E (snd p) (snd q))
                                      l l'' = true
               | None => existsb (fun p => is_open (snd p)) l = true
               end
  | None => existsb (fun p => is_open (snd p)) l = true
  end.
Proof.
  intros Hns. induction l as [|[k a] l IH]; cbn [forallb existsb mapM]; intros Hwf Hk.
  - split; reflexivity.
  - cbn [snd fst] in *.
    apply andb_true_iff in Hwf as [Hw1 Hw2]. apply orb_false_iff in Hk as [Hk1 Hk2].
    pose proof (arg_pipeline E a Hns Hw1 Hk1) as HA. unfold arg_result in HA.
    specialize (IH Hw2 Hk2). unfold kw_lift at 1. cbn [snd fst].
    destruct (obj_map E a) as [a'|]; [|now rewrite HA].
    destruct HA as [HA1 HA2].
    destruct (mapM (kw_lift (obj_map E)) l) as [l'|]; [|now rewrite IH, orb_true_r].
    destruct IH as [IH1 IH2]. cbn [existsb mapM snd fst]. rewrite HA1, IH1. split; [reflexivity|].
    unfold kw_lift at 1. cbn [snd fst].
    destruct (res_map E a') as [o|]; [|now rewrite HA2].
    destruct (mapM (kw_lift (res_map E)) l') as [l''|]; [|now rewrite IH2, orb_true_r].
    cbn [forall2b fst snd]. now rewrite Z.eqb_refl, HA2, IH2.
Qed.

(* ---- one dict through the three passes ------------------------------------------ *)
Definition constr_of (ds : dstate) : constr :=
  K (match s_type ds with TObj e => tserial e | TStr _ => -3 end)
    (optl (s_args ds)) (optl (s_kwargs ds)).

Lemma args_plain_nocopy E l :
  forallb (arg_wf E) l = true -> existsb has_nocopy l = false.
Proof.
  induction l as [|a l IH]; cbn [forallb existsb]; intro H; [reflexivity|].
  apply andb_true_iff in H as [H1 H2]. unfold arg_wf in H1. apply andb_true_iff in H1 as [H1 _].
  now rewrite (plain_nocopy _ H1), (IH H2).
Qed.

Lemma kwargs_plain_nocopy E (l : list (Z * val)) :
  forallb (fun p => arg_wf E (snd p)) l = true -> existsb (fun p => has_nocopy (snd p)) l = false.
Proof.
  induction l as [|a l IH]; cbn [forallb existsb]; intro H; [reflexivity|].
  apply andb_true_iff in H as [H1 H2]. unfold arg_wf in H1. apply andb_true_iff in H1 as [H1 _].
  now rewrite (plain_nocopy _ H1), (IH H2).
Qed.

(* what the theorem needs to know about a transformed dict *)
Definition dict_result (E : env) (d : ddict) (t : Z) (k : ckind) (ds : dstate) : Prop :=
  s_type ds = TObj (NS (JRef KObj t) k) /\ check_constr E d (constr_of ds) = true.

Lemma transform_dict_spec E d t k :
  0 < c_depth E -> ns_wf E = true -> dict_wf E d = true -> class_of E d = Some (t, k) ->
  callable k = true -> dict_known E d = false ->
  match transform_dict E d with
  | Some ds => dict_result E d t k ds
  | None => dict_open d = true
  end.
Proof.
  intros Hd Hns Hwf Hc Hcall Hk.
  unfold dict_wf in Hwf. apply andb_true_iff in Hwf as [Hwf _].
  apply andb_true_iff in Hwf as [Hwa Hwk].
  unfold dict_known in Hk. apply orb_false_iff in Hk as [Hka Hkk].
  unfold class_of in Hc.
  destruct (slookup (d_type d) (c_ns E)) as [e|] eqn:L; [|discriminate].
  destruct e as [v k']. destruct v as [| | | | | | rk t']; try discriminate.
  destruct rk; try discriminate. injection Hc as -> ->.
  unfold transform_dict, dict_transformers, init_dstate. cbn [apply_transformers].
  (* pass 1 *)
  unfold deepcopy_ok at 1. cbn [s_type s_args s_kwargs].
  rewrite (args_plain_nocopy E _ Hwa), (kwargs_plain_nocopy E _ Hwk). cbn [negb andb].
  unfold type_tr at 1. cbn [s_type s_args s_kwargs]. unfold object_from_string. rewrite L.
  cbn [n_kind]. rewrite Hcall.
  (* pass 2 *)
  unfold deepcopy_ok at 1. cbn [s_type s_args s_kwargs n_val has_nocopy].
  rewrite (args_plain_nocopy E _ Hwa), (kwargs_plain_nocopy E _ Hwk). cbn [negb andb].
  unfold object_tr at 1, tr_both. cbn [s_type s_args s_kwargs].
  pose proof (args_pipeline E (optl (d_args d)) Hns Hwa Hka) as PA.
  pose proof (kwargs_pipeline E (optl (d_kwargs d)) Hns Hwk Hkk) as PK.
  unfold dict_open.
  destruct (d_args d) as [la|] eqn:Ea; destruct (d_kwargs d) as [lk|] eqn:Ek;
    cbn [optl tr_args tr_kwargs] in *.
  - fold (kw_lift (obj_map E)).
    destruct (mapM (obj_map E) la) as [la'|]; [|now rewrite PA].
    destruct PA as [PA1 PA2].
    destruct (mapM (kw_lift (obj_map E)) lk) as [lk'|]; [|now rewrite PK, orb_true_r].
    destruct PK as [PK1 PK2].
    unfold deepcopy_ok at 1. cbn [s_type s_args s_kwargs n_val has_nocopy optl].
    rewrite PA1, PK1. cbn [negb andb].
    unfold resource_tr at 1. replace (c_depth E <=? 0) with false by lia.
    unfold tr_both. cbn [s_type s_args s_kwargs tr_args tr_kwargs].
    fold (kw_lift (res_map E)).
    destruct (mapM (res_map E) la') as [la''|]; [|now rewrite PA2].
    destruct (mapM (kw_lift (res_map E)) lk') as [lk''|]; [|now rewrite PK2, orb_true_r].
    split; [reflexivity|]. unfold check_constr, constr_of. rewrite L, Ea, Ek.
    cbn [s_type s_args s_kwargs optl k_type k_args k_kwargs tserial n_val].
    now rewrite Z.eqb_refl, PA2, PK2.
  - destruct (mapM (obj_map E) la) as [la'|]; [|now rewrite PA].
    destruct PA as [PA1 PA2].
    unfold deepcopy_ok at 1. cbn [s_type s_args s_kwargs n_val has_nocopy optl existsb].
    rewrite PA1. cbn [negb andb].
    unfold resource_tr at 1. replace (c_depth E <=? 0) with false by lia.
    unfold tr_both. cbn [s_type s_args s_kwargs tr_args tr_kwargs].
    destruct (mapM (res_map E) la') as [la''|]; [|now rewrite PA2].
    split; [reflexivity|]. unfold check_constr, constr_of. rewrite L, Ea, Ek.
    cbn [s_type s_args s_kwargs optl k_type k_args k_kwargs tserial n_val forall2b].
    now rewrite Z.eqb_refl, PA2.
  - fold (kw_lift (obj_map E)).
    destruct (mapM (kw_lift (obj_map E)) lk) as [lk'|]; [|now rewrite PK].
    destruct PK as [PK1 PK2].
    unfold deepcopy_ok at 1. cbn [s_type s_args s_kwargs n_val has_nocopy optl existsb].
    rewrite PK1. cbn [negb andb].
    unfold resource_tr at 1. replace (c_depth E <=? 0) with false by lia.
    unfold tr_both. cbn [s_type s_args s_kwargs tr_args tr_kwargs].
    fold (kw_lift (res_map E)).
    destruct (mapM (kw_lift (res_map E)) lk') as [lk''|]; [|now rewrite PK2].
    split; [reflexivity|]. unfold check_constr, constr_of. rewrite L, Ea, Ek.
    cbn [s_type s_args s_kwargs optl k_type k_args k_kwargs tserial n_val forall2b].
    now rewrite Z.eqb_refl, PK2.
  - unfold deepcopy_ok at 1. cbn [s_type s_args s_kwargs n_val has_nocopy optl existsb negb andb].
    unfold resource_tr at 1. replace (c_depth E <=? 0) with false by lia.
    unfold tr_both. cbn [s_type s_args s_kwargs tr_args tr_kwargs].
    split; [reflexivity|]. unfold check_constr, constr_of. rewrite L, Ea, Ek.
    cbn [s_type s_args s_kwargs optl k_type k_args k_kwargs tserial n_val forall2b].
    now rewrite Z.eqb_refl.
Qed.
