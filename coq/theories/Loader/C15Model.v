(* C15 - a loaded world contains exactly what its description says.

   Model of desper/model/world.py (WorldHandle.load with any deque of
   transform functions, WorldFromFileHandle, default_processors_transformer,
   WorldFromFileTransformer constructed with any list of dict transformers,
   _apply_transformers and its deepcopy, type_/object_/resource_dict_
   transformer, the three regexes, object_from_string,
   populate_world_from_dict - through a file, through a user transform
   function, or called directly on a world) and of the part of
   desper/logic/world.py that a load goes through (add_processor,
   create_entity with the id generator, on_add called directly or postponed,
   the released queue).

   The model is the pipeline, statement by statement; the property
   ([holds_b]) is a declarative reading of the description(s).
   Definitions only: no proofs in this file. *)
From Coq Require Import ZArith List Bool.
From Desper Require Import Lib.Alist.
From Desper Require Export Loader.Value.
Import ListNotations.
Open Scope Z_scope.

(* ---- the three regexes ---------------------------------------------------
   OBJECT_STRING_REGEX   = re.compile(r'\$\{(.+)\}')
   RESOURCE_STRING_REGEX = re.compile(r'\$res\{(.+)\}')
   HANDLE_STRING_REGEX   = re.compile(r'\$handle\{(.+)\}')
   always used through .match: anchored at the start only; (.+) is greedy,
   non-empty and does not cross a newline, so the group ends just before
   the LAST '}' of the first line of what follows the marker. *)
Definition m_obj : str := [36; 123].                               (* "${"      *)
Definition m_res : str := [36; 114; 101; 115; 123].                (* "$res{"   *)
Definition m_handle : str := [36; 104; 97; 110; 100; 108; 101; 123]. (* "$handle{" *)

Fixpoint strip_prefix (p s : str) : option str :=
  match p, s with
  | [], _ => Some s
  | a :: p', b :: s' => if a =? b then strip_prefix p' s' else None
  | _ :: _, [] => None
  end.

Fixpoint first_line (s : str) : str :=
  match s with
  | [] => []
  | c :: s' => if c =? 10 then [] else c :: first_line s'
  end.

(* the part of s before its last '}' *)
Fixpoint last_brace (s : str) : option str :=
  match s with
  | [] => None
  | c :: s' => match last_brace s' with
               | Some p => Some (c :: p)
               | None => if c =? 125 then Some [] else None
               end
  end.

(* regex.match(s): Some group / None *)
Definition match_prefix (m s : str) : option str :=
  match strip_prefix m s with
  | Some rest => match last_brace (first_line rest) with
                 | Some (c :: g) => Some (c :: g)
                 | _ => None
                 end
  | None => None
  end.

(* root_map.split_char.join(group.split('.')) *)
Definition dots_to_slashes (s : str) : str := map (fun c => if c =? 46 then 47 else c) s.

(* ---- the environment of a load ------------------------------------------- *)
(* what calling a namespace object does *)
Inductive ckind :=
| CNone                              (* not callable *)
| CComp (has_add has_load : bool)    (* component class; which of on_add / on_world_load it handles *)
| CProc.                             (* Processor subclass *)

Record nsent := NS { n_val : val; n_kind : ckind }.

(* a node of the resource tree reachable from the root map *)
Inductive node := NHandle (h r : Z) | NMap (m : Z).

Record env := Env {
  c_ns : list (str * nsent);     (* object_from_string: dotted name -> object *)
  c_tree : list (str * node);    (* root map: '/'-joined path -> handle (id, resource id) / sub-map *)
  c_depth : Z                    (* how many maps lie between the world handle and the root (0: detached) *)
}.

(* ---- the description (what json.load returns) ----------------------------- *)
Record ddict := DD { d_type : str; d_args : option (list val); d_kwargs : option (list (Z * val)) }.
Record edict := ED { e_id : option val; e_comps : option (list ddict) }.
Record desc := DS { w_procs : option (list ddict); w_ents : option (list edict) }.

(* the dict transformers a WorldFromFileTransformer is constructed with *)
Inductive pass := PType | PObj | PRes.

(* WorldFromFileHandle.__init__: type_, object_, resource_dict_transformer *)
Definition default_passes : list pass := [PType; PObj; PRes].

(* what is run on the world, in order.  In a WorldHandle these are its
   transform_functions (each is called with (handle, world)):
   SDefault   default_processors_transformer
   SFile ps d a WorldFromFileTransformer constructed with the dict transformers
              ps, reading a file whose content is d
   SDict d    a user function that calls populate_world_from_dict(world, dict),
              the dict naming real classes; also the direct call of
              populate_world_from_dict on a world
   SMark k    a user function that only records that it was called *)
Inductive step :=
| SDefault
| SFile (ps : list pass) (ds : desc)
| SDict (ds : desc)
| SMark (k : Z).

(* the ways of loading *)
Inductive load_kind :=
| LFile (ds : desc)                          (* WorldFromFileHandle(file)() *)
| LHandle (steps : list step)                (* WorldHandle with these transform functions, called *)
| LDirect (enabled : bool) (steps : list step).
                                             (* populate_world_from_dict called on a World whose
                                                dispatch_enabled is [enabled], once per step *)

(* WorldFromFileHandle.__init__ *)
Definition steps_of (k : load_kind) : list step :=
  match k with
  | LFile ds => [SDefault; SFile default_passes ds]
  | LHandle st => st
  | LDirect _ st => st
  end.

Definition via_handle (k : load_kind) : bool :=
  match k with LDirect _ _ => false | _ => true end.

Definition init_enabled (k : load_kind) : bool :=
  match k with LDirect e _ => e | _ => false end.

(* ---- observations ------------------------------------------------------------
   k_type  : serial of the class that was instantiated
   o_constr: the constructor calls the doubles recorded, in call order; the
             position in this list is the instance's serial
   o_procs : World.processors (-1 OnUpdateProcessor, -2 CoroutineProcessor,
             otherwise the instance serial)
   o_ents  : entity id, serials of World.get_components(id); entities ordered
             by their first component's serial, components by serial (the
             harness canonicalises iteration order that way)
   o_enabled: dispatch_enabled as load() returned the world
   o_cbs   : after world.dispatch_enabled = True: the callbacks the component
             doubles received; kind 0 = on_add(entity, world) (cb_ent = entity,
             cb_ok = "world is the loaded world"), kind 1 = on_world_load(handle,
             world) (cb_ok = "handle is the file handle and world is the loaded
             world"); every maximal run of on_world_load entries is sorted by
             instance (set iteration order); in a direct call on an enabled
             world the on_add callbacks arrive during the call and are in
             this log as well
   o_marks : per call of a marking user transform function: its number and
             "it received this handle and the world that load() returned" *)
Record constr := K { k_type : Z; k_args : list val; k_kwargs : list (Z * val) }.
Record cb := CB { cb_inst : Z; cb_kind : Z; cb_ent : val; cb_ok : bool }.
Record wobs := WO {
  o_constr : list constr;
  o_procs : list Z;
  o_ents : list (val * list Z);
  o_enabled : bool;
  o_cbs : list cb;
  o_marks : list (Z * bool)
}.
Inductive outcome := OErr | OOk (w : wobs).

(* A case loads 1-3 times: for a handle h() / h.clear(); h() / h.load(), for a
   direct call once.  Per load: how it loads - the same handle every time, but
   the files it reads may have been rewritten in between, so each load has its
   own description; the number of the first load that returned the World instance
   that came back (so: its own number iff the instance is new; when the load
   raised: its own number, or -1 if the handle then claims to be cached); and
   what was observed of it.  Instances, callbacks and marks are counted
   per load. *)
Record C15_case := Case { c_env : env; c_loads : list (load_kind * (Z * outcome)) }.

(* =========================== the model ======================================= *)

Definition callable (k : ckind) : bool := match k with CNone => false | _ => true end.
Definition has_add (k : ckind) : bool := match k with CComp a _ => a | _ => false end.
Definition has_load (k : ckind) : bool := match k with CComp _ l => l | _ => false end.
Definition tserial (e : nsent) : Z := match n_val e with JRef _ t => t | _ => -3 end.

(* object_from_string (the lru_cache is transparent: the namespace is fixed
   during a load) *)
Definition object_from_string (E : env) (name : str) : option nsent := slookup name (c_ns E).

(* a processor/component dict while the transformers mutate it in place *)
Inductive tyfield := TStr (s : str) | TObj (e : nsent).
Record dstate := DSt {
  s_type : tyfield;
  s_args : option (list val);
  s_kwargs : option (list (Z * val))
}.

Definition init_dstate (d : ddict) : dstate := DSt (TStr (d_type d)) (d_args d) (d_kwargs d).

(* args_list = d.get('args', []); args_list[:] = map(f, args_list)
   (an absent key stays absent: the fresh list is thrown away) *)
Definition tr_args (f : val -> option val) (o : option (list val)) : option (option (list val)) :=
  match o with
  | None => Some None
  | Some l => match mapM f l with Some l' => Some (Some l') | None => None end
  end.

(* kwargs_map.update({k: f(v) for k, v in kwargs_map.items()}) *)
Definition tr_kwargs (f : val -> option val) (o : option (list (Z * val)))
  : option (option (list (Z * val))) :=
  match o with
  | None => Some None
  | Some l => match mapM (fun p => match f (snd p) with Some v => Some (fst p, v) | None => None end) l with
              | Some l' => Some (Some l')
              | None => None
              end
  end.

Definition tr_both (f : val -> option val) (d : dstate) : option dstate :=
  match tr_args f (s_args d) with
  | Some a => match tr_kwargs f (s_kwargs d) with
              | Some k => Some (DSt (s_type d) a k)
              | None => None
              end
  | None => None
  end.

(* type_dict_transformer; None = an exception *)
Definition type_tr (E : env) (d : dstate) : option dstate :=
  match s_type d with
  | TStr s => match object_from_string E s with
              | Some e => if callable (n_kind e) then Some (DSt (TObj e) (s_args d) (s_kwargs d))
                          else None                      (* TypeError: not a callable *)
              | None => None                             (* ModuleNotFoundError / AttributeError *)
              end
  | TObj _ => None                                       (* assert isinstance(name, str) *)
  end.

(* object_dict_transformer.map_function *)
Definition obj_map (E : env) (a : val) : option val :=
  match a with
  | JStr s => match match_prefix m_obj s with
              | Some g => match object_from_string E g with
                          | Some e => Some (n_val e)
                          | None => None
                          end
              | None => Some a
              end
  | _ => Some a                                          (* skip non-strings *)
  end.

Definition object_tr (E : env) (d : dstate) : option dstate := tr_both (obj_map E) d.

(* resource_dict_transformer.map_function; root_map[path] loads through the
   handle (cached, so always the same resource), root_map.get(path) returns
   the handle, or None when there is none *)
Definition res_map (E : env) (a : val) : option val :=
  match a with
  | JStr s =>
      match match_prefix m_res s with
      | Some g => match slookup (dots_to_slashes g) (c_tree E) with
                  | Some (NHandle h r) => Some (JRef KRes r)
                  | Some (NMap m) => Some (JRef KMap m)
                  | None => None                         (* KeyError *)
                  end
      | None =>
          match match_prefix m_handle s with
          | Some g => match slookup (dots_to_slashes g) (c_tree E) with
                      | Some (NHandle h r) => Some (JRef KHandle h)
                      | Some (NMap m) => Some (JRef KMap m)
                      | None => Some JNull               (* get(): default None *)
                      end
          | None => Some a
          end
      end
  | _ => Some a
  end.

(* the walk to the root map: a handle that is in no ResourceMap is its own
   root and is refused *)
Definition resource_tr (E : env) (d : dstate) : option dstate :=
  if c_depth E <=? 0 then None else tr_both (res_map E) d.

(* copy.deepcopy(passthrough_dict) at the start of every pass *)
Definition deepcopy_ok (d : dstate) : bool :=
  negb (match s_type d with TObj e => has_nocopy (n_val e) | TStr _ => false end)
  && negb (existsb has_nocopy (optl (s_args d)))
  && negb (existsb (fun p => has_nocopy (snd p)) (optl (s_kwargs d))).

(* WorldFromFileTransformer._apply_transformers *)
Fixpoint apply_transformers (ts : list (dstate -> option dstate)) (d : dstate) : option dstate :=
  match ts with
  | [] => Some d
  | t :: ts' => if deepcopy_ok d
                then match t d with
                     | Some d' => apply_transformers ts' d'
                     | None => None
                     end
                else None                                (* TypeError: cannot pickle *)
  end.

Definition pass_fn (E : env) (p : pass) : dstate -> option dstate :=
  match p with
  | PType => type_tr E
  | PObj => object_tr E
  | PRes => resource_tr E
  end.

Definition transform_dict (E : env) (ps : list pass) (d : ddict) : option dstate :=
  apply_transformers (map (pass_fn E) ps) (init_dstate d).

(* WorldFromFileTransformer.__call__ up to populate: every processor dict,
   then every component dict of every entity *)
Definition tdesc : Type := list dstate * list (option val * list dstate).

Definition map_ent (f : ddict -> option dstate) (e : edict) : option (option val * list dstate) :=
  match mapM f (optl (e_comps e)) with
  | Some cs => Some (e_id e, cs)
  | None => None
  end.

Definition map_desc (f : ddict -> option dstate) (w : desc) : option tdesc :=
  match mapM f (optl (w_procs w)) with
  | Some ps => match mapM (map_ent f) (optl (w_ents w)) with
               | Some es => Some (ps, es)
               | None => None
               end
  | None => None
  end.

Definition transform_desc (E : env) (ps : list pass) (w : desc) : option tdesc :=
  map_desc (transform_dict E ps) w.

(* a dictionary handed to populate_world_from_dict directly: 'type' is
   already the class (the description names it; the harness looks it up),
   no transformer runs *)
Definition direct_dict (E : env) (d : ddict) : option dstate :=
  match object_from_string E (d_type d) with
  | Some e => Some (DSt (TObj e) (d_args d) (d_kwargs d))
  | None => None
  end.

Definition direct_desc (E : env) (w : desc) : option tdesc := map_desc (direct_dict E) w.

(* ---- the World during a load ------------------------------------------------- *)
Inductive qev := QAdd (inst : Z) (eid : val) | QLoad.

Record wstate := W {
  ws_log : list constr;                    (* constructor calls so far (the doubles' log) *)
  ws_sorted : list (Z * Z);                (* _sorted_processors: (class, instance) *)
  ws_ents : list (val * list (Z * Z));     (* _entities: id -> class -> instance *)
  ws_next : Z;                             (* next value of itertools.count(1) *)
  ws_enabled : bool;                       (* _dispatch_enabled *)
  ws_queue : list qev;                     (* _event_queue *)
  ws_listen : list Z;                      (* _events['on_world_load'] *)
  ws_called : list cb;                     (* callbacks delivered so far (the doubles' log) *)
  ws_marks : list (Z * bool)               (* calls of user transform functions (their log) *)
}.

(* world = World(); world.dispatch_enabled = en *)
Definition w_start (en : bool) : wstate := W [] [] [] 1 en [] [] [] [].

(* World.add_processor for priority 0 everywhere: a processor of the same
   exact class is filtered out, insort_right appends *)
Definition add_processor (w : wstate) (t inst : Z) : wstate :=
  W (ws_log w) (filter (fun p => negb (fst p =? t)) (ws_sorted w) ++ [(t, inst)])
    (ws_ents w) (ws_next w) (ws_enabled w) (ws_queue w) (ws_listen w) (ws_called w) (ws_marks w).

(* default_processors_transformer *)
Definition default_processors (w : wstate) : wstate :=
  add_processor (add_processor w (-1) (-1)) (-2) (-2).

(* d['type'] called with the unpacked d.get('args', []) and d.get('kwargs', {}) *)
Definition construct (w : wstate) (d : dstate) : option (wstate * (Z * nsent)) :=
  match s_type d with
  | TObj e =>
      if callable (n_kind e)
      then Some (W (ws_log w ++ [K (tserial e) (optl (s_args d)) (optl (s_kwargs d))])
                   (ws_sorted w) (ws_ents w) (ws_next w) (ws_enabled w) (ws_queue w)
                   (ws_listen w) (ws_called w) (ws_marks w),
                 (Z.of_nat (length (ws_log w)), e))
      else None
  | TStr _ => None                                       (* 'str' object is not callable *)
  end.

Definition pop_proc (w : wstate) (d : dstate) : option wstate :=
  match construct w d with
  | Some (w', (inst, e)) =>
      match n_kind e with
      | CProc => Some (add_processor w' (tserial e) inst)
      | _ => None                                        (* assert isinstance(processor, Processor) *)
      end
  | None => None
  end.

Fixpoint build_comps (w : wstate) (ds : list dstate) : option (wstate * list (Z * nsent)) :=
  match ds with
  | [] => Some (w, [])
  | d :: ds' => match construct w d with
                | Some (w', c) => match build_comps w' ds' with
                                  | Some (w'', cs) => Some (w'', c :: cs)
                                  | None => None
                                  end
                | None => None
                end
  end.

(* entity_id = next(self.id_generator); while entity_id in self._entities: ...
   at most len(_entities) + 1 draws are needed *)
Fixpoint draw (fuel : nat) (n : Z) (keys : list val) : Z :=
  match fuel with
  | O => n
  | S f => if vmem (JNum n) keys then draw f (n + 1) keys else n
  end.

Definition next_auto (n : Z) (keys : list val) : Z := draw (S (length keys)) n keys.

(* self._entities[eid][t] = inst *)
Fixpoint tbl_set (eid : val) (t inst : Z) (tbl : list (val * list (Z * Z)))
  : list (val * list (Z * Z)) :=
  match tbl with
  | [] => [(eid, [(t, inst)])]
  | (k, row) :: r => if val_eqb eid k then (k, aset t inst row) :: r
                     else (k, row) :: tbl_set eid t inst r
  end.

(* World.create_entity(comps..., entity_id=id): on_add is called directly
   when dispatching is enabled, relayed through the queue otherwise *)
Definition create_entity (w : wstate) (comps : list (Z * nsent)) (id : option val)
  : option wstate :=
  match id with
  | Some (JList _) | Some (JObj _) => None                (* assert isinstance(entity_id, Hashable) *)
  | _ =>
    let keys := map fst (ws_ents w) in
    let '(eid, nxt) :=
      match id with
      | None | Some JNull => let n := next_auto (ws_next w) keys in (JNum n, n + 1)
      | Some v => (v, ws_next w)
      end in
    Some (W (ws_log w) (ws_sorted w)
            (fold_left (fun t c => tbl_set eid (tserial (snd c)) (fst c) t) comps (ws_ents w))
            nxt (ws_enabled w)
            (if ws_enabled w then ws_queue w
             else ws_queue w ++ flat_map (fun c => if has_add (n_kind (snd c))
                                                   then [QAdd (fst c) eid] else []) comps)
            (ws_listen w ++ flat_map (fun c => if has_load (n_kind (snd c))
                                               then [fst c] else []) comps)
            (if ws_enabled w
             then ws_called w ++ flat_map (fun c => if has_add (n_kind (snd c))
                                                    then [CB (fst c) 0 eid true] else []) comps
             else ws_called w)
            (ws_marks w))
  end.

Definition pop_ent (w : wstate) (e : option val * list dstate) : option wstate :=
  match build_comps w (snd e) with
  | Some (w', cs) => create_entity w' cs (fst e)
  | None => None
  end.

(* world.dispatch('on_world_load', self, world) on the disabled world:
   dropped when nobody ever listened, queued otherwise *)
Definition dispatch_load (w : wstate) : wstate :=
  if null (ws_listen w) then w
  else W (ws_log w) (ws_sorted w) (ws_ents w) (ws_next w) (ws_enabled w)
         (ws_queue w ++ [QLoad]) (ws_listen w) (ws_called w) (ws_marks w).

(* populate_world_from_dict: processors first, then entities *)
Definition populate0 (w : wstate) (td : tdesc) : option wstate :=
  match foldM pop_proc w (fst td) with
  | Some w1 => foldM pop_ent w1 (snd td)
  | None => None
  end.

(* a constructor that raises aborts the whole load, and nothing of an
   aborted load is observed: the model looks for it before constructing *)
Definition dstate_raises (d : dstate) : bool :=
  match optl (s_args d) with
  | JStr s :: _ => str_eqb s [33; 114; 97; 105; 115; 101]      (* "!raise" *)
  | _ => false
  end.

Definition populate (w : wstate) (td : tdesc) : option wstate :=
  if existsb dstate_raises (fst td ++ flat_map snd (snd td)) then None else populate0 w td.

Definition run_step (E : env) (w : wstate) (s : step) : option wstate :=
  match s with
  | SDefault => Some (default_processors w)
  | SFile ps ds => match transform_desc E ps ds with
                   | Some td => populate w td
                   | None => None
                   end
  | SDict ds => match direct_desc E ds with
                | Some td => populate w td
                | None => None
                end
  | SMark k => Some (W (ws_log w) (ws_sorted w) (ws_ents w) (ws_next w) (ws_enabled w)
                       (ws_queue w) (ws_listen w) (ws_called w) (ws_marks w ++ [(k, true)]))
  end.

(* WorldHandle.load: world = World(); world.dispatch_enabled = False; the
   transform functions in order; dispatch on_world_load; return world *)
Definition load (E : env) (k : load_kind) : option wstate :=
  match foldM (run_step E) (w_start (init_enabled k)) (steps_of k) with
  | Some w => Some (if via_handle k then dispatch_load w else w)
  | None => None
  end.

(* world.dispatch_enabled = True: the queue is released in order *)
Definition release (w : wstate) : list cb :=
  flat_map (fun q => match q with
                     | QAdd i e => [CB i 0 e true]
                     | QLoad => map (fun i => CB i 1 JNull true) (ws_listen w)
                     end) (ws_queue w).

Definition observe (w : wstate) : wobs :=
  WO (ws_log w) (map snd (ws_sorted w))
     (map (fun p => (fst p, map snd (snd p))) (ws_ents w))
     (ws_enabled w) (ws_called w ++ release w) (ws_marks w).

Definition model (E : env) (k : load_kind) : outcome :=
  match load E k with Some w => OOk (observe w) | None => OErr end.

(* ---- comparison with the observation --------------------------------------- *)
Definition kw_eqb (a b : list (Z * val)) : bool :=
  forall2b (fun p q => (fst p =? fst q) && val_eqb (snd p) (snd q)) a b.
Definition constr_eqb (a b : constr) : bool :=
  (k_type a =? k_type b) && forall2b val_eqb (k_args a) (k_args b)
  && kw_eqb (k_kwargs a) (k_kwargs b).
Definition cb_eqb (a b : cb) : bool :=
  (cb_inst a =? cb_inst b) && (cb_kind a =? cb_kind b) && val_eqb (cb_ent a) (cb_ent b)
  && Bool.eqb (cb_ok a) (cb_ok b).
Definition wobs_eqb (a b : wobs) : bool :=
  forall2b constr_eqb (o_constr a) (o_constr b)
  && zlist_eqb (o_procs a) (o_procs b)
  && forall2b (fun p q => val_eqb (fst p) (fst q) && zlist_eqb (snd p) (snd q)) (o_ents a) (o_ents b)
  && Bool.eqb (o_enabled a) (o_enabled b)
  && forall2b cb_eqb (o_cbs a) (o_cbs b)
  && forall2b (fun p q => (fst p =? fst q) && Bool.eqb (snd p) (snd q)) (o_marks a) (o_marks b).
Definition outcome_eqb (a b : outcome) : bool :=
  match a, b with
  | OErr, OErr => true
  | OOk x, OOk y => wobs_eqb x y
  | _, _ => false
  end.

(* every load runs the whole of WorldHandle.load again on a new World; nothing
   the model reads is changed by a load (the transform functions stay in the
   deque, a resource handle keeps the resource it has loaded) *)
Definition accepts1 (E : env) (k : load_kind) (i : Z) (p : Z * outcome) : bool :=
  (fst p =? i) && outcome_eqb (model E k) (snd p).

Definition accepts (c : C15_case) : bool :=
  forall2b (fun i r => accepts1 (c_env c) (fst r) i (snd r)) (zseq 0 (length (c_loads c))) (c_loads c).

(* =========================== the property ===================================== *)
(* forms of a string argument, read off the string alone *)
Fixpoint split_last (s : str) : option (str * Z) :=
  match s with
  | [] => None
  | c :: s' => match split_last s' with
               | Some (b, l) => Some (c :: b, l)
               | None => Some ([], c)
               end
  end.

(* s = marker ++ body ++ "}" with a non-empty body free of '}' and newline *)
Definition exact_body (m s : str) : option str :=
  match strip_prefix m s with
  | Some rest =>
      match split_last rest with
      | Some (body, l) =>
          if (l =? 125) && negb (null body)
             && forallb (fun x => negb (x =? 125) && negb (x =? 10)) body
          then Some body else None
      | None => None
      end
  | None => None
  end.

Definition starts_with (m s : str) : bool :=
  match strip_prefix m s with Some _ => true | None => false end.

Inductive form :=
| FObj (name : str)       (* ${dotted.name}  *)
| FRes (path : str)       (* $res{a.b}       *)
| FHandle (path : str)    (* $handle{a.b}    *)
| FPlain                  (* does not begin with a marker *)
| FOpen.                  (* begins with a marker, not of the exact form: left open *)

Definition classify (s : str) : form :=
  match exact_body m_obj s with
  | Some b => FObj b
  | None =>
    match exact_body m_res s with
    | Some b => FRes b
    | None =>
      match exact_body m_handle s with
      | Some b => FHandle b
      | None => if starts_with m_obj s || starts_with m_res s || starts_with m_handle s
                then FOpen else FPlain
      end
    end
  end.

(* Exactly v: the constructor receives v.  MustFail: the reference names
   nothing, the load raises.  Anything: left open. *)
Inductive expect := Exactly (v : val) | Anything | MustFail.

(* what the constructor must receive for the described argument a *)
Definition subst_spec (E : env) (a : val) : expect :=
  match a with
  | JStr s =>
      match classify s with
      | FObj name => match slookup name (c_ns E) with
                     | Some e => Exactly (n_val e)           (* the named Python object *)
                     | None => MustFail                       (* no such name: the load raises *)
                     end
      | FRes p => match slookup (dots_to_slashes p) (c_tree E) with
                  | Some (NHandle h r) => Exactly (JRef KRes r)   (* the loaded resource *)
                  | Some (NMap m) => Exactly (JRef KMap m)
                  | None => MustFail                          (* no such resource: the load raises *)
                  end
      | FHandle p => match slookup (dots_to_slashes p) (c_tree E) with
                     | Some (NHandle h r) => Exactly (JRef KHandle h)  (* the resource's handle *)
                     | Some (NMap m) => Exactly (JRef KMap m)
                     | None => Anything
                     end
      | FPlain => Exactly a                                  (* passes through unchanged *)
      | FOpen => Anything
      end
  | _ => Exactly a                                           (* arbitrary JSON passes through *)
  end.

(* ---- custom lists of dict transformers: "exactly these passes, in this
   order", each pass read declaratively ------------------------------------------ *)
Definition tree_expect (E : env) (p : str) (handle : bool) : expect :=
  match slookup (dots_to_slashes p) (c_tree E) with
  | Some (NHandle h r) => Exactly (if handle then JRef KHandle h else JRef KRes r)
  | Some (NMap m) => Exactly (JRef KMap m)
  | None => if handle then Anything else MustFail
  end.

Definition spec_pass (E : env) (p : pass) (x : expect) : expect :=
  match x with
  | Anything => Anything
  | MustFail => MustFail
  | Exactly (JStr s) =>
      match p with
      | PType => x
      | PObj =>
          match exact_body m_obj s with
          | Some name => match slookup name (c_ns E) with
                         | Some e => Exactly (n_val e)
                         | None => MustFail
                         end
          | None => if starts_with m_obj s then Anything else x
          end
      | PRes =>
          match exact_body m_res s with
          | Some q => tree_expect E q false
          | None =>
              match exact_body m_handle s with
              | Some q => tree_expect E q true
              | None => if starts_with m_res s || starts_with m_handle s then Anything else x
              end
          end
      end
  | Exactly _ => x
  end.

Fixpoint spec_fold (E : env) (ps : list pass) (x : expect) : expect :=
  match ps with
  | [] => x
  | p :: r => spec_fold E r (spec_pass E p x)
  end.

(* where a dict comes from: handed to populate_world_from_dict as it is, or
   read from a file by a WorldFromFileTransformer with these passes *)
Inductive how := HDict | HFile (ps : list pass).

Definition is_default (ps : list pass) : bool :=
  match ps with [PType; PObj; PRes] => true | _ => false end.

(* what the constructor must receive for the described argument a *)
Definition expected (E : env) (h : how) (a : val) : expect :=
  match h with
  | HDict => Exactly a                              (* no transformer runs: nothing is substituted *)
  | HFile ps => if is_default ps then subst_spec E a   (* the one-pass reading *)
                else spec_fold E ps (Exactly a)
  end.

Definition arg_ok (E : env) (h : how) (a o : val) : bool :=
  match expected E h a with Exactly v => val_eqb v o | Anything => true | MustFail => false end.

(* an argument that excuses an aborted load: left open, or naming nothing *)
Definition open_arg (E : env) (h : how) (a : val) : bool :=
  match expected E h a with Exactly _ => false | _ => true end.

(* user code that raises: every double's constructor raises when its first
   positional argument is the string "!raise" *)
Definition boom : str := [33; 114; 97; 105; 115; 101].
Definition is_boom (v : val) : bool := match v with JStr s => str_eqb s boom | _ => false end.
Definition raises_args (l : list val) : bool := match l with a :: _ => is_boom a | [] => false end.
Definition raises_constr (k : constr) : bool := raises_args (k_args k).

Definition dict_raises (E : env) (hd : how * ddict) : bool :=
  match optl (d_args (snd hd)) with
  | a :: _ => match expected E (fst hd) a with Exactly v => is_boom v | _ => false end
  | [] => false
  end.

(* a dict that excuses an aborted load *)
Definition dict_open (E : env) (hd : how * ddict) : bool :=
  existsb (open_arg E (fst hd)) (optl (d_args (snd hd)))
  || existsb (fun p => open_arg E (fst hd) (snd p)) (optl (d_kwargs (snd hd)))
  || dict_raises E hd.

Definition ent_dicts (e : edict) : list ddict := optl (e_comps e).
Definition proc_dicts (ds : desc) : list ddict := optl (w_procs ds).
Definition all_dicts (ds : desc) : list ddict :=
  proc_dicts ds ++ flat_map ent_dicts (optl (w_ents ds)).

(* the dicts of a load, in construction order *)
Definition step_dicts (s : step) : list (how * ddict) :=
  match s with
  | SFile ps ds => map (pair (HFile ps)) (all_dicts ds)
  | SDict ds => map (pair HDict) (all_dicts ds)
  | _ => []
  end.
Definition all_hdicts (steps : list step) : list (how * ddict) := flat_map step_dicts steps.

Definition has_open (E : env) (steps : list step) : bool := existsb (dict_open E) (all_hdicts steps).

(* one constructor call is what its dict says *)
Definition check_constr (E : env) (hd : how * ddict) (k : constr) : bool :=
  let '(h, d) := hd in
  match slookup (d_type d) (c_ns E) with
  | Some e =>
      (k_type k =? tserial e)
      && forall2b (arg_ok E h) (optl (d_args d)) (k_args k)
      && forall2b (fun p q => (fst p =? fst q) && arg_ok E h (snd p) (snd q))
                  (optl (d_kwargs d)) (k_kwargs k)
  | None => false
  end.

Definition kind_of (E : env) (d : ddict) : ckind :=
  match slookup (d_type d) (c_ns E) with Some e => n_kind e | None => CNone end.

Definition id_given_ok (given : option val) (observed : val) : bool :=
  match given with
  | None | Some JNull => true                  (* any fresh id *)
  | Some v => val_eqb v observed
  end.

(* processors: every step contributes, in order, the default pair or its
   listed processors (instances are numbered in construction order) *)
Definition step_size (s : step) : nat := length (step_dicts s).

Definition step_procs (s : step) (start : Z) : list Z :=
  match s with
  | SDefault => [-1; -2]
  | SFile _ ds | SDict ds => zseq start (length (proc_dicts ds))
  | SMark _ => []
  end.

Fixpoint exp_procs (steps : list step) (start : Z) : list Z :=
  match steps with
  | [] => []
  | s :: r => step_procs s start ++ exp_procs r (start + Z.of_nat (step_size s))
  end.

(* the listed entities of all steps, with the processor constructions that
   lie between them *)
Inductive item := IGap (n : nat) | IEnt (e : edict).

Definition step_items (s : step) : list item :=
  match s with
  | SFile _ ds | SDict ds => IGap (length (proc_dicts ds)) :: map IEnt (optl (w_ents ds))
  | _ => []
  end.

(* the listed entities against the observed ones.  Instances are numbered in
   construction order from [start]; an entity without components does not
   exist.  Returns, per component instance, its class kind and the id of the
   entity that owns it - or None when the shapes disagree. *)
Fixpoint spec_items (E : env) (its : list item) (start : Z) (obs : list (val * list Z))
  : option (list (Z * (ckind * val))) :=
  match its with
  | [] => match obs with [] => Some [] | _ => None end
  | IGap n :: its' => spec_items E its' (start + Z.of_nat n) obs
  | IEnt e :: its' =>
      let cs := ent_dicts e in
      if null cs then spec_items E its' start obs
      else match obs with
           | (id, insts) :: obs' =>
               let mine := zseq start (length cs) in
               if id_given_ok (e_id e) id && zlist_eqb insts mine
               then match spec_items E its' (start + Z.of_nat (length cs)) obs' with
                    | Some t => Some (combine mine (map (fun d => (kind_of E d, id)) cs) ++ t)
                    | None => None
                    end
               else None
           | [] => None
           end
  end.

(* every handler component: on_add(entity, world) once, then - when the
   world was loaded by a handle - on_world_load(handle, world) once;
   nothing else *)
Definition expected_cbs (vh : bool) (x : Z * (ckind * val)) : list cb :=
  let '(i, (k, eid)) := x in
  (if has_add k then [CB i 0 eid true] else [])
  ++ (if vh && has_load k then [CB i 1 JNull true] else []).

Definition cbs_of (i : Z) (l : list cb) : list cb := filter (fun c => cb_inst c =? i) l.

Definition cbs_ok (vh : bool) (table : list (Z * (ckind * val))) (l : list cb) : bool :=
  forallb (fun x => forall2b cb_eqb (cbs_of (fst x) l) (expected_cbs vh x)) table
  && forallb (fun c => existsb (fun x => fst x =? cb_inst c) table) l.

(* user transform functions: each called once, in order, with (handle, world) *)
Definition exp_marks (steps : list step) : list (Z * bool) :=
  flat_map (fun s => match s with SMark k => [(k, true)] | _ => [] end) steps.

Definition marks_eqb (a b : list (Z * bool)) : bool :=
  forall2b (fun p q => (fst p =? fst q) && Bool.eqb (snd p) (snd q)) a b.

Definition spec_ok (E : env) (k : load_kind) (w : wobs) : bool :=
  let steps := steps_of k in
  (* every constructor call, in order, is what its dict says *)
  forall2b (check_constr E) (all_hdicts steps) (o_constr w)
  (* no constructor that raises was called: such a load does not return *)
  && negb (existsb raises_constr (o_constr w))
  (* exactly the processors the steps add, in order (file handle: the two
     default ones, then the listed ones) *)
  && zlist_eqb (o_procs w) (exp_procs steps 0)
  (* dispatching: disabled after a handle's load, untouched by a direct call *)
  && Bool.eqb (o_enabled w) (init_enabled k)
  (* the transform functions were called in order *)
  && marks_eqb (o_marks w) (exp_marks steps)
  (* distinct entities, each with exactly its listed components, and the callbacks *)
  && vnodup (map fst (o_ents w))
  && match spec_items E (flat_map step_items steps) 0 (o_ents w) with
     | Some table => cbs_ok (via_handle k) table (o_cbs w)
     | None => false
     end.

(* an aborted load is tolerated only when some argument is of an open form,
   names nothing, or makes its constructor raise; and then it must abort *)
Definition holds1 (E : env) (k : load_kind) (o : outcome) : bool :=
  match o with
  | OErr => has_open E (steps_of k)
  | OOk w => spec_ok E k w
  end.

(* every load, independently: a World instance not seen before, and the
   whole specification again *)
Definition load_ok (E : env) (k : load_kind) (i : Z) (p : Z * outcome) : bool :=
  (fst p =? i) && holds1 E k (snd p).

Definition holds_b (c : C15_case) : bool :=
  forall2b (fun i r => load_ok (c_env c) (fst r) i (snd r)) (zseq 0 (length (c_loads c))) (c_loads c).
Definition holds (c : C15_case) : Prop := holds_b c = true.

(* =========================== the domain ======================================= *)
(* JSON values.  A ${name} / $res{path} that names nothing makes the load
   raise (that is specified); a $handle{path} that names nothing is outside
   the domain (the code passes None) *)
Definition arg_wf (E : env) (a : val) : bool :=
  plain a &&
  match a with
  | JStr s => match classify s with
              | FHandle p =>
                  match slookup (dots_to_slashes p) (c_tree E) with Some _ => true | None => false end
              | _ => true
              end
  | _ => true
  end.

(* a dict read from a file: JSON values, references resolve; a dict handed
   over directly: any Python values *)
Definition dict_wf (E : env) (h : how) (d : ddict) : bool :=
  match h with
  | HFile _ => forallb (arg_wf E) (optl (d_args d))
               && forallb (fun p => arg_wf E (snd p)) (optl (d_kwargs d))
  | HDict => true
  end
  && znodup (map fst (optl (d_kwargs d))).

(* 'type' names a class of the namespace *)
Definition class_of (E : env) (d : ddict) : option (Z * ckind) :=
  match slookup (d_type d) (c_ns E) with
  | Some (NS (JRef KObj t) k) => Some (t, k)
  | _ => None
  end.

Definition proc_wf (E : env) (h : how) (d : ddict) : bool :=
  dict_wf E h d && match class_of E d with Some (t, CProc) => 0 <=? t | _ => false end.

Definition comp_wf (E : env) (h : how) (d : ddict) : bool :=
  dict_wf E h d && match class_of E d with Some (_, CComp _ _) => true | _ => false end.

Definition class_serial (E : env) (d : ddict) : Z :=
  match class_of E d with Some (t, _) => t | None => -3 end.

(* ids: absent / null / number / string; a given id is not in use when its
   entity is created (automatic ids are itertools.count(1) skipping ids in
   use, as documented) *)
Fixpoint ids_wf (es : list edict) (used : list val) (next : Z) : bool :=
  match es with
  | [] => true
  | e :: es' =>
      let grow v := if null (ent_dicts e) then used else used ++ [v] in
      match e_id e with
      | None | Some JNull =>
          let n := next_auto next used in ids_wf es' (grow (JNum n)) (n + 1)
      | Some (JNum z) => negb (vmem (JNum z) used) && ids_wf es' (grow (JNum z)) next
      | Some (JStr s) => negb (vmem (JStr s) used) && ids_wf es' (grow (JStr s)) next
      | Some _ => false
      end
  end.

Definition ent_wf (E : env) (h : how) (e : edict) : bool :=
  forallb (comp_wf E h) (ent_dicts e)
  && znodup (map (class_serial E) (ent_dicts e)).     (* one component per exact class *)

(* a namespace object that is a string does not itself look like a
   resource reference (it would be substituted again by the next pass) *)
Definition ns_wf (E : env) : bool :=
  forallb (fun p => match n_val (snd p) with
                    | JStr s => negb (starts_with m_res s || starts_with m_handle s)
                    | _ => true
                    end) (c_ns E).

Definition desc_wf (E : env) (h : how) (ds : desc) : bool :=
  forallb (proc_wf E h) (proc_dicts ds) && forallb (ent_wf E h) (optl (w_ents ds)).

Definition is_ptype (p : pass) : bool := match p with PType => true | _ => false end.

Definition step_wf (E : env) (s : step) : bool :=
  match s with
  | SFile ps ds =>
      (0 <? c_depth E)                                  (* the handle is inside a resource tree *)
      && (length (filter is_ptype ps) =? 1)%nat         (* the type is resolved, once *)
      && desc_wf E (HFile ps) ds
  | SDict ds => desc_wf E HDict ds
  | _ => true
  end.

(* classes of the processors a step adds *)
Definition step_ptypes (E : env) (s : step) : list Z :=
  match s with
  | SDefault => [-1; -2]
  | SFile _ ds | SDict ds => map (class_serial E) (proc_dicts ds)
  | SMark _ => []
  end.

Definition step_ents (s : step) : list edict :=
  match s with SFile _ ds | SDict ds => optl (w_ents ds) | _ => [] end.

(* populate_world_from_dict called directly: only dictionaries *)
Definition kind_wf (k : load_kind) : bool :=
  match k with
  | LDirect _ st => forallb (fun s => match s with SDict _ => true | _ => false end) st
  | _ => true
  end.

Definition wf_k (E : env) (k : load_kind) : bool :=
  let steps := steps_of k in
  ns_wf E
  && kind_wf k
  && forallb (step_wf E) steps
  && znodup (flat_map (step_ptypes E) steps)            (* one processor per exact class, over all steps *)
  && ids_wf (flat_map step_ents steps) [] 1.            (* no id given twice, over all steps *)

(* K6: an argument on which OBJECT_STRING_REGEX.match succeeds and whose
   group names an object that copy.deepcopy rejects, while a further dict
   transformer follows: the deepcopy at the start of that pass raises
   TypeError.  Followed pass by pass on one argument: *)
Definition vpass (E : env) (p : pass) (c : val) : option val :=
  match p with
  | PType => Some c
  | PObj => obj_map E c
  | PRes => res_map E c
  end.

Fixpoint vknown (E : env) (ps : list pass) (c : val) : bool :=
  match ps with
  | [] => false
  | p :: r => match vpass E p c with
              | Some c' => (has_nocopy c' && negb (null r)) || vknown E r c'
              | None => false
              end
  end.

Definition dict_known (E : env) (hd : how * ddict) : bool :=
  match fst hd with
  | HFile ps => existsb (vknown E ps) (optl (d_args (snd hd)))
                || existsb (fun p => vknown E ps (snd p)) (optl (d_kwargs (snd hd)))
  | HDict => false
  end.

Definition known_k (E : env) (k : load_kind) : bool :=
  existsb (dict_known E) (all_hdicts (steps_of k)).

Definition wf_b (c : C15_case) : bool := forallb (fun r => wf_k (c_env c) (fst r)) (c_loads c).
Definition known_b (c : C15_case) : bool := existsb (fun r => known_k (c_env c) (fst r)) (c_loads c).

Definition bit (b : bool) (n : nat) : nat := if b then n else 0%nat.
Definition C15_verdict (c : C15_case) : nat :=
  (bit (wf_b c) 1 + bit (known_b c) 2 + bit (accepts c) 4 + bit (holds_b c) 8)%nat.
