(* C15 - values that travel through a world description.

   JSON values as json.load produces them (null, bool, int, string, list,
   object) plus references to Python objects that the loader substitutes
   for marker strings.  Strings are lists of code points because the three
   regexes of desper/model/world.py inspect characters.  Keys of JSON
   objects / keyword arguments are never inspected by the code, so they are
   numbers (the harness keeps the bijection with the real key strings).

   Definitions only: no proofs in this file. *)
From Coq Require Import ZArith List Bool.
Import ListNotations.
Open Scope Z_scope.

Definition str := list Z.

(* what a substituted Python object is *)
Inductive rkind :=
| KObj        (* an object of the namespace (instance, class, function ...) *)
| KNoCopy     (* an object of the namespace that copy.deepcopy rejects (a module) *)
| KRes        (* the loaded resource of a handle of the resource tree *)
| KHandle     (* a handle of the resource tree *)
| KMap        (* a sub-map of the resource tree *)
| KFloat      (* not an object: a JSON float, id = its 64-bit pattern (never inspected) *)
| KOther.     (* anything the harness could not identify *)

Inductive val :=
| JNull
| JBool (b : bool)
| JNum (z : Z)
| JStr (s : str)
| JList (l : list val)
| JObj (kv : list (Z * val))
| JRef (k : rkind) (id : Z).

Definition rkind_eqb (a b : rkind) : bool :=
  match a, b with
  | KObj, KObj | KNoCopy, KNoCopy | KRes, KRes | KHandle, KHandle
  | KMap, KMap | KFloat, KFloat | KOther, KOther => true
  | _, _ => false
  end.

Fixpoint str_eqb (a b : str) : bool :=
  match a, b with
  | [], [] => true
  | x :: a', y :: b' => (x =? y) && str_eqb a' b'
  | _, _ => false
  end.

Fixpoint val_eqb (a b : val) {struct a} : bool :=
  match a, b with
  | JNull, JNull => true
  | JBool x, JBool y => Bool.eqb x y
  | JNum x, JNum y => x =? y
  | JStr x, JStr y => str_eqb x y
  | JList x, JList y =>
      (fix go (x y : list val) {struct x} : bool :=
         match x, y with
         | [], [] => true
         | u :: x', v :: y' => val_eqb u v && go x' y'
         | _, _ => false
         end) x y
  | JObj x, JObj y =>
      (fix go (x y : list (Z * val)) {struct x} : bool :=
         match x, y with
         | [], [] => true
         | p :: x', q :: y' => (fst p =? fst q) && val_eqb (snd p) (snd q) && go x' y'
         | _, _ => false
         end) x y
  | JRef k i, JRef k' i' => rkind_eqb k k' && (i =? i')
  | _, _ => false
  end.

(* copy.deepcopy raises on this value (it contains an object that cannot
   be deep-copied, at any depth) *)
Fixpoint has_nocopy (v : val) : bool :=
  match v with
  | JRef KNoCopy _ => true
  | JList l => existsb has_nocopy l
  | JObj kv => existsb (fun p => has_nocopy (snd p)) kv
  | _ => false
  end.

(* a value as it comes out of json.load: no Python object inside *)
Fixpoint plain (v : val) : bool :=
  match v with
  | JRef KFloat _ => true
  | JRef _ _ => false
  | JList l => forallb plain l
  | JObj kv => forallb (fun p => plain (snd p)) kv
  | _ => true
  end.

(* ---- generic list helpers ------------------------------------------------ *)
Fixpoint forall2b {A B} (f : A -> B -> bool) (l : list A) (m : list B) : bool :=
  match l, m with
  | [], [] => true
  | x :: l', y :: m' => f x y && forall2b f l' m'
  | _, _ => false
  end.

Fixpoint mapM {A B} (f : A -> option B) (l : list A) : option (list B) :=
  match l with
  | [] => Some []
  | x :: l' => match f x with
               | Some y => match mapM f l' with Some r => Some (y :: r) | None => None end
               | None => None
               end
  end.

Fixpoint foldM {A S} (f : S -> A -> option S) (s : S) (l : list A) : option S :=
  match l with
  | [] => Some s
  | x :: l' => match f s x with Some s' => foldM f s' l' | None => None end
  end.

Definition optl {A} (o : option (list A)) : list A :=
  match o with Some l => l | None => [] end.

Definition null {A} (l : list A) : bool := match l with [] => true | _ => false end.

Fixpoint zseq (s : Z) (n : nat) : list Z :=
  match n with O => [] | S n' => s :: zseq (s + 1) n' end.

Definition zlist_eqb (a b : list Z) : bool := forall2b Z.eqb a b.

(* association list keyed by strings *)
Fixpoint slookup {A} (k : str) (l : list (str * A)) : option A :=
  match l with
  | [] => None
  | (k', v) :: l' => if str_eqb k k' then Some v else slookup k l'
  end.

Definition vmem (v : val) (l : list val) : bool := existsb (val_eqb v) l.

Fixpoint vnodup (l : list val) : bool :=
  match l with [] => true | x :: r => negb (vmem x r) && vnodup r end.

Fixpoint znodup (l : list Z) : bool :=
  match l with [] => true | x :: r => negb (existsb (Z.eqb x) r) && znodup r end.
